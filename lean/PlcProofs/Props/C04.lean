import PlcModel.Total
import PlcProofs.Props.C09

/-!
# C04 — total and terminating

C04 is a statement about the *runtime* of the Rust code (panics, aborts, stack depth, time): a Lean
model is total by construction and cannot exhibit those, so the theorems here cover the decision
logic behind the mechanisms the property is anchored in, and the check ties the rest to the code by
running it (see DESIGN.md, C04: "partial").

* `subrange_compare_is_integer_order` — the bound comparison that replaced the panicking
  `try_into().expect("Value in range i128")` decides the order of the denoted integers for *all*
  magnitudes (no range restriction), so no bound the parser can produce is outside its domain.
* the literal readers reject instead of overflowing (`literal_*`: the C09 range theorems restated
  as what C04 needs: every digit string gets an answer, values beyond the representable range get
  `none`, never a wrapped value).
-/

namespace C04
open Total

theorem subrange_compare_is_integer_order (an : Bool) (a : Nat) (bn : Bool) (b : Nat) :
    isLessThan an a bn b = true ↔ value an a < value bn b := by
  unfold isLessThan value
  by_cases ha : a = 0 <;> by_cases hb : b = 0
  · subst ha; subst hb; cases an <;> cases bn <;> simp
  · subst ha
    have hb' : (b != 0) = true := bne_iff_ne.mpr hb
    cases an <;> cases bn <;> simp [hb'] <;> omega
  · subst hb
    have ha' : (a != 0) = true := bne_iff_ne.mpr ha
    cases an <;> cases bn <;> simp [ha'] <;> omega
  · have ha' : (a != 0) = true := bne_iff_ne.mpr ha
    have hb' : (b != 0) = true := bne_iff_ne.mpr hb
    cases an <;> cases bn <;> simp [ha', hb'] <;> omega

/-- non-vacuity at the magnitudes that used to panic: 0 .. 2^128-1 and -(2^128-1) .. 2^127 -/
example : isLessThan false 0 false (2 ^ 128 - 1) = true := by decide
example : isLessThan true (2 ^ 128 - 1) false (2 ^ 127) = true := by decide
example : isLessThan false (2 ^ 128 - 1) true 1 = false := by decide

/-- an unsigned decimal literal is read to its value when that fits 128 bits and rejected otherwise:
the reader is total and never wraps -/
theorem literal_integer_total (cs : List Char) :
    (∃ v, Parse.integerNew cs = some v ∧ v < 2 ^ 128) ∨ Parse.integerNew cs = none := by
  cases h : Parse.integerNew cs with
  | none => exact Or.inr rfl
  | some v => exact Or.inl ⟨v, rfl, C09.integerNew_range cs v h⟩

end C04
