import PlcProofs.Lemmas.Lex

/-!
# C05 — every reported position points at the text it is about (token clauses)

Property theorems only; helper lemmas live in `PlcProofs/Lemmas/Lex.lean`.
All statements are about the model `PlcModel/Lex.lean` of `lexer.rs::tokenize`,
`preprocessor.rs` and `xform_tokens.rs`; they hold for *every* decision function `ch`
(token table, logos error-extent policy), every text and every length.
-/

namespace C05

/-- What is claimed of one item of the token stream of `s` (lexed from byte offset `off` at
position `line`,`col`): its text is a non-empty slice of `s`, its span is that slice's byte range,
and its line/column is the position reached by walking the text before it. -/
def ItemAt (s : List Char) (off line col : Nat) (it : Item) : Prop :=
  ∃ pre post, s = pre ++ it.text ++ post ∧ it.text ≠ [] ∧ it.start = off + utf8Len pre ∧
    it.stop = it.start + utf8Len it.text ∧ (it.line, it.col) = advancePos pre line col

/-- spans are contiguous and ordered: each item starts where the previous one stopped -/
def Contig : Nat → List Item → Nat → Prop
  | a, [], b => a = b
  | a, it :: rest, b => it.start = a ∧ a < it.stop ∧ Contig it.stop rest b

/-- Every item (token or lexical error) carries the source slice at its span, and the line/column of
its span start — for every decision function, i.e. for any token table and any error extent. -/
theorem lexWith_items (ch : List Char → Option String × Nat) :
    ∀ fuel s off line col, ∀ it ∈ lexWith ch fuel s off line col, ItemAt s off line col it := by
  intro fuel
  induction fuel with
  | zero => intro s off line col it h; simp [lexWith] at h
  | succ fuel ih =>
    intro s off line col it h
    cases s with
    | nil => simp [lexWith] at h
    | cons c cs =>
      -- the common shape of both branches
      have key : ∀ (n : Nat) (hd : Item) (l' c' : Nat), 1 ≤ n →
          hd.text = (c :: cs).take n → hd.start = off → hd.stop = off + utf8Len ((c :: cs).take n) →
          hd.line = line → hd.col = col →
          (l', c') = advancePos ((c :: cs).take n) line col →
          it ∈ hd :: lexWith ch fuel ((c :: cs).drop n) (off + utf8Len ((c :: cs).take n)) l' c' →
          ItemAt (c :: cs) off line col it := by
        intro n hd l' c' hn htxt hst hsp hl hc hadv hmem
        rcases List.mem_cons.mp hmem with rfl | hrest
        · refine ⟨[], (c :: cs).drop n, ?_, ?_, ?_, ?_, ?_⟩
          · simp [htxt]
          · rw [htxt]; cases n with
            | zero => omega
            | succ n => simp
          · simp [hst]
          · rw [hsp, hst, htxt]
          · simp [advancePos, hl, hc]
        · obtain ⟨pre, post, hs, hne, hstart, hstop, hlc⟩ := ih _ _ _ _ it hrest
          refine ⟨(c :: cs).take n ++ pre, post, ?_, hne, ?_, hstop, ?_⟩
          · calc c :: cs = (c :: cs).take n ++ (c :: cs).drop n := (List.take_append_drop n _).symm
              _ = (c :: cs).take n ++ (pre ++ it.text ++ post) := by rw [← hs]
              _ = _ := by simp [List.append_assoc]
          · rw [hstart]; simp; omega
          · rw [hlc, advancePos_append, ← hadv]
      simp only [lexWith] at h
      split at h
      · exact key _ _ _ _ (by omega) rfl rfl rfl rfl rfl rfl h
      · exact key _ _ _ _ (by omega) rfl rfl rfl rfl rfl rfl h

/-- Tokens and errors tile the source: the concatenation of their texts is the source. -/
theorem lex_tiling (ch : List Char → Option String × Nat) :
    ∀ fuel s off line col, s.length ≤ fuel →
      ((lexWith ch fuel s off line col).map (·.text)).flatten = s := by
  intro fuel
  induction fuel with
  | zero => intro s off line col h; cases s <;> simp_all [lexWith]
  | succ fuel ih =>
    intro s off line col h
    cases s with
    | nil => simp [lexWith]
    | cons c cs =>
      have hlen : ∀ n, 1 ≤ n → ((c :: cs).drop n).length ≤ fuel := by
        intro n hn; simp only [List.length_drop, List.length_cons] at *; omega
      simp only [lexWith]
      split
      · simp only [List.map_cons, List.flatten_cons]
        rw [ih _ _ _ _ (hlen _ (by omega))]; exact List.take_append_drop _ _
      · simp only [List.map_cons, List.flatten_cons]
        rw [ih _ _ _ _ (hlen _ (by omega))]; exact List.take_append_drop _ _

/-- Spans are contiguous, ordered and non-empty, from the start offset to the end of the text. -/
theorem lex_contiguous (ch : List Char → Option String × Nat) :
    ∀ fuel s off line col, s.length ≤ fuel →
      Contig off (lexWith ch fuel s off line col) (off + utf8Len s) := by
  intro fuel
  induction fuel with
  | zero => intro s off line col h; cases s <;> simp_all [lexWith, Contig]
  | succ fuel ih =>
    intro s off line col h
    cases s with
    | nil => simp [lexWith, Contig]
    | cons c cs =>
      have hlen : ∀ n, 1 ≤ n → ((c :: cs).drop n).length ≤ fuel := by
        intro n hn; simp only [List.length_drop, List.length_cons] at *; omega
      have hpos : ∀ n, 1 ≤ n → 0 < utf8Len ((c :: cs).take n) := by
        intro n hn; apply utf8Len_pos; cases n with
        | zero => omega
        | succ n => simp
      have hsum : ∀ n, utf8Len ((c :: cs).take n) + utf8Len ((c :: cs).drop n) = utf8Len (c :: cs) := by
        intro n; rw [← utf8Len_append, List.take_append_drop]
      simp only [lexWith]
      split
      · refine ⟨rfl, ?_, ?_⟩
        · have := hpos (max 1 (min (ch (c :: cs)).2 (c :: cs).length)) (by omega); simp only; omega
        · have e := hsum (max 1 (min (ch (c :: cs)).2 (c :: cs).length))
          simp only
          rw [← e, ← Nat.add_assoc]
          exact ih _ _ _ _ (hlen _ (by omega))
      · refine ⟨rfl, ?_, ?_⟩
        · have := hpos (max 1 (min (ch (c :: cs)).2 (c :: cs).length)) (by omega); simp only; omega
        · have e := hsum (max 1 (min (ch (c :: cs)).2 (c :: cs).length))
          simp only
          rw [← e, ← Nat.add_assoc]
          exact ih _ _ _ _ (hlen _ (by omega))

/-- The line of a token is the number of line feeds before its span start; its column is the byte
length of the text between the last line feed and its span start. (`lexItems` = the lexer on a whole
text.) -/
theorem token_line_col (s : List Char) (it : Item) (h : it ∈ lexItems s) :
    ∃ pre post, s = pre ++ it.text ++ post ∧ it.start = utf8Len pre ∧ it.stop = utf8Len pre + utf8Len it.text ∧
      it.line = pre.count '\n' ∧
      (('\n' ∉ pre ∧ it.col = utf8Len pre) ∨
       (∃ a b, pre = a ++ '\n' :: b ∧ '\n' ∉ b ∧ it.col = utf8Len b)) := by
  obtain ⟨pre, post, hs, _, hstart, hstop, hlc⟩ := lexWith_items choose _ _ _ _ _ it h
  refine ⟨pre, post, hs, by simpa using hstart, by rw [hstop, hstart]; simp, ?_, ?_⟩
  · have := advancePos_line pre 0 0; rw [← hlc] at this; simpa using this
  · by_cases hnl : '\n' ∈ pre
    · right
      obtain ⟨a, b, hab, hb⟩ := exists_last_split _ _ hnl
      refine ⟨a, b, hab, hb, ?_⟩
      have := advancePos_after_nl a b 0 0 hb
      rw [← hab, ← hlc] at this
      exact congrArg Prod.snd this
    · left
      refine ⟨hnl, ?_⟩
      have := advancePos_no_nl pre 0 0 hnl
      rw [← hlc] at this
      simpa using congrArg Prod.snd this

/-- `lexItems` tiles the whole text from offset 0. -/
theorem lexItems_tiling (s : List Char) :
    ((lexItems s).map (·.text)).flatten = s ∧ Contig 0 (lexItems s) (utf8Len s) := by
  refine ⟨lex_tiling choose _ _ _ _ _ (Nat.le_refl _), ?_⟩
  have := lex_contiguous choose s.length s 0 0 0 (Nat.le_refl _)
  simpa [lexItems] using this

/-- OSCAT blanking changes no position: the preprocessed text is the original with one region
replaced by a text of the same byte length that moves line/column in the same way. -/
theorem preprocess_keeps_positions (s : List Char) :
    preprocess s = s ∨
    ∃ a m b, s = a ++ m ++ b ∧ preprocess s = a ++ blank m ++ b ∧
      utf8Len (blank m) = utf8Len m ∧ ∀ l c, advancePos (blank m) l c = advancePos m l c := by
  unfold preprocess
  split
  · rename_i a b _ _
    split
    · right
      refine ⟨s.take (a + oscatStart.length), (s.drop (a + oscatStart.length)).take (b - (a + oscatStart.length)),
        s.drop b, ?_, rfl, blank_utf8Len _, blank_advancePos _⟩
      rename_i hfa hfb hab
      have hdis := markers_disjoint s a b hfa hfb hab
      have h1 : s.drop b = (s.drop (a + oscatStart.length)).drop (b - (a + oscatStart.length)) := by
        rw [List.drop_drop]; congr 1; omega
      rw [h1, List.append_assoc, List.take_append_drop, List.take_append_drop]
    · left; rfl
  · left; rfl

/-- Synthetic semicolons are only *added*: dropping the items with empty text gives back the
lexer's items unchanged (so the tiling theorems carry over to `tokenizeProgram`). -/
theorem insertSemis_only_adds (items : List Item) (h : ∀ it ∈ items, it.text ≠ []) (b : Bool) :
    (insertSemisGo b items).filter (fun it => !it.text.isEmpty) = items := by
  induction items generalizing b with
  | nil => simp [insertSemisGo]
  | cons it rest ih =>
    have hit : it.text.isEmpty = false := by
      have := h it (by simp); cases h' : it.text <;> simp_all
    have hrest : ∀ it ∈ rest, it.text ≠ [] := fun x hx => h x (by simp [hx])
    simp only [insertSemisGo]
    split
    · simp [hit, ih hrest]
    · split
      · simp [hit, ih hrest]
      · simp [hit, ih hrest]

/-! ### non-vacuity: the statements apply to concrete, non-trivial texts -/

example : (lexItems "a (* c *)\nb".toList).map (fun it => (it.ty, it.start, it.stop, it.line, it.col)) =
    [("Identifier", 0, 1, 0, 0), ("Whitespace", 1, 2, 0, 1), ("Comment", 2, 9, 0, 2), ("Newline", 9, 10, 0, 9),
     ("Identifier", 10, 11, 1, 0)] := by decide +kernel

example : ((tokenizeProgram "END_IF x".toList).map (fun it => (it.ty, it.text.length))) =
    [("EndIf", 6), ("Whitespace", 1), ("Semicolon", 0), ("Identifier", 1)] := by decide +kernel

end C05
