import PlcProofs.Lemmas.Graph

/-!
# C07 — recursion is rejected exactly when the declaration graph has a cycle

Model: `PlcModel/Graph.lean` — the abstract compilation unit (function blocks with instance
variables, alias types, structure types), the graph `RuleGraphReferenceableElements` builds from it
and an executable cyclicity test standing for petgraph's `toposort` (which errs iff the graph has
a cycle: trusted, held by the correspondence on all digraphs up to 4 nodes).
-/

open Relation

namespace C07

/-- "`u` refers to `v`": function block `u` contains an instance of `v`, or type `u` is an alias of
`v` or has a structure element of type `v` -/
def Refers (ds : List Decl) (u v : Nat) : Prop := (u, v) ∈ specEdges ds

/-- The executable test is correct for every finite graph, of any size: it answers `true`
exactly when some node reaches itself through one or more edges. -/
theorem cyclic_iff_transGen (nodes : List Nat) (edges : Edges) :
    cyclicExec nodes edges = true ↔ ∃ v, TransGen (E nodes edges) v v :=
  cyclicExec_iff nodes edges

/-- Reversing every edge (the orientation the code uses: dependency → dependent) neither creates
nor removes cycles. -/
theorem reverse_preserves_cycles (nodes : List Nat) (edges : Edges) :
    (∃ v, TransGen (E nodes (edges.map fun e => (e.2, e.1))) v v) ↔ ∃ v, TransGen (E nodes edges) v v := by
  have hE : E nodes (edges.map fun e => (e.2, e.1)) = Function.swap (E nodes edges) := by
    funext u v
    apply propext
    simp only [E, Function.swap, List.mem_map, Prod.mk.injEq, Prod.exists]
    constructor
    · rintro ⟨⟨a, b, hm, rfl, rfl⟩, hu, hv⟩; exact ⟨hm, hv, hu⟩
    · rintro ⟨hm, hv, hu⟩; exact ⟨⟨v, u, hm, rfl, rfl⟩, hu, hv⟩
  rw [hE]
  constructor
  · rintro ⟨v, h⟩; exact ⟨v, transGen_swap.mp h⟩
  · rintro ⟨v, h⟩; exact ⟨v, transGen_swap.mpr h⟩

theorem E_spec (ds : List Decl) (u v : Nat) :
    E (graphNodes ds) (specEdges ds) u v ↔ Refers ds u v := by
  simp only [E, Refers]
  constructor
  · exact fun h => h.1
  · intro h
    refine ⟨h, ?_, ?_⟩
    · simp only [graphNodes, List.mem_eraseDups, List.mem_append, List.mem_map]
      left
      simp only [specEdges, List.mem_flatMap] at h
      obtain ⟨d, hd, hr⟩ := h
      refine ⟨d, hd, ?_⟩
      cases d <;> simp_all [Decl.refs, Decl.name]
    · simp only [graphNodes, List.mem_eraseDups, List.mem_append, List.mem_map]
      right; exact ⟨(u, v), h, rfl⟩

/-- Main statement: the unit is rejected as recursive exactly when some declaration transitively
refers to itself — for every unit, however many declarations, however deep or wide. -/
theorem rejects_iff_cycle (ds : List Decl) :
    rejectsRecursive ds = true ↔ ∃ v, TransGen (Refers ds) v v := by
  unfold rejectsRecursive builtEdges
  rw [cyclic_iff_transGen, reverse_preserves_cycles]
  have : E (graphNodes ds) (specEdges ds) = Refers ds := by
    funext u v; exact propext (E_spec ds u v)
  rw [this]

/-- Units whose reference graph is acyclic are never reported as recursive. -/
theorem acyclic_never_rejected (ds : List Decl) (h : ∀ v, ¬ TransGen (Refers ds) v v) :
    rejectsRecursive ds = false := by
  cases hr : rejectsRecursive ds with
  | false => rfl
  | true => obtain ⟨v, hv⟩ := (rejects_iff_cycle ds).mp hr; exact absurd hv (h v)

/-! ### non-vacuity: the mixed alias/structure cycle, a self loop, a deep acyclic chain -/

example : rejectsRecursive [.alias 0 1, .struct 1 [0]] = true := by decide
example : rejectsRecursive [.fb 0 [0]] = true := by decide
example : rejectsRecursive [.fb 0 [1, 2], .fb 1 [2], .fb 2 [3], .fb 3 []] = false := by decide
example : rejectsRecursive [.fb 0 [1], .fb 1 [2], .fb 2 [0], .struct 5 [6]] = true := by decide

end C07
