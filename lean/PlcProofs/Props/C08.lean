import PlcProofs.Lemmas.Case
import PlcModel.Gen.TextKw
import PlcModel.Peg

/-!
# C08 — letter case never changes how a text is cut into tokens

Over the token table regenerated from `token.rs` on every run: every token pattern (all 140
`#[token]` / `#[regex]` entries, after `ignore(case)` expansion) treats the two cases of every ASCII
letter alike; therefore changing the case of *any* letters anywhere in a text changes neither the
type, nor the span, nor the line/column of any token or lexical error — only token texts differ in
case.  (Keywords are then the same tokens; identifiers compare by their lower-cased spelling in the
dsl; the textual keywords of the parser compare with `eq_ignore_ascii_case`.)
Layout / comments / the optional END_IF semicolon are exercised by the correspondence check on the
parser mirror (no theorem here).
-/

namespace C08

/-- every pattern of the generated token table is closed under ASCII case -/
theorem all_patterns_case_closed : Gen.table.all (fun e => e.re.closed) = true := by decide +kernel

theorem table_closed (e : Gen.Entry) (h : e ∈ Gen.table) : e.re.closed = true :=
  (List.all_eq_true.mp all_patterns_case_closed) e h

theorem lexOneIn_respell (tbl : List Gen.Entry) (htbl : ∀ e ∈ tbl, e.re.closed = true)
    (s : List Char) (mask : List Bool) (init : Option (Gen.Entry × Nat)) :
    tbl.foldl (fun best e =>
        match Re.longest isNd e.re (respell mask s) with
        | some n =>
          if n == 0 then best else
          match best with
          | none => some (e, n)
          | some (be, bn) => if n > bn || (n == bn && e.prio > be.prio) then some (e, n) else best
        | none => best) init =
    tbl.foldl (fun best e =>
        match Re.longest isNd e.re s with
        | some n =>
          if n == 0 then best else
          match best with
          | none => some (e, n)
          | some (be, bn) => if n > bn || (n == bn && e.prio > be.prio) then some (e, n) else best
        | none => best) init := by
  induction tbl generalizing init with
  | nil => rfl
  | cons e rest ih =>
    simp only [List.foldl_cons]
    rw [longest_respell e.re (htbl e (by simp)) s mask]
    exact ih (fun x hx => htbl x (by simp [hx])) _

/-- the longest-match decision is the same for a text and any re-spelling of it -/
theorem lexOne_respell (s : List Char) (mask : List Bool) : lexOne (respell mask s) = lexOne s :=
  lexOneIn_respell Gen.table table_closed s mask none

theorem swapCase_ne (d : Char) (hd : ∀ i, i < 26 → d ≠ Char.ofNat (65 + i) ∧ d ≠ Char.ofNat (97 + i)) (c : Char) :
    (swapCase c = d) ↔ (c = d) := by
  rcases swapCase_cases c with h0 | ⟨i, hi, hc⟩
  · rw [h0]
  · have := hd i hi
    rcases hc with ⟨h1, h2⟩ | ⟨h1, h2⟩
    · rw [h2, h1]; constructor <;> intro e
      · exact absurd e.symm this.2
      · exact absurd e.symm this.1
    · rw [h2, h1]; constructor <;> intro e
      · exact absurd e.symm this.1
      · exact absurd e.symm this.2

theorem notLetter_lparen : ∀ i, i < 26 → '(' ≠ Char.ofNat (65 + i) ∧ '(' ≠ Char.ofNat (97 + i) := by decide
theorem notLetter_star : ∀ i, i < 26 → '*' ≠ Char.ofNat (65 + i) ∧ '*' ≠ Char.ofNat (97 + i) := by decide
theorem notLetter_quote : ∀ i, i < 26 → '\'' ≠ Char.ofNat (65 + i) ∧ '\'' ≠ Char.ofNat (97 + i) := by decide
theorem notLetter_dquote : ∀ i, i < 26 → '"' ≠ Char.ofNat (65 + i) ∧ '"' ≠ Char.ofNat (97 + i) := by decide

theorem respellChar_eq (b : Bool) (c d : Char)
    (hd : ∀ i, i < 26 → d ≠ Char.ofNat (65 + i) ∧ d ≠ Char.ofNat (97 + i)) :
    ((if b then swapCase c else c) = d) ↔ (c = d) := by
  cases b
  · simp
  · simpa using swapCase_ne d hd c

theorem respellChar_beq (b : Bool) (c d : Char)
    (hd : ∀ i, i < 26 → d ≠ Char.ofNat (65 + i) ∧ d ≠ Char.ofNat (97 + i)) :
    ((if b then swapCase c else c) == d) = (c == d) := by
  have := respellChar_eq b c d hd
  by_cases h : c = d
  · have h' := this.mpr h
    rw [beq_iff_eq.mpr h', beq_iff_eq.mpr h]
  · have h' : ¬ (if b then swapCase c else c) = d := fun e => h (this.mp e)
    rw [beq_eq_false_iff_ne.mpr h', beq_eq_false_iff_ne.mpr h]

theorem isOpener_respell (s : List Char) (mask : List Bool) : isOpener (respell mask s) = isOpener s := by
  -- characterise isOpener by the first two characters
  have spec : ∀ l : List Char, isOpener l =
      ((l.head? == some '\'') || (l.head? == some '"') || (l.head? == some '(' && (l.tail.head? == some '*'))) := by
    intro l
    match l with
    | [] => rfl
    | [c] =>
      by_cases h1 : c = '\'' <;> by_cases h2 : c = '"' <;> by_cases h3 : c = '(' <;> simp_all [isOpener]
    | c :: c2 :: rest =>
      by_cases h1 : c = '\'' <;> by_cases h2 : c = '"' <;> by_cases h3 : c = '(' <;> by_cases h4 : c2 = '*' <;>
        simp_all [isOpener]
  rw [spec, spec]
  match s, mask with
  | [], m => cases m <;> rfl
  | _ :: _, [] => rfl
  | [c], b :: bs =>
    simp only [respell, List.head?_cons, List.tail_cons, List.head?_nil, Option.some_beq_some,
      respellChar_beq b c _ notLetter_quote, respellChar_beq b c _ notLetter_dquote, respellChar_beq b c _ notLetter_lparen]
  | c :: c2 :: rest, [b] =>
    simp only [respell, List.head?_cons, List.tail_cons, Option.some_beq_some,
      respellChar_beq b c _ notLetter_quote, respellChar_beq b c _ notLetter_dquote, respellChar_beq b c _ notLetter_lparen]
  | c :: c2 :: rest, b :: b2 :: bs =>
    simp only [respell, List.head?_cons, List.tail_cons, Option.some_beq_some,
      respellChar_beq b c _ notLetter_quote, respellChar_beq b c _ notLetter_dquote, respellChar_beq b c _ notLetter_lparen,
      respellChar_beq b2 c2 _ notLetter_star]

/-- What the lexer decides at the head of a text (token type and length, or an error and its
extent) does not depend on letter case. -/
theorem choose_respell (s : List Char) (mask : List Bool) : choose (respell mask s) = choose s := by
  unfold choose
  rw [lexOne_respell, isOpener_respell, respell_length]

theorem respell_cons (b : Bool) (bs : List Bool) (c : Char) (cs : List Char) :
    respell (b :: bs) (c :: cs) = (if b then swapCase c else c) :: respell bs cs := rfl

theorem respell_nil_mask (s : List Char) : respell [] s = s := by cases s <;> rfl

theorem respell_take (mask : List Bool) (s : List Char) (n : Nat) :
    (respell mask s).take n = respell (mask.take n) (s.take n) := by
  induction s generalizing mask n with
  | nil => cases mask <;> cases n <;> simp [respell]
  | cons c cs ih =>
    cases mask with
    | nil => cases n <;> simp [respell_nil_mask]
    | cons b bs =>
      cases n with
      | zero => simp [respell]
      | succ n => simp [respell_cons, ih]

theorem respell_drop (mask : List Bool) (s : List Char) (n : Nat) :
    (respell mask s).drop n = respell (mask.drop n) (s.drop n) := by
  induction s generalizing mask n with
  | nil => cases mask <;> cases n <;> simp [respell]
  | cons c cs ih =>
    cases mask with
    | nil => cases n <;> simp [respell_nil_mask]
    | cons b bs =>
      cases n with
      | zero => simp
      | succ n => simp [respell_cons, ih]

theorem utf8Size_letters : ∀ i, i < 26 → (Char.ofNat (65 + i)).utf8Size = 1 ∧ (Char.ofNat (97 + i)).utf8Size = 1 := by decide

theorem utf8Size_swapCase (c : Char) : (swapCase c).utf8Size = c.utf8Size := by
  rcases swapCase_cases c with h0 | ⟨i, hi, hc⟩
  · rw [h0]
  · have := utf8Size_letters i hi
    rcases hc with ⟨h1, h2⟩ | ⟨h1, h2⟩
    · rw [h2, h1, this.1, this.2]
    · rw [h2, h1, this.1, this.2]

theorem notLetter_nl : ∀ i, i < 26 → '\n' ≠ Char.ofNat (65 + i) ∧ '\n' ≠ Char.ofNat (97 + i) := by decide

theorem utf8Len_respell (mask : List Bool) (s : List Char) : utf8Len (respell mask s) = utf8Len s := by
  induction s generalizing mask with
  | nil => cases mask <;> rfl
  | cons c cs ih =>
    cases mask with
    | nil => rfl
    | cons b bs =>
      rw [respell_cons, utf8Len_cons, utf8Len_cons, ih]
      cases b <;> simp [utf8Size_swapCase]

theorem advancePos_respell (mask : List Bool) (s : List Char) (l c : Nat) :
    advancePos (respell mask s) l c = advancePos s l c := by
  induction s generalizing mask l c with
  | nil => cases mask <;> rfl
  | cons x xs ih =>
    cases mask with
    | nil => rfl
    | cons b bs =>
      rw [respell_cons, advancePos_cons, advancePos_cons]
      have e : ((if b then swapCase x else x) = '\n') ↔ (x = '\n') := respellChar_eq b x '\n' notLetter_nl
      have hs : (if b then swapCase x else x).utf8Size = x.utf8Size := by cases b <;> simp [utf8Size_swapCase]
      by_cases hx : x = '\n'
      · rw [if_pos (e.mpr hx), if_pos hx, ih]
      · rw [if_neg (fun h => hx (e.mp h)), if_neg hx, hs, ih]

/-- what a token or error is, apart from the letter case of its text -/
def key (it : Item) : Bool × String × Nat × Nat × Nat × Nat := (it.err, it.ty, it.start, it.stop, it.line, it.col)

/-- Main statement: re-spelling a text — changing the case of any of its letters — changes no
token type, span, line or column and no lexical error; for every text and every choice of letters. -/
theorem lex_case_invariant (mask : List Bool) : ∀ fuel (s : List Char) (off l c : Nat),
    (lexWith choose fuel (respell mask s) off l c).map key = (lexWith choose fuel s off l c).map key := by
  intro fuel
  induction fuel generalizing mask with
  | zero => intro s off l c; simp [lexWith]
  | succ fuel ih =>
    intro s off l c
    cases s with
    | nil => cases mask <;> simp [respell, lexWith]
    | cons x xs =>
      cases mask with
      | nil => rw [respell_nil_mask]
      | cons b bs =>
        have hcons : respell (b :: bs) (x :: xs) = (if b then swapCase x else x) :: respell bs xs := rfl
        have hch := choose_respell (x :: xs) (b :: bs)
        have hlen := respell_length (b :: bs) (x :: xs)
        rw [hcons] at hch hlen ⊢
        simp only [lexWith]
        rw [hch, hlen]
        rw [← hcons, respell_take, respell_drop, utf8Len_respell]
        simp only [advance, advanceErr, advancePos_respell]
        split
        · simp only [List.map_cons, key, ih]
        · simp only [List.map_cons, key, ih]

theorem lexItems_case_invariant (mask : List Bool) (s : List Char) :
    (lexItems (respell mask s)).map key = (lexItems s).map key := by
  unfold lexItems
  rw [respell_length]
  exact lex_case_invariant mask _ s 0 0 0

/-! ### non-vacuity -/

example : respell [true, true, false, true] "End_if".toList = "eNd_if".toList := by decide
example : (lexItems "eNd_If x".toList).map key = (lexItems "END_IF x".toList).map key := by decide +kernel


/-! ### keywords that the grammar recognises by their text (`Gen/TextKw.lean`, re-extracted from parser.rs on every run) -/

/-- Every grammar rule that recognises a token by its text (`tok_eq`, `id_eq`, `dt_sep`: INTERVAL, PRIORITY, the
action qualifiers, the duration units, `T#` / `D#`, the exponent `E`, …) compares it with `eq_ignore_ascii_case`. -/
theorem text_rules_ignore_case : Gen.textMatchRules.all (·.2) = true := by decide

/-- every literal of the grammar that is matched by text goes through one of those rules -/
theorem text_literals_covered : Gen.textKw.all (fun l => Gen.textMatchRules.any (·.1 == l.1)) = true := by decide

/-- The mirror's text match (`P.tokEq`, the model of those rules) depends on the token text only through its
lower-cased form: re-spelling the letters of a token never changes whether a textual keyword matches it. -/
theorem tokEq_case_invariant (ty val : String) (t t' : Item) (ts : List Item) (hty : t'.ty = t.ty)
    (htx : t'.text.map P.asciiLower = t.text.map P.asciiLower) :
    (P.tokEq ty val (t' :: ts)).isSome = (P.tokEq ty val (t :: ts)).isSome := by
  simp only [P.tokEq, P.eqIgnoreAsciiCase, hty, htx]
  by_cases h : (t.ty == ty && List.map P.asciiLower t.text == List.map P.asciiLower val.toList) = true <;> simp [h]

/-- non-vacuity: `interval` and `INTERVAL` are the same textual keyword -/
example : (P.tokEq "Identifier" "INTERVAL" [⟨false, "Identifier", 0, 0, 0, 0, "interval".toList⟩]).isSome = true := by decide

end C08
