import PlcProofs.Lemmas.Lsp

/-!
# C12 — the language server answers every request once and survives any message sequence

Model: `PlcModel/Lsp.lean` (`LspServer::run`, `handle_request`, `handle_notification`,
lsp-server's `handle_shutdown`).  A session is `body ++ [shutdown sid, exit]` where `body` is any
list of the message kinds of the property (none of them shutdown/exit).
The model is a total function: there is no crashing branch (the three places where the code used
to panic or fall silent — client responses, empty change lists, unimplemented request methods —
are ordinary branches of `step`; the correspondence check holds the code to that).
-/

namespace C12

/-- Every request — and nothing else — is answered exactly once, in order, with its own id:
the list of ids carried by the responses is the list of request ids followed by the shutdown id. -/
theorem requests_answered_once (body : List Msg) (hb : ∀ m ∈ body, isCtl m = false) (sid : Nat) :
    replyIds (run (body ++ [.shutdown sid, .exit])).outs = reqIds body ++ [sid] := by
  simp only [run, runFrom_body body _ hb, runFrom, List.nil_append]
  rw [replyIds_append, replyIds_stepAll body hb]
  rfl

/-- Notifications and client responses are never answered: a history without requests gets no
response other than the shutdown reply. -/
theorem notifications_never_answered (body : List Msg) (hb : ∀ m ∈ body, isCtl m = false)
    (hn : reqIds body = []) (sid : Nat) :
    replyIds (run (body ++ [.shutdown sid, .exit])).outs = [sid] := by
  rw [requests_answered_once body hb, hn]; rfl

/-- A request for a method the server does not implement is answered with the MethodNotFound error. -/
theorem unimplemented_gets_error (st : Store) (id : Nat) (m : String) :
    (step st (.unknownReq id m)).2 = [.error id methodNotFound] := rfl

/-- After shutdown followed by exit the server terminates with status 0, whatever came before. -/
theorem clean_exit (body : List Msg) (hb : ∀ m ∈ body, isCtl m = false) (sid : Nat) :
    (run (body ++ [.shutdown sid, .exit])).phase = .exited 0 := by
  simp only [run, runFrom_body body _ hb, runFrom]

/-- The server loop is total: every history ends in a defined exit state (no crash state exists). -/
theorem survives (h : List Msg) : ∃ c, (run h).phase = .exited c := by
  unfold run
  generalize ([] : Store) = st
  generalize ([] : List Out) = acc
  induction h generalizing st acc with
  | nil => exact ⟨1, rfl⟩
  | cons m rest ih =>
    cases m with
    | shutdown id =>
      cases rest with
      | nil => exact ⟨1, rfl⟩
      | cons m' rest' => cases m' <;> simp [runFrom]
    | exit => exact ⟨1, rfl⟩
    | didOpen u v t => simp only [runFrom]; exact ih _ _
    | didChange u v cs => simp only [runFrom]; exact ih _ _
    | semTok id u => simp only [runFrom]; exact ih _ _
    | unknownReq id m => simp only [runFrom]; exact ih _ _
    | unknownNotif m => simp only [runFrom]; exact ih _ _
    | response id => simp only [runFrom]; exact ih _ _

/-! ### non-vacuity -/

example : (run [.response 3, .didChange (.file 0) 1 [], .unknownReq 7 "textDocument/hover",
      .unknownNotif "$/setTrace", .semTok 8 (.other 0), .shutdown 9, .exit]).outs =
    [.publish (.file 0) 1 [], .error 7 methodNotFound, .tokens 8 none, .shutdownReply 9] := by decide

end C12
