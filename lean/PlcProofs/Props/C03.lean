import PlcProofs.Props.C02

/-!
# C03 — no error is masked: a defect anywhere in the compilation set makes check fail

Model: `PlcModel/Analyze.lean` (`semantic` = `FileBackedProject::semantic`, `analyzeDecls` =
`analyze` on the merged libraries).  `semantic files = []` is "the check succeeds".
-/

namespace C03

/-- A declaration that violates, on its own, a rule that does not depend on other declarations. -/
def LocalFault : ADecl → Prop
  | .structT _ es => ¬ (es.map (·.1)).Nodup
  | .subrangeT _ lo hi => ¬ lo < hi
  | .enumT _ vs _ => ¬ vs.Nodup
  | .config _ gs tasks progs =>
      (∃ p ∈ progs, ∃ t, p.task = some t ∧ t ∉ tasks) ∨
      (∃ v ∈ gs, v.const = true ∧ v.cls ≠ .external ∧ v.init = none)
  | d =>
      (d.isPou = true ∧ ∃ s ∈ d.body, ∃ r ∈ s.varRefs, r ≠ d.name ∧ ∀ v ∈ d.vars, v.name ≠ r) ∨
      (∃ v ∈ d.vars, v.const = true ∧ v.cls ≠ .external ∧ v.init = none)

/-- If any file of the set fails to tokenize or parse, checking the whole set fails — whatever the
other files contain (including when all of them are valid). -/
theorem parse_error_never_masked (files : List AFile) (h : ∃ f ∈ files, f.parseError = true) :
    semantic files ≠ [] := by
  obtain ⟨f, hf, hp⟩ := h
  have : files.any (·.parseError) = true := List.any_eq_true.mpr ⟨f, hf, hp⟩
  unfold semantic
  simp only [this, if_true]
  split <;> simp

/-- Two declarations with the same name (in the same name-keyed map) are never silently collapsed
into one: the analysis fails. -/
theorem duplicate_never_collapsed (ds : List ADecl)
    (h : ¬ ds.Pairwise (fun d d' => sameKey d d' = false)) : analyzeDecls ds ≠ [] := by
  intro e
  have := (analyzeDecls_eq_nil_iff ds).mp e
  exact h ((dupCodes_eq_nil_iff ds).mp this.2.1)

/-- … and, unless the unit is also recursive, what is reported is the duplicate (P0019 / P0020). -/
theorem duplicate_is_diagnosed (ds : List ADecl) (hrec : recursive ds = false)
    (h : ¬ ds.Pairwise (fun d d' => sameKey d d' = false)) :
    ∃ c ∈ (analyzeDecls ds).flatten, c = P0019 ∨ c = P0020 := by
  have hne : dupCodes ds ≠ [] := fun e => h ((dupCodes_eq_nil_iff ds).mp e)
  have hsub : ∀ ds : List ADecl, ∀ c ∈ dupCodes ds, c = P0019 ∨ c = P0020 := by
    intro ds
    induction ds with
    | nil => simp [dupCodes]
    | cons d rest ih =>
      intro c hc
      simp only [dupCodes, List.mem_append] at hc
      rcases hc with hc | hc
      · split at hc
        · simp only [List.mem_singleton] at hc
          by_cases ht : d.isType = true <;> simp [ht] at hc <;> simp [hc]
        · simp at hc
      · exact ih c hc
  obtain ⟨c, hc⟩ := List.exists_mem_of_ne_nil _ hne
  refine ⟨c, ?_, hsub ds c hc⟩
  unfold analyzeDecls
  have : (dupCodes ds).isEmpty = false := by cases hh : dupCodes ds <;> simp_all
  simp only [hrec, Bool.false_eq_true, if_false, this, Bool.not_false, if_true]
  simp only [List.mem_flatten, List.mem_map]
  exact ⟨[c], ⟨c, List.mem_eraseDups.mpr hc, rfl⟩, by simp⟩

theorem constInit_silent (ds : List ADecl) (h : ruleConstInit ds = []) :
    ∀ d ∈ ds, ∀ v ∈ d.vars, v.const = true → v.cls ≠ .external → v.init ≠ none := by
  intro d hd v hv hc hx hi
  unfold ruleConstInit at h
  simp only at h
  split at h
  · simp at h
  · rename_i hno
    rw [grp_eq_nil_iff] at h
    have hmem : (if isFbVar ds v || isStructVar ds v then P9999 else P0016) ∈
        (ds.flatMap fun d => d.vars.filterMap fun v =>
          if v.const && v.cls != .external then
            if isFbVar ds v || isStructVar ds v then some P9999
            else if v.init.isNone then some P0016 else none
          else none) := by
      simp only [List.mem_flatMap, List.mem_filterMap]
      refine ⟨d, hd, v, hv, ?_⟩
      have hcx : (v.const && v.cls != .external) = true := by simp [hc, hx]
      simp only [hcx, if_true, hi, Option.isNone_none]
      split <;> rfl
    rw [h] at hmem
    simp at hmem

/-- A declaration with a local fault makes the analysis fail, whatever declarations accompany it. -/
theorem local_fault_never_masked (ds : List ADecl) (d : ADecl) (hd : d ∈ ds) (hf : LocalFault d) :
    analyzeDecls ds ≠ [] := by
  intro e
  have hr := (rules_eq_nil_iff ds).mp ((analyzeDecls_eq_nil_iff ds).mp e).2.2.2.2.2.2.2
  obtain ⟨hS, hR, hE, _, hT, _, hV, _, hC, _, _⟩ := hr
  have nomem : ∀ {g : Groups} {c : Nat}, g = [] → c ∉ g.flatten := by
    intro g c hg; subst hg; simp
  have hPou : ∀ d : ADecl, d ∈ ds →
      ((d.isPou = true ∧ ∃ s ∈ d.body, ∃ r ∈ s.varRefs, r ≠ d.name ∧ ∀ v ∈ d.vars, v.name ≠ r) ∨
       (∃ v ∈ d.vars, v.const = true ∧ v.cls ≠ .external ∧ v.init = none)) → False := by
    intro d hd h
    rcases h with ⟨hp, s, hs, r, hr, h1, h2⟩ | ⟨v, hv, h1, h2, h3⟩
    · exact nomem hV ((C02.var_use_rule ds).mpr ⟨d, hd, hp, s, hs, r, hr, h1, h2⟩)
    · exact constInit_silent ds hC d hd v hv h1 h2 h3
  cases d with
  | structT n es => exact nomem hS ((C02.struct_rule ds).mpr ⟨n, es, hd, hf⟩)
  | subrangeT n lo hi => exact nomem hR ((C02.subrange_rule ds).mpr ⟨n, lo, hi, hd, hf⟩)
  | enumT n vs dflt => exact nomem hE ((C02.enum_unique_rule ds).mpr ⟨n, vs, dflt, hd, hf⟩)
  | config n gs tasks progs =>
    rcases hf with ⟨p, hp, t, ht, hnt⟩ | ⟨v, hv, h1, h2, h3⟩
    · exact nomem hT ((C02.task_rule ds).mpr ⟨n, gs, tasks, progs, p, t, hd, hp, ht, hnt⟩)
    · exact constInit_silent ds hC _ hd v hv h1 h2 h3
  | enumAlias n b => exact hPou _ hd hf
  | fb n vs b => exact hPou _ hd hf
  | func n vs b => exact hPou _ hd hf
  | prog n vs b => exact hPou _ hd hf

/-- The same at the level of the compilation set: a locally faulty declaration in any file makes
the check of the whole set fail, whatever other files and declarations accompany it. -/
theorem set_with_local_fault_fails (files : List AFile) (f : AFile) (hf : f ∈ files)
    (d : ADecl) (hd : d ∈ f.decls) (hfault : LocalFault d) : semantic files ≠ [] := by
  by_cases hp : ∃ g ∈ files, g.parseError = true
  · exact parse_error_never_masked files hp
  · have hall : ∀ g ∈ files, g.parseError = false := by
      intro g hg
      cases h : g.parseError with
      | false => rfl
      | true => exact absurd ⟨g, hg, h⟩ hp
    have hfilter : files.filter (!·.parseError) = files := by
      apply List.filter_eq_self.mpr
      intro g hg; simp [hall g hg]
    have hany : files.any (·.parseError) = false := by
      apply List.any_eq_false.mpr
      intro g hg; simp [hall g hg]
    unfold semantic
    simp only [hany, Bool.false_eq_true, if_false, hfilter, List.nil_append]
    have hne : files.isEmpty = false := by cases files <;> simp_all
    simp only [hne, Bool.false_eq_true, if_false]
    apply local_fault_never_masked _ d _ hfault
    exact List.mem_flatMap.mpr ⟨f, hf, hd⟩

/-- Monotonicity: adding files to a set that fails because of a parse error or a local fault never
makes it pass. -/
theorem adding_files_never_cures (files extra : List AFile)
    (h : (∃ f ∈ files, f.parseError = true) ∨ (∃ f ∈ files, ∃ d ∈ f.decls, LocalFault d)) :
    semantic (files ++ extra) ≠ [] ∧ semantic (extra ++ files) ≠ [] := by
  rcases h with ⟨f, hf, hp⟩ | ⟨f, hf, d, hd, hfault⟩
  · exact ⟨parse_error_never_masked _ ⟨f, by simp [hf], hp⟩, parse_error_never_masked _ ⟨f, by simp [hf], hp⟩⟩
  · exact ⟨set_with_local_fault_fails _ f (by simp [hf]) d hd hfault,
           set_with_local_fault_fails _ f (by simp [hf]) d hd hfault⟩

/-! ### non-vacuity -/

example : LocalFault (.subrangeT 1 5 5) := by simp [LocalFault]
example : semantic [⟨false, [.prog 1 [] []]⟩, ⟨true, []⟩] = [[P0002, P0031]] := by decide
example : semantic [⟨false, [.prog 1 [⟨3, .var, false, .int, none⟩] [.assign 3 [4]]]⟩,
                    ⟨false, [.prog 1 [⟨3, .var, false, .int, none⟩] [.assign 3 []]]⟩] = [[P0020]] := by decide

end C03
