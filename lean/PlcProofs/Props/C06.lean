import PlcProofs.Props.C03
import PlcProofs.Lemmas.Graph

import PlcProofs.Lemmas.PermCodes

/-!
# C06 — the result is independent of declaration order, file partition and file order

Model: `PlcModel/Analyze.lean`.  `ds ~ ds'` (`List.Perm`) is "the same declarations in another
order"; distributing declarations over files and ordering the files only permutes the merged
declaration list (`merge_perm`), so every statement about `~` covers partitions and file orders.

Proved for every unit: the parse-error, duplicate-name and recursion stages and the six rules whose
per-site test does not consult other declarations are invariant under permutation.  The remaining
stages look declarations up by name (`find?`); they are order-independent only when names are
unique, which the duplicate stage has established by the time they run — the full statement
`verdict_perm` is kept below with that part as an explicit hypothesis (`_partial`), and is
exercised on the implementation by the correspondence check over all permutations and partitions.
-/

open Relation

namespace C06

/-- Merging files: any redistribution of the declarations over files, in any file order, that keeps
the same declarations yields a permutation of the merged list. -/
theorem merge_perm (files files' : List AFile) (h : files.Perm files') :
    (files.flatMap (·.decls)).Perm (files'.flatMap (·.decls)) :=
  List.Perm.flatMap_right _ h

/-- The parse-error stage does not depend on file order. -/
theorem parse_stage_perm (files files' : List AFile) (h : files.Perm files') :
    files.any (·.parseError) = files'.any (·.parseError) := by
  apply Bool.eq_iff_iff.mpr
  simp only [List.any_eq_true]
  constructor
  · rintro ⟨f, hf, hp⟩; exact ⟨f, h.mem_iff.mp hf, hp⟩
  · rintro ⟨f, hf, hp⟩; exact ⟨f, h.mem_iff.mpr hf, hp⟩

theorem sameKey_symm (d d' : ADecl) : sameKey d d' = sameKey d' d := by
  simp only [sameKey]
  apply Bool.eq_iff_iff.mpr
  simp only [Bool.and_eq_true, beq_iff_eq]
  constructor <;> rintro ⟨h1, h2⟩ <;> exact ⟨h1.symm, h2.symm⟩

/-- Whether a unit has two declarations with the same name does not depend on the order. -/
theorem duplicate_stage_perm (ds ds' : List ADecl) (h : ds.Perm ds') :
    (dupCodes ds = [] ↔ dupCodes ds' = []) := by
  rw [dupCodes_eq_nil_iff, dupCodes_eq_nil_iff]
  have hs : ∀ a b : ADecl, sameKey a b = false → sameKey b a = false := by
    intro a b hab; rw [sameKey_symm]; exact hab
  exact ⟨fun hp => h.pairwise hp (hs _ _), fun hp => h.symm.pairwise hp (hs _ _)⟩

theorem unitEdges_mem_perm (ds ds' : List ADecl) (h : ds.Perm ds') (e : Nat × Nat) :
    e ∈ unitEdges ds ↔ e ∈ unitEdges ds' := by
  simp only [unitEdges, List.mem_flatMap]
  constructor
  · rintro ⟨d, hd, he⟩; exact ⟨d, h.mem_iff.mp hd, he⟩
  · rintro ⟨d, hd, he⟩; exact ⟨d, h.mem_iff.mpr hd, he⟩

theorem unitNodes_mem_perm (ds ds' : List ADecl) (h : ds.Perm ds') (n : Nat) :
    n ∈ unitNodes ds ↔ n ∈ unitNodes ds' := by
  simp only [unitNodes, List.mem_eraseDups, List.mem_append, List.mem_map]
  constructor
  · rintro (⟨d, hd, rfl⟩ | ⟨e, he, rfl⟩)
    · exact Or.inl ⟨d, h.mem_iff.mp hd, rfl⟩
    · exact Or.inr ⟨e, (unitEdges_mem_perm ds ds' h e).mp he, rfl⟩
  · rintro (⟨d, hd, rfl⟩ | ⟨e, he, rfl⟩)
    · exact Or.inl ⟨d, h.mem_iff.mpr hd, rfl⟩
    · exact Or.inr ⟨e, (unitEdges_mem_perm ds ds' h e).mpr he, rfl⟩

/-- Whether a unit is rejected as recursive does not depend on the declaration order. -/
theorem recursive_stage_perm (ds ds' : List ADecl) (h : ds.Perm ds') : recursive ds = recursive ds' := by
  apply Bool.eq_iff_iff.mpr
  unfold recursive
  rw [cyclicExec_iff, cyclicExec_iff]
  have hE : E (unitNodes ds) ((unitEdges ds).map fun e => (e.2, e.1)) =
      E (unitNodes ds') ((unitEdges ds').map fun e => (e.2, e.1)) := by
    funext u v
    apply propext
    simp only [E, List.mem_map, Prod.mk.injEq, Prod.exists, unitNodes_mem_perm ds ds' h]
    constructor
    · rintro ⟨⟨a, b, hm, rfl, rfl⟩, hu, hv⟩
      exact ⟨⟨a, b, (unitEdges_mem_perm ds ds' h _).mp hm, rfl, rfl⟩, hu, hv⟩
    · rintro ⟨⟨a, b, hm, rfl, rfl⟩, hu, hv⟩
      exact ⟨⟨a, b, (unitEdges_mem_perm ds ds' h _).mpr hm, rfl, rfl⟩, hu, hv⟩
  rw [hE]

/-- The rules whose test looks at one site only give the same verdict and the same code in every
declaration order: shown through their specifications, which quantify over membership only. -/
theorem site_rules_perm (ds ds' : List ADecl) (h : ds.Perm ds') :
    (P0003 ∈ (ruleStruct ds).flatten ↔ P0003 ∈ (ruleStruct ds').flatten) ∧
    (P0004 ∈ (ruleSubrange ds).flatten ↔ P0004 ∈ (ruleSubrange ds').flatten) ∧
    (P0005 ∈ (ruleEnumUnique ds).flatten ↔ P0005 ∈ (ruleEnumUnique ds').flatten) ∧
    (P0011 ∈ (ruleTask ds).flatten ↔ P0011 ∈ (ruleTask ds').flatten) ∧
    (P0015 ∈ (ruleVarUse ds).flatten ↔ P0015 ∈ (ruleVarUse ds').flatten) ∧
    (P0018 ∈ (ruleExternalConst ds).flatten ↔ P0018 ∈ (ruleExternalConst ds').flatten) := by
  have m : ∀ d, d ∈ ds ↔ d ∈ ds' := fun d => h.mem_iff
  refine ⟨?_, ?_, ?_, ?_, ?_, ?_⟩
  · simp only [C02.struct_rule, m]
  · simp only [C02.subrange_rule, m]
  · simp only [C02.enum_unique_rule, m]
  · simp only [C02.task_rule, m]
  · simp only [C02.var_use_rule, m]
  · simp only [C02.external_const_rule, m]

/-- Full statement for the verdict, with the name-lookup stages as a hypothesis. -/
theorem verdict_perm_partial (ds ds' : List ADecl) (h : ds.Perm ds')
    (hlookup : recursive ds = false → dupCodes ds = [] →
      ((aliasUnsupported ds = false ∧ exprUnsupported ds = false ∧ typeFbClash ds = false ∧
        typeInitUnsupported ds = false ∧ unknownTypes ds = [] ∧ rules ds = []) ↔
       (aliasUnsupported ds' = false ∧ exprUnsupported ds' = false ∧ typeFbClash ds' = false ∧
        typeInitUnsupported ds' = false ∧ unknownTypes ds' = [] ∧ rules ds' = []))) :
    (analyzeDecls ds = [] ↔ analyzeDecls ds' = []) := by
  rw [analyzeDecls_eq_nil_iff, analyzeDecls_eq_nil_iff, ← recursive_stage_perm ds ds' h]
  constructor
  · rintro ⟨h1, h2, rest⟩
    exact ⟨h1, (duplicate_stage_perm ds ds' h).mp h2, (hlookup h1 h2).mp rest⟩
  · rintro ⟨h1, h2, rest⟩
    have h2' := (duplicate_stage_perm ds ds' h).mpr h2
    exact ⟨h1, h2', (hlookup h1 h2').mpr rest⟩

open PermLookup PermCodes

/-- Full statement, no hypothesis left: whether the analysis accepts a unit does not depend on the order
of its declarations. -/
theorem verdict_perm (ds ds' : List ADecl) (h : ds.Perm ds') :
    (analyzeDecls ds = [] ↔ analyzeDecls ds' = []) :=
  verdict_perm_partial ds ds' h
    (fun _ hd => lookup_stages_perm h hd ((duplicate_stage_perm ds ds' h).mp hd))

/-- … and neither does the set of codes it may report. -/
theorem codes_perm (ds ds' : List ADecl) (h : ds.Perm ds') (c : Nat) :
    c ∈ (analyzeDecls ds).flatten ↔ c ∈ (analyzeDecls ds').flatten := by
  unfold analyzeDecls
  rw [← recursive_stage_perm ds ds' h]
  by_cases hr : recursive ds = true
  · simp [hr]
  · simp only [hr, Bool.false_eq_true, if_false]
    by_cases hdn : dupCodes ds = []
    · have hdn' := (duplicate_stage_perm ds ds' h).mp hdn
      simp only [hdn, hdn', List.isEmpty_nil, Bool.not_true, Bool.false_eq_true, if_false]
      rw [← aliasUnsupported_perm h hdn, ← exprUnsupported_perm h, ← typeFbClash_perm h]
      by_cases h1 : aliasUnsupported ds = true
      · simp [h1]
      · simp only [h1, Bool.false_eq_true, if_false]
        by_cases h2 : exprUnsupported ds = true
        · simp [h2]
        · simp only [h2, Bool.false_eq_true, if_false]
          by_cases h3 : typeFbClash ds = true
          · simp [h3]
          · have h3' : typeFbClash ds = false := by simpa using h3
            simp only [h3, Bool.false_eq_true, if_false]
            rw [← typeInitUnsupported_perm h hdn h3']
            by_cases h4 : typeInitUnsupported ds = true
            · simp [h4]
            · simp only [h4, Bool.false_eq_true, if_false]
              rw [← (unknownTypes_perm h hdn h3').isEmpty_eq]
              by_cases h5 : (unknownTypes ds).isEmpty = true
              · simp only [h5, Bool.not_true, Bool.false_eq_true, if_false]
                exact rules_mem h c hdn h3'
              · simp [h5]
    · have hdn' : ¬ dupCodes ds' = [] := fun e => hdn ((duplicate_stage_perm ds ds' h).mpr e)
      have e1 : (dupCodes ds).isEmpty = false := by cases hh : dupCodes ds <;> simp_all
      have e2 : (dupCodes ds').isEmpty = false := by cases hh : dupCodes ds' <;> simp_all
      simp only [e1, e2, Bool.not_false, if_true]
      simp only [List.mem_flatten, List.mem_map, List.mem_eraseDups]
      constructor
      · rintro ⟨l, ⟨x, hx, rfl⟩, hc⟩
        exact ⟨[x], ⟨x, (dupCodes_mem_perm h x).mp hx, rfl⟩, hc⟩
      · rintro ⟨l, ⟨x, hx, rfl⟩, hc⟩
        exact ⟨[x], ⟨x, (dupCodes_mem_perm h x).mpr hx, rfl⟩, hc⟩


/-! ### non-vacuity -/

example : semantic [⟨false, [.fb 1 [⟨2, .var, false, .named 3, none⟩] []]⟩, ⟨false, [.fb 3 [⟨4, .var, false, .named 1, none⟩] []]⟩]
        = semantic [⟨false, [.fb 3 [⟨4, .var, false, .named 1, none⟩] [], .fb 1 [⟨2, .var, false, .named 3, none⟩] []]⟩] := by decide

end C06
