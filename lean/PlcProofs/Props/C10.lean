import PlcProofs.Lemmas.FullParen
import PlcProofs.Lemmas.RenderExpr
import PlcModel.Parse.Lit
import PlcProofs.Lemmas.MirrorExpr
import PlcProofs.Lemmas.RenderWords
import PlcProofs.Lemmas.MirrorPrint
import PlcProofs.Lemmas.MirrorPrintLib

/-!
# C10 — re-rendering round-trips

What is proved (for trees of unbounded size and depth):

* `expression_roundtrip` — the expression printing of the renderer (every binary and comparison node
  in parentheses, a unary operator directly before its operand, the operand in parentheses exactly
  when it is a unary expression) is read back to the *same tree* by precedence climbing, for **every**
  assignment of precedences to operators and whatever minimum precedence it is read at.  This is the
  statement behind the anchor "binary and comparison expressions always parenthesised": the round
  trip of expressions does not depend on the precedence table at all.
* `mirror_reads_renderer_parenthesisation` — the same round trip for the **parser mirror itself** (the
  functions of `PlcModel/Parse/Expr.lean` that the check compares with `parse_program`, driven by the
  generated table): the renderer's parenthesisation of every expression tree over names, unary and binary
  operators is read back to exactly that tree, with the fuel the driver uses.
* `mirror_reads_printed_statements` — one level up: for every statement tree (`MX.A`: assignments, IF / ELSIF / ELSE, CASE with
  integer selector lists, FOR [BY], WHILE, REPEAT, invocations with named inputs, EXIT, RETURN, nested to any depth) the
  printing `MX.Al.pr` — keywords as the renderer spells them, every expression in the renderer's parenthesisation, one `;`
  after each statement, ELSE only before a non-empty branch — is read back by the parser mirror to exactly the dsl trees of
  the list.  The only hypotheses are about the leaves (names are identifier tokens, operators are rows of `Gen.prec`,
  selector literals are integers) and the bodies the grammar wants non-empty.
* `mirror_reads_printed_library` — and for whole libraries: any sequence of programs, function blocks (with or without a VAR
  block of elementary-typed variables) and functions (`MX.APou`), printed as the renderer prints declarations, is read back by
  `Parse.library` to exactly the library that was printed, the whole text consumed.
* `renderer_model_prints_full_parentheses` — the renderer model `Render.RE`, which the check compares
  lexeme by lexeme with `write_to_string` on every generated library, writes exactly that printing
  for the dsl tree of every expression over the operators of the generated precedence table.
* `unparenthesised_nested_unary_not_read_back` — the repaired defect as a theorem: without the
  parentheses around a unary operand the printing is *not* read back (`- - a` is a syntax error).
* `fixed_point_of_roundtrip` — the "consequently" of the property: if rendering then parsing gives
  the library back, rendering the re-parsed library gives the same text again.
* `duration_render_read`, `tod_fraction_read` — at the level of numbers, the reader of C09 applied to what the
  renderer writes for a duration / the fraction of a time of day gives the value back.
* `duration_split_exact` — the unit split the renderer writes for a duration loses nothing and the
  count before the unit fits the 64-bit whole part the parser reads.

* `renderer_words_are_keywords`, `renderer_operators_are_table_tokens`, `renderer_unary_operators`,
  `renderer_direct_literals_lex` — over **every string literal of renderer.rs** (`Gen.renderLits`, re-extracted from the
  source on every run): each word in capitals it writes is read by the lexer (`Gen.table`, from token.rs) as one
  reserved-word token or is a word the grammar matches by text (`Gen.textKw`, from parser.rs) — with the one
  exception of the recorded finding C10-task-interval (`INTERNAL`), named in the statement; for each row of the
  `precedence!` block the renderer has a match arm for that operator whose text lexes to exactly the row's token;
  `-` / `NOT` lex to the tokens the unary rule reads; everything passed to `write` / `write_ws` lexes without error.

What is *not* proved: the round trip through the full parser mirror and the full renderer model for
declarations and literals (`library_roundtrip`); there the tie is the oracle on the implementation
plus the two correspondences (parser mirror on rendered texts, renderer model on rendered lexemes).
-/

namespace C10
open FullParen

/-- Round trip of the renderer's expression printing, for every precedence assignment. -/
theorem expression_roundtrip (e : Expr) (minp : Nat) (rest : List Tok) (h : NoOp rest) :
    ∃ fuel, parseE fuel minp (prFull e ++ rest) = .ok e rest :=
  FullParen.roundtrip e minp rest h

/-- The parser mirror reads the renderer's parenthesisation (`MX.E.full`: every binary node in parentheses,
a unary operand in parentheses exactly when it is itself unary) of every tree back to the tree.
`rest` is what follows: no operator, `#`, `(`, `[`, `.` or layout. -/
theorem mirror_reads_renderer_parenthesisation (lp rp : Item) (hlp : lp.ty = "LeftParen") (hrp : rp.ty = "RightParen")
    (e : MX.E) (he : e.Ok) (rest : List Item)
    (hrest : ∀ t ts, rest = t :: ts → MX.okNext t.ty = true ∧ ∀ row ∈ Gen.prec, t.ty ≠ row.token) :
    Parse.expression (Parse.fuelFor ((MX.E.full lp rp e).toks ++ rest).length) ((MX.E.full lp rp e).toks ++ rest)
      = some (e.sx, rest) := by
  rw [← MX.E.full_sx lp rp e]
  apply MX.expression_reads _ rest _ (MX.E.full_wf lp rp hlp hrp e he 0) hrest
  apply MX.fuelFor_enough
  simp

/-- **Printed statements are read back** (statement nesting, renderer's spelling and parenthesisation). -/
theorem mirror_reads_printed_statements (l : MX.Al) (hl : l.Ok) (hne : l.isNil = false) (K : Item) (R : List Item)
    (hK : MX.isCloser K.ty = true) :
    Parse.statementList (Parse.fuelFor (l.pr.toks ++ K :: R).length) (l.pr.toks ++ K :: R) = some (l.sxs, K :: R) :=
  MX.printed_statements_read_back l hl hne K R hK

/-- non-vacuity: `IF a THEN x := b; ELSIF c THEN EXIT; END_IF; t(IN := a);` is `Ok`, and its printing starts `IF a THEN x :=` -/
example :
    let id (s : String) : Item := ⟨false, "Identifier", 0, 0, 0, 0, s.toList⟩
    let l : MX.Al := .cons (.ifA (.leaf (id "a")) (.cons (.assign (id "x") (.leaf (id "b"))) .nil)
        (.cons (.leaf (id "c")) (.cons .exitA .nil) .nil) .nil)
      (.cons (.callA (id "t") (id "IN") (.leaf (id "a")) []) .nil)
    l.Ok ∧ l.isNil = false ∧ (l.pr.toks.take 5).map (·.ty) = ["If", "Identifier", "Then", "Identifier", "Assignment"] := by
  intro id l
  refine ⟨⟨⟨rfl, ⟨⟨rfl, rfl⟩, trivial⟩, ⟨rfl, ⟨trivial, trivial⟩, rfl, trivial⟩, trivial⟩, ⟨rfl, rfl, rfl, ?_⟩, trivial⟩, rfl, by decide⟩
  intro m hm
  cases hm

/-- **Printed libraries are read back** (declarations in order, names, variables, statement trees; whole input consumed). -/
theorem mirror_reads_printed_library (ps : List MX.APou) (h : ∀ p ∈ ps, p.Ok) :
    Parse.library ((ps.map MX.APou.pr).flatMap MX.Pou.toks) = some (.n "Library" [("elements", .l (ps.map MX.APou.elem))]) :=
  MX.printed_library_read_back ps h

/-- non-vacuity: `FUNCTION f : INT f := c; END_FUNCTION` and `PROGRAM main VAR n : INT; END_VAR n := c; END_PROGRAM` are `Ok` -/
example :
    let id (s : String) : Item := ⟨false, "Identifier", 0, 0, 0, 0, s.toList⟩
    let int : Item := ⟨false, "Int", 0, 0, 0, 0, "INT".toList⟩
    (MX.APou.fn (id "f") int "INT" (.cons (.assign (id "f") (.leaf (id "c"))) .nil)).Ok ∧
    (MX.APou.prog (id "main") [⟨id "n", int, "INT"⟩] (.cons (.assign (id "n") (.leaf (id "c"))) .nil)).Ok := by
  intro id int
  refine ⟨⟨rfl, MX.elementary_int _ rfl, by decide, ⟨⟨rfl, rfl⟩, trivial⟩, rfl⟩, ⟨rfl, ?_, ⟨⟨rfl, rfl⟩, trivial⟩, rfl⟩⟩
  intro d hd
  simp only [List.mem_singleton] at hd
  subst hd
  exact ⟨rfl, MX.elementary_int _ rfl, by decide, by decide, by decide, by decide, by decide, by decide⟩

/-- The renderer model writes the fully parenthesised printing (operators = rows of `Gen.prec`). -/
theorem renderer_model_prints_full_parentheses (e : Expr) (h : RenderExpr.OpsOk e) (k : Nat) :
    Render.RE (RenderExpr.depth e + 1 + k) (RenderExpr.embed e) = some (RenderExpr.text (prFull e)) :=
  RenderExpr.render_is_prFull e h k

/-- every operator of the generated precedence table has a lexeme in the renderer model -/
theorem every_table_operator_is_written :
    ∀ i, i < Gen.prec.length → (RenderExpr.symOfRow (Gen.prec.getD i RenderExpr.defaultRow)).isSome = true :=
  RenderExpr.table_rows_ok

/-- non-vacuity of `OpsOk`: a tree over table rows 9 (`+`) and 11 (`*`) with nested unary operators -/
example : RenderExpr.OpsOk (.bin ⟨11, 6⟩ (.un 0 (.un 1 (.leaf 1))) (.bin ⟨9, 5⟩ (.leaf 2) (.leaf 3))) := by
  simp only [RenderExpr.OpsOk, and_true, true_and]
  exact ⟨by decide, by decide⟩

/-- the printing *without* the parentheses around a unary operand (what the renderer wrote before
the repair) is not read back: `- - a` -/
theorem unparenthesised_nested_unary_not_read_back (fuel : Nat) (u v n : Nat) :
    parseE fuel 0 [.uop u, .uop v, .atom n] ≠ .ok (.un u (.un v (.leaf n))) [] := by
  match fuel with
  | 0 => simp [parseE]
  | 1 => simp [parseE, parseAtom]
  | 2 => simp [parseE, parseAtom, parsePrimary]
  | f + 3 => simp [parseE, parseAtom, parsePrimary]

/-- "Consequently rendering is a fixed point": for any parser and renderer, if the rendered text of
every parsed library parses back to that library, then rendering the re-parsed library yields the
same text again. -/
theorem fixed_point_of_roundtrip {Text Lib : Type} (parse : Text → Option Lib) (render : Lib → Text)
    (round : ∀ s l, parse s = some l → parse (render l) = some l)
    (s : Text) (l : Lib) (h : parse s = some l) :
    ∃ l', parse (render l) = some l' ∧ render l' = render l :=
  ⟨l, round s l h, rfl⟩

/-- the duration split written by `visit_duration_literal` (model: `Render.durationText`):
`count` units and `sub` nanoseconds below the unit recompose the magnitude exactly, the fraction is
below one unit, and the count fits the 64-bit whole part in the millisecond branch -/
theorem duration_split_exact (mag : Nat) :
    let per := if mag / 1000000 > 2 ^ 64 - 1 then 1000000000 else 1000000
    (mag / per) * per + mag % per = mag ∧ mag % per < per ∧
    (¬ mag / 1000000 > 2 ^ 64 - 1 → mag / per ≤ 2 ^ 64 - 1) := by
  intro per
  refine ⟨Nat.div_add_mod' mag per, ?_, ?_⟩
  · apply Nat.mod_lt
    show 0 < (if mag / 1000000 > 2 ^ 64 - 1 then 1000000000 else 1000000)
    split <;> omega
  · intro h
    show mag / (if mag / 1000000 > 2 ^ 64 - 1 then 1000000000 else 1000000) ≤ 2 ^ 64 - 1
    simp only [h, if_false]
    omega

open Parse in
/-- What the renderer writes for a duration is read back to the same number of nanoseconds: with the
unit split of `Render.durationText` (`count` units and `sub` nanoseconds below the unit, the latter
written as the fraction `sub / per` with 6 resp. 9 digits), the reader `durationOfUnits` on
`count + sub/per` gives `mag` again — for both units the renderer uses. -/
theorem duration_render_read (mag per scale : Nat) (hper : (per = 1000000 ∧ scale = 1000000000) ∨ (per = 1000000000 ∧ scale = 1000000))
    (hr : mag / 1000000000 < 2 ^ 63) :
    durationOfUnits ⟨mag / per, (mag % per) * scale⟩ per = some mag := by
  unfold durationOfUnits
  have hf : femptoUnits = per * scale := by
    rcases hper with ⟨h1, h2⟩ | ⟨h1, h2⟩ <;> subst h1 <;> subst h2 <;> rfl
  have hfrac : (mag % per) * scale * per = (mag % per) * femptoUnits := by
    rw [hf, Nat.mul_assoc, Nat.mul_comm scale per]
  have hpos : 0 < femptoUnits := by rw [hf]; rcases hper with ⟨h1, h2⟩ | ⟨h1, h2⟩ <;> subst h1 <;> subst h2 <;> decide
  simp only [hfrac, Nat.mul_mod_left, bne_self_eq_false, Bool.false_eq_true, if_false]
  rw [Nat.mul_div_cancel _ hpos, Nat.div_add_mod']
  simp [i64Max, hr]


/-- the fraction of a second written for a time of day (`nano` nanoseconds as nine fraction digits, trailing zeros
dropped) is a whole number of nanoseconds for the reader and is read back as `nano` -/
theorem tod_fraction_read (nano : Nat) : (nano * 1000000) % 1000000 = 0 ∧ (nano * 1000000) / 1000000 = nano := by
  constructor <;> omega

/-! ### the renderer's vocabulary (generated tables) -/

open RenderWords in
/-- Every word in capitals that renderer.rs can write is a word the front end knows: one reserved-word token of the
lexer, or a word the grammar matches by its text.  The exception named in the statement is the recorded finding
C10-task-interval (the renderer writes `INTERNAL` for `INTERVAL`); no other literal is excused. -/
theorem renderer_words_are_keywords (l : String × String × String) (hl : l ∈ Gen.renderLits) (hk : kwShaped l.2.2 = true) :
    reservedWord l.2.2 = true ∨ textKeyword l.2.2 = true ∨ l.2.2 = "INTERNAL" := by
  have h := List.all_eq_true.mp wordsOk_true l hl
  simp only [hk, Bool.not_true, Bool.false_or, Bool.or_eq_true, beq_iff_eq] at h
  rcases h with (h | h) | h
  · exact Or.inl h
  · exact Or.inr (Or.inl h)
  · exact Or.inr (Or.inr h)

open RenderWords in
/-- For every operator row of the `precedence!` block the renderer has a match arm for exactly that operator
(`CompareOp::X` / `Operator::X`) whose text the lexer reads as one token of the row's type: what is written for an
operator is read back as that operator. -/
theorem renderer_operators_are_table_tokens (row : Gen.PrecRow) (hr : row ∈ Gen.prec) :
    ∃ l ∈ Gen.renderLits, l.1 = "arm" ∧ l.2.1 = row.opEnum ++ "::" ++ row.op ∧ lexesAs l.2.2 row.token = true := by
  have h := List.all_eq_true.mp operatorsOk_true row hr
  obtain ⟨l, hl, h⟩ := List.any_eq_true.mp h
  simp only [Bool.and_eq_true, beq_iff_eq] at h
  exact ⟨l, hl, h.1.1, h.1.2, h.2⟩

open RenderWords in
/-- `-` and `NOT`, the texts of the arms for the unary operators, lex to the tokens the unary rule reads -/
theorem renderer_unary_operators :
    (∃ l ∈ Gen.renderLits, l.1 = "arm" ∧ l.2.1 = "UnaryOp::Neg" ∧ lexesAs l.2.2 "Minus" = true) ∧
    (∃ l ∈ Gen.renderLits, l.1 = "arm" ∧ l.2.1 = "UnaryOp::Not" ∧ lexesAs l.2.2 "Not" = true) := by
  have h := unaryOk_true
  simp only [unaryOk, Bool.and_eq_true] at h
  obtain ⟨h1, h2⟩ := h
  obtain ⟨l1, hl1, h1⟩ := List.any_eq_true.mp h1
  obtain ⟨l2, hl2, h2⟩ := List.any_eq_true.mp h2
  simp only [Bool.and_eq_true, beq_iff_eq] at h1 h2
  exact ⟨⟨l1, hl1, h1.1.1, h1.1.2, h1.2⟩, ⟨l2, hl2, h2.1.1, h2.1.2, h2.2⟩⟩

open RenderWords in
/-- Everything renderer.rs passes to `write` / `write_ws` as a literal is text the lexer reads without a lexical error. -/
theorem renderer_direct_literals_lex (l : String × String × String) (hl : l ∈ Gen.renderLits) (hd : l.1 ≠ "arm") :
    (lexItems l.2.2.toList).isEmpty = false ∧ ∀ i ∈ lexItems l.2.2.toList, i.err = false := by
  have h := List.all_eq_true.mp directOk_true l hl
  simp only [Bool.or_eq_true, beq_iff_eq, Bool.and_eq_true, Bool.not_eq_true', List.all_eq_true] at h
  rcases h with h | h
  · exact absurd h hd
  · exact ⟨h.1, h.2⟩

/-- non-vacuity: `END_IF`, `PRIORITY` and `=>`-free operator `<=` are in the table with the shapes the theorems speak of -/
example : ("write_ws", "", "END_IF") ∈ Gen.renderLits ∧ RenderWords.kwShaped "END_IF" = true ∧
    ("arm", "CompareOp::LtEq", "<=") ∈ Gen.renderLits := by decide +kernel

end C10
