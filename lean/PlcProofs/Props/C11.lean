import PlcProofs.Lemmas.Lsp

/-!
# C11 — LSP diagnostics depend only on current document contents

Model: `PlcModel/Lsp.lean`.  A `publish u ver snapshot` output stands for the
publishDiagnostics notification whose diagnostics are `filter u (semantic snapshot)`: a function of
the document store snapshot and the uri, so equal snapshots mean equal diagnostics.
The equality with `ironplcc check` (same `semantic` function on the same file contents) is
established by the correspondence check on the implementation, not in Lean.
-/

namespace C11

/-- Every didOpen / didChange is answered by exactly one publishDiagnostics for that document,
carrying the notification's version, in order; nothing else is published. -/
theorem one_publish_per_edit (body : List Msg) (hb : ∀ m ∈ body, isCtl m = false) (sid : Nat) :
    publishes (run (body ++ [.shutdown sid, .exit])).outs = edits body := by
  simp only [run, runFrom_body body _ hb, runFrom, List.nil_append]
  rw [publishes_append, publishes_stepAll body hb]
  simp [publishes]

/-- The store after any history holds, for every file, the last text written to it. -/
theorem store_is_last_write (body : List Msg) (k : Nat) :
    getDoc (stepAll [] body).1 k = lastWrite k body none :=
  getDoc_stepAll body k []

/-- History independence: two histories that leave every file with the same last-written text
leave the server in the *same* store, hence any further message produces the same outputs
(same publishDiagnostics content, same semantic tokens). -/
theorem history_independence (h1 h2 : List Msg)
    (hsame : ∀ k, lastWrite k h1 none = lastWrite k h2 none) (m : Msg) :
    (stepAll [] h1).1 = (stepAll [] h2).1 ∧
    (step (stepAll [] h1).1 m).2 = (step (stepAll [] h2).1 m).2 := by
  have e : (stepAll [] h1).1 = (stepAll [] h2).1 := by
    apply store_ext
    · exact strictSorted_stepAll h1 [] trivial
    · exact strictSorted_stepAll h2 [] trivial
    · intro k; rw [store_is_last_write, store_is_last_write, hsame]
  exact ⟨e, by rw [e]⟩

/-- The snapshot a publish is computed from is the store *after* applying the edit
(a stale cache would publish the previous snapshot). -/
theorem publish_uses_new_contents (st : Store) (k : Nat) (v : Int) (t : List Char) :
    (step st (.didOpen (.file k) v t)).2 = [.publish (.file k) v (setDoc st k t)] ∧
    getDoc (setDoc st k t) k = some t := by
  refine ⟨rfl, ?_⟩
  rw [getDoc_setDoc]; simp

/-- In particular: opening the documents of the current store in a fresh server, the edited
document last, reproduces the snapshot — the comparison the property prescribes. -/
theorem fresh_server_equiv (h : List Msg) (canon : List Msg)
    (hc : ∀ k, lastWrite k canon none = lastWrite k h none) :
    (stepAll [] canon).1 = (stepAll [] h).1 :=
  (history_independence canon h hc .exit).1

/-! ### non-vacuity -/

example : (stepAll [] [.didOpen (.file 1) 1 ['a'], .didOpen (.file 0) 1 ['b'], .didChange (.file 1) 2 [['x'], ['c']],
      .didChange (.file 0) 3 [], .didOpen (.other 0) 1 ['z']]).1 = [(0, ['b']), (1, ['c'])] := by decide

example : (stepAll [] [.didOpen (.file 0) 7 ['b'], .didOpen (.file 1) 9 ['c']]).1 = [(0, ['b']), (1, ['c'])] := by decide

end C11
