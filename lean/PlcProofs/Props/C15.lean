import PlcProofs.Lemmas.Lex
import PlcProofs.Lemmas.SemTok

/-!
# C15 — semantic tokens decode to exactly the highlighted lexemes of the document

Model: `PlcModel/SemTok.lean` (`LspProject::tokenize`, `to_relative_positions`) over M-Lex and
the generated legend table `Gen/Legend.lean`.
-/

namespace C15

/-- Decoding (LSP rule) inverts the encoding on every position-sorted token list. -/
theorem rel_roundtrip (pl pc : Nat) (ts : List AbsTok) (h : SortedFrom pl pc ts) :
    decodeRel pl pc (encodeRel pl pc ts) = ts :=
  decode_encode pl pc ts h

/-- The highlighted lexemes of any text come out strictly increasing and non-overlapping
(each starts at or after the position where the previous one ended), so the encoding is
invertible on them. -/
theorem highlight_sorted (s : List Char) :
    SortedFrom 0 0 (highlight (lexItems s)) :=
  highlight_lexItems_sorted s

/-- Synthetic semicolons never become semantic tokens (table fact: `Semicolon ↦ None`),
so the response is computed from the real lexemes only. -/
theorem synthetic_not_highlighted (items : List Item) :
    highlight (insertSemis items) = highlight items :=
  highlight_insertSemis (by decide) items false

/-- Main statement: for a document without lexical errors the response decodes, under the LSP
relative encoding, to exactly the highlighted lexemes: one entry per token that has a legend class,
carrying that token's line, column, byte length and legend index, in source order. -/
theorem semtok_decodes (doc : List Char) (h : (tokenizeProgram doc).any (·.err) = false) :
    ∃ d, semTokens doc = some d ∧
      decodeRel 0 0 d = highlight (lexItems (preprocess doc)) ∧
      SortedFrom 0 0 (highlight (lexItems (preprocess doc))) := by
  refine ⟨encodeRel 0 0 (highlight (tokenizeProgram doc)), ?_, ?_, highlight_sorted _⟩
  · simp [semTokens, h]
  · have e : highlight (tokenizeProgram doc) = highlight (lexItems (preprocess doc)) :=
      synthetic_not_highlighted _
    rw [e]
    exact rel_roundtrip 0 0 _ (highlight_sorted _)

/-- every decoded entry is one lexeme of the token stream, with that lexeme's position, length
and the legend entry of its token type -/
theorem highlighted_is_lexeme (s : List Char) (t : AbsTok) (h : t ∈ highlight (lexItems s)) :
    ∃ it ∈ lexItems s, it.err = false ∧ legendOf it.ty = some t.ty ∧
      t.line = it.line ∧ t.col = it.col ∧ t.len = utf8Len it.text := by
  simp only [highlight, List.mem_filterMap] at h
  obtain ⟨it, hit, hm⟩ := h
  refine ⟨it, hit, ?_⟩
  by_cases he : it.err = true
  · simp [hl1, he] at hm
  · have he' : it.err = false := by simpa using he
    simp only [hl1, he', Bool.false_eq_true, if_false, Option.map_eq_some_iff] at hm
    obtain ⟨i, hi, rfl⟩ := hm
    exact ⟨he', hi, rfl, rfl, rfl⟩

/-- A document containing text that is not a valid token yields null, never a partial list. -/
theorem null_on_lex_error (doc : List Char) (h : ∃ it ∈ tokenizeProgram doc, it.err = true) :
    semTokens doc = none := by
  obtain ⟨it, hit, he⟩ := h
  have : (tokenizeProgram doc).any (·.err) = true := List.any_eq_true.mpr ⟨it, hit, he⟩
  simp [semTokens, this]

/-- The legend entry of every token type matches the lexeme's class (over the generated tables
`Gen.legendMap`, `Gen.legend`, `Gen.table`). -/
theorem legend_sound : legendSoundB = true := by decide +kernel

/-! ### non-vacuity -/

example : semTokens "PROGRAM p (* c *) VAR\n a : BOOL; END_VAR".toList =
    some [0,0,7,1,0, 0,8,1,0,0, 0,2,7,3,0, 0,8,3,1,0, 1,1,1,0,0, 0,4,4,1,0, 0,6,7,1,0] := by decide +kernel

example : semTokens "x ? y".toList = none := by decide +kernel

end C15
