import PlcProofs.Lemmas.Analyze
import PlcProofs.Lemmas.Stages

/-!
# C02 — the check verdict agrees with the documented semantic rules, in both directions

Model: `PlcModel/Analyze.lean`.  For each documented rule the theorem says that its problem code
is among the reported codes exactly when some site of the unit violates the rule as documented
(`code ∈ flatten` = the rule fires; a rule's group list is empty = the rule is silent), for units
of any size (`struct_rule` … `stdlib_rule`; `fb_call_rule` with `call_resolved` / `call_unresolved` for the five codes
of the call rule and the documented order of its checks; `const_init_rule`; `enum_use_rule`) — every one of the eleven
rules of `stages.rs` has its statement.  The pipeline theorems say when the whole analysis succeeds.
Sites are given as membership in the declaration list, so every statement is about all
declarations, all variables and all statements of a unit.
-/

namespace C02

/-- P0003 is reported exactly when some structure has two elements with the same name. -/
theorem struct_rule (ds : List ADecl) :
    P0003 ∈ (ruleStruct ds).flatten ↔ ∃ n es, ADecl.structT n es ∈ ds ∧ ¬ (es.map (·.1)).Nodup := by
  simp only [ruleStruct, mem_grp_flatten, List.mem_filterMap]
  constructor
  · rintro ⟨d, hd, h⟩
    cases d <;> simp at h
    rename_i n es
    exact ⟨n, es, hd, (hasDup_iff _).mp h⟩
  · rintro ⟨n, es, hd, h⟩
    exact ⟨_, hd, by simp [(hasDup_iff _).mpr h]⟩

/-- … and the rule reports nothing else. -/
theorem struct_rule_only (ds : List ADecl) (c : Nat) (h : c ∈ (ruleStruct ds).flatten) : c = P0003 := by
  simp only [ruleStruct, mem_grp_flatten, List.mem_filterMap] at h
  obtain ⟨d, _, h⟩ := h
  cases d <;> simp at h
  exact h.2.symm

/-- P0004 is reported exactly when some subrange declaration has a minimum that is not below its maximum. -/
theorem subrange_rule (ds : List ADecl) :
    P0004 ∈ (ruleSubrange ds).flatten ↔ ∃ n lo hi, ADecl.subrangeT n lo hi ∈ ds ∧ ¬ lo < hi := by
  simp only [ruleSubrange, mem_grp_flatten, List.mem_filterMap]
  constructor
  · rintro ⟨d, hd, h⟩
    cases d <;> simp at h
    rename_i n lo hi
    exact ⟨n, lo, hi, hd, by omega⟩
  · rintro ⟨n, lo, hi, hd, h⟩
    exact ⟨_, hd, by simp; omega⟩

/-- P0005 is reported exactly when some enumeration declaration lists a value twice. -/
theorem enum_unique_rule (ds : List ADecl) :
    P0005 ∈ (ruleEnumUnique ds).flatten ↔ ∃ n vs d, ADecl.enumT n vs d ∈ ds ∧ ¬ vs.Nodup := by
  simp only [ruleEnumUnique, mem_grp_flatten, List.mem_filterMap]
  constructor
  · rintro ⟨d, hd, h⟩
    cases d <;> simp at h
    rename_i n vs dflt
    exact ⟨n, vs, dflt, hd, (hasDup_iff _).mp h⟩
  · rintro ⟨n, vs, dflt, hd, h⟩
    exact ⟨_, hd, by simp [(hasDup_iff _).mpr h]⟩

/-- P0011 is reported exactly when some program instance names a task its resource does not define. -/
theorem task_rule (ds : List ADecl) :
    P0011 ∈ (ruleTask ds).flatten ↔
      ∃ n gs tasks progs p t, ADecl.config n gs tasks progs ∈ ds ∧ p ∈ progs ∧ p.task = some t ∧ t ∉ tasks := by
  simp only [ruleTask, mem_grp_flatten, List.mem_flatMap]
  constructor
  · rintro ⟨d, hd, h⟩
    cases d <;> simp at h
    rename_i n gs tasks progs
    obtain ⟨p, hp, h⟩ := h
    cases ht : p.task with
    | none => simp [ht] at h
    | some t =>
      simp only [ht] at h
      by_cases hc : t ∈ tasks
      · simp [hc] at h
      · exact ⟨n, gs, tasks, progs, p, t, hd, hp, ht, hc⟩
  · rintro ⟨n, gs, tasks, progs, p, t, hd, hp, ht, hnt⟩
    refine ⟨_, hd, ?_⟩
    simp only [List.mem_filterMap]
    refine ⟨p, hp, ?_⟩
    simp [ht, hnt]

/-- P0015 is reported exactly when some POU uses a variable that is neither its own name nor one
of its declared variables — in an assignment target, an expression, or a call argument, at any
statement nesting depth. -/
theorem var_use_rule (ds : List ADecl) :
    P0015 ∈ (ruleVarUse ds).flatten ↔
      ∃ d ∈ ds, d.isPou = true ∧ ∃ s ∈ d.body, ∃ r ∈ s.varRefs, r ≠ d.name ∧ ∀ v ∈ d.vars, v.name ≠ r := by
  simp only [ruleVarUse, mem_grp_flatten, List.mem_flatMap]
  constructor
  · rintro ⟨d, hd, h⟩
    by_cases hp : d.isPou = true
    · simp only [hp, if_true, List.mem_filterMap, List.mem_flatMap] at h
      obtain ⟨r, ⟨s, hs, hr⟩, h⟩ := h
      by_cases hc : (r == d.name || d.vars.any (·.name == r)) = true
      · simp [hc] at h
      · simp only [Bool.or_eq_true, beq_iff_eq, List.any_eq_true, not_or, not_exists, not_and] at hc
        exact ⟨d, hd, hp, s, hs, r, hr, hc.1, fun v hv e => hc.2 v hv e⟩
    · simp [hp] at h
  · rintro ⟨d, hd, hp, s, hs, r, hr, hne, hv⟩
    refine ⟨d, hd, ?_⟩
    simp only [hp, if_true, List.mem_filterMap, List.mem_flatMap]
    refine ⟨r, ⟨s, hs, hr⟩, ?_⟩
    have : (r == d.name || d.vars.any (·.name == r)) = false := by
      simp only [Bool.or_eq_false_iff, beq_eq_false_iff_ne, ne_eq, List.any_eq_false, beq_iff_eq]
      exact ⟨hne, fun v hv' => hv v hv'⟩
    simp [this]

/-- P0017 is reported exactly when some CONSTANT variable is a function block instance. -/
theorem const_fb_rule (ds : List ADecl) :
    P0017 ∈ (ruleConstFb ds).flatten ↔ ∃ d ∈ ds, ∃ v ∈ d.vars, v.const = true ∧ isFbVar ds v = true := by
  simp only [ruleConstFb, mem_grp_flatten, List.mem_flatMap, List.mem_filterMap]
  constructor
  · rintro ⟨d, hd, v, hv, h⟩
    by_cases hc : (v.const && isFbVar ds v) = true
    · simp only [Bool.and_eq_true] at hc; exact ⟨d, hd, v, hv, hc.1, hc.2⟩
    · simp [hc] at h
  · rintro ⟨d, hd, v, hv, h1, h2⟩
    exact ⟨d, hd, v, hv, by simp [h1, h2]⟩

/-- P0018 is reported exactly when a non-constant VAR_EXTERNAL has the name of a constant VAR_GLOBAL. -/
theorem external_const_rule (ds : List ADecl) :
    P0018 ∈ (ruleExternalConst ds).flatten ↔
      ∃ d ∈ ds, ∃ v ∈ d.vars, v.cls = .external ∧ v.const = false ∧
        ∃ g ∈ ds, ∃ w ∈ g.vars, w.const = true ∧ w.cls = .global ∧ w.name = v.name := by
  simp only [ruleExternalConst, mem_grp_flatten, List.mem_flatMap, List.mem_filterMap]
  constructor
  · rintro ⟨d, hd, v, hv, h⟩
    split at h
    · rename_i hc
      simp only [Bool.and_eq_true, beq_iff_eq, Bool.not_eq_true', List.contains_iff_mem,
        List.mem_flatMap, List.mem_map, List.mem_filter] at hc
      obtain ⟨⟨h1, h2⟩, g, hg, w, ⟨hw, hwc⟩, hwn⟩ := hc
      exact ⟨d, hd, v, hv, h1, h2, g, hg, w, hw, hwc.1, hwc.2, hwn⟩
    · simp at h
  · rintro ⟨d, hd, v, hv, h1, h2, g, hg, w, hw, hwc, hwg, hwn⟩
    refine ⟨d, hd, v, hv, ?_⟩
    rw [if_pos]
    simp only [Bool.and_eq_true, beq_iff_eq, Bool.not_eq_true', List.contains_iff_mem,
      List.mem_flatMap, List.mem_map, List.mem_filter]
    exact ⟨⟨h1, h2⟩, g, hg, w, ⟨hw, hwc, hwg⟩, hwn⟩

/-- P0029 is reported exactly when some variable is an instance of a standard function block the
analyzer does not implement. -/
theorem stdlib_rule (ds : List ADecl) :
    P0029 ∈ (ruleStdlib ds).flatten ↔ ∃ d ∈ ds, ∃ v ∈ d.vars, ∃ t, v.refEdge = some t ∧ isUnsupportedStd t = true := by
  simp only [ruleStdlib, mem_grp_flatten, List.mem_flatMap, List.mem_filterMap]
  constructor
  · rintro ⟨d, hd, v, hv, h⟩
    cases hr : v.refEdge with
    | none => simp [hr] at h
    | some t =>
      simp only [hr] at h
      by_cases hu : isUnsupportedStd t = true
      · exact ⟨d, hd, v, hv, t, hr, hu⟩
      · simp [hu] at h
  · rintro ⟨d, hd, v, hv, t, hr, hu⟩
    exact ⟨d, hd, v, hv, by simp [hr, hu]⟩

/-! ### the function block call rule (P0006–P0009, P0021), site by site -/

/-- the call `inst(…)` in POU `d` resolves to the function block declaration `callee`: `inst` is a variable of `d`
that is a function block instance, and its type names a function block of the unit -/
def Resolves (ds : List ADecl) (d : ADecl) (inst : Nat) (callee : ADecl) : Prop :=
  ∃ v, d.vars.find? (fun v => v.name == inst && isFbVar ds v) = some v ∧ v.refEdge.bind (findFb ds) = some callee

/-- P0021: the instance does not resolve -/
theorem call_unresolved (ds : List ADecl) (d : ADecl) (i : Nat) (f : List (Nat × Nat)) (p : List Nat) (o : List (Nat × Nat))
    (h : ¬ ∃ callee, Resolves ds d i callee) : callCode ds d i f p o = some P0021 := by
  unfold callCode
  cases hv : d.vars.find? (fun v => v.name == i && isFbVar ds v) with
  | none => rfl
  | some v =>
    cases hc : v.refEdge.bind (findFb ds) with
    | none => simp [hc]
    | some callee => exact absurd ⟨callee, v, hv, hc⟩ h

/-- formal and positional arguments in one call -/
def CallMixed (f : List (Nat × Nat)) (p : List Nat) : Prop := f ≠ [] ∧ p ≠ []
/-- the callee has a variable called `n` in a block of one of the classes `cls` -/
def NamesVar (callee : ADecl) (cls : List VCls) (n : Nat) : Prop := ∃ x ∈ callee.vars, x.cls ∈ cls ∧ x.name = n
/-- some formal argument names no VAR_INPUT / VAR_IN_OUT variable of the callee -/
def BadFormal (callee : ADecl) (f : List (Nat × Nat)) : Prop := ∃ a ∈ f, ¬ NamesVar callee [.input, .inout] a.1
/-- positional arguments, but not as many as the callee has VAR_INPUT variables -/
def BadCount (callee : ADecl) (p : List Nat) : Prop := p ≠ [] ∧ p.length ≠ (callee.vars.filter (·.cls == .input)).length
/-- some output assignment names no VAR_OUTPUT variable of the callee -/
def BadOut (callee : ADecl) (o : List (Nat × Nat)) : Prop := ∃ a ∈ o, ¬ NamesVar callee [.output] a.1

theorem first_of_four (b1 b2 b3 b4 : Bool) (Q1 Q2 Q3 Q4 : Prop)
    (h1 : b1 = true ↔ Q1) (h2 : b2 = true ↔ Q2) (h3 : b3 = true ↔ Q3) (h4 : b4 = true ↔ Q4) (r : Option Nat)
    (hr : r = if b1 = true then some P0006 else if b2 = true then some P0007 else if b3 = true then some P0008
              else if b4 = true then some P0009 else none) :
    (r = some P0006 ↔ Q1) ∧ (r = some P0007 ↔ ¬ Q1 ∧ Q2) ∧ (r = some P0008 ↔ ¬ Q1 ∧ ¬ Q2 ∧ Q3) ∧
    (r = some P0009 ↔ ¬ Q1 ∧ ¬ Q2 ∧ ¬ Q3 ∧ Q4) ∧ (r = none ↔ ¬ Q1 ∧ ¬ Q2 ∧ ¬ Q3 ∧ ¬ Q4) := by
  subst hr
  cases b1 <;> cases b2 <;> cases b3 <;> cases b4 <;> simp_all [P0006, P0007, P0008, P0009]

/-- the documented order of the checks on a call that resolves: mixing formal and positional arguments (P0006), a formal
argument that names no input or in-out variable of the callee (P0007), a positional list whose length is not the
number of inputs (P0008), an output assignment that names no output of the callee (P0009) — the first that applies is
reported, and nothing is reported exactly when none applies. -/
theorem call_resolved (ds : List ADecl) (d : ADecl) (i : Nat) (f : List (Nat × Nat)) (p : List Nat) (o : List (Nat × Nat))
    (callee : ADecl) (h : Resolves ds d i callee) :
    (callCode ds d i f p o = some P0006 ↔ CallMixed f p) ∧
    (callCode ds d i f p o = some P0007 ↔ ¬ CallMixed f p ∧ BadFormal callee f) ∧
    (callCode ds d i f p o = some P0008 ↔ ¬ CallMixed f p ∧ ¬ BadFormal callee f ∧ BadCount callee p) ∧
    (callCode ds d i f p o = some P0009 ↔ ¬ CallMixed f p ∧ ¬ BadFormal callee f ∧ ¬ BadCount callee p ∧ BadOut callee o) ∧
    (callCode ds d i f p o = none ↔ ¬ CallMixed f p ∧ ¬ BadFormal callee f ∧ ¬ BadCount callee p ∧ ¬ BadOut callee o) := by
  obtain ⟨v, hv, hc⟩ := h
  have hmixed : (!f.isEmpty && !p.isEmpty) = true ↔ CallMixed f p := by
    simp only [Bool.and_eq_true, Bool.not_eq_true', List.isEmpty_eq_false_iff]; exact Iff.rfl
  have hformal : (f.any fun a => !((callee.vars.filter fun x => x.cls == .input || x.cls == .inout).any (·.name == a.1))) = true
      ↔ BadFormal callee f := by
    simp only [List.any_eq_true, Bool.not_eq_true', List.any_eq_false, List.mem_filter, beq_iff_eq, Bool.or_eq_true,
      BadFormal, NamesVar, List.mem_cons, List.not_mem_nil, or_false]
    constructor
    · rintro ⟨a, ha, hn⟩
      refine ⟨a, ha, ?_⟩
      rintro ⟨x, hx, hcls, hname⟩
      exact hn x ⟨hx, hcls⟩ hname
    · rintro ⟨a, ha, hn⟩
      exact ⟨a, ha, fun x hx hname => hn ⟨x, hx.1, hx.2, hname⟩⟩
  have hcount : (!p.isEmpty && p.length != (callee.vars.filter (·.cls == .input)).length) = true ↔ BadCount callee p := by
    simp only [Bool.and_eq_true, Bool.not_eq_true', List.isEmpty_eq_false_iff, bne_iff_ne]; exact Iff.rfl
  have hout : (o.any fun a => !((callee.vars.filter (·.cls == .output)).any (·.name == a.1))) = true ↔ BadOut callee o := by
    simp only [List.any_eq_true, Bool.not_eq_true', List.any_eq_false, List.mem_filter, beq_iff_eq,
      BadOut, NamesVar, List.mem_cons, List.not_mem_nil, or_false]
    constructor
    · rintro ⟨a, ha, hn⟩
      refine ⟨a, ha, ?_⟩
      rintro ⟨x, hx, hcls, hname⟩
      exact hn x ⟨hx, hcls⟩ hname
    · rintro ⟨a, ha, hn⟩
      exact ⟨a, ha, fun x hx hname => hn ⟨x, hx.1, hx.2, hname⟩⟩
  refine first_of_four _ _ _ _ _ _ _ _ hmixed hformal hcount hout _ ?_
  unfold callCode
  simp only [hv, hc]

/-- A call-rule code is reported exactly when some call statement of some POU of the unit gets it. -/
theorem fb_call_rule (ds : List ADecl) (c : Nat) :
    c ∈ (ruleFbCall ds).flatten ↔
      ∃ d ∈ ds, d.isPou = true ∧ ∃ i f p o, AStmt.call i f p o ∈ d.body ∧ callCode ds d i f p o = some c := by
  simp only [ruleFbCall, mem_grp_flatten, List.mem_flatMap, List.mem_filterMap]
  constructor
  · rintro ⟨d, hd, s, hs, h⟩
    cases s with
    | assign t r => simp at h
    | call i f p o =>
      by_cases hp : d.isPou = true
      · simp only [hp, if_true] at h
        exact ⟨d, hd, hp, i, f, p, o, hs, h⟩
      · simp [hp] at h
  · rintro ⟨d, hd, hp, i, f, p, o, hs, h⟩
    exact ⟨d, hd, _, hs, by simp [hp, h]⟩

/-! ### constants are initialised (P0016) -/

/-- a CONSTANT variable (not VAR_EXTERNAL) that is a function block instance or a structure: the rule cannot judge it -/
def ConstOfUnjudgedType (ds : List ADecl) : Prop :=
  ∃ d ∈ ds, ∃ v ∈ d.vars, v.const = true ∧ v.cls ≠ .external ∧ (isFbVar ds v = true ∨ isStructVar ds v = true)

/-- P0016 is reported exactly when some CONSTANT variable outside VAR_EXTERNAL has no initial value — unless the unit
holds a constant the rule cannot judge, in which case the rule reports P9999 and nothing else. -/
theorem const_init_rule (ds : List ADecl) :
    (P0016 ∈ (ruleConstInit ds).flatten ↔
      ¬ ConstOfUnjudgedType ds ∧
      ∃ d ∈ ds, ∃ v ∈ d.vars, v.const = true ∧ v.cls ≠ .external ∧ v.init = none) ∧
    (P9999 ∈ (ruleConstInit ds).flatten ↔ ConstOfUnjudgedType ds) := by
  have hsites : ∀ c, c ∈ (ds.flatMap fun d => d.vars.filterMap fun v =>
        if v.const && v.cls != .external then
          if isFbVar ds v || isStructVar ds v then some P9999
          else if v.init.isNone then some P0016 else none
        else none) ↔
      ∃ d ∈ ds, ∃ v ∈ d.vars, v.const = true ∧ v.cls ≠ .external ∧
        ((isFbVar ds v = true ∨ isStructVar ds v = true) ∧ c = P9999 ∨
         (¬ (isFbVar ds v = true ∨ isStructVar ds v = true) ∧ v.init = none ∧ c = P0016)) := by
    intro c
    simp only [List.mem_flatMap, List.mem_filterMap]
    constructor
    · rintro ⟨d, hd, v, hv, h⟩
      by_cases h1 : (v.const && v.cls != .external) = true
      · simp only [h1, if_true] at h
        simp only [Bool.and_eq_true, bne_iff_ne] at h1
        by_cases h2 : (isFbVar ds v || isStructVar ds v) = true
        · simp only [h2, if_true, Option.some.injEq] at h
          simp only [Bool.or_eq_true] at h2
          exact ⟨d, hd, v, hv, h1.1, h1.2, Or.inl ⟨h2, h.symm⟩⟩
        · have h2' : (isFbVar ds v || isStructVar ds v) = false := by
            cases hh : (isFbVar ds v || isStructVar ds v) with
            | false => rfl
            | true => exact absurd hh h2
          simp only [h2', Bool.false_eq_true, if_false] at h
          simp only [Bool.or_eq_true] at h2
          by_cases h3 : v.init.isNone = true
          · simp only [h3, if_true, Option.some.injEq] at h
            exact ⟨d, hd, v, hv, h1.1, h1.2, Or.inr ⟨h2, Option.isNone_iff_eq_none.mp h3, h.symm⟩⟩
          · simp [h3] at h
      · simp [h1] at h
    · rintro ⟨d, hd, v, hv, hc, hx, h⟩
      refine ⟨d, hd, v, hv, ?_⟩
      have h1 : (v.const && v.cls != .external) = true := by simp [hc, hx]
      simp only [h1, if_true]
      rcases h with ⟨h2, rfl⟩ | ⟨h2, h3, rfl⟩
      · have : (isFbVar ds v || isStructVar ds v) = true := by simpa [Bool.or_eq_true] using h2
        simp [this]
      · have : (isFbVar ds v || isStructVar ds v) = false := by
          cases hh : (isFbVar ds v || isStructVar ds v) with
          | false => rfl
          | true => exact absurd (by simpa [Bool.or_eq_true] using hh) h2
        simp [this, h3]
  have h9 : (ds.flatMap fun d => d.vars.filterMap fun v =>
        if v.const && v.cls != .external then
          if isFbVar ds v || isStructVar ds v then some P9999
          else if v.init.isNone then some P0016 else none
        else none).contains P9999 = true ↔ ConstOfUnjudgedType ds := by
    rw [List.contains_iff_mem, hsites]
    constructor
    · rintro ⟨d, hd, v, hv, hc, hx, h⟩
      rcases h with ⟨h2, _⟩ | ⟨_, _, h⟩
      · exact ⟨d, hd, v, hv, hc, hx, h2⟩
      · exact absurd h (by decide)
    · rintro ⟨d, hd, v, hv, hc, hx, h2⟩
      exact ⟨d, hd, v, hv, hc, hx, Or.inl ⟨h2, rfl⟩⟩
  unfold ruleConstInit
  simp only
  by_cases hU : ConstOfUnjudgedType ds
  · have := h9.mpr hU
    simp only [this, if_true]
    constructor
    · constructor
      · intro h; simp [P0016, P9999] at h
      · intro h; exact absurd hU h.1
    · constructor
      · intro _; exact hU
      · intro _; simp
  · have : (ds.flatMap fun d => d.vars.filterMap fun v =>
        if v.const && v.cls != .external then
          if isFbVar ds v || isStructVar ds v then some P9999
          else if v.init.isNone then some P0016 else none
        else none).contains P9999 = false := by
      cases hh : (ds.flatMap fun d => d.vars.filterMap fun v =>
        if v.const && v.cls != .external then
          if isFbVar ds v || isStructVar ds v then some P9999
          else if v.init.isNone then some P0016 else none
        else none).contains P9999 with
      | false => rfl
      | true => exact absurd (h9.mp hh) hU
    simp only [this, Bool.false_eq_true, if_false, mem_grp_flatten, hsites]
    constructor
    · constructor
      · rintro ⟨d, hd, v, hv, hc, hx, h⟩
        rcases h with ⟨_, h⟩ | ⟨_, h3, _⟩
        · exact absurd h (by decide)
        · exact ⟨hU, d, hd, v, hv, hc, hx, h3⟩
      · rintro ⟨_, d, hd, v, hv, hc, hx, h3⟩
        refine ⟨d, hd, v, hv, hc, hx, Or.inr ⟨?_, h3, trivial⟩⟩
        intro h2
        exact hU ⟨d, hd, v, hv, hc, hx, h2⟩
    · constructor
      · rintro ⟨d, hd, v, hv, hc, hx, h⟩
        rcases h with ⟨h2, _⟩ | ⟨_, _, h⟩
        · exact absurd ⟨d, hd, v, hv, hc, hx, h2⟩ hU
        · exact absurd h (by decide)
      · intro h; exact absurd h hU

/-! ### enumeration values are values of their type (P0012, P0014) -/

/-- a site the rule looks at: an enumeration-typed variable, or a structure element with an initial value, of the
type named `t`; `x` is the initial value, if any -/
def EnumSite (ds : List ADecl) (t : Nat) (x : Option Nat) : Prop :=
  (∃ d ∈ ds, ∃ v ∈ d.vars, v.ty = .named t ∧ isEnumVar ds v = true ∧ v.init = x) ∨
  (∃ n es, ADecl.structT n es ∈ ds ∧ ∃ e ∈ es, e.2.1 = .named t ∧ e.2.2 = x ∧ x.isSome = true)

/-- P0012 is reported exactly when the type of some site is not an enumeration the unit declares (directly or through
aliases); P0014 exactly when some site's initial value is not among the values of its enumeration. -/
theorem enum_use_rule (ds : List ADecl) :
    (P0012 ∈ (ruleEnumUse ds).flatten ↔ ∃ t x, EnumSite ds t x ∧ enumValues ds (ds.length + 1) t = none) ∧
    (P0014 ∈ (ruleEnumUse ds).flatten ↔
      ∃ t x vs, EnumSite ds t (some x) ∧ enumValues ds (ds.length + 1) t = some vs ∧ x ∉ vs) := by
  have hvar : ∀ (c : Nat) (d : ADecl), c ∈ (d.vars.filterMap fun v =>
      match v.ty with
      | .named t =>
        if isEnumVar ds v then
          match enumValues ds (ds.length + 1) t with
          | none => some P0012
          | some vs => (match v.init with
              | some x => if vs.contains x then none else some P0014
              | none => none)
        else none
      | _ => none) ↔
      ∃ v ∈ d.vars, ∃ t, v.ty = .named t ∧ isEnumVar ds v = true ∧
        ((enumValues ds (ds.length + 1) t = none ∧ c = P0012) ∨
         (∃ vs x, enumValues ds (ds.length + 1) t = some vs ∧ v.init = some x ∧ x ∉ vs ∧ c = P0014)) := by
    intro c d
    simp only [List.mem_filterMap]
    constructor
    · rintro ⟨v, hv, h⟩
      cases hty : v.ty with
      | named t =>
        simp only [hty] at h
        by_cases he : isEnumVar ds v = true
        · simp only [he, if_true] at h
          cases hev : enumValues ds (ds.length + 1) t with
          | none =>
            simp only [hev, Option.some.injEq] at h
            exact ⟨v, hv, t, hty, he, Or.inl ⟨hev, h.symm⟩⟩
          | some vs =>
            simp only [hev] at h
            cases hi : v.init with
            | none => simp [hi] at h
            | some x =>
              simp only [hi] at h
              by_cases hm : x ∈ vs
              · simp [hm] at h
              · simp only [List.contains_iff_mem, hm, if_false, Option.some.injEq] at h
                exact ⟨v, hv, t, hty, he, Or.inr ⟨vs, x, hev, hi, hm, h.symm⟩⟩
        · simp [he] at h
      | bool => simp [hty] at h
      | int => simp [hty] at h
      | str => simp [hty] at h
    · rintro ⟨v, hv, t, hty, he, h⟩
      refine ⟨v, hv, ?_⟩
      simp only [hty, he, if_true]
      rcases h with ⟨hev, rfl⟩ | ⟨vs, x, hev, hi, hx, rfl⟩
      · simp [hev]
      · simp [hev, hi, hx]
  have hstruct : ∀ (c : Nat) (d : ADecl), c ∈ (match d with
        | .structT _ es => es.filterMap fun (e : Nat × Ty × Option Nat) =>
            match e.2.1, e.2.2 with
            | Ty.named t, some x =>
              (match enumValues ds (ds.length + 1) t with
                | none => some P0012
                | some vs => if vs.contains x then none else some P0014)
            | _, _ => none
        | _ => []) ↔
      ∃ n es, d = .structT n es ∧ ∃ e ∈ es, ∃ t x, e.2.1 = .named t ∧ e.2.2 = some x ∧
        ((enumValues ds (ds.length + 1) t = none ∧ c = P0012) ∨
         (∃ vs, enumValues ds (ds.length + 1) t = some vs ∧ x ∉ vs ∧ c = P0014)) := by
    intro c d
    cases d with
    | structT n es =>
      simp only [List.mem_filterMap]
      constructor
      · rintro ⟨e, he, h⟩
        cases hty : e.2.1 with
        | named t =>
          cases hx : e.2.2 with
          | none => simp [hty, hx] at h
          | some x =>
            simp only [hty, hx] at h
            cases hev : enumValues ds (ds.length + 1) t with
            | none =>
              simp only [hev, Option.some.injEq] at h
              exact ⟨n, es, rfl, e, he, t, x, hty, hx, Or.inl ⟨hev, h.symm⟩⟩
            | some vs =>
              simp only [hev] at h
              by_cases hm : x ∈ vs
              · simp [hm] at h
              · simp only [List.contains_iff_mem, hm, if_false, Option.some.injEq] at h
                exact ⟨n, es, rfl, e, he, t, x, hty, hx, Or.inr ⟨vs, hev, hm, h.symm⟩⟩
        | bool => simp [hty] at h
        | int => simp [hty] at h
        | str => simp [hty] at h
      · rintro ⟨n', es', heq, e, he, t, x, hty, hx, h⟩
        cases heq
        refine ⟨e, he, ?_⟩
        simp only [hty, hx]
        rcases h with ⟨hev, rfl⟩ | ⟨vs, hev, hxv, rfl⟩
        · simp [hev]
        · simp [hev, hxv]
    | _ => simp
  have hmem : ∀ c, c ∈ (ruleEnumUse ds).flatten ↔
      ∃ d ∈ ds,
        (∃ v ∈ d.vars, ∃ t, v.ty = .named t ∧ isEnumVar ds v = true ∧
          ((enumValues ds (ds.length + 1) t = none ∧ c = P0012) ∨
           (∃ vs x, enumValues ds (ds.length + 1) t = some vs ∧ v.init = some x ∧ x ∉ vs ∧ c = P0014))) ∨
        (∃ n es, d = .structT n es ∧ ∃ e ∈ es, ∃ t x, e.2.1 = .named t ∧ e.2.2 = some x ∧
          ((enumValues ds (ds.length + 1) t = none ∧ c = P0012) ∨
           (∃ vs, enumValues ds (ds.length + 1) t = some vs ∧ x ∉ vs ∧ c = P0014))) := by
    intro c
    simp only [ruleEnumUse, mem_grp_flatten, List.mem_flatMap, List.mem_append]
    constructor
    · rintro ⟨d, hd, h | h⟩
      · exact ⟨d, hd, Or.inl ((hvar c d).mp h)⟩
      · exact ⟨d, hd, Or.inr ((hstruct c d).mp h)⟩
    · rintro ⟨d, hd, h | h⟩
      · exact ⟨d, hd, Or.inl ((hvar c d).mpr h)⟩
      · exact ⟨d, hd, Or.inr ((hstruct c d).mpr h)⟩
  have h1214 : P0012 ≠ P0014 := by decide
  constructor
  · rw [hmem]
    constructor
    · rintro ⟨d, hd, h | h⟩
      · obtain ⟨v, hv, t, hty, he, h⟩ := h
        rcases h with ⟨hev, _⟩ | ⟨_, _, _, _, _, h⟩
        · exact ⟨t, v.init, Or.inl ⟨d, hd, v, hv, hty, he, rfl⟩, hev⟩
        · exact absurd h h1214
      · obtain ⟨n, es, rfl, e, he, t, x, hty, hx, h⟩ := h
        rcases h with ⟨hev, _⟩ | ⟨_, _, _, h⟩
        · exact ⟨t, some x, Or.inr ⟨n, es, hd, e, he, hty, hx, rfl⟩, hev⟩
        · exact absurd h h1214
    · rintro ⟨t, x, hs, hev⟩
      rcases hs with ⟨d, hd, v, hv, hty, he, _⟩ | ⟨n, es, hd, e, he, hty, hx, hsome⟩
      · exact ⟨d, hd, Or.inl ⟨v, hv, t, hty, he, Or.inl ⟨hev, rfl⟩⟩⟩
      · obtain ⟨y, rfl⟩ := Option.isSome_iff_exists.mp hsome
        exact ⟨_, hd, Or.inr ⟨n, es, rfl, e, he, t, y, hty, hx, Or.inl ⟨hev, rfl⟩⟩⟩
  · rw [hmem]
    constructor
    · rintro ⟨d, hd, h | h⟩
      · obtain ⟨v, hv, t, hty, he, h⟩ := h
        rcases h with ⟨_, h⟩ | ⟨vs, x, hev, hi, hx, _⟩
        · exact absurd h.symm h1214
        · exact ⟨t, x, vs, Or.inl ⟨d, hd, v, hv, hty, he, hi⟩, hev, hx⟩
      · obtain ⟨n, es, rfl, e, he, t, x, hty, hx, h⟩ := h
        rcases h with ⟨_, h⟩ | ⟨vs, hev, hxv, _⟩
        · exact absurd h.symm h1214
        · exact ⟨t, x, vs, Or.inr ⟨n, es, hd, e, he, hty, hx, rfl⟩, hev, hxv⟩
    · rintro ⟨t, x, vs, hs, hev, hxv⟩
      rcases hs with ⟨d, hd, v, hv, hty, he, hi⟩ | ⟨n, es, hd, e, he, hty, hx, _⟩
      · exact ⟨d, hd, Or.inl ⟨v, hv, t, hty, he, Or.inr ⟨vs, x, hev, hi, hxv, rfl⟩⟩⟩
      · exact ⟨_, hd, Or.inr ⟨n, es, rfl, e, he, t, x, hty, hx, Or.inr ⟨vs, hev, hxv, rfl⟩⟩⟩

/-- non-vacuity: `inst(nosuch := 0)` on an instance of a block with one input resolves and is a P0007 site; the same
call with an undeclared instance is a P0021 site -/
example :
    let ds : List ADecl := [.fb 1 [⟨10, .input, false, .int, none⟩] [],
      .prog 2 [⟨20, .var, false, .named 1, none⟩] [.call 20 [(11, 0)] [] [], .call 21 [] [] []]]
    ruleFbCall ds = [[P0007, P0021]] ∧ BadFormal (.fb 1 [⟨10, .input, false, .int, none⟩] []) [(11, 0)] := by
  refine ⟨by decide, (11, 0), List.mem_cons_self .., ?_⟩
  rintro ⟨x, hx, _, hn⟩
  simp only [ADecl.vars, List.mem_singleton] at hx
  subst hx
  cases hn

/-- non-vacuity: a CONSTANT without initial value is a P0016 site; an enumeration variable initialised with a value
that is not in its type is a P0014 site -/
example :
    ruleConstInit [.prog 2 [⟨20, .var, true, .int, none⟩] []] = [[P0016]] ∧
    ruleEnumUse [.enumT 5 [100, 101] none, .prog 2 [⟨20, .var, false, .named 5, some 102⟩] []] = [[P0014]] := by decide

/-- Pipeline, direction "accepted ⇒ satisfies": when the analysis succeeds, no stage objected and
every rule is silent. -/
theorem analyze_ok_iff (ds : List ADecl) :
    analyzeDecls ds = [] ↔
      (recursive ds = false ∧ dupCodes ds = [] ∧ aliasUnsupported ds = false ∧ exprUnsupported ds = false ∧
       typeFbClash ds = false ∧ typeInitUnsupported ds = false ∧ unknownTypes ds = [] ∧ rules ds = []) :=
  analyzeDecls_eq_nil_iff ds

/-- A unit that satisfies a collecting rule is never rejected with that rule's code: shown here for
the subrange rule (the others follow the same way from the `*_rule` theorems). -/
theorem no_spurious_P0004 (ds : List ADecl)
    (h : ∀ n lo hi, ADecl.subrangeT n lo hi ∈ ds → lo < hi) : P0004 ∉ (ruleSubrange ds).flatten := by
  rw [subrange_rule]
  rintro ⟨n, lo, hi, hd, hn⟩
  exact hn (h n lo hi hd)

/-- Single fault, direction "violates ⇒ code": when the unit gets as far as the rules (no earlier
stage aborts) and a subrange declaration violates its rule, P0004 is among the reported codes. -/
theorem single_fault_P0004 (ds : List ADecl) (hreach : analyzeDecls ds = rules ds)
    (n : Nat) (lo hi : Int) (hd : ADecl.subrangeT n lo hi ∈ ds) (hv : ¬ lo < hi) :
    P0004 ∈ (analyzeDecls ds).flatten := by
  rw [hreach, mem_rules_flatten]
  exact Or.inr (Or.inl ((subrange_rule ds).mpr ⟨n, lo, hi, hd, hv⟩))

/-! ### non-vacuity -/

example : semantic [⟨false, [.subrangeT 1 5 5, .structT 2 [(3, .int, none), (3, .bool, none)]]⟩] = [[P0003], [P0004]] := by decide
example : semantic [⟨false, [.subrangeT 1 1 5, .prog 2 [⟨3, .var, false, .int, none⟩] [.assign 3 [3]]]⟩] = [] := by decide
example : semantic [⟨false, [.prog 2 [⟨3, .var, false, .int, none⟩] [.assign 3 [4]]]⟩] = [[P0015]] := by decide


/-! ### the stage table and the code (`Gen/Stages.lean` is re-extracted from `stages.rs`, the stage modules and
`problem-codes.csv` on every run) -/

/-- The model runs the transforms of `resolve_types` and the rules of `semantic` that `stages.rs` lists, in
the order it lists them (a stage added, removed or moved in the code breaks this). -/
theorem stage_order_is_code :
    xformStages.map (·.name) = Gen.xforms ∧ ruleStages.map (·.name) = Gen.rules := by decide

/-- Running the stage table is the pipeline `analyzeDecls` that the other theorems are about. -/
theorem staged_pipeline (ds : List ADecl) : analyzeStaged ds = analyzeDecls ds :=
  Stages.analyzeStaged_eq ds

/-- The model lets a stage report only problem codes that the stage's Rust module names (`Problem::…` in its
non-test source; P9999 is `Diagnostic::todo`, which names no `Problem`), and for the rules every code the
module names is one the model's rule can report (except P0013, the enumeration rule's own recursion
answer, which the declaration sort pre-empts with P0010). -/
theorem stage_codes_are_code :
    (∀ s ∈ xformStages, ∀ c ∈ s.codes, c = P9999 ∨ c ∈ namedInSource s.name) ∧
    (∀ s ∈ ruleStages, ∀ c ∈ s.codes, c = P9999 ∨ c ∈ namedInSource s.name) ∧
    (∀ s ∈ ruleStages, ∀ c ∈ namedInSource s.name, c = 13 ∨ c ∈ s.codes) := by decide

/-- Every code in the stage table is a published problem code (`problem-codes.csv`). -/
theorem stage_codes_published :
    (∀ s ∈ xformStages, ∀ c ∈ s.codes, (Gen.problems.any (·.1 == c)) = true) ∧
    (∀ s ∈ ruleStages, ∀ c ∈ s.codes, (Gen.problems.any (·.1 == c)) = true) := by decide

/-- A rule reports only the codes of its table entry, whatever the unit ("a unit … is never rejected with
[another] rule's problem code" at the level of single rules). -/
theorem rule_reports_only_its_codes :
    ∀ s ∈ ruleStages, ∀ ds, ∀ g ∈ s.run ds, ∀ c ∈ g, c ∈ s.codes := by
  intro s hs ds
  simp only [ruleStages, List.mem_cons, List.mem_nil_iff, or_false] at hs
  rcases hs with rfl | rfl | rfl | rfl | rfl | rfl | rfl | rfl | rfl | rfl | rfl
  · exact Stages.ruleStruct_codes ds
  · exact Stages.ruleSubrange_codes ds
  · exact Stages.ruleEnumUnique_codes ds
  · exact Stages.ruleFbCall_codes ds
  · exact Stages.ruleTask_codes ds
  · exact Stages.ruleEnumUse_codes ds
  · exact Stages.ruleVarUse_codes ds
  · exact Stages.ruleStdlib_codes ds
  · exact Stages.ruleConstInit_codes ds
  · exact Stages.ruleConstFb_codes ds
  · exact Stages.ruleExternalConst_codes ds

/-- non-vacuity: a unit on which the third transform aborts and one that reaches the rules -/
example : analyzeStaged [.subrangeT 1 5 2] = [[P0004]] := by decide
example : analyzeStaged [.fb 1 [⟨2, .var, false, .named 1, none⟩] []] = [[P0010]] := by decide

end C02
