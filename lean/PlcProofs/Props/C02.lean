import PlcProofs.Lemmas.Analyze
import PlcProofs.Lemmas.Stages

/-!
# C02 — the check verdict agrees with the documented semantic rules, in both directions

Model: `PlcModel/Analyze.lean`.  For each documented rule the theorem says that its problem code
is among the reported codes exactly when some site of the unit violates the rule as documented
(`code ∈ flatten` = the rule fires; a rule's group list is empty = the rule is silent), for units
of any size.  The pipeline theorems say when the whole analysis succeeds.
Sites are given as membership in the declaration list, so every statement is about all
declarations, all variables and all statements of a unit.
-/

namespace C02

/-- P0003 is reported exactly when some structure has two elements with the same name. -/
theorem struct_rule (ds : List ADecl) :
    P0003 ∈ (ruleStruct ds).flatten ↔ ∃ n es, ADecl.structT n es ∈ ds ∧ ¬ (es.map (·.1)).Nodup := by
  simp only [ruleStruct, mem_grp_flatten, List.mem_filterMap]
  constructor
  · rintro ⟨d, hd, h⟩
    cases d <;> simp at h
    rename_i n es
    exact ⟨n, es, hd, (hasDup_iff _).mp h⟩
  · rintro ⟨n, es, hd, h⟩
    exact ⟨_, hd, by simp [(hasDup_iff _).mpr h]⟩

/-- … and the rule reports nothing else. -/
theorem struct_rule_only (ds : List ADecl) (c : Nat) (h : c ∈ (ruleStruct ds).flatten) : c = P0003 := by
  simp only [ruleStruct, mem_grp_flatten, List.mem_filterMap] at h
  obtain ⟨d, _, h⟩ := h
  cases d <;> simp at h
  exact h.2.symm

/-- P0004 is reported exactly when some subrange declaration has a minimum that is not below its maximum. -/
theorem subrange_rule (ds : List ADecl) :
    P0004 ∈ (ruleSubrange ds).flatten ↔ ∃ n lo hi, ADecl.subrangeT n lo hi ∈ ds ∧ ¬ lo < hi := by
  simp only [ruleSubrange, mem_grp_flatten, List.mem_filterMap]
  constructor
  · rintro ⟨d, hd, h⟩
    cases d <;> simp at h
    rename_i n lo hi
    exact ⟨n, lo, hi, hd, by omega⟩
  · rintro ⟨n, lo, hi, hd, h⟩
    exact ⟨_, hd, by simp; omega⟩

/-- P0005 is reported exactly when some enumeration declaration lists a value twice. -/
theorem enum_unique_rule (ds : List ADecl) :
    P0005 ∈ (ruleEnumUnique ds).flatten ↔ ∃ n vs d, ADecl.enumT n vs d ∈ ds ∧ ¬ vs.Nodup := by
  simp only [ruleEnumUnique, mem_grp_flatten, List.mem_filterMap]
  constructor
  · rintro ⟨d, hd, h⟩
    cases d <;> simp at h
    rename_i n vs dflt
    exact ⟨n, vs, dflt, hd, (hasDup_iff _).mp h⟩
  · rintro ⟨n, vs, dflt, hd, h⟩
    exact ⟨_, hd, by simp [(hasDup_iff _).mpr h]⟩

/-- P0011 is reported exactly when some program instance names a task its resource does not define. -/
theorem task_rule (ds : List ADecl) :
    P0011 ∈ (ruleTask ds).flatten ↔
      ∃ n gs tasks progs p t, ADecl.config n gs tasks progs ∈ ds ∧ p ∈ progs ∧ p.task = some t ∧ t ∉ tasks := by
  simp only [ruleTask, mem_grp_flatten, List.mem_flatMap]
  constructor
  · rintro ⟨d, hd, h⟩
    cases d <;> simp at h
    rename_i n gs tasks progs
    obtain ⟨p, hp, h⟩ := h
    cases ht : p.task with
    | none => simp [ht] at h
    | some t =>
      simp only [ht] at h
      by_cases hc : t ∈ tasks
      · simp [hc] at h
      · exact ⟨n, gs, tasks, progs, p, t, hd, hp, ht, hc⟩
  · rintro ⟨n, gs, tasks, progs, p, t, hd, hp, ht, hnt⟩
    refine ⟨_, hd, ?_⟩
    simp only [List.mem_filterMap]
    refine ⟨p, hp, ?_⟩
    simp [ht, hnt]

/-- P0015 is reported exactly when some POU uses a variable that is neither its own name nor one
of its declared variables — in an assignment target, an expression, or a call argument, at any
statement nesting depth. -/
theorem var_use_rule (ds : List ADecl) :
    P0015 ∈ (ruleVarUse ds).flatten ↔
      ∃ d ∈ ds, d.isPou = true ∧ ∃ s ∈ d.body, ∃ r ∈ s.varRefs, r ≠ d.name ∧ ∀ v ∈ d.vars, v.name ≠ r := by
  simp only [ruleVarUse, mem_grp_flatten, List.mem_flatMap]
  constructor
  · rintro ⟨d, hd, h⟩
    by_cases hp : d.isPou = true
    · simp only [hp, if_true, List.mem_filterMap, List.mem_flatMap] at h
      obtain ⟨r, ⟨s, hs, hr⟩, h⟩ := h
      by_cases hc : (r == d.name || d.vars.any (·.name == r)) = true
      · simp [hc] at h
      · simp only [Bool.or_eq_true, beq_iff_eq, List.any_eq_true, not_or, not_exists, not_and] at hc
        exact ⟨d, hd, hp, s, hs, r, hr, hc.1, fun v hv e => hc.2 v hv e⟩
    · simp [hp] at h
  · rintro ⟨d, hd, hp, s, hs, r, hr, hne, hv⟩
    refine ⟨d, hd, ?_⟩
    simp only [hp, if_true, List.mem_filterMap, List.mem_flatMap]
    refine ⟨r, ⟨s, hs, hr⟩, ?_⟩
    have : (r == d.name || d.vars.any (·.name == r)) = false := by
      simp only [Bool.or_eq_false_iff, beq_eq_false_iff_ne, ne_eq, List.any_eq_false, beq_iff_eq]
      exact ⟨hne, fun v hv' => hv v hv'⟩
    simp [this]

/-- P0017 is reported exactly when some CONSTANT variable is a function block instance. -/
theorem const_fb_rule (ds : List ADecl) :
    P0017 ∈ (ruleConstFb ds).flatten ↔ ∃ d ∈ ds, ∃ v ∈ d.vars, v.const = true ∧ isFbVar ds v = true := by
  simp only [ruleConstFb, mem_grp_flatten, List.mem_flatMap, List.mem_filterMap]
  constructor
  · rintro ⟨d, hd, v, hv, h⟩
    by_cases hc : (v.const && isFbVar ds v) = true
    · simp only [Bool.and_eq_true] at hc; exact ⟨d, hd, v, hv, hc.1, hc.2⟩
    · simp [hc] at h
  · rintro ⟨d, hd, v, hv, h1, h2⟩
    exact ⟨d, hd, v, hv, by simp [h1, h2]⟩

/-- P0018 is reported exactly when a non-constant VAR_EXTERNAL has the name of a constant VAR_GLOBAL. -/
theorem external_const_rule (ds : List ADecl) :
    P0018 ∈ (ruleExternalConst ds).flatten ↔
      ∃ d ∈ ds, ∃ v ∈ d.vars, v.cls = .external ∧ v.const = false ∧
        ∃ g ∈ ds, ∃ w ∈ g.vars, w.const = true ∧ w.cls = .global ∧ w.name = v.name := by
  simp only [ruleExternalConst, mem_grp_flatten, List.mem_flatMap, List.mem_filterMap]
  constructor
  · rintro ⟨d, hd, v, hv, h⟩
    split at h
    · rename_i hc
      simp only [Bool.and_eq_true, beq_iff_eq, Bool.not_eq_true', List.contains_iff_mem,
        List.mem_flatMap, List.mem_map, List.mem_filter] at hc
      obtain ⟨⟨h1, h2⟩, g, hg, w, ⟨hw, hwc⟩, hwn⟩ := hc
      exact ⟨d, hd, v, hv, h1, h2, g, hg, w, hw, hwc.1, hwc.2, hwn⟩
    · simp at h
  · rintro ⟨d, hd, v, hv, h1, h2, g, hg, w, hw, hwc, hwg, hwn⟩
    refine ⟨d, hd, v, hv, ?_⟩
    rw [if_pos]
    simp only [Bool.and_eq_true, beq_iff_eq, Bool.not_eq_true', List.contains_iff_mem,
      List.mem_flatMap, List.mem_map, List.mem_filter]
    exact ⟨⟨h1, h2⟩, g, hg, w, ⟨hw, hwc, hwg⟩, hwn⟩

/-- P0029 is reported exactly when some variable is an instance of a standard function block the
analyzer does not implement. -/
theorem stdlib_rule (ds : List ADecl) :
    P0029 ∈ (ruleStdlib ds).flatten ↔ ∃ d ∈ ds, ∃ v ∈ d.vars, ∃ t, v.refEdge = some t ∧ isUnsupportedStd t = true := by
  simp only [ruleStdlib, mem_grp_flatten, List.mem_flatMap, List.mem_filterMap]
  constructor
  · rintro ⟨d, hd, v, hv, h⟩
    cases hr : v.refEdge with
    | none => simp [hr] at h
    | some t =>
      simp only [hr] at h
      by_cases hu : isUnsupportedStd t = true
      · exact ⟨d, hd, v, hv, t, hr, hu⟩
      · simp [hu] at h
  · rintro ⟨d, hd, v, hv, t, hr, hu⟩
    exact ⟨d, hd, v, hv, by simp [hr, hu]⟩

/-- Pipeline, direction "accepted ⇒ satisfies": when the analysis succeeds, no stage objected and
every rule is silent. -/
theorem analyze_ok_iff (ds : List ADecl) :
    analyzeDecls ds = [] ↔
      (recursive ds = false ∧ dupCodes ds = [] ∧ aliasUnsupported ds = false ∧ exprUnsupported ds = false ∧
       typeFbClash ds = false ∧ typeInitUnsupported ds = false ∧ unknownTypes ds = [] ∧ rules ds = []) :=
  analyzeDecls_eq_nil_iff ds

/-- A unit that satisfies a collecting rule is never rejected with that rule's code: shown here for
the subrange rule (the others follow the same way from the `*_rule` theorems). -/
theorem no_spurious_P0004 (ds : List ADecl)
    (h : ∀ n lo hi, ADecl.subrangeT n lo hi ∈ ds → lo < hi) : P0004 ∉ (ruleSubrange ds).flatten := by
  rw [subrange_rule]
  rintro ⟨n, lo, hi, hd, hn⟩
  exact hn (h n lo hi hd)

/-- Single fault, direction "violates ⇒ code": when the unit gets as far as the rules (no earlier
stage aborts) and a subrange declaration violates its rule, P0004 is among the reported codes. -/
theorem single_fault_P0004 (ds : List ADecl) (hreach : analyzeDecls ds = rules ds)
    (n : Nat) (lo hi : Int) (hd : ADecl.subrangeT n lo hi ∈ ds) (hv : ¬ lo < hi) :
    P0004 ∈ (analyzeDecls ds).flatten := by
  rw [hreach, mem_rules_flatten]
  exact Or.inr (Or.inl ((subrange_rule ds).mpr ⟨n, lo, hi, hd, hv⟩))

/-! ### non-vacuity -/

example : semantic [⟨false, [.subrangeT 1 5 5, .structT 2 [(3, .int, none), (3, .bool, none)]]⟩] = [[P0003], [P0004]] := by decide
example : semantic [⟨false, [.subrangeT 1 1 5, .prog 2 [⟨3, .var, false, .int, none⟩] [.assign 3 [3]]]⟩] = [] := by decide
example : semantic [⟨false, [.prog 2 [⟨3, .var, false, .int, none⟩] [.assign 3 [4]]]⟩] = [[P0015]] := by decide


/-! ### the stage table and the code (`Gen/Stages.lean` is re-extracted from `stages.rs`, the stage modules and
`problem-codes.csv` on every run) -/

/-- The model runs the transforms of `resolve_types` and the rules of `semantic` that `stages.rs` lists, in
the order it lists them (a stage added, removed or moved in the code breaks this). -/
theorem stage_order_is_code :
    xformStages.map (·.name) = Gen.xforms ∧ ruleStages.map (·.name) = Gen.rules := by decide

/-- Running the stage table is the pipeline `analyzeDecls` that the other theorems are about. -/
theorem staged_pipeline (ds : List ADecl) : analyzeStaged ds = analyzeDecls ds :=
  Stages.analyzeStaged_eq ds

/-- The model lets a stage report only problem codes that the stage's Rust module names (`Problem::…` in its
non-test source; P9999 is `Diagnostic::todo`, which names no `Problem`), and for the rules every code the
module names is one the model's rule can report (except P0013, the enumeration rule's own recursion
answer, which the declaration sort pre-empts with P0010). -/
theorem stage_codes_are_code :
    (∀ s ∈ xformStages, ∀ c ∈ s.codes, c = P9999 ∨ c ∈ namedInSource s.name) ∧
    (∀ s ∈ ruleStages, ∀ c ∈ s.codes, c = P9999 ∨ c ∈ namedInSource s.name) ∧
    (∀ s ∈ ruleStages, ∀ c ∈ namedInSource s.name, c = 13 ∨ c ∈ s.codes) := by decide

/-- Every code in the stage table is a published problem code (`problem-codes.csv`). -/
theorem stage_codes_published :
    (∀ s ∈ xformStages, ∀ c ∈ s.codes, (Gen.problems.any (·.1 == c)) = true) ∧
    (∀ s ∈ ruleStages, ∀ c ∈ s.codes, (Gen.problems.any (·.1 == c)) = true) := by decide

/-- A rule reports only the codes of its table entry, whatever the unit ("a unit … is never rejected with
[another] rule's problem code" at the level of single rules). -/
theorem rule_reports_only_its_codes :
    ∀ s ∈ ruleStages, ∀ ds, ∀ g ∈ s.run ds, ∀ c ∈ g, c ∈ s.codes := by
  intro s hs ds
  simp only [ruleStages, List.mem_cons, List.mem_nil_iff, or_false] at hs
  rcases hs with rfl | rfl | rfl | rfl | rfl | rfl | rfl | rfl | rfl | rfl | rfl
  · exact Stages.ruleStruct_codes ds
  · exact Stages.ruleSubrange_codes ds
  · exact Stages.ruleEnumUnique_codes ds
  · exact Stages.ruleFbCall_codes ds
  · exact Stages.ruleTask_codes ds
  · exact Stages.ruleEnumUse_codes ds
  · exact Stages.ruleVarUse_codes ds
  · exact Stages.ruleStdlib_codes ds
  · exact Stages.ruleConstInit_codes ds
  · exact Stages.ruleConstFb_codes ds
  · exact Stages.ruleExternalConst_codes ds

/-- non-vacuity: a unit on which the third transform aborts and one that reaches the rules -/
example : analyzeStaged [.subrangeT 1 5 2] = [[P0004]] := by decide
example : analyzeStaged [.fb 1 [⟨2, .var, false, .named 1, none⟩] []] = [[P0010]] := by decide

end C02
