import PlcModel.Decode

/-!
# C14 — file encoding is transparent: the result depends only on the decoded text

Model: `PlcModel/Decode.lean` (`path_to_source`).  Everything after decoding is a function of the
decoded text by construction of the pipeline (`FileBackedProject` stores the `String`), so
"same decoded text ⇒ same verdict, codes and positions" needs no theorem; what needs one is that
each supported encoding of a text decodes back to that text.
Strict UTF-8 decoding is Lean core's `ByteArray.utf8Decode?`; its inverse property is core's
`List.utf8Decode?_utf8Encode`.  encoding_rs's agreement with this model is held by the
correspondence check (`ironplcc tokenize` on every encoding and on every byte value).
-/

namespace C14

/-- the bytes do not start with a byte-order mark -/
def NoBom : List UInt8 → Prop
  | 0xEF :: 0xBB :: 0xBF :: _ => False
  | 0xFF :: 0xFE :: _ => False
  | 0xFE :: 0xFF :: _ => False
  | _ => True

theorem utf8_roundtrip (cs : List Char) : decodeUtf8 (encodeUtf8 cs) = some cs := by
  have : (encodeUtf8 cs).toByteArray = cs.utf8Encode := rfl
  simp [decodeUtf8, this]

/-- UTF-8 with a byte-order mark decodes to the text (the mark is removed). -/
theorem decode_utf8_bom (cs : List Char) :
    decodeFile (0xEF :: 0xBB :: 0xBF :: encodeUtf8 cs) = some cs := by
  simp [decodeFile, utf8_roundtrip]

/-- UTF-8 without a byte-order mark decodes to the text. -/
theorem decode_utf8 (cs : List Char) (h : NoBom (encodeUtf8 cs)) : decodeFile (encodeUtf8 cs) = some cs := by
  unfold decodeFile
  split
  · rename_i e; rw [e] at h; exact absurd h (by simp [NoBom])
  · rename_i e; rw [e] at h; exact absurd h (by simp [NoBom])
  · rename_i e; rw [e] at h; exact absurd h (by simp [NoBom])
  · simp [utf8_roundtrip]

theorem toNat_ofNat_lt (n : Nat) (h : n < 256) : (UInt8.ofNat n).toNat = n := by
  simp [UInt8.toNat_ofNat', Nat.mod_eq_of_lt h]

theorem unitsOf_bytesOfUnit (le : Bool) (u : Nat) (hu : u < 65536) (rest : List UInt8) :
    unitsOf le (bytesOfUnit le u ++ rest) = (unitsOf le rest).map (u :: ·) := by
  have h1 : u % 256 < 256 := Nat.mod_lt _ (by omega)
  have h2 : u / 256 < 256 := by omega
  cases le
  · simp only [bytesOfUnit, Bool.false_eq_true, if_false, List.cons_append, List.nil_append, unitsOf,
      toNat_ofNat_lt _ h1, toNat_ofNat_lt _ h2]
    congr 1; funext l; congr 1; omega
  · simp only [bytesOfUnit, if_true, List.cons_append, List.nil_append, unitsOf,
      toNat_ofNat_lt _ h1, toNat_ofNat_lt _ h2]
    congr 1; funext l; congr 1; omega

theorem char_range (c : Char) : c.toNat < 0xD800 ∨ (0xDFFF < c.toNat ∧ c.toNat < 0x110000) := by
  have := c.valid
  simp only [UInt32.isValidChar, Nat.isValidChar] at this
  exact this

theorem decodeUnits_unitsOfChar (c : Char) (rest : List Nat) :
    decodeUnits (unitsOfChar c ++ rest) = (decodeUnits rest).map (c :: ·) := by
  have hr := char_range c
  unfold unitsOfChar
  by_cases hb : c.toNat < 0x10000
  · simp only [hb, if_true, List.cons_append, List.nil_append]
    rw [decodeUnits.eq_def]; simp only []
    have h1 : ¬ (0xD800 ≤ c.toNat ∧ c.toNat < 0xDC00) := by omega
    have h2 : ¬ (0xDC00 ≤ c.toNat ∧ c.toNat < 0xE000) := by omega
    simp only [h1, h2, if_false, Char.ofNat_toNat]
  · simp only [hb, if_false, List.cons_append, List.nil_append]
    rw [decodeUnits.eq_def]; simp only []
    have h1 : 0xD800 ≤ 0xD800 + (c.toNat - 0x10000) / 0x400 ∧ 0xD800 + (c.toNat - 0x10000) / 0x400 < 0xDC00 := by omega
    have h2 : 0xDC00 ≤ 0xDC00 + (c.toNat - 0x10000) % 0x400 ∧ 0xDC00 + (c.toNat - 0x10000) % 0x400 < 0xE000 := by omega
    simp only [h1, h2, and_self, if_true]
    have e : 0x10000 + (0xD800 + (c.toNat - 0x10000) / 0x400 - 0xD800) * 0x400 +
        (0xDC00 + (c.toNat - 0x10000) % 0x400 - 0xDC00) = c.toNat := by omega
    rw [e, Char.ofNat_toNat]

theorem unitsOfChar_lt (c : Char) : ∀ u ∈ unitsOfChar c, u < 65536 := by
  have hr := char_range c
  intro u hu
  unfold unitsOfChar at hu
  by_cases hb : c.toNat < 0x10000
  · simp [hb] at hu; omega
  · simp [hb] at hu; omega

theorem unitsOf_encode (le : Bool) (us : List Nat) (h : ∀ u ∈ us, u < 65536) :
    unitsOf le (us.flatMap (bytesOfUnit le)) = some us := by
  induction us with
  | nil => simp [unitsOf]
  | cons u us ih =>
    simp only [List.flatMap_cons]
    rw [unitsOf_bytesOfUnit le u (h u (by simp)), ih (fun x hx => h x (by simp [hx]))]
    rfl

theorem decodeUnits_encode (cs : List Char) : decodeUnits (cs.flatMap unitsOfChar) = some cs := by
  induction cs with
  | nil => simp [decodeUnits]
  | cons c cs ih => simp only [List.flatMap_cons]; rw [decodeUnits_unitsOfChar, ih]; rfl

theorem utf16_roundtrip (le : Bool) (cs : List Char) : decodeUtf16 le (encodeUtf16 le cs) = some cs := by
  unfold decodeUtf16 encodeUtf16
  rw [unitsOf_encode]
  · simp [decodeUnits_encode]
  · intro u hu
    obtain ⟨c, _, hc⟩ := List.mem_flatMap.mp hu
    exact unitsOfChar_lt c u hc

/-- UTF-16 with a byte-order mark, little or big endian, decodes to the text. -/
theorem decode_utf16_bom (cs : List Char) :
    decodeFile (0xFF :: 0xFE :: encodeUtf16 true cs) = some cs ∧
    decodeFile (0xFE :: 0xFF :: encodeUtf16 false cs) = some cs := by
  simp [decodeFile, utf16_roundtrip]

/-- Bytes without a byte-order mark that are not valid UTF-8 are read as Windows-1252, byte by byte;
in particular decoding never fails on them (P0028 needs a byte-order mark). -/
theorem decode_cp1252 (bs : List UInt8) (h : NoBom bs) (hn : decodeUtf8 bs = none) :
    decodeFile bs = some (decodeCp1252 bs) := by
  unfold decodeFile
  split
  · exact absurd h (by simp [NoBom])
  · exact absurd h (by simp [NoBom])
  · exact absurd h (by simp [NoBom])
  · simp [hn]

/-- Decoding is total on input without a byte-order mark. -/
theorem decode_total (bs : List UInt8) (h : NoBom bs) : (decodeFile bs).isSome = true := by
  unfold decodeFile
  split
  · exact absurd h (by simp [NoBom])
  · exact absurd h (by simp [NoBom])
  · exact absurd h (by simp [NoBom])
  · cases decodeUtf8 bs <;> simp

/-- the byte a character is stored as in Windows-1252, if it is in the repertoire -/
def cp1252Byte? (c : Char) : Option Nat := (List.range 256).find? fun n => cp1252Char (UInt8.ofNat n) == c

/-- The Windows-1252 table is injective (it has a left inverse): distinct bytes are distinct
characters, so a text stored as Windows-1252 is recovered exactly whenever its bytes are not also
valid UTF-8.  (That exception is inherent to a sniffing decoder — `Ã©` in Windows-1252 is the UTF-8
encoding of `é`.) -/
theorem cp1252_left_inverse : ∀ n, n < 256 → cp1252Byte? (cp1252Char (UInt8.ofNat n)) = some n := by
  decide +kernel

/-- ASCII bytes mean the same in every supported byte encoding. -/
theorem cp1252_ascii : ∀ n, n < 128 → cp1252Char (UInt8.ofNat n) = Char.ofNat n := by decide +kernel

/-! ### non-vacuity -/

example : decodeFile [0x78, 0xE9, 0x79] = some ['x', 'é', 'y'] := by decide +kernel
example : decodeFile [0xFF, 0xFE, 0x78, 0x00, 0x3D, 0xD8] = none := by decide +kernel
example : decodeFile [0xFF, 0xFE, 0x3D, 0xD8, 0x00, 0xDE] = some [Char.ofNat 0x1F600] := by decide +kernel

end C14
