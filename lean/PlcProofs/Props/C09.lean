import PlcModel.Parse.Lit

/-!
# C09 — literals are read as the value IEC 61131-3 assigns them, or rejected

Theorems about M-Literal (`PlcModel/Parse/Lit.lean`): the integer readers compute the positional
value of the digits (any base, underscores ignored) and reject exactly the values that do not fit
128 bits; a duration is the *exact* number of nanoseconds of `amount × unit` or it is rejected
(never rounded, never wrapped); the time-of-day reader keeps the fields and the fraction.
The literal grammar around these functions is tied to the parser by the correspondence check on
the enumerated literal space (C09 check), with an independent exact oracle on the implementation.
-/

namespace C09
open Parse

/-- positional value of a digit sequence: `value (ds ++ [d]) = value ds * base + d` -/
def positional (base : Nat) : List Nat → Nat
  | [] => 0
  | d :: ds => d * base ^ ds.length + positional base ds

theorem foldl_positional (base : Nat) (ds : List Nat) (acc : Nat) :
    ds.foldl (fun a d => a * base + d) acc = acc * base ^ ds.length + positional base ds := by
  induction ds generalizing acc with
  | nil => simp [positional]
  | cons d ds ih =>
    simp only [List.foldl_cons, ih, positional, List.length_cons, Nat.pow_succ]
    rw [Nat.add_mul, Nat.mul_assoc, Nat.mul_comm base, Nat.add_assoc]

/-- the fold of `natOfDigits`, as a function of the accumulated result -/
theorem natOfDigits_go (base : Nat) (cs : List Char) (acc : Option Nat) :
    cs.foldl (digitStep base) acc =
    match acc, cs.mapM (digitOf base) with
    | some a, some ds => some (ds.foldl (fun a d => a * base + d) a)
    | _, _ => none := by
  induction cs generalizing acc with
  | nil => cases acc <;> simp
  | cons c cs ih =>
    simp only [List.foldl_cons, ih, List.mapM_cons]
    cases acc with
    | none => simp [digitStep]
    | some a =>
      cases hd : digitOf base c with
      | none => simp [digitStep, hd]
      | some d =>
        simp only [digitStep, hd, Option.pure_def, Option.bind_eq_bind, Option.bind_some]
        cases cs.mapM (digitOf base) <;> simp

/-- **Integers.** When every character is a digit of the base, the reader returns the positional
value of the digits. -/
theorem natOfDigits_value (base : Nat) (cs : List Char) (ds : List Nat) (hne : cs ≠ [])
    (hds : cs.mapM (digitOf base) = some ds) :
    natOfDigits base cs = some (positional base ds) := by
  unfold natOfDigits
  have : cs.isEmpty = false := by cases cs <;> simp_all
  simp only [this, Bool.false_eq_true, if_false]
  rw [natOfDigits_go, hds]
  simp [foldl_positional]

/-- … and it rejects a text with a character that is not a digit of the base. -/
theorem natOfDigits_reject (base : Nat) (cs : List Char) (hds : cs.mapM (digitOf base) = none) :
    natOfDigits base cs = none := by
  unfold natOfDigits
  split
  · rfl
  · rw [natOfDigits_go, hds]

/-- Underscores (in fact every non-digit) are ignored by the decimal reader, wherever they stand. -/
theorem integerNew_underscore (a b : List Char) : integerNew (a ++ '_' :: b) = integerNew (a ++ b) := by
  simp [integerNew, List.filter_append, List.filter_cons]

/-- The decimal reader accepts exactly the values below 2^128 — a larger literal is rejected, never wrapped. -/
theorem integerNew_range (text : List Char) (v : Nat) (h : integerNew text = some v) : v < 2 ^ 128 := by
  unfold integerNew at h
  split at h
  · split at h
    · rename_i hlt; injection h with h; subst h; exact hlt
    · simp at h
  · simp at h

theorem integerBased_range (base : Nat) (pre text : List Char) (v : Nat) (h : integerBased base pre text = some v) :
    v < 2 ^ 128 := by
  unfold integerBased at h
  split at h
  · simp at h
  · split at h
    · split at h
      · rename_i hlt; injection h with h; subst h; exact hlt
      · simp at h
    · simp at h

/-- **Durations.** An accepted duration is the exact product `(whole + femptos/10^15) × unit` in
nanoseconds, and its whole seconds fit 63 bits. -/
theorem duration_exact (v : FixedPt) (unit ns : Nat) (h : durationOfUnits v unit = some ns) :
    ns * femptoUnits = (v.whole * femptoUnits + v.femptos) * unit ∧ ns / 1000000000 < 2 ^ 63 := by
  unfold durationOfUnits at h
  simp only at h
  split at h
  · simp at h
  · rename_i hmod
    split at h
    · rename_i hlt
      injection h with h
      subst h
      refine ⟨?_, hlt⟩
      have hdiv : v.femptos * unit % femptoUnits = 0 := by simpa using hmod
      have := Nat.div_add_mod (v.femptos * unit) femptoUnits
      rw [hdiv, Nat.add_zero] at this
      rw [Nat.add_mul, Nat.add_mul, Nat.mul_comm (v.femptos * unit / femptoUnits), this]
      rw [Nat.mul_assoc, Nat.mul_comm unit femptoUnits, ← Nat.mul_assoc]
    · simp at h

/-- A duration that is not a whole number of nanoseconds is rejected (not truncated). -/
theorem duration_subnanosecond_rejected (v : FixedPt) (unit : Nat) (h : v.femptos * unit % femptoUnits ≠ 0) :
    durationOfUnits v unit = none := by
  unfold durationOfUnits
  simp [h]

/-- A duration whose seconds do not fit 63 bits is rejected (not wrapped). -/
theorem duration_overflow_rejected (v : FixedPt) (unit : Nat) (hex : v.femptos * unit % femptoUnits = 0)
    (h : 2 ^ 63 ≤ (v.whole * unit + v.femptos * unit / femptoUnits) / 1000000000) : durationOfUnits v unit = none := by
  unfold durationOfUnits
  have : ¬ (v.whole * unit + v.femptos * unit / femptoUnits) / 1000000000 < i64Max := by unfold i64Max; omega
  simp [hex, this]

/-- The sum of the unit parts is exact, or rejected. -/
theorem duration_sum (a b s : Nat) (h : durPlus a b = some s) : s = a + b := by
  unfold durPlus at h
  split at h
  · injection h with h; exact h.symm
  · simp at h

/-! ### non-vacuity -/

example : natOfDigits 16 "FF".toList = some 255 := by decide
example : integerNew "1_000".toList = some 1000 := by decide
example : durationOfUnits ⟨1, 500000000000000⟩ nsDay = some 129600000000000 := by decide
example : durationOfUnits ⟨0, 100000⟩ nsSecond = none := by decide      -- 0.0000000001 s: sub-nanosecond
example : durationOfUnits ⟨99999999999999999999 % 2 ^ 64, 0⟩ nsDay = none := by decide

/-- a time of day that is read has fields in range: no `25:61:61` gets through -/
theorem tod_fields_in_range (ts rest : List Item) (t : Tod) (h : daytime ts = some (t, rest)) :
    t.h < 24 ∧ t.m < 60 ∧ t.s < 60 := by
  unfold daytime at h
  simp only [bind, StateT.bind, Option.bind_eq_some_iff] at h
  obtain ⟨a, _, b, _, c, _, d, _, e, _, h⟩ := h
  split at h
  · rename_i hc
    simp only [pure, StateT.pure, Option.some.injEq, Prod.mk.injEq] at h
    obtain ⟨rfl, _⟩ := h
    exact ⟨hc.2.2.2.2.1, hc.2.2.2.2.2.1, hc.2.2.2.2.2.2⟩
  · simp [P.fail] at h

/-- a date that is read is a calendar date (month 1..12, day valid for the month incl. leap years, year ≤ 9999) -/
theorem date_is_calendar_date (ts rest : List Item) (d : Ymd) (h : dateLiteral ts = some (d, rest)) :
    1 ≤ d.m ∧ d.m ≤ 12 ∧ d.y ≤ 9999 ∧ 1 ≤ d.d ∧ d.d ≤ daysInMonth d.y d.m := by
  unfold dateLiteral at h
  simp only [bind, StateT.bind, Option.bind_eq_some_iff] at h
  obtain ⟨a, _, b, _, c, _, e, _, f, _, h⟩ := h
  split at h
  · rename_i hc
    simp only [pure, StateT.pure, Option.some.injEq, Prod.mk.injEq] at h
    obtain ⟨rfl, _⟩ := h
    exact hc
  · simp [P.fail] at h


/-! ### underscores separate digits, they are not digits -/

theorem filter_underscore {p : Char → Bool} (hp : p '_' = false) (cs : List Char) :
    (cs.filter (· != '_')).filter p = cs.filter p := by
  rw [List.filter_filter]
  congr 1
  funext c
  by_cases h : c = '_'
  · subst h; simp [hp]
  · simp [h]

/-- A fixed point text (the amount of a duration, the seconds of a time of day) and the same text with
underscores inserted or removed anywhere — before or after the point — are read alike: an underscore never
shifts or scales a digit. -/
theorem fixedPoint_underscores_ignored (a b : List Char) (h : a.filter (· != '_') = b.filter (· != '_')) :
    Parse.fixedPointParse a = Parse.fixedPointParse b := by
  have key : ∀ x : List Char, Parse.fixedPointParse x = Parse.fixedPointParse (x.filter (· != '_')) := by
    intro x
    unfold Parse.fixedPointParse
    simp only
    rw [filter_underscore (by decide)]
  rw [key a, key b, h]

/-- the same for unsigned decimal integers -/
theorem integer_underscores_ignored (a b : List Char) (h : a.filter (· != '_') = b.filter (· != '_')) :
    Parse.integerNew a = Parse.integerNew b := by
  have key : ∀ x : List Char, Parse.integerNew x = Parse.integerNew (x.filter (· != '_')) := by
    intro x
    unfold Parse.integerNew
    rw [filter_underscore (by decide)]
  rw [key a, key b, h]

/-- non-vacuity: `1.000_5` is read as `1.0005` -/
example : Parse.fixedPointParse "1.000_5".toList = Parse.fixedPointParse "1.0005".toList :=
  fixedPoint_underscores_ignored _ _ (by decide)

end C09
