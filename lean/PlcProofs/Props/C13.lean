import PlcModel.Cli
import PlcProofs.Props.C03

/-!
# C13 — command-line contract: exit status, OK line and diagnostics always agree

Model: `PlcModel/Cli.lean`.  The mapping of `Result<(), String>` to the process exit status
and the bytes actually written to stdout/stderr are Rust runtime behaviour, observed through the
binary by the correspondence check (exit status, `OK` line, `error[Pnnnn]` lines).
-/

namespace C13

/-- `check` exits 0 exactly when it prints OK, exactly when it emits no diagnostic. -/
theorem check_exit0_iff_ok_iff_no_diag (ps : List PathArg) :
    ((cliCheck ps).exit = 0 ↔ (cliCheck ps).ok = true) ∧
    ((cliCheck ps).exit = 0 ↔ (cliCheck ps).coded = []) := by
  unfold cliCheck
  cases h : createProject ps with
  | error g =>
    have hne : g ≠ [] := by
      unfold createProject at h
      simp only at h
      split at h
      · rename_i h1; injection h with h; subst h
        cases he : (enumerate ps).2 <;> simp_all
      · split at h
        · rename_i h2; injection h with h; subst h
          cases he : readErrors (enumerate ps).1 <;> simp_all
        · simp at h
    simp [hne]
  | ok files =>
    simp only
    split <;> rename_i hg
    · simp
    · have : semantic (files.map (·.unit)) ≠ [] := by
        intro e; rw [e] at hg; simp at hg
      simp [this]

/-- When `check` does not exit 0 it does not print OK and at least one coded diagnostic is emitted. -/
theorem check_nonzero_has_coded_diag (ps : List PathArg) (h : (cliCheck ps).exit ≠ 0) :
    (cliCheck ps).ok = false ∧ (cliCheck ps).coded ≠ [] := by
  have := check_exit0_iff_ok_iff_no_diag ps
  constructor
  · cases hok : (cliCheck ps).ok with
    | false => rfl
    | true => exact absurd (this.1.mpr hok) h
  · intro e; exact h (this.2.mpr e)

/-- Checking a directory is checking the list of the files in it. -/
theorem dir_equals_file_list (es : List CFile) (rest : List PathArg) :
    cliCheck (.dir es :: rest) = cliCheck (es.map PathArg.file ++ rest) ∧
    cliEcho (.dir es :: rest) = cliEcho (es.map PathArg.file ++ rest) ∧
    cliTokenize (.dir es :: rest) = cliTokenize (es.map PathArg.file ++ rest) := by
  have henum : enumerate (.dir es :: rest) = enumerate (es.map PathArg.file ++ rest) := by
    induction es with
    | nil => simp [enumerate]
    | cons e es ih =>
      simp only [enumerate, List.map_cons, List.cons_append] at ih ⊢
      rw [← ih]
  have hcp : createProject (.dir es :: rest) = createProject (es.map PathArg.file ++ rest) := by
    unfold createProject; rw [henum]
  simp only [cliCheck, cliEcho, cliTokenize, hcp, and_self]

/-- `echo` exits 0 exactly when the project can be created and every file parses. -/
theorem echo_exit0_iff_all_parse (ps : List PathArg) :
    (cliEcho ps).exit = 0 ↔ ∃ files, createProject ps = .ok files ∧ ∀ f ∈ files, f.unit.parseError = false := by
  unfold cliEcho
  cases h : createProject ps with
  | error g => simp
  | ok files =>
    simp only [Except.ok.injEq, exists_eq_left']
    by_cases ha : files.any (·.unit.parseError) = true
    · simp only [ha, if_true]
      constructor
      · intro h; simp at h
      · intro hall
        obtain ⟨f, hf, hp⟩ := List.any_eq_true.mp ha
        rw [hall f hf] at hp; simp at hp
    · have ha' : files.any (·.unit.parseError) = false := by simpa using ha
      simp only [ha', Bool.false_eq_true, if_false, true_iff]
      intro f hf
      have := List.any_eq_false.mp ha' f hf
      simpa using this

/-- `tokenize` exits 0 exactly when the project can be created and every file tokenizes. -/
theorem tokenize_exit0_iff_all_tokenize (ps : List PathArg) :
    (cliTokenize ps).exit = 0 ↔ ∃ files, createProject ps = .ok files ∧ ∀ f ∈ files, f.tokenizes = true := by
  unfold cliTokenize
  cases h : createProject ps with
  | error g => simp
  | ok files =>
    simp only [Except.ok.injEq, exists_eq_left']
    by_cases ha : files.any (!·.tokenizes) = true
    · simp only [ha, if_true]
      constructor
      · intro h; simp at h
      · intro hall
        obtain ⟨f, hf, hp⟩ := List.any_eq_true.mp ha
        rw [hall f hf] at hp; simp at hp
    · have ha' : files.any (!·.tokenizes) = false := by simpa using ha
      simp only [ha', Bool.false_eq_true, if_false, true_iff]
      intro f hf
      have := List.any_eq_false.mp ha' f hf
      simpa using this

/-- The order of the path arguments does not change whether `check` can create the project. -/
theorem missing_path_fails (ps : List PathArg) (h : PathArg.missing ∈ ps) : (cliCheck ps).exit = 1 := by
  have : (enumerate ps).2 ≠ [] := by
    induction ps with
    | nil => simp at h
    | cons p rest ih =>
      cases p with
      | missing => simp [enumerate]
      | file f => simp only [enumerate]; exact ih (by simpa using h)
      | dir es => simp only [enumerate]; exact ih (by simpa using h)
  unfold cliCheck createProject
  have hne : (enumerate ps).2.isEmpty = false := by cases he : (enumerate ps).2 <;> simp_all
  simp [hne]

/-! ### non-vacuity -/

example : cliCheck [] = ⟨1, false, [[P0030]]⟩ := by decide
example : cliCheck [.file ⟨true, true, true, ⟨false, [.subrangeT 1 1 5]⟩⟩] = ⟨0, true, []⟩ := by decide
example : cliCheck [.dir [⟨true, true, true, ⟨false, [.subrangeT 1 5 5]⟩⟩], .missing] = ⟨1, false, [[P0023]]⟩ := by decide

end C13
