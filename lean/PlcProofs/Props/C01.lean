import PlcProofs.Lemmas.Climb
import PlcProofs.Lemmas.MirrorExpr
import PlcProofs.Lemmas.MirrorStmt
import PlcProofs.Lemmas.MirrorLib
import PlcProofs.Lemmas.MirrorVars
import PlcProofs.Lemmas.MirrorFb
import PlcModel.Parse.Pou

/-!
# C01 — parsing is faithful

What is proved here:
* the generated precedence table (`Gen.prec`, re-extracted from `parser.rs` on every run) is exactly
  IEC 61131-3 Annex B.3.1: OR < XOR < AND < {=, <>} < {<, >, <=, >=} < {+, -} < {*, /, MOD} < **, every
  operator left-associative and bound to the constructor and operator it denotes;
* precedence climbing — the algorithm rust-peg generates for `precedence!{}` and that
  `Parse.climb`/`Parse.climbLoop` mirror — parses the minimal-parenthesis printing of *every*
  expression tree, of any depth, back to that tree, for *every* assignment of precedences to
  left-associative operators (hence for the generated table): nothing is re-associated;

* `mirror_expression_roundtrip` — the same round trip for the **mirror itself**: the functions
  `Parse.expression / climb / climbLoop / atom / unaryExpression / primaryExpression` that the
  correspondence check runs against `parse_program`, driven by `Gen.prec`, read the minimal-parenthesis
  token list of every expression tree over names, unsigned integer literals, unary and binary operators (any size, any depth) back to
  exactly the tree the grammar actions build for it, with the fuel the driver really uses
  (`Parse.fuelFor`); `mirror_reads_any_parenthesisation` is the general form (redundant parentheses
  anywhere leave no node);

* `mirror_statement_list_roundtrip` — one level up, again for the mirror itself (`Parse.statementList`,
  `statementsOrEmpty`, `statement`, `ifStatement`, `caseStatement`, `forStatement`, `whileStatement`, `repeatStatement`): the token list of every
  statement list built from assignments to named variables, IF … THEN … {ELSIF … THEN …} [ELSE …] END_IF, WHILE … DO … END_WHILE,
  REPEAT … UNTIL … END_REPEAT, FOR … := … TO … [BY …] DO … END_FOR, CASE … OF {n {, n} : …} [ELSE …] END_CASE
  (unsigned integer selectors), function block invocations `inst(n := e {, n := e})` with named inputs, EXIT and RETURN — nested to any depth, bodies of any length, any `MX.S`
  expression as condition or right-hand side — is read back as exactly the list of trees the grammar actions
  build: every statement, in order, each body under the statement it was written in (nothing dropped,
  duplicated, reordered or re-nested), with the fuel the driver really uses;

* `mirror_library_roundtrip` — `library_roundtrip` for a family of whole libraries: `Parse.library` (the function
  behind the model's `parse_program`) reads the token list of every library made of programs
  `PROGRAM name statements END_PROGRAM` (no variable blocks; the statements above) back to exactly the library that was
  written — the programs in source order, each with its name and its statements; the whole input is consumed;
  `mirror_library_roundtrip_vars` adds a VAR block of elementary-typed variables to each program,
  `mirror_library_roundtrip_pous` function blocks of the same shape and functions
  `FUNCTION name : T statements END_FUNCTION` (elementary return type, no variable blocks), mixed with the programs in any order;

The executable mirror of the whole grammar (`PlcModel/Parse/*.lean`) is tied to `parse_program` by
the correspondence check (every fixture, every production of the reference grammar, every ordered
operator pair in both nestings); a machine-checked round-trip theorem for the *full* mirror
(`library_roundtrip` for every production: variable blocks, types, configurations, SFC) is not proved — it stays a
stated goal; the partial results are the ones above, the rest is held by the correspondence.
-/

namespace C01

/-- the Annex B.3.1 table: (level, token, constructor, operator) — weakest first -/
def annexB : List (Nat × String × String × String) := [
  (0, "Or", "compare", "Or"), (1, "Xor", "compare", "Xor"), (2, "And", "compare", "And"),
  (3, "Equal", "compare", "Eq"), (3, "NotEqual", "compare", "Ne"),
  (4, "Less", "compare", "Lt"), (4, "Greater", "compare", "Gt"), (4, "LessEqual", "compare", "LtEq"), (4, "GreaterEqual", "compare", "GtEq"),
  (5, "Plus", "binary", "Add"), (5, "Minus", "binary", "Sub"),
  (6, "Star", "binary", "Mul"), (6, "Div", "binary", "Div"), (6, "Mod", "binary", "Mod"),
  (7, "Power", "binary", "Pow")]

/-- The precedence block of `expression()` is Annex B.3.1, all operators left-associative. -/
theorem prec_table_is_annexB :
    Gen.prec.map (fun r => (r.level, r.token, r.ctor, r.op)) = annexB ∧ Gen.prec.all (·.leftAssoc) = true := by
  decide

/-- Precedence climbing round-trips the minimal-parenthesis printing of every expression tree, for
every precedence assignment (unbounded depth; `NoOp rest`: what follows is not an operator). -/
theorem climbing_roundtrip (e : Climb.Expr) (rest : List Climb.Tok) (h : Climb.NoOp rest) :
    ∃ fuel, Climb.parseE fuel 0 (Climb.pr 0 e ++ rest) = .ok e rest :=
  Climb.roundtrip e rest h

/-- more fuel never changes an answer -/
theorem climbing_fuel_monotone (f k m : Nat) (ts : List Climb.Tok) (r : Climb.Res)
    (h : Climb.parseE f m ts = r) (hr : r ≠ .oof) : Climb.parseE (f + k) m ts = r :=
  Climb.monoE f k m ts r h hr

/-- what may follow an expression: a token that is no operator of the table, no `#`, `(`, `[`, `.` and no layout
(`;`, `THEN`, `)`, `,`, `DO`, … all qualify) -/
def Ends (rest : List Item) : Prop :=
  ∀ t ts, rest = t :: ts → MX.okNext t.ty = true ∧ ∀ row ∈ Gen.prec, t.ty ≠ row.token

/-- **Round trip through the parser mirror**, for every expression tree over the generated precedence table. -/
theorem mirror_expression_roundtrip (lp rp : Item) (hlp : lp.ty = "LeftParen") (hrp : rp.ty = "RightParen")
    (e : MX.E) (he : e.Ok) (rest : List Item) (hrest : Ends rest) :
    Parse.expression (Parse.fuelFor ((MX.E.pr lp rp 0 e).toks ++ rest).length) ((MX.E.pr lp rp 0 e).toks ++ rest)
      = some (e.sx, rest) := by
  rw [← MX.E.pr_sx lp rp e 0]
  apply MX.expression_reads _ rest _ (MX.E.pr_wf lp rp hlp hrp e he 0) hrest
  apply MX.fuelFor_enough
  simp

/-- General form: any token list of the expression syntax `MX.S` that respects the levels (`WF 0`: an
un-parenthesised operator binds at least as tightly as its position requires; parentheses may be added
anywhere) is read as its tree, the parentheses leaving no node. -/
theorem mirror_reads_any_parenthesisation (s : MX.S) (hs : s.WF 0) (rest : List Item) (hrest : Ends rest) :
    Parse.expression (Parse.fuelFor (s.toks ++ rest).length) (s.toks ++ rest) = some (s.sx, rest) := by
  apply MX.expression_reads s rest _ hs hrest
  apply MX.fuelFor_enough
  simp

/-- non-vacuity: `- a + b * c` over rows 9 (`+`, level 5) and 11 (`*`, level 6) of the generated table meets `Ok`,
and `;` meets `Ends` -/
example : (MX.E.bin ⟨5, "Plus", "binary", "Operator", "Add", true⟩ ⟨false, "Plus", 0, 0, 0, 0, ['+']⟩
            (.un ⟨false, "Minus", 0, 0, 0, 0, ['-']⟩ true (.leaf ⟨false, "Identifier", 0, 0, 0, 0, ['a']⟩))
            (.bin ⟨6, "Star", "binary", "Operator", "Mul", true⟩ ⟨false, "Star", 0, 0, 0, 0, ['*']⟩
              (.leaf ⟨false, "Identifier", 0, 0, 0, 0, ['b']⟩) (.leaf ⟨false, "Identifier", 0, 0, 0, 0, ['c']⟩))).Ok := by
  exact ⟨by decide, by decide, ⟨by decide, rfl⟩, by decide, by decide, rfl, rfl⟩
example : Ends [⟨false, "Semicolon", 0, 0, 0, 0, [';']⟩] := by
  intro t ts h
  cases h
  exact ⟨by decide, by decide⟩

/-- **Round trip of statement lists through the parser mirror** (statement nesting).  `K` is the keyword after the
list (END_IF, ELSE, UNTIL, END_WHILE, END_PROGRAM, …). -/
theorem mirror_statement_list_roundtrip (l : MX.Stl) (hl : l.WF) (hne : l.isNil = false) (K : Item) (R : List Item)
    (hK : MX.isCloser K.ty = true) :
    Parse.statementList (Parse.fuelFor (l.toks ++ K :: R).length) (l.toks ++ K :: R) = some (l.sxs, K :: R) :=
  MX.statementList_roundtrip l hl hne K R hK _ (Nat.le_refl _)

/-- non-vacuity: `WHILE a DO IF b THEN x := c; ELSIF d THEN RETURN; ELSE EXIT; END_IF; END_WHILE;` meets `WF` -/
example :
    let id (s : String) : Item := ⟨false, "Identifier", 0, 0, 0, 0, s.toList⟩
    let kw (ty s : String) : Item := ⟨false, ty, 0, 0, 0, 0, s.toList⟩
    let semi := kw "Semicolon" ";"
    (MX.Stl.cons (.whileS (kw "While" "WHILE") (kw "Do" "DO") (.leaf (id "a"))
        (.cons (.ifElse (kw "If" "IF") (kw "Then" "THEN") (.leaf (id "b"))
                  (.cons (.assign (id "x") (kw "Assignment" ":=") (.leaf (id "c"))) semi .nil)
                  (.cons (kw "Elsif" "ELSIF") (kw "Then" "THEN") (.leaf (id "d"))
                     (.cons (.returnS (kw "Return" "RETURN")) semi .nil) .nil)
                  (kw "Else" "ELSE") (.cons (.exitS (kw "Exit" "EXIT")) semi .nil) (kw "EndIf" "END_IF")) semi .nil)
        (kw "EndWhile" "END_WHILE")) semi .nil).WF := by
  intro id kw semi
  exact ⟨⟨rfl, rfl, rfl, rfl, ⟨⟨rfl, rfl, rfl, rfl, rfl, ⟨⟨rfl, rfl, rfl⟩, rfl, trivial⟩, ⟨rfl, rfl, trivial⟩, rfl,
    ⟨rfl, rfl, rfl, ⟨rfl, rfl, trivial⟩, rfl, trivial⟩⟩, rfl, trivial⟩, rfl⟩, rfl, trivial⟩

/-- non-vacuity: `CASE a OF 1, 2: x := b; 3: EXIT; ELSE RETURN; END_CASE;` meets `WF` -/
example :
    let id (s : String) : Item := ⟨false, "Identifier", 0, 0, 0, 0, s.toList⟩
    let kw (ty s : String) : Item := ⟨false, ty, 0, 0, 0, 0, s.toList⟩
    let semi := kw "Semicolon" ";"
    (MX.Stl.cons (.caseElse (kw "Case" "CASE") (kw "Of" "OF") (.leaf (id "a"))
        (.cons (kw "Digits" "1") 1 [(kw "Comma" ",", kw "Digits" "2", 2)] (kw "Colon" ":")
            (.cons (.assign (id "x") (kw "Assignment" ":=") (.leaf (id "b"))) semi .nil)
          (.cons (kw "Digits" "3") 3 [] (kw "Colon" ":") (.cons (.exitS (kw "Exit" "EXIT")) semi .nil) .nil))
        (kw "Else" "ELSE") (.cons (.returnS (kw "Return" "RETURN")) semi .nil) (kw "EndCase" "END_CASE")) semi .nil).WF := by
  intro id kw semi
  refine ⟨⟨rfl, rfl, rfl, rfl, rfl, ⟨rfl, by decide, ?_, rfl, ⟨⟨rfl, rfl, rfl⟩, rfl, trivial⟩, rfl,
    ⟨rfl, by decide, (by intro m hm; cases hm), rfl, ⟨rfl, rfl, trivial⟩, rfl, trivial⟩⟩, ⟨rfl, rfl, trivial⟩, rfl⟩, rfl, trivial⟩
  intro m hm
  simp only [List.mem_singleton] at hm
  subst hm
  exact ⟨rfl, rfl, by decide⟩

/-- non-vacuity: `t(IN := a, PT := b);` meets `WF` -/
example :
    let id (s : String) : Item := ⟨false, "Identifier", 0, 0, 0, 0, s.toList⟩
    let kw (ty s : String) : Item := ⟨false, ty, 0, 0, 0, 0, s.toList⟩
    (MX.Stl.cons (.callS (id "t") (kw "LeftParen" "(") (id "IN") (kw "Assignment" ":=") (.leaf (id "a"))
        [(kw "Comma" ",", id "PT", kw "Assignment" ":=", .leaf (id "b"))] (kw "RightParen" ")")) (kw "Semicolon" ";") .nil).WF := by
  intro id kw
  refine ⟨⟨rfl, rfl, rfl, rfl, rfl, rfl, ?_⟩, rfl, trivial⟩
  intro m hm
  simp only [List.mem_singleton] at hm
  subst hm
  exact ⟨rfl, rfl, rfl, rfl⟩

/-- **Round trip of whole libraries through the parser mirror**: programs without variable blocks, any number, any
statements of `MX.Stl`. -/
theorem mirror_library_roundtrip (ps : List MX.Prog) (h : ∀ p ∈ ps, p.WF) :
    Parse.library (ps.flatMap MX.Prog.toks) =
      some (.n "Library" [("elements", .l (ps.map fun p => Sx.t "ProgramDeclaration" [p.sx]))]) :=
  MX.library_reads ps h

/-- The same for libraries whose programs may declare variables: `PROGRAM name VAR n1 : T1; … END_VAR statements
END_PROGRAM` (one VAR block of variables of elementary type without initial values; `T` any token that
`elementary_type_name` reads, INT and BOOL are shown to qualify): every variable comes back in order with its name,
class `Var`, no qualifier and its type. -/
theorem mirror_library_roundtrip_vars (ps : List MX.AnyProg) (h : ∀ p ∈ ps, p.WF) :
    Parse.library (ps.flatMap MX.AnyProg.toks) =
      some (.n "Library" [("elements", .l (ps.map fun p => Sx.t "ProgramDeclaration" [p.sx]))]) :=
  MX.library_reads_any ps h

/-- … and for libraries that mix programs, function blocks (`FUNCTION_BLOCK name [VAR … END_VAR] statements
END_FUNCTION_BLOCK`) and functions (`FUNCTION name : T statements END_FUNCTION`) in any order and number: `Parse.library` returns the declarations in source order, each of its
kind, nothing dropped, duplicated or reordered. -/
theorem mirror_library_roundtrip_pous (ps : List MX.Pou) (h : ∀ p ∈ ps, p.WF) :
    Parse.library (ps.flatMap MX.Pou.toks) = some (.n "Library" [("elements", .l (ps.map MX.Pou.elem))]) :=
  MX.library_reads_pous ps h

/-- non-vacuity: `n : INT;` meets `VarD.WF` -/
example : (MX.VarD.mk ⟨false, "Identifier", 0, 0, 0, 0, ['n']⟩ ⟨false, "Colon", 0, 0, 0, 0, [':']⟩
    ⟨false, "Int", 0, 0, 0, 0, "INT".toList⟩ "INT" ⟨false, "Semicolon", 0, 0, 0, 0, [';']⟩).WF :=
  ⟨rfl, rfl, rfl, MX.elementary_int _ rfl, by decide, by decide, by decide, by decide, by decide, by decide⟩

/-- non-vacuity: `PROGRAM main x := c; END_PROGRAM` meets `Prog.WF` -/
example : (MX.Prog.mk ⟨false, "Program", 0, 0, 0, 0, "PROGRAM".toList⟩ ⟨false, "Identifier", 0, 0, 0, 0, "main".toList⟩
    (.cons (.assign ⟨false, "Identifier", 0, 0, 0, 0, ['x']⟩ ⟨false, "Assignment", 0, 0, 0, 0, [':', '=']⟩
              (.leaf ⟨false, "Identifier", 0, 0, 0, 0, ['c']⟩)) ⟨false, "Semicolon", 0, 0, 0, 0, [';']⟩ .nil)
    ⟨false, "EndProgram", 0, 0, 0, 0, "END_PROGRAM".toList⟩).WF :=
  ⟨rfl, rfl, rfl, ⟨⟨rfl, rfl, rfl⟩, rfl, trivial⟩, rfl⟩

/-- non-vacuity: `FUNCTION f : INT f := c; END_FUNCTION` meets `Fn.WF` -/
example : (MX.Fn.mk ⟨false, "Function", 0, 0, 0, 0, "FUNCTION".toList⟩ ⟨false, "Identifier", 0, 0, 0, 0, ['f']⟩
    ⟨false, "Colon", 0, 0, 0, 0, [':']⟩ ⟨false, "Int", 0, 0, 0, 0, "INT".toList⟩ "INT"
    (.cons (.assign ⟨false, "Identifier", 0, 0, 0, 0, ['f']⟩ ⟨false, "Assignment", 0, 0, 0, 0, [':', '=']⟩
              (.leaf ⟨false, "Identifier", 0, 0, 0, 0, ['c']⟩)) ⟨false, "Semicolon", 0, 0, 0, 0, [';']⟩ .nil)
    ⟨false, "EndFunction", 0, 0, 0, 0, "END_FUNCTION".toList⟩).WF :=
  ⟨rfl, rfl, rfl, rfl, MX.elementary_int _ rfl, by decide, ⟨⟨rfl, rfl, rfl⟩, rfl, trivial⟩, rfl⟩

/-! ### non-vacuity: concrete trees over the generated table's levels
(`+`,`-` at level 5 and `*` at level 6).  The executable mirror itself is evaluated by the compiled
driver in the correspondence check — kernel evaluation of a backtracking PEG parser does not share work. -/

def plus : Climb.Op := ⟨0, 5⟩
def minus : Climb.Op := ⟨1, 5⟩
def times : Climb.Op := ⟨2, 6⟩

/-- `a - b - c * d` keeps its left association and `*` binds tighter -/
example : Climb.parseE 50 0 (Climb.pr 0 (.bin minus (.bin minus (.leaf 1) (.leaf 2)) (.bin times (.leaf 3) (.leaf 4)))) =
    .ok (.bin minus (.bin minus (.leaf 1) (.leaf 2)) (.bin times (.leaf 3) (.leaf 4))) [] := by decide

/-- `a - (b - c)` needs, and gets, its parentheses -/
example : Climb.pr 0 (.bin minus (.leaf 1) (.bin minus (.leaf 2) (.leaf 3))) =
    [.atom 1, .op minus, .lp, .atom 2, .op minus, .atom 3, .rp] := by decide

end C01
