import PlcProofs.Props.C11
#print axioms C11.one_publish_per_edit
#print axioms C11.store_is_last_write
#print axioms C11.history_independence
#print axioms C11.publish_uses_new_contents
#print axioms C11.fresh_server_equiv
