import PlcProofs.Props.C01
#print axioms C01.prec_table_is_annexB
#print axioms C01.climbing_roundtrip
#print axioms C01.climbing_fuel_monotone
#print axioms C01.mirror_expression_roundtrip
#print axioms C01.mirror_reads_any_parenthesisation
#print axioms C01.mirror_statement_list_roundtrip
#print axioms C01.mirror_library_roundtrip
#print axioms C01.mirror_library_roundtrip_vars
#print axioms C01.mirror_library_roundtrip_pous
