import PlcProofs.Props.C03
#print axioms C03.parse_error_never_masked
#print axioms C03.duplicate_never_collapsed
#print axioms C03.duplicate_is_diagnosed
#print axioms C03.constInit_silent
#print axioms C03.local_fault_never_masked
#print axioms C03.set_with_local_fault_fails
#print axioms C03.adding_files_never_cures
