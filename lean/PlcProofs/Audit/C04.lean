import PlcProofs.Props.C04
#print axioms C04.subrange_compare_is_integer_order
#print axioms C04.literal_integer_total
