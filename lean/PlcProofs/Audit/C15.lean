import PlcProofs.Props.C15
#print axioms C15.rel_roundtrip
#print axioms C15.highlight_sorted
#print axioms C15.synthetic_not_highlighted
#print axioms C15.semtok_decodes
#print axioms C15.highlighted_is_lexeme
#print axioms C15.null_on_lex_error
#print axioms C15.legend_sound
