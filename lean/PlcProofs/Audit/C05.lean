import PlcProofs.Props.C05
#print axioms C05.lexWith_items
#print axioms C05.lex_tiling
#print axioms C05.lex_contiguous
#print axioms C05.token_line_col
#print axioms C05.lexItems_tiling
#print axioms C05.preprocess_keeps_positions
#print axioms C05.insertSemis_only_adds
