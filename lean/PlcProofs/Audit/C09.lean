import PlcProofs.Props.C09
#print axioms C09.foldl_positional
#print axioms C09.natOfDigits_go
#print axioms C09.natOfDigits_value
#print axioms C09.natOfDigits_reject
#print axioms C09.integerNew_underscore
#print axioms C09.integerNew_range
#print axioms C09.integerBased_range
#print axioms C09.duration_exact
#print axioms C09.duration_subnanosecond_rejected
#print axioms C09.duration_overflow_rejected
#print axioms C09.duration_sum
#print axioms C09.tod_fields_in_range
#print axioms C09.date_is_calendar_date
#print axioms C09.filter_underscore
#print axioms C09.fixedPoint_underscores_ignored
#print axioms C09.integer_underscores_ignored
