import PlcProofs.Props.C14
#print axioms C14.utf8_roundtrip
#print axioms C14.decode_utf8_bom
#print axioms C14.decode_utf8
#print axioms C14.toNat_ofNat_lt
#print axioms C14.unitsOf_bytesOfUnit
#print axioms C14.char_range
#print axioms C14.decodeUnits_unitsOfChar
#print axioms C14.unitsOfChar_lt
#print axioms C14.unitsOf_encode
#print axioms C14.decodeUnits_encode
#print axioms C14.utf16_roundtrip
#print axioms C14.decode_utf16_bom
#print axioms C14.decode_cp1252
#print axioms C14.decode_total
#print axioms C14.cp1252_left_inverse
#print axioms C14.cp1252_ascii
