import PlcProofs.Props.C07
#print axioms C07.cyclic_iff_transGen
#print axioms C07.reverse_preserves_cycles
#print axioms C07.E_spec
#print axioms C07.rejects_iff_cycle
#print axioms C07.acyclic_never_rejected
