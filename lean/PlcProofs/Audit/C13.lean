import PlcProofs.Props.C13
#print axioms C13.check_exit0_iff_ok_iff_no_diag
#print axioms C13.check_nonzero_has_coded_diag
#print axioms C13.dir_equals_file_list
#print axioms C13.echo_exit0_iff_all_parse
#print axioms C13.tokenize_exit0_iff_all_tokenize
#print axioms C13.missing_path_fails
