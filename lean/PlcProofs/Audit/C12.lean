import PlcProofs.Props.C12
#print axioms C12.requests_answered_once
#print axioms C12.notifications_never_answered
#print axioms C12.unimplemented_gets_error
#print axioms C12.clean_exit
#print axioms C12.survives
