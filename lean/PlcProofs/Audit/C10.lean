import PlcProofs.Props.C10
#print axioms C10.expression_roundtrip
#print axioms C10.mirror_reads_renderer_parenthesisation
#print axioms C10.mirror_reads_printed_statements
#print axioms C10.mirror_reads_printed_library
#print axioms C10.renderer_model_prints_full_parentheses
#print axioms C10.every_table_operator_is_written
#print axioms C10.unparenthesised_nested_unary_not_read_back
#print axioms C10.fixed_point_of_roundtrip
#print axioms C10.duration_split_exact
#print axioms C10.duration_render_read
#print axioms C10.tod_fraction_read
#print axioms C10.renderer_words_are_keywords
#print axioms C10.renderer_operators_are_table_tokens
#print axioms C10.renderer_unary_operators
#print axioms C10.renderer_direct_literals_lex
