import PlcProofs.Props.C02
#print axioms C02.struct_rule
#print axioms C02.struct_rule_only
#print axioms C02.subrange_rule
#print axioms C02.enum_unique_rule
#print axioms C02.task_rule
#print axioms C02.var_use_rule
#print axioms C02.const_fb_rule
#print axioms C02.external_const_rule
#print axioms C02.stdlib_rule
#print axioms C02.analyze_ok_iff
#print axioms C02.no_spurious_P0004
#print axioms C02.single_fault_P0004
