import PlcProofs.Props.C02
#print axioms C02.struct_rule
#print axioms C02.struct_rule_only
#print axioms C02.subrange_rule
#print axioms C02.enum_unique_rule
#print axioms C02.task_rule
#print axioms C02.var_use_rule
#print axioms C02.const_fb_rule
#print axioms C02.external_const_rule
#print axioms C02.stdlib_rule
#print axioms C02.analyze_ok_iff
#print axioms C02.no_spurious_P0004
#print axioms C02.single_fault_P0004
#print axioms C02.stage_order_is_code
#print axioms C02.staged_pipeline
#print axioms C02.stage_codes_are_code
#print axioms C02.stage_codes_published
#print axioms C02.rule_reports_only_its_codes
