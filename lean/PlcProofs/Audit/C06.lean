import PlcProofs.Props.C06
#print axioms C06.merge_perm
#print axioms C06.parse_stage_perm
#print axioms C06.sameKey_symm
#print axioms C06.duplicate_stage_perm
#print axioms C06.unitEdges_mem_perm
#print axioms C06.unitNodes_mem_perm
#print axioms C06.recursive_stage_perm
#print axioms C06.site_rules_perm
#print axioms C06.verdict_perm_partial
#print axioms C06.verdict_perm
#print axioms C06.codes_perm
