import PlcModel.SemTok
import PlcModel.Gen.Tokens
import PlcProofs.Lemmas.Lex

/-! Helper definitions and lemmas for C15. -/

/-- lexicographic `≤` on (line, col) -/
def Le2 (l c l' c' : Nat) : Prop := l < l' ∨ (l' = l ∧ c ≤ c')

theorem Le2.refl (l c : Nat) : Le2 l c l c := Or.inr ⟨rfl, Nat.le_refl _⟩

theorem Le2.trans {a b c d e f : Nat} (h1 : Le2 a b c d) (h2 : Le2 c d e f) : Le2 a b e f := by
  unfold Le2 at *; omega

/-- `ts` is sorted by position starting at or after `(l, c)`: every token is non-empty and the next
one starts on a later line, or on the same line at or after the column where this one ends. -/
def SortedFrom : Nat → Nat → List AbsTok → Prop
  | _, _, [] => True
  | l, c, t :: ts =>
    Le2 l c t.line t.col ∧ 0 < t.len ∧
    (∀ t', ts.head? = some t' → t.line < t'.line ∨ (t'.line = t.line ∧ t.col + t.len ≤ t'.col)) ∧
    SortedFrom t.line t.col ts

theorem SortedFrom.weaken {l c l' c' : Nat} {ts : List AbsTok} (h : SortedFrom l c ts)
    (hle : Le2 l' c' l c) : SortedFrom l' c' ts := by
  cases ts with
  | nil => trivial
  | cons t ts => exact ⟨hle.trans h.1, h.2.1, h.2.2.1, h.2.2.2⟩

theorem decode_encode (pl pc : Nat) (ts : List AbsTok) (h : SortedFrom pl pc ts) :
    decodeRel pl pc (encodeRel pl pc ts) = ts := by
  induction ts generalizing pl pc with
  | nil => simp [encodeRel, decodeRel]
  | cons t ts ih =>
    obtain ⟨hle, _, _, hrest⟩ := h
    simp only [encodeRel, decodeRel]
    have hl : pl + (t.line - pl) = t.line := by unfold Le2 at hle; omega
    have hc : (if (t.line - pl == 0) = true then pc + (if (t.line == pl) = true then t.col - pc else t.col)
        else (if (t.line == pl) = true then t.col - pc else t.col)) = t.col := by
      unfold Le2 at hle
      by_cases e : t.line = pl
      · have : t.line - pl = 0 := by omega
        simp [e]; omega
      · have : ¬ (t.line - pl = 0) := by omega
        simp [e, this]
    rw [hl, hc, ih _ _ hrest]

/-- the items of a lexing run carry the running position -/
def PosChain : Nat → Nat → List Item → Prop
  | _, _, [] => True
  | l, c, it :: rest =>
    it.line = l ∧ it.col = c ∧ it.text ≠ [] ∧
    PosChain (advancePos it.text l c).1 (advancePos it.text l c).2 rest

theorem lexWith_posChain (ch : List Char → Option String × Nat) :
    ∀ fuel s off l c, PosChain l c (lexWith ch fuel s off l c) := by
  intro fuel
  induction fuel with
  | zero => intro s off l c; simp [lexWith, PosChain]
  | succ fuel ih =>
    intro s off l c
    cases s with
    | nil => simp [lexWith, PosChain]
    | cons x xs =>
      have hne : ∀ n, 1 ≤ n → (x :: xs).take n ≠ [] := by
        intro n hn; cases n with
        | zero => omega
        | succ n => simp
      simp only [lexWith]
      split
      · exact ⟨rfl, rfl, hne _ (by omega), ih _ _ _ _⟩
      · exact ⟨rfl, rfl, hne _ (by omega), ih _ _ _ _⟩

theorem advancePos_le2 (txt : List Char) (l c : Nat) :
    l < (advancePos txt l c).1 ∨ ((advancePos txt l c).1 = l ∧ (advancePos txt l c).2 = c + utf8Len txt) := by
  by_cases h : '\n' ∈ txt
  · left
    rw [advancePos_line]
    have : 0 < txt.count '\n' := List.count_pos_iff.mpr h
    omega
  · right
    rw [advancePos_no_nl _ _ _ h]; simp

theorem highlight_cons (it : Item) (rest : List Item) :
    highlight (it :: rest) =
      (match hl1 it with
       | some t => t :: highlight rest
       | none => highlight rest) := by
  simp only [highlight, List.filterMap_cons]
  cases hl1 it <;> rfl

theorem highlight_sortedFrom : ∀ (items : List Item) (l c : Nat), PosChain l c items →
    ∀ l0 c0, Le2 l0 c0 l c → SortedFrom l0 c0 (highlight items) := by
  intro items
  induction items with
  | nil => intro l c _ l0 c0 _; simp [highlight, SortedFrom]
  | cons it rest ih =>
    intro l c hch l0 c0 hle
    obtain ⟨hl, hc, hne, hrest⟩ := hch
    have hadv := advancePos_le2 it.text l c
    have hstep : Le2 l c (advancePos it.text l c).1 (advancePos it.text l c).2 := by
      unfold Le2; omega
    rw [highlight_cons]
    split
    · rename_i t ht
      by_cases he : it.err = true
      · simp [hl1, he] at ht
      · simp only [hl1, he, Bool.false_eq_true, if_false, Option.map_eq_some_iff] at ht
        obtain ⟨i, _, rfl⟩ := ht
        have hlen : 0 < utf8Len it.text := utf8Len_pos hne
        have htail := ih _ _ hrest _ _ (Le2.refl _ _)
        refine ⟨by simpa [hl, hc] using hle, hlen, ?_, ?_⟩
        · intro t' ht'
          cases hh : highlight rest with
          | nil => simp [hh] at ht'
          | cons t'' ts =>
            rw [hh] at htail ht'
            simp at ht'; subst ht'
            have := htail.1
            unfold Le2 at this
            simp only [hl, hc]
            omega
        · exact htail.weaken (by simpa [hl, hc] using hstep)
    · exact ih _ _ hrest _ _ (hle.trans hstep)

theorem highlight_lexItems_sorted (s : List Char) : SortedFrom 0 0 (highlight (lexItems s)) :=
  highlight_sortedFrom _ 0 0 (lexWith_posChain choose _ _ _ _ _) 0 0 (Le2.refl _ _)

theorem highlight_insertSemis (hsemi : legendOf "Semicolon" = none) (items : List Item) (b : Bool) :
    highlight (insertSemisGo b items) = highlight items := by
  induction items generalizing b with
  | nil => simp [insertSemisGo]
  | cons it rest ih =>
    simp only [insertSemisGo]
    split
    · rw [highlight_cons, highlight_cons (it := it), ih]
    · split
      · rw [highlight_cons, highlight_cons, highlight_cons (it := it), ih]
        simp [hl1, hsemi]
      · rw [highlight_cons, highlight_cons (it := it), ih]

/-! ### legend soundness as a Boolean over the generated tables -/

def wordOps : List String := ["Or", "Xor", "And", "Not", "Mod"]
def punctOps : List String := [":=", "+", "-", "*", "/", "**", "=", "<>", "<", ">", "<=", ">=", "&"]

def isAsciiAlpha (c : Char) : Bool := ('a' ≤ c && c ≤ 'z') || ('A' ≤ c && c ≤ 'Z')

/-- admissible LSP token type names for one table entry (lenient reading of C15) -/
def admissibleOf (e : Gen.Entry) : List String :=
  if !e.isRegex then
    match e.text.toList.head? with
    | some c =>
      if isAsciiAlpha c then
        if wordOps.contains e.ty then ["operator", "keyword"]
        else if e.ty == "String" || e.ty == "WString" then ["keyword", "string", "type"]
        else ["keyword", "modifier", "type"]
      else if punctOps.contains e.text then ["operator"]
      else if e.text == ".." || e.text == "=>" then ["keyword", "operator"]
      else ["operator"]
    | none => []
  else if e.ty == "Identifier" then ["variable"]
  else if e.ty == "Comment" then ["comment"]
  else if e.ty == "DirectAddress" || e.ty == "DirectAddressIncomplete" then ["operator", "variable"]
  else if e.ty == "SingleByteString" || e.ty == "DoubleByteString" then ["string"]
  else if e.ty == "Whitespace" || e.ty == "Newline" then []
  else ["number"]

def admissible (v : String) : List String := (Gen.table.filter (·.ty == v)).flatMap admissibleOf

/-- the legend indices given to the word operators (OR XOR AND NOT MOD) -/
def wordOpClasses : List (Option Nat) :=
  wordOps.filterMap fun v => (Gen.legendMap.find? (·.1 == v)).map (·.2)

def legendSoundB : Bool :=
  (Gen.legendMap.all fun p =>
    match p.2 with
    | none => true
    | some i =>
      match Gen.legend[i]? with
      | none => false
      | some name => (admissible p.1).contains name)
  -- the lenient reading lets the word operators be `operator` or `keyword`, but all of them alike
  && (match wordOpClasses with
      | [] => true
      | c :: cs => cs.all (· == c))
