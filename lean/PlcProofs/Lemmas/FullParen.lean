/-!
# Fully parenthesised printing is read back by precedence climbing — for every precedence table

Model of what `visit_binary_expr` / `visit_compare_expr` / `visit_unary_expr` of the renderer write
(every binary or comparison node in parentheses; a unary operator directly before its operand, the
operand in parentheses only when it is itself a unary expression) and of how `expression()` of the
parser reads it (rust-peg `precedence!` climbing; `unary_expression = unary_operator? primary_expression`;
`primary_expression` = an atom or `( expression )`).  Atoms (constants, variables, calls) are opaque.
-/

namespace FullParen

structure Op where
  id : Nat
  prec : Nat
deriving DecidableEq, Repr

inductive Tok where
  | atom (n : Nat)
  | op (o : Op)
  | uop (u : Nat)
  | lp
  | rp
deriving DecidableEq, Repr

inductive Expr where
  | leaf (n : Nat)
  | un (u : Nat) (e : Expr)
  | bin (o : Op) (l r : Expr)
deriving DecidableEq, Repr

inductive Res where
  | ok (e : Expr) (rest : List Tok)
  | fail
  | oof
deriving DecidableEq, Repr

mutual
  def parseE : Nat → Nat → List Tok → Res
    | 0, _, _ => .oof
    | fuel+1, minp, ts =>
      match parseAtom fuel ts with
      | .ok lhs ts' => loop fuel minp lhs ts'
      | .fail => .fail
      | .oof => .oof
  /-- `unary_expression`: an optional unary operator, then a primary expression -/
  def parseAtom : Nat → List Tok → Res
    | 0, _ => .oof
    | fuel+1, .uop u :: ts =>
      match parsePrimary fuel ts with
      | .ok e ts' => .ok (.un u e) ts'
      | .fail => .fail
      | .oof => .oof
    | fuel+1, ts => parsePrimary fuel ts
  def parsePrimary : Nat → List Tok → Res
    | 0, _ => .oof
    | _+1, .atom n :: ts => .ok (.leaf n) ts
    | fuel+1, .lp :: ts =>
      match parseE fuel 0 ts with
      | .ok e (.rp :: ts') => .ok e ts'
      | .ok _ _ => .fail
      | .fail => .fail
      | .oof => .oof
    | _+1, _ => .fail
  def loop : Nat → Nat → Expr → List Tok → Res
    | 0, _, _, _ => .oof
    | fuel+1, minp, lhs, ts =>
      match ts with
      | .op o :: ts' =>
        if minp ≤ o.prec then
          match parseE fuel (o.prec + 1) ts' with
          | .ok rhs ts'' => loop fuel minp (.bin o lhs rhs) ts''
          | .fail => .ok lhs ts
          | .oof => .oof
        else .ok lhs ts
      | _ => .ok lhs ts
end

/-- the renderer's printing: every binary node parenthesised; a unary operand parenthesised only
when it is a unary expression itself -/
def prFull : Expr → List Tok
  | .leaf n => [.atom n]
  | .un u (.un v e) => .uop u :: .lp :: (prFull (.un v e) ++ [.rp])
  | .un u e => .uop u :: prFull e
  | .bin o l r => .lp :: (prFull l ++ .op o :: (prFull r ++ [.rp]))

/-- `rest` does not start with a binary operator -/
def NoOp : List Tok → Prop
  | .op _ :: _ => False
  | _ => True

theorem loop_noop (f minp : Nat) (e : Expr) (rest : List Tok) (h : NoOp rest) :
    loop (f + 1) minp e rest = .ok e rest := by
  match rest, h with
  | [], _ => simp [loop]
  | .atom _ :: _, _ => simp [loop]
  | .uop _ :: _, _ => simp [loop]
  | .lp :: _, _ => simp [loop]
  | .rp :: _, _ => simp [loop]

/-- what the printing of a non-unary expression looks like to `parseAtom`: it does not start with a
unary operator, so `parseAtom` is `parsePrimary` -/
theorem parseAtom_of_not_uop (f : Nat) (ts : List Tok) (h : ∀ u ts', ts ≠ .uop u :: ts') :
    parseAtom (f + 1) ts = parsePrimary f ts := by
  match ts with
  | [] => simp [parseAtom]
  | .atom _ :: _ => simp [parseAtom]
  | .op _ :: _ => simp [parseAtom]
  | .lp :: _ => simp [parseAtom]
  | .rp :: _ => simp [parseAtom]
  | .uop u :: ts' => exact absurd rfl (h u ts')

def isUn : Expr → Bool
  | .un _ _ => true
  | _ => false

/-- Main lemma.  For every tree there is a fuel bound `k` such that
* `parseAtom` reads the printing of the tree back, whatever follows, and
* if the tree is not a unary expression, `parsePrimary` does so too (one level less fuel). -/
theorem atom_primary (e : Expr) : ∃ k, ∀ f rest,
    parseAtom (f + k + 1) (prFull e ++ rest) = .ok e rest ∧
    (isUn e = false → parsePrimary (f + k) (prFull e ++ rest) = .ok e rest) := by
  induction e with
  | leaf n =>
    refine ⟨1, fun f rest => ⟨?_, fun _ => ?_⟩⟩
    · simp [prFull, parseAtom, parsePrimary]
    · simp [prFull, parsePrimary]
  | bin o l r ihl ihr =>
    obtain ⟨kl, ihl⟩ := ihl
    obtain ⟨kr, ihr⟩ := ihr
    -- fuel for `parsePrimary` on `( l op r )`
    have hprim : ∀ f rest, parsePrimary (f + (kl + kr + 5)) (prFull (.bin o l r) ++ rest) = .ok (.bin o l r) rest := by
      intro f rest
      have e1 : prFull (.bin o l r) ++ rest = .lp :: (prFull l ++ (.op o :: (prFull r ++ (.rp :: rest)))) := by
        simp [prFull]
      rw [e1, show f + (kl + kr + 5) = (f + kl + kr + 4) + 1 by omega, parsePrimary]
      -- inside the parentheses
      have hin : parseE (f + kl + kr + 4) 0 (prFull l ++ (.op o :: (prFull r ++ (.rp :: rest))))
          = .ok (.bin o l r) (.rp :: rest) := by
        rw [show f + kl + kr + 4 = (f + kl + kr + 3) + 1 by omega, parseE]
        have hl := (ihl (f + kr + 2) (.op o :: (prFull r ++ (.rp :: rest)))).1
        rw [show f + kr + 2 + kl + 1 = f + kl + kr + 3 by omega] at hl
        rw [hl]
        simp only
        rw [show f + kl + kr + 3 = (f + kl + kr + 2) + 1 by omega, loop]
        simp only [Nat.zero_le, if_true]
        have hr : parseE (f + kl + kr + 2) (o.prec + 1) (prFull r ++ (.rp :: rest)) = .ok r (.rp :: rest) := by
          rw [show f + kl + kr + 2 = (f + kl + kr + 1) + 1 by omega, parseE]
          have hr' := (ihr (f + kl) (.rp :: rest)).1
          rw [show f + kl + kr + 1 = f + kl + kr + 1 by rfl] at hr'
          rw [hr']
          simp only
          rw [show f + kl + kr + 1 = (f + kl + kr) + 1 by omega]
          exact loop_noop _ _ _ _ (by simp [NoOp])
        rw [hr]
        simp only
        rw [show f + kl + kr + 2 = (f + kl + kr + 1) + 1 by omega]
        exact loop_noop _ _ _ _ (by simp [NoOp])
      rw [hin]
    refine ⟨kl + kr + 5, fun f rest => ⟨?_, fun _ => hprim f rest⟩⟩
    rw [parseAtom_of_not_uop]
    · exact hprim f rest
    · intro u ts' h
      simp [prFull] at h
  | un u e ih =>
    obtain ⟨k, ih⟩ := ih
    refine ⟨k + 4, fun f rest => ⟨?_, fun h => by simp [isUn] at h⟩⟩
    cases e with
    | leaf n =>
      simp [prFull, parseAtom, parsePrimary]
    | bin o l r =>
      have e1 : prFull (.un u (.bin o l r)) ++ rest = .uop u :: (prFull (.bin o l r) ++ rest) := by
        simp [prFull]
      rw [e1, show f + (k + 4) + 1 = (f + 4 + k) + 1 by omega, parseAtom]
      rw [(ih (f + 4) rest).2 (by simp [isUn])]
    | un v e' =>
      have e1 : prFull (.un u (.un v e')) ++ rest = .uop u :: .lp :: (prFull (.un v e') ++ (.rp :: rest)) := by
        simp [prFull]
      rw [e1, show f + (k + 4) + 1 = (f + k + 4) + 1 by omega, parseAtom]
      rw [show f + k + 4 = (f + k + 3) + 1 by omega, parsePrimary]
      have hin : parseE (f + k + 3) 0 (prFull (.un v e') ++ (.rp :: rest)) = .ok (.un v e') (.rp :: rest) := by
        rw [show f + k + 3 = (f + k + 2) + 1 by omega, parseE]
        have h1 := (ih (f + 1) (.rp :: rest)).1
        rw [show f + 1 + k + 1 = f + k + 2 by omega] at h1
        rw [h1]
        simp only
        rw [show f + k + 2 = (f + k + 1) + 1 by omega]
        exact loop_noop _ _ _ _ (by simp [NoOp])
      rw [hin]

/-- Round trip of the renderer's expression printing, for every precedence assignment and every
minimum precedence the expression is read at. -/
theorem roundtrip (e : Expr) (minp : Nat) (rest : List Tok) (h : NoOp rest) :
    ∃ fuel, parseE fuel minp (prFull e ++ rest) = .ok e rest := by
  obtain ⟨k, hk⟩ := atom_primary e
  refine ⟨k + 1 + 1, ?_⟩
  rw [parseE]
  have := (hk 0 rest).1
  rw [show 0 + k + 1 = k + 1 by omega] at this
  rw [this]
  simp only
  exact loop_noop _ _ _ _ h

-- sanity: - ( - a ) * ( b + NOT c ) with arbitrary precedences
def mul : Op := ⟨0, 3⟩
def add : Op := ⟨1, 7⟩   -- deliberately "wrong" precedences: the parentheses make them irrelevant
def ex1 : Expr := .bin mul (.un 0 (.un 0 (.leaf 1))) (.bin add (.leaf 2) (.un 1 (.leaf 3)))
example : parseE 20 0 (prFull ex1) = .ok ex1 [] := by decide

end FullParen
