import PlcModel.Lex
import PlcModel.Gen.RenderKw
import PlcModel.Gen.TextKw
import PlcModel.Gen.Prec

/-!
# What the renderer writes is what the lexer and the grammar know

`Gen.renderLits` is every string literal of `plc2plc/src/renderer.rs` (arguments of `write_ws` / `write`, results of
its match arms), re-extracted on every run; `Gen.table` is the token table of `token.rs`, `Gen.textKw` the words the
grammar matches by text, `Gen.prec` the `precedence!` block of `parser.rs`.  The three facts below are evaluated by the
kernel over the whole tables (`decide +kernel`; no `native_decide`).
-/

namespace RenderWords

/-- a word in capitals: letters `A`–`Z` and `_`, at least two of them -/
def kwShaped (s : String) : Bool := decide (2 ≤ s.toList.length) && s.toList.all fun c => ('A' ≤ c && c ≤ 'Z') || c == '_'

/-- the lexer reads the whole of `s` as one token, and not as an identifier -/
def reservedWord (s : String) : Bool :=
  match lexOne s.toList with
  | some (e, n) => n == s.toList.length && e.ty != "Identifier"
  | none => false

/-- the grammar matches `s` by its text (`tok_eq`, `id_eq`, `dt_sep`) -/
def textKeyword (s : String) : Bool := Gen.textKw.any fun k => k.2.2 == s

/-- the lexer reads the whole of `s` as one token of type `ty` -/
def lexesAs (s ty : String) : Bool :=
  match lexOne s.toList with
  | some (e, n) => e.ty == ty && n == s.toList.length
  | none => false

def wordsOk : Bool :=
  Gen.renderLits.all fun l => !kwShaped l.2.2 || reservedWord l.2.2 || textKeyword l.2.2 || l.2.2 == "INTERNAL"

theorem wordsOk_true : wordsOk = true := by decide +kernel

def directOk : Bool :=
  Gen.renderLits.all fun l => l.1 == "arm" || (!(lexItems l.2.2.toList).isEmpty && (lexItems l.2.2.toList).all fun i => !i.err)

theorem directOk_true : directOk = true := by decide +kernel

def operatorsOk : Bool :=
  Gen.prec.all fun row => Gen.renderLits.any fun l =>
    l.1 == "arm" && l.2.1 == row.opEnum ++ "::" ++ row.op && lexesAs l.2.2 row.token

theorem operatorsOk_true : operatorsOk = true := by decide +kernel

def unaryOk : Bool :=
  (Gen.renderLits.any fun l => l.1 == "arm" && l.2.1 == "UnaryOp::Neg" && lexesAs l.2.2 "Minus") &&
  (Gen.renderLits.any fun l => l.1 == "arm" && l.2.1 == "UnaryOp::Not" && lexesAs l.2.2 "Not")

theorem unaryOk_true : unaryOk = true := by decide +kernel

end RenderWords
