import PlcModel.Graph
import Mathlib.Data.Fintype.Card
import Mathlib.Logic.Relation
import Mathlib.Order.WellFounded
import Mathlib.Data.Set.Finite.Basic

/-! Lemmas for C07: Kahn elimination decides cyclicity. -/

open Relation

/-- the edge relation among `nodes` -/
def E (nodes : List Nat) (edges : Edges) (u v : Nat) : Prop := (u, v) ∈ edges ∧ u ∈ nodes ∧ v ∈ nodes

theorem hasIncoming_iff (alive : List Nat) (edges : Edges) (v : Nat) :
    hasIncoming alive edges v = true ↔ ∃ u ∈ alive, (u, v) ∈ edges := by
  simp only [hasIncoming, List.any_eq_true, Bool.and_eq_true, beq_iff_eq, List.contains_iff_mem]
  constructor
  · rintro ⟨⟨a, b⟩, hm, hb, ha⟩
    simp at hb; subst hb
    exact ⟨a, ha, hm⟩
  · rintro ⟨u, hu, hm⟩
    exact ⟨(u, v), hm, rfl, hu⟩

/-- the result of elimination is a sublist of the start, and is stuck: every remaining node has an
incoming edge from a remaining node -/
theorem elim_stuck (edges : Edges) : ∀ fuel alive, alive.length ≤ fuel →
    (∀ v ∈ elim fuel alive edges, v ∈ alive) ∧
    (∀ v ∈ elim fuel alive edges, hasIncoming (elim fuel alive edges) edges v = true) := by
  intro fuel
  induction fuel with
  | zero =>
    intro alive h
    have : alive = [] := List.eq_nil_of_length_eq_zero (by omega)
    subst this; simp [elim]
  | succ fuel ih =>
    intro alive h
    simp only [elim]
    split
    · rename_i v hv
      have hmem : v ∈ alive := List.mem_of_find?_eq_some hv
      have hlen : (alive.filter (· != v)).length ≤ fuel := by
        have : (alive.filter (· != v)).length < alive.length := by
          apply List.length_filter_lt_length_iff_exists.mpr
          exact ⟨v, hmem, by simp⟩
        omega
      obtain ⟨h1, h2⟩ := ih _ hlen
      refine ⟨fun w hw => ?_, h2⟩
      exact (List.mem_filter.mp (h1 w hw)).1
    · rename_i hnone
      refine ⟨fun v hv => hv, fun v hv => ?_⟩
      have := List.find?_eq_none.mp hnone v hv
      simpa using this

/-- nodes on a cycle are never eliminated -/
theorem elim_keeps_cyclic (nodes : List Nat) (edges : Edges) : ∀ fuel alive,
    (∀ v, v ∈ alive → v ∈ nodes) →
    (∀ v, TransGen (E nodes edges) v v → v ∈ alive) →
    ∀ v, TransGen (E nodes edges) v v → v ∈ elim fuel alive edges := by
  intro fuel
  induction fuel with
  | zero => intro alive _ h v hv; exact h v hv
  | succ fuel ih =>
    intro alive hsub h v hv
    simp only [elim]
    split
    · rename_i w hw
      apply ih
      · intro x hx; exact hsub x (List.mem_filter.mp hx).1
      · intro x hx
        refine List.mem_filter.mpr ⟨h x hx, ?_⟩
        simp only [bne_iff_ne, ne_eq]
        rintro rfl
        -- x is cyclic, so it has a cyclic predecessor, which is alive: x has an incoming edge
        have hno : hasIncoming alive edges x = false := by
          have := List.find?_some hw; simpa using this
        obtain ⟨u, hwu, hux⟩ : ∃ u, ReflTransGen (E nodes edges) x u ∧ E nodes edges u x := by
          rcases TransGen.tail'_iff.mp hx with ⟨u, h1, h2⟩
          exact ⟨u, h1, h2⟩
        have hu_cyc : TransGen (E nodes edges) u u := TransGen.head' hux hwu
        have : hasIncoming alive edges x = true :=
          (hasIncoming_iff _ _ _).mpr ⟨u, h u hu_cyc, hux.1⟩
        rw [hno] at this; exact absurd this (by simp)
      · exact hv
    · exact h v hv

/-- a non-empty stuck set contains a cycle -/
theorem stuck_has_cycle (nodes S : List Nat) (edges : Edges) (hne : S ≠ [])
    (hsub : ∀ v ∈ S, v ∈ nodes)
    (hstuck : ∀ v ∈ S, hasIncoming S edges v = true) :
    ∃ v, TransGen (E nodes edges) v v := by
  classical
  by_contra hac
  have hac : ∀ v, ¬ TransGen (E nodes edges) v v := fun v h => hac ⟨v, h⟩
  -- relation on the finite subtype of members of S
  let R : {x // x ∈ S} → {x // x ∈ S} → Prop := fun a b => (a.1, b.1) ∈ edges
  have hlift : ∀ a b : {x // x ∈ S}, TransGen R a b → TransGen (E nodes edges) a.1 b.1 := by
    intro a b h
    induction h with
    | single h => exact TransGen.single ⟨h, hsub _ a.2, hsub _ (Subtype.property _)⟩
    | tail _ h ih => exact TransGen.tail ih ⟨h, hsub _ (Subtype.property _), hsub _ (Subtype.property _)⟩
  have : Finite {x // x ∈ S} := (List.finite_toSet S).to_subtype
  have : IsTrans _ (TransGen R) := ⟨fun _ _ _ => TransGen.trans⟩
  have : Std.Irrefl (TransGen R) := ⟨fun a h => hac a.1 (hlift a a h)⟩
  have wf : WellFounded (TransGen R) := Finite.wellFounded_of_trans_of_irrefl _
  obtain ⟨a, ha⟩ := List.exists_mem_of_ne_nil S hne
  obtain ⟨m, _, hmin⟩ := wf.has_min Set.univ ⟨⟨a, ha⟩, trivial⟩
  obtain ⟨u, hu, hum⟩ := (hasIncoming_iff _ _ _).mp (hstuck m.1 m.2)
  exact hmin ⟨u, hu⟩ trivial (TransGen.single hum)

theorem cyclicExec_iff (nodes : List Nat) (edges : Edges) :
    cyclicExec nodes edges = true ↔ ∃ v, TransGen (E nodes edges) v v := by
  obtain ⟨hsub, hstuck⟩ := elim_stuck edges nodes.length nodes (Nat.le_refl _)
  constructor
  · intro h
    have hne : elim nodes.length nodes edges ≠ [] := by
      intro e; simp [cyclicExec, e] at h
    exact stuck_has_cycle nodes _ edges hne hsub hstuck
  · rintro ⟨v, hv⟩
    have hvn : v ∈ nodes := by
      rcases TransGen.head'_iff.mp hv with ⟨_, h, _⟩; exact h.2.1
    have := elim_keeps_cyclic nodes edges nodes.length nodes (fun _ h => h)
      (fun w hw => by rcases TransGen.head'_iff.mp hw with ⟨_, h, _⟩; exact h.2.1) v hv
    simp only [cyclicExec, Bool.not_eq_true', List.isEmpty_eq_false_iff]
    intro e; rw [e] at this; simp at this
