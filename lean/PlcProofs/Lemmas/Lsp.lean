import PlcModel.Lsp

/-! Helper definitions and lemmas about M-Lsp (C11, C12). -/

/-- shutdown / exit: the two messages handled by the loop itself -/
def isCtl : Msg → Bool
  | .shutdown _ => true
  | .exit => true
  | _ => false

/-- the server loop over messages that are neither shutdown nor exit -/
def stepAll : Store → List Msg → Store × List Out
  | st, [] => (st, [])
  | st, m :: rest =>
    let r := step st m
    let r2 := stepAll r.1 rest
    (r2.1, r.2 ++ r2.2)

theorem runFrom_body (body tail : List Msg) (hb : ∀ m ∈ body, isCtl m = false) :
    ∀ st acc, runFrom st (body ++ tail) acc =
      runFrom (stepAll st body).1 tail (acc ++ (stepAll st body).2) := by
  induction body with
  | nil => intro st acc; simp [stepAll]
  | cons m rest ih =>
    intro st acc
    have hm : isCtl m = false := hb m (by simp)
    have hrest : ∀ m ∈ rest, isCtl m = false := fun x hx => hb x (by simp [hx])
    have e : runFrom st (m :: (rest ++ tail)) acc =
        runFrom (step st m).1 (rest ++ tail) (acc ++ (step st m).2) := by
      cases m <;> simp_all [runFrom, isCtl]
    rw [List.cons_append, e, ih hrest]
    simp [stepAll, List.append_assoc]

/-- ids of the requests among the messages -/
def reqIds : List Msg → List Nat
  | [] => []
  | .semTok id _ :: rest => id :: reqIds rest
  | .unknownReq id _ :: rest => id :: reqIds rest
  | .shutdown id :: rest => id :: reqIds rest
  | _ :: rest => reqIds rest

/-- ids carried by the responses among the outputs -/
def replyIds : List Out → List Nat
  | [] => []
  | .tokens id _ :: rest => id :: replyIds rest
  | .error id _ :: rest => id :: replyIds rest
  | .shutdownReply id :: rest => id :: replyIds rest
  | .publish .. :: rest => replyIds rest

theorem replyIds_append (a b : List Out) : replyIds (a ++ b) = replyIds a ++ replyIds b := by
  induction a with
  | nil => rfl
  | cons x xs ih => cases x <;> simp [replyIds, ih]

theorem replyIds_stepAll (body : List Msg) (hb : ∀ m ∈ body, isCtl m = false) :
    ∀ st, replyIds (stepAll st body).2 = reqIds body := by
  induction body with
  | nil => intro st; rfl
  | cons m rest ih =>
    intro st
    have hrest : ∀ m ∈ rest, isCtl m = false := fun x hx => hb x (by simp [hx])
    have hm : isCtl m = false := hb m (by simp)
    simp only [stepAll, replyIds_append, ih hrest]
    cases m <;> simp_all [step, replyIds, reqIds, isCtl]

/-- the (uri, version) of the edits (didOpen / didChange) among the messages -/
def edits : List Msg → List (Uri × Int)
  | [] => []
  | .didOpen u v _ :: rest => (u, v) :: edits rest
  | .didChange u v _ :: rest => (u, v) :: edits rest
  | _ :: rest => edits rest

/-- the (uri, version) of the publishDiagnostics among the outputs -/
def publishes : List Out → List (Uri × Int)
  | [] => []
  | .publish u v _ :: rest => (u, v) :: publishes rest
  | _ :: rest => publishes rest

theorem publishes_append (a b : List Out) : publishes (a ++ b) = publishes a ++ publishes b := by
  induction a with
  | nil => rfl
  | cons x xs ih => cases x <;> simp [publishes, ih]

theorem publishes_stepAll (body : List Msg) (hb : ∀ m ∈ body, isCtl m = false) :
    ∀ st, publishes (stepAll st body).2 = edits body := by
  induction body with
  | nil => intro st; rfl
  | cons m rest ih =>
    intro st
    have hrest : ∀ m ∈ rest, isCtl m = false := fun x hx => hb x (by simp [hx])
    simp only [stepAll, publishes_append, ih hrest]
    cases m <;> simp_all [step, publishes, edits, isCtl]

/-! ### the document store is a canonical finite map -/

def StrictSorted : Store → Prop
  | [] => True
  | [_] => True
  | (k, _) :: (k', v') :: rest => k < k' ∧ StrictSorted ((k', v') :: rest)

theorem getDoc_setDoc (st : Store) (k k' : Nat) (v : List Char) :
    getDoc (setDoc st k v) k' = if k' = k then some v else getDoc st k' := by
  induction st with
  | nil => simp [setDoc, getDoc]
  | cons p rest ih =>
    obtain ⟨a, b⟩ := p
    simp only [setDoc]
    split
    · simp [getDoc]
    · split
      · rename_i h1 h2; subst h2
        by_cases e : k' = k <;> simp [getDoc, e]
      · rename_i h1 h2
        simp only [getDoc, ih]
        by_cases e : k' = k
        · subst e
          have : ¬ k' = a := by omega
          simp [this]
        · simp [e]

theorem lowerBound_setDoc (st : Store) (k : Nat) (v : List Char) (b : Nat)
    (hb : ∀ p ∈ st, b < p.1) (hk : b < k) : ∀ p ∈ setDoc st k v, b < p.1 := by
  induction st with
  | nil => intro p hp; simp [setDoc] at hp; subst hp; exact hk
  | cons q rest ih =>
    obtain ⟨a, c⟩ := q
    intro p hp
    simp only [setDoc] at hp
    split at hp
    · rcases List.mem_cons.mp hp with rfl | hp
      · exact hk
      · exact hb p hp
    · split at hp
      · rcases List.mem_cons.mp hp with rfl | hp
        · exact hk
        · exact hb p (by simp [hp])
      · rcases List.mem_cons.mp hp with rfl | hp
        · exact hb _ (by simp)
        · exact ih (fun p hp => hb p (by simp [hp])) p hp

theorem strictSorted_cons_iff (k : Nat) (v : List Char) (rest : Store) :
    StrictSorted ((k, v) :: rest) ↔ (∀ p ∈ rest, k < p.1) ∧ StrictSorted rest := by
  induction rest generalizing k v with
  | nil => simp [StrictSorted]
  | cons q rest ih =>
    obtain ⟨a, c⟩ := q
    simp only [StrictSorted, ih]
    constructor
    · rintro ⟨h1, h2, h3⟩
      refine ⟨?_, h2, h3⟩
      intro p hp
      rcases List.mem_cons.mp hp with rfl | hp
      · exact h1
      · have := h2 p hp; omega
    · rintro ⟨h1, h2, h3⟩
      exact ⟨h1 (a, c) (by simp), h2, h3⟩

theorem strictSorted_setDoc (st : Store) (k : Nat) (v : List Char) (h : StrictSorted st) :
    StrictSorted (setDoc st k v) := by
  induction st with
  | nil => simp [setDoc, StrictSorted]
  | cons q rest ih =>
    obtain ⟨a, c⟩ := q
    rw [strictSorted_cons_iff] at h
    simp only [setDoc]
    split
    · rename_i hlt
      rw [strictSorted_cons_iff]
      refine ⟨?_, (strictSorted_cons_iff _ _ _).mpr h⟩
      intro p hp
      rcases List.mem_cons.mp hp with rfl | hp
      · exact hlt
      · have := h.1 p hp; omega
    · split
      · rename_i h1 h2; subst h2
        exact (strictSorted_cons_iff _ _ _).mpr h
      · rename_i h1 h2
        rw [strictSorted_cons_iff]
        exact ⟨lowerBound_setDoc rest k v a h.1 (by omega), ih h.2⟩

theorem getDoc_none_of_lt (st : Store) (k : Nat) (h : ∀ p ∈ st, k < p.1) : getDoc st k = none := by
  induction st with
  | nil => rfl
  | cons q rest ih =>
    obtain ⟨a, c⟩ := q
    have : ¬ k = a := by have := h (a, c) (by simp); simp at this; omega
    simp [getDoc, this, ih (fun p hp => h p (by simp [hp]))]

/-- two canonical stores with the same lookup function are equal -/
theorem store_ext (s t : Store) (hs : StrictSorted s) (ht : StrictSorted t)
    (h : ∀ k, getDoc s k = getDoc t k) : s = t := by
  induction s generalizing t with
  | nil =>
    cases t with
    | nil => rfl
    | cons q rest =>
      obtain ⟨a, c⟩ := q
      have := h a; simp [getDoc] at this
  | cons p srest ih =>
    obtain ⟨a, c⟩ := p
    cases t with
    | nil => have := h a; simp [getDoc] at this
    | cons q trest =>
      obtain ⟨b, d⟩ := q
      rw [strictSorted_cons_iff] at hs ht
      have hab : a = b := by
        rcases Nat.lt_trichotomy a b with hlt | heq | hgt
        · have h1 := h a
          have : getDoc ((b, d) :: trest) a = none :=
            getDoc_none_of_lt _ _ (by
              intro p hp; rcases List.mem_cons.mp hp with rfl | hp
              · exact hlt
              · have := ht.1 p hp; omega)
          rw [this] at h1; simp [getDoc] at h1
        · exact heq
        · have h1 := h b
          have : getDoc ((a, c) :: srest) b = none :=
            getDoc_none_of_lt _ _ (by
              intro p hp; rcases List.mem_cons.mp hp with rfl | hp
              · exact hgt
              · have := hs.1 p hp; omega)
          rw [this] at h1; simp [getDoc] at h1
      subst hab
      have hcd : c = d := by have := h a; simpa [getDoc] using this
      subst hcd
      congr 1
      apply ih _ hs.2 ht.2
      intro k
      have hk := h k
      by_cases e : k = a
      · subst e
        rw [getDoc_none_of_lt _ _ hs.1, getDoc_none_of_lt _ _ ht.1]
      · simpa [getDoc, e] using hk

/-- the last text written to file `k` by the edits of a history (starting from a given lookup) -/
def lastWrite (k : Nat) : List Msg → Option (List Char) → Option (List Char)
  | [], cur => cur
  | .didOpen (.file k') _ t :: rest, cur => lastWrite k rest (if k = k' then some t else cur)
  | .didChange (.file k') _ cs :: rest, cur =>
    lastWrite k rest (match cs.getLast? with
      | some t => if k = k' then some t else cur
      | none => cur)
  | _ :: rest, cur => lastWrite k rest cur

theorem strictSorted_changeText (st : Store) (u : Uri) (t : List Char) (h : StrictSorted st) :
    StrictSorted (changeText st u t) := by
  cases u <;> simp [changeText, strictSorted_setDoc, h]

theorem strictSorted_step (st : Store) (m : Msg) (h : StrictSorted st) : StrictSorted (step st m).1 := by
  cases m <;> simp [step, h, strictSorted_changeText]
  rename_i u v cs
  split <;> simp [h, strictSorted_changeText]

theorem strictSorted_stepAll (body : List Msg) : ∀ st, StrictSorted st → StrictSorted (stepAll st body).1 := by
  induction body with
  | nil => intro st h; exact h
  | cons m rest ih => intro st h; exact ih _ (strictSorted_step st m h)

theorem getDoc_stepAll (body : List Msg) (k : Nat) :
    ∀ st, getDoc (stepAll st body).1 k = lastWrite k body (getDoc st k) := by
  induction body with
  | nil => intro st; rfl
  | cons m rest ih =>
    intro st
    simp only [stepAll, ih]
    cases m with
    | didOpen u v t =>
      cases u with
      | file k' => simp [step, changeText, lastWrite, getDoc_setDoc]
      | other k' => simp [step, changeText, lastWrite]
    | didChange u v cs =>
      cases u with
      | file k' =>
        simp only [step, lastWrite]
        cases cs.getLast? with
        | none => rfl
        | some t => simp [changeText, getDoc_setDoc]
      | other k' =>
        simp only [step, lastWrite]
        cases cs.getLast? <;> simp [changeText]
    | _ => simp [step, lastWrite]
