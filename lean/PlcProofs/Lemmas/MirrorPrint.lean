import PlcProofs.Lemmas.MirrorStmt

/-!
# Statement trees and the renderer's printing of them

`A` / `Al` are statement trees as the dsl holds them: no keywords, no separators, no parentheses — names, expressions
(`MX.E`) and nested statement lists.  `A.pr` writes a tree the way `plc2plc` does: the keywords in capitals, every
expression in the renderer's parenthesisation (`E.full`), one `;` after every statement, `ELSE` only in front of a
non-empty branch.  The result is a token tree of `MirrorStmt` that is well-formed whenever the names and expressions
of the tree are, and whose dsl tree is the tree that was printed — so the parser mirror reads every printed tree back.
-/

open P Parse

namespace MX

/-- a keyword or separator as the renderer writes it (positions play no role for the parser) -/
def kw (ty text : String) : Item := ⟨false, ty, 0, 0, 0, 0, text.toList⟩

def kLp := kw "LeftParen" "("
def kRp := kw "RightParen" ")"
def kSemi := kw "Semicolon" ";"
def kAsg := kw "Assignment" ":="
def kComma := kw "Comma" ","
def kColon := kw "Colon" ":"

mutual
  inductive A where
    | assign (n : Item) (e : E)
    /-- `els = nil`: no ELSE branch -/
    | ifA (c : E) (body : Al) (elifs : Ael) (els : Al)
    | caseA (sel : E) (groups : Ag) (els : Al)
    | forA (ctl : Item) (frm to : E) (step : Option E) (body : Al)
    | whileA (c : E) (body : Al)
    | repeatA (body : Al) (c : E)
    /-- `inst(n1 := e1, …)` -/
    | callA (inst n1 : Item) (e1 : E) (more : List (Item × E))
    | exitA
    | returnA
  inductive Al where
    | nil
    | cons (s : A) (rest : Al)
  inductive Ael where
    | nil
    | cons (c : E) (body : Al) (rest : Ael)
  /-- case groups: selector literals (token, value) and the statements -/
  inductive Ag where
    | nil
    | cons (d : Item) (v : Nat) (more : List (Item × Nat)) (body : Al) (rest : Ag)
end

def Al.isNil : Al → Bool
  | .nil => true
  | _ => false

/-- an expression as the renderer writes it -/
def ex (e : E) : S := E.full kLp kRp e

def prArgs (more : List (Item × E)) : List (Item × Item × Item × S) := more.map fun m => (kComma, m.1, kAsg, ex m.2)
def prSels (more : List (Item × Nat)) : List (Item × Item × Nat) := more.map fun m => (kComma, m.1, m.2)

mutual
  /-- the renderer's printing, as a token tree -/
  def A.pr : A → St
    | .assign n e => .assign n kAsg (ex e)
    | .ifA c body elifs .nil => .ifS (kw "If" "IF") (kw "Then" "THEN") (ex c) body.pr elifs.pr (kw "EndIf" "END_IF")
    | .ifA c body elifs (.cons s rest) =>
        .ifElse (kw "If" "IF") (kw "Then" "THEN") (ex c) body.pr elifs.pr (kw "Else" "ELSE") (Al.cons s rest).pr (kw "EndIf" "END_IF")
    | .caseA sel groups .nil => .caseS (kw "Case" "CASE") (kw "Of" "OF") (ex sel) groups.pr (kw "EndCase" "END_CASE")
    | .caseA sel groups (.cons s rest) =>
        .caseElse (kw "Case" "CASE") (kw "Of" "OF") (ex sel) groups.pr (kw "Else" "ELSE") (Al.cons s rest).pr (kw "EndCase" "END_CASE")
    | .forA ctl frm to step body =>
        .forS (kw "For" "FOR") ctl kAsg (ex frm) (kw "To" "TO") (ex to) (step.map fun st => (kw "By" "BY", ex st)) (kw "Do" "DO") body.pr
          (kw "EndFor" "END_FOR")
    | .whileA c body => .whileS (kw "While" "WHILE") (kw "Do" "DO") (ex c) body.pr (kw "EndWhile" "END_WHILE")
    | .repeatA body c => .repeatS (kw "Repeat" "REPEAT") body.pr (kw "Until" "UNTIL") (ex c) (kw "EndRepeat" "END_REPEAT")
    | .callA inst n1 e1 more => .callS inst kLp n1 kAsg (ex e1) (prArgs more) kRp
    | .exitA => .exitS (kw "Exit" "EXIT")
    | .returnA => .returnS (kw "Return" "RETURN")
  def Al.pr : Al → Stl
    | .nil => .nil
    | .cons s rest => .cons s.pr kSemi rest.pr
  def Ael.pr : Ael → Elifs
    | .nil => .nil
    | .cons c body rest => .cons (kw "Elsif" "ELSIF") (kw "Then" "THEN") (ex c) body.pr rest.pr
  def Ag.pr : Ag → Groups
    | .nil => .nil
    | .cons d v more body rest => .cons d v (prSels more) kColon body.pr rest.pr
end

mutual
  /-- the dsl tree of a statement tree (what the grammar actions build for it) -/
  def A.sx : A → Sx
    | .assign n e => .t "Assignment" [.n "Assignment"
        [("target", .t "Symbolic" [.t "Named" [.n "NamedVariable" [("name", .a (txt n))]]]), ("value", e.sx)]]
    | .ifA c body elifs els =>
        .t "If" [.n "If" [("expr", c.sx), ("body", .l body.sxs), ("else_ifs", .l elifs.sxs), ("else_body", .l els.sxs)]]
    | .caseA sel groups els =>
        .t "Case" [.n "Case" [("selector", sel.sx), ("statement_groups", .l groups.sxs), ("else_body", .l els.sxs)]]
    | .forA ctl frm to step body =>
        .t "For" [.n "For" [("control", .a (txt ctl)), ("from", frm.sx), ("to", to.sx),
                            ("step", Sx.opt (step.map E.sx)), ("body", .l body.sxs)]]
    | .whileA c body => .t "While" [.n "While" [("condition", c.sx), ("body", .l body.sxs)]]
    | .repeatA body c => .t "Repeat" [.n "Repeat" [("until", c.sx), ("body", .l body.sxs)]]
    | .callA inst n1 e1 more =>
        .t "FbCall" [.n "FbCall" [("var_name", .a (txt inst)),
          ("params", .l (.t "NamedInput" [.n "NamedInput" [("name", .a (txt n1)), ("expr", e1.sx)]] ::
            more.map fun m => .t "NamedInput" [.n "NamedInput" [("name", .a (txt m.1)), ("expr", m.2.sx)]]))]]
    | .exitA => .a "Exit"
    | .returnA => .a "Return"
  def Al.sxs : Al → List Sx
    | .nil => []
    | .cons s rest => s.sx :: rest.sxs
  def Ael.sxs : Ael → List Sx
    | .nil => []
    | .cons c body rest => .n "ElseIf" [("expr", c.sx), ("body", .l body.sxs)] :: rest.sxs
  def Ag.sxs : Ag → List Sx
    | .nil => []
    | .cons _ v more body rest =>
        .n "CaseStatementGroup" [("selectors", .l (selSx v :: more.map fun m => selSx m.2)), ("statements", .l body.sxs)] :: rest.sxs
end

mutual
  /-- names are identifiers, expressions are over the operator table, selector literals are integers, and the bodies the
  grammar wants non-empty are non-empty -/
  def A.Ok : A → Prop
    | .assign n e => n.ty = "Identifier" ∧ e.Ok
    | .ifA c body elifs els => c.Ok ∧ body.Ok ∧ elifs.Ok ∧ els.Ok
    | .caseA sel groups els => sel.Ok ∧ groups.Ok ∧ els.Ok
    | .forA ctl frm to step body =>
        ctl.ty = "Identifier" ∧ frm.Ok ∧ to.Ok ∧ (match step with | none => True | some st => st.Ok) ∧ body.Ok ∧ body.isNil = false
    | .whileA c body => c.Ok ∧ body.Ok ∧ body.isNil = false
    | .repeatA body c => c.Ok ∧ body.Ok ∧ body.isNil = false
    | .callA inst n1 e1 more => inst.ty = "Identifier" ∧ n1.ty = "Identifier" ∧ e1.Ok ∧ ∀ m ∈ more, m.1.ty = "Identifier" ∧ m.2.Ok
    | .exitA => True
    | .returnA => True
  def Al.Ok : Al → Prop
    | .nil => True
    | .cons s rest => s.Ok ∧ rest.Ok
  def Ael.Ok : Ael → Prop
    | .nil => True
    | .cons c body rest => c.Ok ∧ body.Ok ∧ body.isNil = false ∧ rest.Ok
  def Ag.Ok : Ag → Prop
    | .nil => True
    | .cons d v more body rest =>
        d.ty = "Digits" ∧ integerNew d.text = some v ∧ (∀ m ∈ more, m.1.ty = "Digits" ∧ integerNew m.1.text = some m.2) ∧
        body.Ok ∧ body.isNil = false ∧ rest.Ok
end

theorem ex_wf (e : E) (h : e.Ok) : (ex e).WF 0 := E.full_wf kLp kRp rfl rfl e h 0
theorem ex_sx (e : E) : (ex e).sx = e.sx := E.full_sx kLp kRp e

theorem map_prArgs (more : List (Item × E)) :
    (prArgs more).map (fun m => namedSx m.2.1 m.2.2.2) =
      more.map fun m => Sx.t "NamedInput" [.n "NamedInput" [("name", .a (txt m.1)), ("expr", m.2.sx)]] := by
  induction more with
  | nil => rfl
  | cons m more ih =>
    simp only [prArgs, List.map_cons, namedSx, ex_sx] at ih ⊢
    rw [ih]

theorem map_prSels (more : List (Item × Nat)) : (prSels more).map (fun m => selSx m.2.2) = more.map fun m => selSx m.2 := by
  induction more with
  | nil => rfl
  | cons m more ih =>
    simp only [prSels, List.map_cons] at ih ⊢
    rw [ih]

theorem pr_isNil (l : Al) : l.pr.isNil = l.isNil := by cases l <;> rfl

mutual
  theorem A.pr_sx : (a : A) → a.pr.sx = a.sx
    | .assign n e => by simp only [A.pr, St.sx, A.sx, ex_sx]
    | .ifA c body elifs .nil => by simp only [A.pr, St.sx, A.sx, ex_sx, Al.pr_sxs body, Ael.pr_sxs elifs, Al.sxs]
    | .ifA c body elifs (.cons s rest) => by
      simp only [A.pr, St.sx, A.sx, ex_sx, Al.pr_sxs body, Ael.pr_sxs elifs, Al.pr_sxs (.cons s rest)]
    | .caseA sel groups .nil => by simp only [A.pr, St.sx, A.sx, ex_sx, Ag.pr_sxs groups, Al.sxs]
    | .caseA sel groups (.cons s rest) => by simp only [A.pr, St.sx, A.sx, ex_sx, Ag.pr_sxs groups, Al.pr_sxs (.cons s rest)]
    | .forA ctl frm to none body => by simp only [A.pr, St.sx, A.sx, ex_sx, Al.pr_sxs body, Option.map]
    | .forA ctl frm to (some st) body => by simp only [A.pr, St.sx, A.sx, ex_sx, Al.pr_sxs body, Option.map]
    | .whileA c body => by simp only [A.pr, St.sx, A.sx, ex_sx, Al.pr_sxs body]
    | .repeatA body c => by simp only [A.pr, St.sx, A.sx, ex_sx, Al.pr_sxs body]
    | .callA inst n1 e1 more => by
      simp only [A.pr, St.sx, A.sx, map_prArgs]
      simp only [namedSx, ex_sx]
    | .exitA => rfl
    | .returnA => rfl
  theorem Al.pr_sxs : (l : Al) → l.pr.sxs = l.sxs
    | .nil => rfl
    | .cons s rest => by simp only [Al.pr, Stl.sxs, Al.sxs, A.pr_sx s, Al.pr_sxs rest]
  theorem Ael.pr_sxs : (l : Ael) → l.pr.sxs = l.sxs
    | .nil => rfl
    | .cons c body rest => by simp only [Ael.pr, Elifs.sxs, Ael.sxs, ex_sx, Al.pr_sxs body, Ael.pr_sxs rest]
  theorem Ag.pr_sxs : (l : Ag) → l.pr.sxs = l.sxs
    | .nil => rfl
    | .cons d v more body rest => by
      simp only [Ag.pr, Groups.sxs, Ag.sxs, groupSx, map_prSels, Al.pr_sxs body, Ag.pr_sxs rest]
end

mutual
  theorem A.pr_wf : (a : A) → a.Ok → a.pr.WF
    | .assign n e, h => ⟨h.1, rfl, ex_wf e h.2⟩
    | .ifA c body elifs .nil, h => ⟨rfl, rfl, rfl, ex_wf c h.1, Al.pr_wf body h.2.1, Ael.pr_wf elifs h.2.2.1⟩
    | .ifA c body elifs (.cons s rest), h =>
        ⟨rfl, rfl, rfl, rfl, ex_wf c h.1, Al.pr_wf body h.2.1, Al.pr_wf (.cons s rest) h.2.2.2, rfl, Ael.pr_wf elifs h.2.2.1⟩
    | .caseA sel groups .nil, h => ⟨rfl, rfl, rfl, ex_wf sel h.1, Ag.pr_wf groups h.2.1⟩
    | .caseA sel groups (.cons s rest), h =>
        ⟨rfl, rfl, rfl, rfl, ex_wf sel h.1, Ag.pr_wf groups h.2.1, Al.pr_wf (.cons s rest) h.2.2, rfl⟩
    | .forA ctl frm to none body, h =>
        ⟨rfl, h.1, rfl, rfl, rfl, rfl, ex_wf frm h.2.1, ex_wf to h.2.2.1, Al.pr_wf body h.2.2.2.2.1, (pr_isNil body).trans h.2.2.2.2.2, trivial⟩
    | .forA ctl frm to (some st) body, h =>
        ⟨rfl, h.1, rfl, rfl, rfl, rfl, ex_wf frm h.2.1, ex_wf to h.2.2.1, Al.pr_wf body h.2.2.2.2.1, (pr_isNil body).trans h.2.2.2.2.2,
          rfl, ex_wf st h.2.2.2.1⟩
    | .whileA c body, h => ⟨rfl, rfl, rfl, ex_wf c h.1, Al.pr_wf body h.2.1, (pr_isNil body).trans h.2.2⟩
    | .repeatA body c, h => ⟨rfl, rfl, rfl, ex_wf c h.1, Al.pr_wf body h.2.1, (pr_isNil body).trans h.2.2⟩
    | .callA inst n1 e1 more, h => by
      refine ⟨h.1, rfl, rfl, h.2.1, rfl, ex_wf e1 h.2.2.1, ?_⟩
      intro m hm
      simp only [prArgs, List.mem_map] at hm
      obtain ⟨x, hx, rfl⟩ := hm
      exact ⟨rfl, (h.2.2.2 x hx).1, rfl, ex_wf x.2 (h.2.2.2 x hx).2⟩
    | .exitA, _ => rfl
    | .returnA, _ => rfl
  theorem Al.pr_wf : (l : Al) → l.Ok → l.pr.WF
    | .nil, _ => trivial
    | .cons s rest, h => ⟨A.pr_wf s h.1, rfl, Al.pr_wf rest h.2⟩
  theorem Ael.pr_wf : (l : Ael) → l.Ok → l.pr.WF
    | .nil, _ => trivial
    | .cons c body rest, h => ⟨rfl, rfl, ex_wf c h.1, Al.pr_wf body h.2.1, (pr_isNil body).trans h.2.2.1, Ael.pr_wf rest h.2.2.2⟩
  theorem Ag.pr_wf : (l : Ag) → l.Ok → l.pr.WF
    | .nil, _ => trivial
    | .cons d v more body rest, h => by
      refine ⟨h.1, h.2.1, ?_, rfl, Al.pr_wf body h.2.2.2.1, (pr_isNil body).trans h.2.2.2.2.1, Ag.pr_wf rest h.2.2.2.2.2⟩
      intro m hm
      simp only [prSels, List.mem_map] at hm
      obtain ⟨x, hx, rfl⟩ := hm
      exact ⟨rfl, (h.2.2.1 x hx).1, (h.2.2.1 x hx).2⟩
end

/-- **Every printed statement list is read back**: for every non-empty statement tree list whose names and expressions
are in order, the parser mirror reads the renderer's printing of it (keywords, `E.full` parentheses, `;` after each
statement) back to exactly the dsl trees of the list — with the fuel the driver uses, whatever closing keyword and text
follow. -/
theorem printed_statements_read_back (l : Al) (hl : l.Ok) (hne : l.isNil = false) (K : Item) (R : List Item)
    (hK : isCloser K.ty = true) :
    statementList (fuelFor (l.pr.toks ++ K :: R).length) (l.pr.toks ++ K :: R) = some (l.sxs, K :: R) := by
  rw [← Al.pr_sxs l]
  exact statementList_roundtrip l.pr (Al.pr_wf l hl) ((pr_isNil l).trans hne) K R hK _ (Nat.le_refl _)

end MX
