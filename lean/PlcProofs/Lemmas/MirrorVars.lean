import PlcProofs.Lemmas.MirrorLib

/-!
# Programs with a variable block

Extends `MirrorLib.lean`: `Parse.programDeclaration` and `Parse.library` read programs
`PROGRAM name VAR n1 : T1; … END_VAR statements END_PROGRAM` (one `VAR` block of variables of elementary type,
without initial values) back to the tree that was written: every variable, in order, with its name, class `Var`,
no qualifier and its type.
-/

open P Parse

namespace MX

/-- `name : TYPE` followed by its semicolon; `v` is the `ElementaryTypeName` variant the type token denotes -/
structure VarD where
  name : Item
  colon : Item
  ty : Item
  v : String
  semi : Item

namespace VarD

def toks (d : VarD) : List Item := [d.name, d.colon, d.ty]

def WF (d : VarD) : Prop :=
  d.name.ty = "Identifier" ∧ d.colon.ty = "Colon" ∧ d.semi.ty = "Semicolon" ∧
  (∀ R, elementaryTypeName (d.ty :: R) = some (d.v, R)) ∧ d.ty.ty ≠ "Identifier" ∧ d.ty.ty ≠ "String" ∧ d.ty.ty ≠ "WString" ∧
  d.ty.ty ≠ "Array" ∧ d.ty.ty ≠ "LeftParen" ∧ isTrivia d.ty.ty = false

/-- what `var_init_decl` returns for the declaration: the names with their initialiser -/
def pair (d : VarD) : Sx × Sx := (.a (txt d.name), sxSimpleInit (elementaryAsType d.v) none)

def sx (d : VarD) : Sx := sxVarDecl (.t "Symbol" [.a (txt d.name)]) "Var" "Unspecified" (sxSimpleInit (elementaryAsType d.v) none)

end VarD

/-- INT and BOOL tokens are elementary type names -/
theorem elementary_int (t : Item) (h : t.ty = "Int") : ∀ R, elementaryTypeName (t :: R) = some ("INT", R) := by
  intro R
  simp [elementaryTypeName, integerTypeName, orElse_run, map_run, tok_cons, h]

theorem elementary_bool (t : Item) (h : t.ty = "Bool") : ∀ R, elementaryTypeName (t :: R) = some ("BOOL", R) := by
  intro R
  simp [elementaryTypeName, integerTypeName, realTypeName, dateTypeName, bitStringTypeName, orElse_run, map_run, tok_cons, h]

/-! ### one declaration -/

/-- a single name in front of `:` -/
theorem var1List_one (n c : Item) (T : List Item) (hn : n.ty = "Identifier") (hc : c.ty = "Colon") :
    var1List (n :: c :: T) = some ([.a (txt n)], c :: T) := by
  unfold var1List sepBy1 variableName
  rw [bind_some _ _ _ _ _ (identifier_hit _ _ hn)]
  have hstop : (do let _ ← (do ws; comma; ws : P Unit); identifier : P Sx) (c :: T) = none := by
    apply bind_none
    rw [bind_some _ _ _ _ _ (ws_cons c T (by rw [hc]; decide))]
    exact bind_none _ _ _ (comma_miss _ _ (by rw [hc]; decide))
  have hm : many (do let _ ← (do ws; comma; ws : P Unit); identifier : P Sx) (c :: T) = some ([], c :: T) := by
    unfold many; exact manyF_stop _ _ _ hstop
  rw [bind_some _ _ _ _ _ hm]
  rfl

/-- the common head `names : ` of the alternatives of `var_init_decl` -/
theorem decl_head {β γ} (X : P β) (k : List Sx → β → γ) (n c : Item) (T : List Item)
    (hn : n.ty = "Identifier") (hc : c.ty = "Colon") (hws : ws T = some ((), T)) :
    (do let names ← var1List; ws; let _ ← tok "Colon"; ws; let i ← X; pure (k names i) : P γ) (n :: c :: T) =
      (X T).map (fun r => (k [.a (txt n)] r.1, r.2)) := by
  rw [bind_some _ _ _ _ _ (var1List_one n c T hn hc), bind_some _ _ _ _ _ (ws_cons c T (by rw [hc]; decide)),
    bind_some _ _ _ _ _ (tok_hit _ _ _ hc), bind_some _ _ _ _ _ hws]
  cases h : X T with
  | none => rw [bind_none _ _ _ h]; rfl
  | some r => obtain ⟨i, rest⟩ := r; rw [bind_some _ _ _ _ _ h]; rfl

theorem varInitDecl_reads (d : VarD) (hd : d.WF) (R : List Item) :
    varInitDecl (d.toks ++ d.semi :: R) = some ([d.pair], d.semi :: R) := by
  obtain ⟨hn, hc, hs, hel, hni, hns, hnw, hna, hnp, hnt⟩ := hd
  have hwsT : ws (d.ty :: d.semi :: R) = some ((), d.ty :: d.semi :: R) := ws_cons _ _ hnt
  show varInitDecl (d.name :: d.colon :: d.ty :: d.semi :: R) = _
  rw [varInitDecl]
  -- 1: an initialised structure needs a type *name*
  have a1 : (do let names ← var1List; ws; let _ ← tok "Colon"; ws; let i ← initializedStructureWithoutAmbiguous
                pure (untyped names (Sx.t "Structure" [i])) : P (List (Sx × Sx))) (d.name :: d.colon :: d.ty :: d.semi :: R) = none := by
    rw [decl_head _ _ _ _ _ hn hc hwsT]
    have : initializedStructureWithoutAmbiguous (d.ty :: d.semi :: R) = none := by
      rw [initializedStructureWithoutAmbiguous]
      apply bind_none
      rw [typeName]
      exact bind_none _ _ _ (identifier_miss _ _ hni)
    rw [this]; rfl
  -- 2 / 5: string declarations
  have a2 : stringVarDeclaration (d.name :: d.colon :: d.ty :: d.semi :: R) = none := by
    rw [stringVarDeclaration]
    have s1 : (do let names ← var1List; ws; let _ ← tok "Colon"; ws
                  let spec ← stringSpec "String" "String" singleByteCharacterString
                  pure (untyped names spec) : P (List (Sx × Sx))) (d.name :: d.colon :: d.ty :: d.semi :: R) = none := by
      rw [decl_head _ _ _ _ _ hn hc hwsT]
      have : stringSpec "String" "String" singleByteCharacterString (d.ty :: d.semi :: R) = none := by
        rw [stringSpec]; exact bind_none _ _ _ (tok_miss _ _ _ hns)
      rw [this]; rfl
    rw [orElse_none _ _ _ s1, decl_head _ _ _ _ _ hn hc hwsT]
    have : stringSpec "WString" "WString" doubleByteCharacterString (d.ty :: d.semi :: R) = none := by
      rw [stringSpec]; exact bind_none _ _ _ (tok_miss _ _ _ hnw)
    rw [this]; rfl
  -- 3: arrays
  have a3 : (do let names ← var1List; ws; let _ ← tok "Colon"; ws; let a ← arraySpecInit
                pure (untyped names (sxArrayInit a)) : P (List (Sx × Sx))) (d.name :: d.colon :: d.ty :: d.semi :: R) = none := by
    rw [decl_head _ _ _ _ _ hn hc hwsT]
    have : arraySpecInit (d.ty :: d.semi :: R) = none := by
      rw [arraySpecInit]; apply bind_none
      rw [arraySpecification]; exact bind_none _ _ _ (tok_miss _ _ _ hna)
    rw [this]; rfl
  -- 4: function block instances need `name, :`
  have a4 : fbNameDecl (d.name :: d.colon :: d.ty :: d.semi :: R) = none := by
    rw [fbNameDecl]
    apply bind_none
    unfold commasepOneplus sepBy1
    have hstop : (do let _ ← (do ws; comma; ws : P Unit); identifier : P Sx) (d.colon :: d.ty :: d.semi :: R) = none := by
      apply bind_none
      rw [bind_some _ _ _ _ _ (ws_cons d.colon _ (by rw [hc]; decide))]
      exact bind_none _ _ _ (comma_miss _ _ (by rw [hc]; decide))
    have hm : many (do let _ ← (do ws; comma; ws : P Unit); identifier : P Sx) (d.colon :: d.ty :: d.semi :: R)
        = some ([], d.colon :: d.ty :: d.semi :: R) := by
      unfold many; exact manyF_stop _ _ _ hstop
    have hsb : (do let a ← identifier; let as ← many (do let _ ← (do ws; comma; ws : P Unit); identifier); pure (a :: as) : P (List Sx))
        (d.name :: d.colon :: d.ty :: d.semi :: R) = some ([.a (txt d.name)], d.colon :: d.ty :: d.semi :: R) := by
      rw [bind_some _ _ _ _ _ (identifier_hit _ _ hn), bind_some _ _ _ _ _ hm]; rfl
    rw [bind_some _ _ _ _ _ hsb]
    exact bind_none _ _ _ (comma_miss _ _ (by rw [hc]; decide))
  -- 6: the elementary type without an initial value
  have hsemiT : ws (d.semi :: R) = some ((), d.semi :: R) := ws_cons _ _ (by rw [hs]; decide)
  have a6 : var1InitDeclWithAmbiguousStruct (d.name :: d.colon :: d.ty :: d.semi :: R) = some ([d.pair], d.semi :: R) := by
    rw [var1InitDeclWithAmbiguousStruct, decl_head _ _ _ _ _ hn hc hwsT]
    have hamb : ambiguousSpecInit (d.ty :: d.semi :: R) = some (sxSimpleInit (elementaryAsType d.v) none, d.semi :: R) := by
      rw [ambiguousSpecInit]
      have hsimple : simpleSpecification (d.ty :: d.semi :: R) = some (elementaryAsType d.v, d.semi :: R) := by
        rw [simpleSpecification]
        apply orElse_some
        rw [bind_some _ _ _ _ _ (hel _)]; rfl
      have b1 : (do let s ← simpleSpecification; ws; let _ ← tok "Assignment"; ws; let c ← constant
                    pure (sxSimpleInit s (some c)) : P Sx) (d.ty :: d.semi :: R) = none := by
        rw [bind_some _ _ _ _ _ hsimple, bind_some _ _ _ _ _ hsemiT]
        exact bind_none _ _ _ (tok_miss _ _ _ (by rw [hs]; decide))
      have henum : enumeratedSpecification (d.ty :: d.semi :: R) = none := by
        rw [enumeratedSpecification]
        have e1 : (do let v ← enumeratedSpecificationOnlyValues; pure (Sum.inl v) : P (Sum (List Sx) Sx)) (d.ty :: d.semi :: R) = none := by
          apply bind_none; rw [enumeratedSpecificationOnlyValues]; exact bind_none _ _ _ (tok_miss _ _ _ hnp)
        rw [orElse_none _ _ _ e1]
        apply bind_none; rw [typeName]; exact bind_none _ _ _ (identifier_miss _ _ hni)
      rw [orElse_none _ _ _ b1, orElse_none _ _ _ (bind_none _ _ _ henum),
        orElse_none _ _ _ (bind_none _ _ _ (tok_miss _ _ _ hnp))]
      apply orElse_some
      rw [bind_some _ _ _ _ _ (hel _)]; rfl
    rw [hamb]; rfl
  rw [orElse_none _ _ _ a1, orElse_none _ _ _ a2, orElse_none _ _ _ a3, orElse_none _ _ _ a4, orElse_none _ _ _ a2]
  exact a6


/-! ### the block `VAR … END_VAR` -/

theorem var1List_none (t : Item) (R : List Item) (h : t.ty ≠ "Identifier") : var1List (t :: R) = none := by
  unfold var1List sepBy1 variableName
  exact bind_none _ _ _ (identifier_miss _ _ h)

/-- no declaration starts with END_VAR -/
theorem varInitDecl_none (t : Item) (R : List Item) (h : t.ty ≠ "Identifier") : varInitDecl (t :: R) = none := by
  have hv := var1List_none t R h
  rw [varInitDecl]
  have hs : stringVarDeclaration (t :: R) = none := by
    rw [stringVarDeclaration, orElse_none _ _ _ (bind_none _ _ _ hv)]
    exact bind_none _ _ _ hv
  have hf : fbNameDecl (t :: R) = none := by
    rw [fbNameDecl]
    apply bind_none
    unfold commasepOneplus sepBy1
    apply bind_none
    exact bind_none _ _ _ (identifier_miss _ _ h)
  rw [orElse_none _ _ _ (bind_none _ _ _ hv), orElse_none _ _ _ hs, orElse_none _ _ _ (bind_none _ _ _ hv),
    orElse_none _ _ _ hf, orElse_none _ _ _ hs]
  rw [var1InitDeclWithAmbiguousStruct]
  exact bind_none _ _ _ hv

def declToks (ds : List VarD) : List Item := ds.flatMap fun d => d.toks ++ [d.semi]

/-- `; declaration`: what `semisep` repeats -/
def sepDecl : P (List (Sx × Sx)) := (do let _ ← (do ws; semicolon; ws : P Unit); varInitDecl)

def chainV (prev : Item) : List VarD → List (List (Sx × Sx) × List Item)
  | [] => []
  | d :: ds => ([d.pair], prev :: d.toks) :: chainV d.semi ds

def lastSemiV (prev : Item) : List VarD → Item
  | [] => prev
  | d :: ds => lastSemiV d.semi ds

theorem flat_chainV (ds : List VarD) : ∀ prev (X : List Item),
    flat (chainV prev ds) ++ (lastSemiV prev ds :: X) = prev :: (declToks ds ++ X) := by
  induction ds with
  | nil => intro prev X; simp [chainV, lastSemiV, flat, declToks]
  | cons d ds ih =>
    intro prev X
    have := ih d.semi X
    simp only [chainV, lastSemiV, flat, List.flatMap_cons, declToks, List.append_assoc] at this ⊢
    rw [this]
    simp

theorem lastSemiV_ty (ds : List VarD) : ∀ prev, prev.ty = "Semicolon" → (∀ d ∈ ds, d.WF) → (lastSemiV prev ds).ty = "Semicolon" := by
  induction ds with
  | nil => intro prev h _; exact h
  | cons d ds ih => intro prev _ hwf; exact ih d.semi (hwf d (List.mem_cons_self ..)).2.2.1 (fun x hx => hwf x (List.mem_cons_of_mem _ hx))

theorem chainV_spec (ds : List VarD) : ∀ prev (K : Item) (R : List Item), prev.ty = "Semicolon" → (∀ d ∈ ds, d.WF) →
    K.ty ≠ "Identifier" → isTrivia K.ty = false → Chain sepDecl (chainV prev ds) (lastSemiV prev ds :: K :: R) := by
  induction ds with
  | nil =>
    intro prev K R hprev _ hK hKt
    show sepDecl (prev :: K :: R) = none
    unfold sepDecl
    have hsep : (do ws; semicolon; ws : P Unit) (prev :: K :: R) = some ((), K :: R) := by
      rw [bind_some _ _ _ _ _ (ws_cons prev _ (by rw [hprev]; decide)), bind_some _ _ _ _ _ (semicolon_hit _ _ hprev)]
      exact ws_cons _ _ hKt
    rw [bind_some _ _ _ _ _ hsep]
    exact varInitDecl_none K R hK
  | cons d ds ih =>
    intro prev K R hprev hwf hK hKt
    have hd := hwf d (List.mem_cons_self ..)
    refine ⟨by simp, ?_, ih d.semi K R hd.2.2.1 (fun x hx => hwf x (List.mem_cons_of_mem _ hx)) hK hKt⟩
    show sepDecl ((prev :: d.toks) ++ (flat (chainV d.semi ds) ++ (lastSemiV d.semi ds :: K :: R)))
      = some ([d.pair], flat (chainV d.semi ds) ++ (lastSemiV d.semi ds :: K :: R))
    rw [flat_chainV]
    unfold sepDecl
    have hsep : (do ws; semicolon; ws : P Unit) ((prev :: d.toks) ++ d.semi :: (declToks ds ++ K :: R))
        = some ((), d.toks ++ d.semi :: (declToks ds ++ K :: R)) := by
      show (do ws; semicolon; ws : P Unit) (prev :: (d.toks ++ d.semi :: (declToks ds ++ K :: R))) = _
      rw [bind_some _ _ _ _ _ (ws_cons prev _ (by rw [hprev]; decide)), bind_some _ _ _ _ _ (semicolon_hit _ _ hprev)]
      exact ws_cons _ _ (by rw [hd.1]; decide)
    rw [bind_some _ _ _ _ _ hsep]
    exact varInitDecl_reads d hd _

theorem map_chainV (ds : List VarD) : ∀ prev, (chainV prev ds).map (·.1) = ds.map fun d => [d.pair] := by
  induction ds with
  | nil => intro prev; rfl
  | cons d ds ih => intro prev; simp only [chainV, List.map_cons, ih d.semi]

theorem chainV_nonempty (ds : List VarD) : ∀ prev, ∀ x ∈ chainV prev ds, x.2 ≠ [] := by
  induction ds with
  | nil => intro prev x hx; cases hx
  | cons d ds ih =>
    intro prev x hx
    simp only [chainV, List.mem_cons] at hx
    rcases hx with rfl | hx
    · simp
    · exact ih d.semi x hx

theorem flatMap_pairs (ds : List VarD) : flatMap (ds.map fun d => [d.pair]) "Var" none = ds.map VarD.sx := by
  unfold flatMap
  induction ds with
  | nil => rfl
  | cons d ds ih => simp only [List.map_cons, List.flatten_cons, List.cons_append, List.nil_append] at ih ⊢; rw [ih]; rfl

/-- `VAR d1; …; dn; END_VAR` (n ≥ 1) -/
theorem varDeclarations_reads (kVar kEnd : Item) (d : VarD) (ds : List VarD) (R : List Item)
    (hV : kVar.ty = "Var") (hE : kEnd.ty = "EndVar") (hwf : ∀ x ∈ d :: ds, x.WF) :
    varDeclarations (kVar :: (declToks (d :: ds) ++ kEnd :: R)) = some (.var ((d :: ds).map VarD.sx), R) := by
  have hd := hwf d (List.mem_cons_self ..)
  have hds : ∀ x ∈ ds, x.WF := fun x hx => hwf x (List.mem_cons_of_mem _ hx)
  have htoks : declToks (d :: ds) ++ kEnd :: R = d.toks ++ d.semi :: (declToks ds ++ kEnd :: R) := by
    simp [declToks, List.append_assoc]
  have hws0 : ws (d.toks ++ d.semi :: (declToks ds ++ kEnd :: R)) = some ((), d.toks ++ d.semi :: (declToks ds ++ kEnd :: R)) :=
    ws_cons _ _ (by rw [hd.1]; decide)
  have hKt : isTrivia kEnd.ty = false := by rw [hE]; decide
  have hKi : kEnd.ty ≠ "Identifier" := by rw [hE]; decide
  have hmany : many sepDecl (d.semi :: (declToks ds ++ kEnd :: R)) = some (ds.map (fun x => [x.pair]), lastSemiV d.semi ds :: kEnd :: R) := by
    rw [← flat_chainV ds d.semi (kEnd :: R)]
    have := many_chain sepDecl (chainV d.semi ds) (lastSemiV d.semi ds :: kEnd :: R)
      (chainV_spec ds d.semi kEnd R hd.2.2.1 hds hKi hKt) (chainV_nonempty ds d.semi)
    rw [map_chainV] at this
    exact this
  have hsep : sepBy varInitDecl (do ws; semicolon; ws : P Unit) (d.toks ++ d.semi :: (declToks ds ++ kEnd :: R))
      = some ([d.pair] :: ds.map (fun x => [x.pair]), lastSemiV d.semi ds :: kEnd :: R) := by
    have h1 := varInitDecl_reads d hd (declToks ds ++ kEnd :: R)
    have hmany' : many (do let _ ← (do ws; semicolon; ws : P Unit); varInitDecl) (d.semi :: (declToks ds ++ kEnd :: R))
        = some (ds.map (fun x => [x.pair]), lastSemiV d.semi ds :: kEnd :: R) := hmany
    simp only [sepBy, h1, hmany']
  have hlast := lastSemiV_ty ds d.semi hd.2.2.1 hds
  rw [htoks, varDeclarations]
  have hopt : P.opt (do let _ ← tok "Constant"; pure "Constant" : P String) (d.toks ++ d.semi :: (declToks ds ++ kEnd :: R))
      = some (none, d.toks ++ d.semi :: (declToks ds ++ kEnd :: R)) :=
    opt_none _ _ (bind_none _ _ _ (tok_miss _ _ _ (by show d.name.ty ≠ "Constant"; rw [hd.1]; decide)))
  unfold semisep
  rw [bind_some _ _ _ _ _ (tok_hit _ _ _ hV), bind_some _ _ _ _ _ hws0, bind_some _ _ _ _ _ hopt, bind_some _ _ _ _ _ hws0,
    bind_some _ _ _ _ _ (by rw [bind_some _ _ _ _ _ hsep, bind_some _ _ _ _ _ (ws_cons _ _ (by rw [hlast]; decide)),
      bind_some _ _ _ _ _ (semicolon_hit _ _ hlast)]; rfl),
    bind_some _ _ _ _ _ (ws_cons kEnd R hKt), bind_some _ _ _ _ _ (tok_hit _ _ _ hE)]
  show some (VD.var (flatMap ([d.pair] :: ds.map fun x => [x.pair]) "Var" none), R) = _
  have := flatMap_pairs (d :: ds)
  simp only [List.map_cons] at this
  rw [this]
  rfl


/-! ### programs with a variable block, and libraries of them -/

/-- `PROGRAM name VAR d; ds… END_VAR statements END_PROGRAM` -/
structure ProgV where
  kProgram : Item
  name : Item
  kVar : Item
  d : VarD
  ds : List VarD
  kEndVar : Item
  body : Stl
  kEnd : Item

namespace ProgV

def toks (p : ProgV) : List Item :=
  p.kProgram :: p.name :: p.kVar :: (declToks (p.d :: p.ds) ++ p.kEndVar :: (p.body.toks ++ [p.kEnd]))

def WF (p : ProgV) : Prop :=
  p.kProgram.ty = "Program" ∧ p.name.ty = "Identifier" ∧ p.kVar.ty = "Var" ∧ p.kEndVar.ty = "EndVar" ∧ p.kEnd.ty = "EndProgram" ∧
  (∀ x ∈ p.d :: p.ds, x.WF) ∧ p.body.WF ∧ p.body.isNil = false

def sx (p : ProgV) : Sx :=
  .n "ProgramDeclaration" [("name", .a (txt p.name)), ("variables", .l ((p.d :: p.ds).map VarD.sx)), ("access_variables", .l []),
    ("body", .t "Statements" [.n "Statements" [("body", .l p.body.sxs)]])]

end ProgV

theorem programV_reads (p : ProgV) (hp : p.WF) (R : List Item) :
    programDeclaration (p.toks ++ R) = some (p.sx, R) := by
  obtain ⟨hP, hN, hV, hEV, hE, hds, hb, hne⟩ := hp
  have hK : isCloser p.kEnd.ty = true := by rw [hE]; decide
  obtain ⟨s, semi, rest, hbody⟩ : ∃ s semi rest, p.body = Stl.cons s semi rest := by
    cases hb' : p.body with
    | nil => rw [hb'] at hne; cases hne
    | cons s semi rest => exact ⟨s, semi, rest, rfl⟩
  have hs : s.WF := by rw [hbody] at hb; exact hb.1
  obtain ⟨t, ts, hts, hstart⟩ := St.head s hs
  have hbt : p.body.toks ++ p.kEnd :: R = t :: (ts ++ semi :: (rest.toks ++ p.kEnd :: R)) := by
    rw [hbody]; simp [Stl.toks, hts, List.append_assoc]
  let B := p.body.toks ++ p.kEnd :: R
  have htoks : p.toks ++ R = p.kProgram :: p.name :: p.kVar :: (declToks (p.d :: p.ds) ++ p.kEndVar :: B) := by
    simp [ProgV.toks, B, List.append_assoc]
  have hwsB : ws B = some ((), B) := ws_stl p.body hb p.kEnd R hK
  have hvar := varDeclarations_reads p.kVar p.kEndVar p.d p.ds B hV hEV hds
  -- the variable-block alternative of `program_declaration` on the block
  have hnV : p.kVar.ty ≠ "VarAccess" ∧ p.kVar.ty ≠ "VarInput" ∧ p.kVar.ty ≠ "VarOutput" ∧ p.kVar.ty ≠ "VarInOut" ∧ p.kVar.ty ≠ "VarExternal" := by
    rw [hV]; exact ⟨by decide, by decide, by decide, by decide, by decide⟩
  have halt : ((do let a ← programAccessDecls; pure [a]) <|> ioVarDeclarations
      <|> (do let o ← otherVarDeclarations; pure [o]) <|> (do let l ← locatedVarDeclarations; pure [l]) : P (List VD))
      (p.kVar :: (declToks (p.d :: p.ds) ++ p.kEndVar :: B)) = some ([VD.var ((p.d :: p.ds).map VarD.sx)], B) := by
    have a1 : (do let a ← programAccessDecls; pure [a] : P (List VD)) (p.kVar :: (declToks (p.d :: p.ds) ++ p.kEndVar :: B)) = none := by
      apply bind_none; rw [programAccessDecls]; exact bind_none _ _ _ (tok_miss _ _ _ hnV.1)
    have a2 : ioVarDeclarations (p.kVar :: (declToks (p.d :: p.ds) ++ p.kEndVar :: B)) = none := by
      rw [ioVarDeclarations]
      rw [orElse_none _ _ _ (by rw [inputDeclarations]; exact bind_none _ _ _ (tok_miss _ _ _ hnV.2.1))]
      rw [orElse_none _ _ _ (by apply bind_none; rw [outputDeclarations]; exact bind_none _ _ _ (tok_miss _ _ _ hnV.2.2.1))]
      apply bind_none; rw [inputOutputDeclarations]; exact bind_none _ _ _ (tok_miss _ _ _ hnV.2.2.2.1)
    rw [orElse_none _ _ _ a1, orElse_none _ _ _ a2]
    apply orElse_some
    have hother : otherVarDeclarations (p.kVar :: (declToks (p.d :: p.ds) ++ p.kEndVar :: B)) = some (VD.var ((p.d :: p.ds).map VarD.sx), B) := by
      rw [otherVarDeclarations]
      rw [orElse_none _ _ _ (by rw [externalVarDeclarations]; exact bind_none _ _ _ (tok_miss _ _ _ hnV.2.2.2.2))]
      exact orElse_some _ _ _ _ hvar
    rw [bind_some _ _ _ _ _ hother]
    rfl
  have hstop : (do let _ ← ws; ((do let a ← programAccessDecls; pure [a]) <|> ioVarDeclarations
      <|> (do let o ← otherVarDeclarations; pure [o]) <|> (do let l ← locatedVarDeclarations; pure [l]) : P (List VD)) : P (List VD)) B = none := by
    rw [bind_some _ _ _ _ _ hwsB]
    have hB : B = t :: (ts ++ semi :: (rest.toks ++ p.kEnd :: R)) := hbt
    rw [hB]
    exact varBlocks_none t _ (start_not_var hstart)
  have hsep : sepBy ((do let a ← programAccessDecls; pure [a]) <|> ioVarDeclarations
      <|> (do let o ← otherVarDeclarations; pure [o]) <|> (do let l ← locatedVarDeclarations; pure [l]) : P (List VD)) ws
      (p.kVar :: (declToks (p.d :: p.ds) ++ p.kEndVar :: B)) = some ([[VD.var ((p.d :: p.ds).map VarD.sx)]], B) := by
    have hm : many (do let _ ← ws; ((do let a ← programAccessDecls; pure [a]) <|> ioVarDeclarations
        <|> (do let o ← otherVarDeclarations; pure [o]) <|> (do let l ← locatedVarDeclarations; pure [l]) : P (List VD)) : P (List VD)) B
        = some ([], B) := by
      unfold many; exact manyF_stop _ _ _ hstop
    simp only [sepBy, halt, hm]
  rw [htoks, programDeclaration]
  rw [bind_some _ _ _ _ _ (tok_hit _ _ _ hP), bind_some _ _ _ _ _ (ws_cons p.name _ (by rw [hN]; decide)),
    bind_some _ _ _ _ _ (identifier_hit _ _ hN), bind_some _ _ _ _ _ (ws_cons p.kVar _ (by rw [hV]; decide)),
    bind_some _ _ _ _ _ hsep, bind_some _ _ _ _ _ hwsB, bind_some _ _ _ _ _ (fbBody_statements p.body hb hne p.kEnd R hK),
    bind_some _ _ _ _ _ (ws_cons p.kEnd _ (closer_not_trivia hK)), bind_some _ _ _ _ _ (tok_hit _ _ _ hE)]
  rfl


/-- a program with or without a variable block -/
inductive AnyProg where
  | plain (p : Prog)
  | withVars (p : ProgV)

namespace AnyProg

def toks : AnyProg → List Item
  | plain p => p.toks
  | withVars p => p.toks

def sx : AnyProg → Sx
  | plain p => p.sx
  | withVars p => p.sx

def WF : AnyProg → Prop
  | plain p => p.WF
  | withVars p => p.WF

theorem head (a : AnyProg) (h : a.WF) : ∃ t ts, a.toks = t :: ts ∧ t.ty = "Program" := by
  cases a with
  | plain p => exact ⟨p.kProgram, _, rfl, h.1⟩
  | withVars p => exact ⟨p.kProgram, _, rfl, h.1⟩

theorem program_reads (a : AnyProg) (h : a.WF) (R : List Item) : programDeclaration (a.toks ++ R) = some (a.sx, R) := by
  cases a with
  | plain p => exact programDeclaration_reads p h R
  | withVars p => exact programV_reads p h R

end AnyProg

theorem libraryElement_any (a : AnyProg) (ha : a.WF) (R : List Item) :
    libraryElementDeclaration (a.toks ++ R) = some ([.t "ProgramDeclaration" [a.sx]], R) := by
  obtain ⟨t, ts, hts, hP⟩ := a.head ha
  have htoks : a.toks ++ R = t :: (ts ++ R) := by rw [hts]; rfl
  rw [libraryElementDeclaration]
  have h1 : (do let ds ← dataTypeDeclaration; pure (ds.map fun d => Sx.t "DataTypeDeclaration" [d]) : P (List Sx)) (a.toks ++ R) = none := by
    apply bind_none; rw [htoks, dataTypeDeclaration]; exact bind_none _ _ _ (tok_miss _ _ _ (by rw [hP]; decide))
  have h2 : (do let f ← functionDeclaration; pure [Sx.t "FunctionDeclaration" [f]] : P (List Sx)) (a.toks ++ R) = none := by
    apply bind_none; rw [htoks, functionDeclaration]; exact bind_none _ _ _ (tok_miss _ _ _ (by rw [hP]; decide))
  have h3 : (do let f ← functionBlockDeclaration; pure [Sx.t "FunctionBlockDeclaration" [f]] : P (List Sx)) (a.toks ++ R) = none := by
    apply bind_none; rw [htoks, functionBlockDeclaration]; exact bind_none _ _ _ (tok_miss _ _ _ (by rw [hP]; decide))
  rw [orElse_none _ _ _ h1, orElse_none _ _ _ h2, orElse_none _ _ _ h3]
  apply orElse_some
  rw [bind_some _ _ _ _ _ (a.program_reads ha R)]
  rfl

def anySegs (ps : List AnyProg) : List (List Sx × List Item) := ps.map fun a => ([.t "ProgramDeclaration" [a.sx]], a.toks)

theorem flat_anySegs (ps : List AnyProg) : flat (anySegs ps) = ps.flatMap AnyProg.toks := by
  induction ps with
  | nil => rfl
  | cons p ps ih => simp only [anySegs, List.map_cons, flat, List.flatMap_cons] at ih ⊢; rw [ih]

theorem any_chain (ps : List AnyProg) (h : ∀ p ∈ ps, p.WF) :
    Chain (do let _ ← ws; libraryElementDeclaration : P (List Sx)) (anySegs ps) [] := by
  induction ps with
  | nil =>
    show (do let _ ← ws; libraryElementDeclaration : P (List Sx)) [] = none
    rw [bind_some _ _ _ _ _ ws_nil]
    exact libraryElement_nil
  | cons p ps ih =>
    have hp := h p (List.mem_cons_self ..)
    obtain ⟨t, ts, hts, hP⟩ := p.head hp
    refine ⟨by rw [hts]; simp, ?_, ih (fun q hq => h q (List.mem_cons_of_mem _ hq))⟩
    show (do let _ ← ws; libraryElementDeclaration : P (List Sx)) (p.toks ++ (flat (anySegs ps) ++ []))
      = some ([.t "ProgramDeclaration" [p.sx]], flat (anySegs ps) ++ [])
    have hws : ws (p.toks ++ (flat (anySegs ps) ++ [])) = some ((), p.toks ++ (flat (anySegs ps) ++ [])) := by
      rw [hts]; exact ws_cons _ _ (by rw [hP]; decide)
    rw [bind_some _ _ _ _ _ hws]
    exact libraryElement_any p hp _

/-- **`Parse.library` on libraries of programs with and without a variable block**: every program in source order, with
its name, its variables (name, class, type, in order) and its statements; the whole input is consumed. -/
theorem library_reads_any (ps : List AnyProg) (h : ∀ p ∈ ps, p.WF) :
    library (ps.flatMap AnyProg.toks) =
      some (.n "Library" [("elements", .l (ps.map fun p => Sx.t "ProgramDeclaration" [p.sx]))]) := by
  have hflat : ∀ qs : List AnyProg, ((anySegs qs).map (·.1)).flatten = qs.map fun p => Sx.t "ProgramDeclaration" [p.sx] := by
    intro qs
    induction qs with
    | nil => rfl
    | cons q qs ih => simp only [anySegs, List.map_cons, List.flatten_cons] at ih ⊢; rw [ih]; rfl
  unfold library
  cases ps with
  | nil =>
    have : (do ws; let ds ← sepBy libraryElementDeclaration ws; ws; pure ds : P (List (List Sx))) ([] : List Item) = some ([], []) := by
      rw [bind_some _ _ _ _ _ ws_nil, bind_some _ _ _ _ _ (sepBy_of_none _ _ _ libraryElement_nil), bind_some _ _ _ _ _ ws_nil]
      rfl
    simp only [List.flatMap_nil, this]
    rfl
  | cons p ps =>
    have hp := h p (List.mem_cons_self ..)
    have hps : ∀ q ∈ ps, q.WF := fun q hq => h q (List.mem_cons_of_mem _ hq)
    obtain ⟨t, ts, hts, hP⟩ := p.head hp
    have htoks : (p :: ps).flatMap AnyProg.toks = p.toks ++ (flat (anySegs ps) ++ []) := by
      simp [flat_anySegs]
    have hmany : many (do let _ ← ws; libraryElementDeclaration : P (List Sx)) (flat (anySegs ps) ++ [])
        = some ((anySegs ps).map (·.1), []) :=
      many_chain _ (anySegs ps) [] (any_chain ps hps) (by
        intro x hx
        simp only [anySegs, List.mem_map] at hx
        obtain ⟨q, hq, rfl⟩ := hx
        obtain ⟨t', ts', hts', _⟩ := q.head (hps q hq)
        simp [hts'])
    have hsep : sepBy libraryElementDeclaration ws (p.toks ++ (flat (anySegs ps) ++ []))
        = some ([.t "ProgramDeclaration" [p.sx]] :: (anySegs ps).map (·.1), []) := by
      simp only [sepBy, libraryElement_any p hp _, hmany]
    have : (do ws; let ds ← sepBy libraryElementDeclaration ws; ws; pure ds : P (List (List Sx))) ((p :: ps).flatMap AnyProg.toks)
        = some ([.t "ProgramDeclaration" [p.sx]] :: (anySegs ps).map (·.1), []) := by
      have hws0 : ws (p.toks ++ (flat (anySegs ps) ++ [])) = some ((), p.toks ++ (flat (anySegs ps) ++ [])) := by
        rw [hts]; exact ws_cons _ _ (by rw [hP]; decide)
      rw [htoks, bind_some _ _ _ _ _ hws0, bind_some _ _ _ _ _ hsep, bind_some _ _ _ _ _ ws_nil]
      rfl
    simp only [this, List.flatten_cons, hflat ps, List.map_cons]
    rfl

end MX
