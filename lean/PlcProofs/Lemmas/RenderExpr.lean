import PlcModel.Render
import PlcModel.Gen.Prec
import PlcProofs.Lemmas.FullParen

/-!
# The renderer model writes expressions in the `FullParen` printing

`Render.RE` (the model of `visit_compare_expr` / `visit_binary_expr` / `visit_unary_expr`, the one the
correspondence check compares with `write_to_string` lexeme by lexeme) applied to the dsl tree of an
abstract expression gives exactly the text of `FullParen.prFull`.  Operators are rows of the
generated precedence table `Gen.prec` (translated from the `precedence!` block of parser.rs).
-/

namespace RenderExpr
open FullParen Render

def atomName (n : Nat) : String := "x" ++ toString n

def defaultRow : Gen.PrecRow := { level := 0, token := "", ctor := "", opEnum := "", op := "", leftAssoc := true }

/-- the table row of an operator (`Op.id` indexes `Gen.prec`) -/
def row (o : Op) : Gen.PrecRow := Gen.prec.getD o.id defaultRow

/-- the lexeme the renderer writes for the row's operator -/
def symOfRow (r : Gen.PrecRow) : Option String :=
  if r.ctor = "compare" then compareOp r.op else binaryOp r.op

/-- the dsl node the parser builds for the row's operator (`ExprKind::compare` / `ExprKind::binary`) -/
def sxOfBin (r : Gen.PrecRow) (a b : Sx) : Sx :=
  if r.ctor = "compare" then .t "Compare" [.n "CompareExpr" [("op", .a r.op), ("left", a), ("right", b)]]
  else .t "BinaryOp" [.n "BinaryExpr" [("op", .a r.op), ("left", a), ("right", b)]]

def sxOfUn (u : Nat) (t : Sx) : Sx :=
  .t "UnaryOp" [.n "UnaryExpr" [("op", .a (if u = 0 then "Neg" else "Not")), ("term", t)]]

def embed : Expr → Sx
  | .leaf n => .t "LateBound" [.n "LateBound" [("name", .a (atomName n))]]
  | .un u e => sxOfUn u (embed e)
  | .bin o l r => sxOfBin (row o) (embed l) (embed r)

def depth : Expr → Nat
  | .leaf _ => 0
  | .un _ e => depth e + 1
  | .bin _ l r => max (depth l) (depth r) + 1

/-- every operator of the tree is a row whose lexeme the renderer knows -/
def OpsOk : Expr → Prop
  | .leaf _ => True
  | .un _ e => OpsOk e
  | .bin o l r => (symOfRow (row o)).isSome ∧ OpsOk l ∧ OpsOk r

def tokText : Tok → String
  | .atom n => " " ++ atomName n
  | .op o => " " ++ (symOfRow (row o)).getD ""
  | .uop u => if u = 0 then " -" else " NOT"
  | .lp => " ("
  | .rp => " )"

def text : List Tok → String
  | [] => ""
  | t :: ts => tokText t ++ text ts

theorem text_append (a b : List Tok) : text (a ++ b) = text a ++ text b := by
  induction a with
  | nil => simp [text]
  | cons t ts ih => simp [text, ih, String.append_assoc]

theorem RE_leaf (f n : Nat) : RE (f + 1) (embed (.leaf n)) = some (" " ++ atomName n) := by
  simp [embed, RE, rId, fld, ws, List.find?]

theorem RE_bin (f : Nat) (r : Gen.PrecRow) (a b : Sx) (x y s : String)
    (ha : RE f a = some x) (hb : RE f b = some y) (hs : symOfRow r = some s) :
    RE (f + 1) (sxOfBin r a b) = some (" (" ++ x ++ (" " ++ s) ++ y ++ " )") := by
  unfold sxOfBin
  unfold symOfRow at hs
  split
  · rename_i hc
    simp only [hc, if_true] at hs
    simp [RE, fld, ws, List.find?, atomText, hs, ha, hb]
  · rename_i hc
    simp only [hc, if_false] at hs
    simp [RE, fld, ws, List.find?, atomText, hs, ha, hb]

theorem RE_un_un (f u v : Nat) (t : Sx) (x : String) (h : RE f (sxOfUn v t) = some x) :
    RE (f + 1) (sxOfUn u (sxOfUn v t)) = some ((if u = 0 then " -" else " NOT") ++ (" (" ++ (x ++ " )"))) := by
  have h' : RE f (.t "UnaryOp" [.n "UnaryExpr" [("op", .a (if v = 0 then "Neg" else "Not")), ("term", t)]]) = some x := h
  by_cases hu : u = 0
  · simp [sxOfUn, RE, fld, ws, List.find?, hu, h']
    rw [show " - (" = " -" ++ " (" by decide, String.append_assoc, String.append_assoc]
  · simp [sxOfUn, RE, fld, ws, List.find?, hu, h']
    rw [show " NOT (" = " NOT" ++ " (" by decide, String.append_assoc, String.append_assoc]

theorem RE_un_leaf (f u n : Nat) (x : String) (h : RE f (embed (.leaf n)) = some x) :
    RE (f + 1) (sxOfUn u (embed (.leaf n))) = some ((if u = 0 then " -" else " NOT") ++ x) := by
  have h' : RE f (.t "LateBound" [.n "LateBound" [("name", .a (atomName n))]]) = some x := h
  by_cases hu : u = 0
  · simp [sxOfUn, embed, RE, fld, ws, List.find?, hu, h']
  · simp [sxOfUn, embed, RE, fld, ws, List.find?, hu, h']

theorem RE_un_bin (f u : Nat) (r : Gen.PrecRow) (a b : Sx) (x : String) (h : RE f (sxOfBin r a b) = some x) :
    RE (f + 1) (sxOfUn u (sxOfBin r a b)) = some ((if u = 0 then " -" else " NOT") ++ x) := by
  unfold sxOfBin at h ⊢
  split at h
  · rename_i hc
    by_cases hu : u = 0
    · simp [sxOfUn, RE, fld, ws, List.find?, hu, hc, h]
    · simp [sxOfUn, RE, fld, ws, List.find?, hu, hc, h]
  · rename_i hc
    by_cases hu : u = 0
    · simp [sxOfUn, RE, fld, ws, List.find?, hu, hc, h]
    · simp [sxOfUn, RE, fld, ws, List.find?, hu, hc, h]

/-- The renderer model on the tree of an expression writes the fully parenthesised printing. -/
theorem render_is_prFull (e : Expr) (h : OpsOk e) :
    ∀ k, RE (depth e + 1 + k) (embed e) = some (text (prFull e)) := by
  induction e with
  | leaf n =>
    intro k
    rw [show depth (.leaf n) + 1 + k = k + 1 by simp [depth]; omega]
    rw [RE_leaf]
    simp [prFull, text, tokText]
  | bin o l r ihl ihr =>
    intro k
    obtain ⟨hs, hl, hr⟩ := h
    obtain ⟨s, hs⟩ := Option.isSome_iff_exists.mp hs
    have h1 := ihl hl (max (depth l) (depth r) - depth l + k)
    have h2 := ihr hr (max (depth l) (depth r) - depth r + k)
    rw [show depth l + 1 + (max (depth l) (depth r) - depth l + k) = max (depth l) (depth r) + 1 + k by omega] at h1
    rw [show depth r + 1 + (max (depth l) (depth r) - depth r + k) = max (depth l) (depth r) + 1 + k by omega] at h2
    rw [show depth (.bin o l r) + 1 + k = (max (depth l) (depth r) + 1 + k) + 1 by simp [depth]; omega]
    simp only [embed]
    rw [RE_bin _ _ _ _ _ _ s h1 h2 hs]
    simp [prFull, text, text_append, tokText, hs, String.append_assoc]
  | un u e ih =>
    intro k
    have hk := ih h k
    rw [show depth (.un u e) + 1 + k = (depth e + 1 + k) + 1 by simp [depth]; omega]
    cases e with
    | leaf n =>
      rw [show embed (.un u (.leaf n)) = sxOfUn u (embed (.leaf n)) from rfl, RE_un_leaf _ _ _ _ hk]
      by_cases hu : u = 0 <;> simp [prFull, text, tokText, hu]
    | bin o l r =>
      simp only [embed] at hk ⊢
      rw [RE_un_bin _ _ _ _ _ _ hk]
      by_cases hu : u = 0 <;> simp [prFull, text, tokText, hu]
    | un v e' =>
      simp only [embed] at hk ⊢
      rw [RE_un_un _ _ _ _ _ hk]
      by_cases hu : u = 0 <;> simp [prFull, text, text_append, tokText, hu]

/-- every row of the generated table has a lexeme in the renderer (so `OpsOk` holds for every tree
whose operators are table rows) -/
theorem table_rows_ok : ∀ i, i < Gen.prec.length → (symOfRow (Gen.prec.getD i defaultRow)).isSome = true := by
  decide

end RenderExpr
