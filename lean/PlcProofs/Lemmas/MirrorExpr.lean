import PlcModel.Parse.Expr

/-!
# Round trip of the expression rules of the parser mirror itself

`PlcProofs/Lemmas/Climb.lean` proves the round trip for an abstract precedence climbing function.  This
file proves it for the functions the correspondence check actually runs against `parse_program`:
`Parse.expression` / `climb` / `climbLoop` / `atom` / `unaryExpression` / `primaryExpression` of
`PlcModel/Parse/Expr.lean`, driven by the generated table `Gen.prec`.

`S` is the syntax of an expression token list: identifiers, unary operators on a primary, binary
operators of the table and (possibly redundant) parentheses.  `S.WF c s` says that `s` may stand where
the grammar expects an operand of level `c` (every un-parenthesised operator binds at least that tightly,
left operands at the operator's level, right operands one above: left associativity).  The theorem
`expression_reads` states that the mirror reads `s.toks` back as `s.sx` — the tree with the
parentheses dropped — for every well-formed `s` of any size, with an explicit fuel bound that the
driver's `fuelFor` meets.  Minimal-parenthesis printing (C01) and the renderer's full parenthesisation
(C10) are both instances.
-/

open P Parse

namespace MX

/-! ### running the parser monad on a concrete input -/

theorem bind_some {α β} (p : P α) (q : α → P β) (ts ts' : List Item) (a : α) (h : p ts = some (a, ts')) :
    (p >>= q) ts = q a ts' := by
  show (StateT.bind p q) ts = _
  simp [StateT.bind, h]

theorem bind_none {α β} (p : P α) (q : α → P β) (ts : List Item) (h : p ts = none) :
    (p >>= q) ts = none := by
  show (StateT.bind p q) ts = _
  simp [StateT.bind, h]

theorem pure_run {α} (a : α) (ts : List Item) : (pure a : P α) ts = some (a, ts) := rfl

theorem orElse_some {α} (p q : P α) (ts : List Item) (r) (h : p ts = some r) : (p <|> q) ts = some r := by
  show (StateT.orElse p (fun _ => q)) ts = _
  simp [StateT.orElse, h]

theorem orElse_none {α} (p q : P α) (ts : List Item) (h : p ts = none) : (p <|> q) ts = q ts := by
  show (StateT.orElse p (fun _ => q)) ts = _
  simp [StateT.orElse, h]

theorem fail_run {α} (ts : List Item) : (P.fail : P α) ts = none := rfl

theorem tok_hit (ty : String) (t : Item) (ts : List Item) (h : t.ty = ty) : tok ty (t :: ts) = some (t, ts) := by
  simp [tok, h]
theorem tok_miss (ty : String) (t : Item) (ts : List Item) (h : t.ty ≠ ty) : tok ty (t :: ts) = none := by
  simp [tok, h]
theorem tok_nil (ty : String) : tok ty [] = none := rfl

theorem tokEq_miss (ty val : String) (t : Item) (ts : List Item) (h : t.ty ≠ ty) : tokEq ty val (t :: ts) = none := by
  simp [tokEq, h]

def isTrivia (ty : String) : Bool := ty == "Whitespace" || ty == "Newline" || ty == "Comment"

theorem ws_cons (t : Item) (ts : List Item) (h : isTrivia t.ty = false) : ws (t :: ts) = some ((), t :: ts) := by
  simp only [isTrivia] at h
  simp [ws, List.dropWhile, h]
theorem ws_nil : ws [] = some ((), []) := rfl

/-! ### the syntax of expression token lists -/

inductive S where
  | leaf (t : Item)
  /-- an unsigned decimal integer literal (a `Digits` token whose text reads as `v`) -/
  | num (t : Item) (v : Nat)
  | un (op : Item) (neg : Bool) (p : S)
  | bin (row : Gen.PrecRow) (op : Item) (l r : S)
  | paren (lp rp : Item) (s : S)

namespace S

def toks : S → List Item
  | leaf t => [t]
  | num t _ => [t]
  | un op _ p => op :: p.toks
  | bin _ op l r => l.toks ++ op :: r.toks
  | paren lp rp s => lp :: (s.toks ++ [rp])

/-- the tree the grammar actions build (parentheses leave no node) -/
def sx : S → Sx
  | leaf t => .t "LateBound" [.n "LateBound" [("name", .a (txt t))]]
  | num _ v => .t "Const" [.t "IntegerLiteral" [.n "IntegerLiteral" [("value", sxSigned v false), ("data_type", Sx.none')]]]
  | un _ neg p => .t "UnaryOp" [.n "UnaryExpr" [("op", .a (if neg then "Neg" else "Not")), ("term", p.sx)]]
  | bin row _ l r => applyOp row l.sx r.sx
  | paren _ _ s => s.sx

def isPrimary : S → Bool
  | leaf _ => true
  | num .. => true
  | paren .. => true
  | _ => false

def WF : Nat → S → Prop
  | _, leaf t => t.ty = "Identifier"
  | _, num t v => t.ty = "Digits" ∧ integerNew t.text = some v
  | _, un op neg p => op.ty = (if neg then "Minus" else "Not") ∧ p.isPrimary = true ∧ WF 0 p
  | c, bin row op l r => row ∈ Gen.prec ∧ op.ty = row.token ∧ c ≤ row.level ∧ WF row.level l ∧ WF (row.level + 1) r
  | _, paren lp rp s => lp.ty = "LeftParen" ∧ rp.ty = "RightParen" ∧ WF 0 s

/-- fuel that `climb` uses up before it enters its loop with the tree of `s` -/
def d : S → Nat
  | bin _ _ l _ => l.d + 1
  | _ => 1

/-- fuel that suffices for `climb` on `s.toks` -/
def need : S → Nat
  | leaf _ => 4
  | num .. => 4
  | un _ _ p => p.need + 3
  | bin _ _ l r => l.need + r.need + 1
  | paren _ _ s => s.need + 5

theorem d_le_need (s : S) : s.d ≤ s.need := by
  induction s with
  | leaf t => simp [d, need]
  | num t v => simp [d, need]
  | un op neg p ih => simp [d, need]
  | bin row op l r ihl ihr => simp [d, need]; omega
  | paren lp rp s ih => simp [d, need]

theorem need_le (s : S) : s.need ≤ 5 * s.toks.length := by
  induction s with
  | leaf t => simp [need, toks]
  | num t v => simp [need, toks]
  | un op neg p ih => simp [need, toks]; omega
  | bin row op l r ihl ihr => simp [need, toks]; omega
  | paren lp rp s ih => simp [need, toks]; omega

end S

/-! ### facts about the generated table, decided over the whole table -/

/-- token types that may not follow an operand: they would extend it (`#`, `(`, `[`, `.`) or be skipped -/
def okNext (ty : String) : Bool :=
  !(ty == "Hash" || ty == "LeftParen" || ty == "LeftBracket" || ty == "Period" || isTrivia ty)

theorem table_left_assoc : ∀ row ∈ Gen.prec, row.leftAssoc = true := by decide

theorem table_tokens_distinct : ∀ a ∈ Gen.prec, ∀ b ∈ Gen.prec, a.token = b.token → a = b := by decide

/-- no operator token is a bracket, `#`, `.`, an identifier or layout -/
theorem table_tokens_plain : ∀ row ∈ Gen.prec, okNext row.token = true ∧ row.token ≠ "Identifier" ∧
    row.token ≠ "RightParen" ∧ row.token ≠ "DirectAddress" := by decide

/-- what may follow an operand that stands at level `c`: nothing that extends an operand, and if it is an
operator of the table then one that binds at most as tightly as `c` -/
def Fol (c : Nat) : List Item → Prop
  | [] => True
  | t :: _ => okNext t.ty = true ∧ ∀ row ∈ Gen.prec, t.ty = row.token → row.level ≤ c

theorem Fol.mono {c c' : Nat} {rest : List Item} (h : Fol c rest) (hc : c ≤ c') : Fol c' rest := by
  cases rest with
  | nil => trivial
  | cons t ts => exact ⟨h.1, fun row hr ht => Nat.le_trans (h.2 row hr ht) hc⟩

theorem okNext_not_trivia {ty : String} (h : okNext ty = true) : isTrivia ty = false := by
  simp only [okNext, Bool.not_eq_true', Bool.or_eq_false_iff] at h
  exact h.2

theorem ws_fol {c : Nat} {rest : List Item} (h : Fol c rest) : ws rest = some ((), rest) := by
  cases rest with
  | nil => rfl
  | cons t ts => exact ws_cons t ts (okNext_not_trivia h.1)


/-! ### `constant()` does not start with an identifier (unless `#` follows) or a parenthesis -/

theorem bind_run {α β} (p : P α) (q : α → P β) (ts : List Item) :
    (p >>= q) ts = (p ts).bind (fun r => q r.1 r.2) := by
  show (StateT.bind p q) ts = _
  cases h : p ts <;> simp [StateT.bind, h]

theorem orElse_run {α} (p q : P α) (ts : List Item) : (p <|> q) ts = (p ts).orElse (fun _ => q ts) := by
  show (StateT.orElse p (fun _ => q)) ts = _
  cases h : p ts <;> simp [StateT.orElse, h]

theorem map_run {α β} (f : α → β) (p : P α) (ts : List Item) :
    (f <$> p) ts = (p ts).map (fun r => (f r.1, r.2)) := by
  show (StateT.map f p) ts = _
  cases h : p ts <;> simp [StateT.map, h]

theorem opt_run {α} (p : P α) (ts : List Item) : P.opt p ts = match p ts with
  | some (a, rest) => some (some a, rest) | none => some (none, ts) := rfl

theorem tok_cons (ty : String) (t : Item) (ts : List Item) :
    tok ty (t :: ts) = if t.ty == ty then some (t, ts) else none := rfl

theorem constant_leftParen (t : Item) (ts : List Item) (h : t.ty = "LeftParen") : constant (t :: ts) = none := by
  simp [constant, realLiteral, integerLiteral, characterString, singleByteCharacterString, doubleByteCharacterString,
    duration, timeOfDay, date, dateAndTime, bitStringLiteral, booleanLiteral, optType, realTypeName, integerTypeName,
    signedInteger, integer, binaryInteger, octalInteger, hexInteger, dtSep, idEq, tokEq, daytime, dateLiteral,
    bind_run, orElse_run, opt_run, tok_cons, h, map_run]

theorem constant_ident (t : Item) (ts : List Item) (h : t.ty = "Identifier")
    (hn : ∀ u us, ts = u :: us → u.ty ≠ "Hash") : constant (t :: ts) = none := by
  cases ts with
  | nil =>
    simp [constant, realLiteral, integerLiteral, characterString, singleByteCharacterString, doubleByteCharacterString,
      duration, timeOfDay, date, dateAndTime, bitStringLiteral, booleanLiteral, optType, realTypeName, integerTypeName,
      signedInteger, integer, binaryInteger, octalInteger, hexInteger, dtSep, idEq, tokEq, daytime, dateLiteral,
      bind_run, orElse_run, opt_run, tok_cons, h, map_run]
    refine ⟨?_, ?_⟩ <;>
    · intro a b hab
      rcases hab with ⟨_, _, rfl⟩ | ⟨_, _, _, rfl⟩ <;> simp [tok_nil]
  | cons u us =>
    have hu : u.ty ≠ "Hash" := hn u us rfl
    simp [constant, realLiteral, integerLiteral, characterString, singleByteCharacterString, doubleByteCharacterString,
      duration, timeOfDay, date, dateAndTime, bitStringLiteral, booleanLiteral, optType, realTypeName, integerTypeName,
      signedInteger, integer, binaryInteger, octalInteger, hexInteger, dtSep, idEq, tokEq, daytime, dateLiteral,
      bind_run, orElse_run, opt_run, tok_cons, h, map_run]
    refine ⟨?_, ?_⟩ <;>
    · intro a b hab
      rcases hab with ⟨_, _, rfl⟩ | ⟨_, _, _, rfl⟩ <;> simp [tok_cons, hu]

/-! ### the rules around an operand -/

theorem identifier_hit (t : Item) (ts : List Item) (h : t.ty = "Identifier") :
    identifier (t :: ts) = some (.a (txt t), ts) := by
  rw [identifier, bind_some _ _ _ _ _ (tok_hit _ _ _ h)]; rfl

theorem identifier_miss (t : Item) (ts : List Item) (h : t.ty ≠ "Identifier") : identifier (t :: ts) = none := by
  rw [identifier]; exact bind_none _ _ _ (tok_miss _ _ _ h)

theorem okNext_ne {ty : String} (h : okNext ty = true) :
    ty ≠ "Hash" ∧ ty ≠ "LeftParen" ∧ ty ≠ "LeftBracket" ∧ ty ≠ "Period" := by
  simp only [okNext, Bool.not_eq_true', Bool.or_eq_false_iff, beq_eq_false_iff_ne] at h
  exact ⟨h.1.1.1.1, h.1.1.1.2, h.1.1.2, h.1.2⟩

/-- `function_expression()` needs `name (`  -/
theorem functionExpression_none (g : Nat) (t : Item) (ts : List Item)
    (h : t.ty ≠ "Identifier" ∨ (ws ts = some ((), ts) ∧ ∀ u us, ts = u :: us → u.ty ≠ "LeftParen")) :
    functionExpression g (t :: ts) = none := by
  cases g with
  | zero => rw [functionExpression]; rfl
  | succ g =>
    rw [functionExpression]
    by_cases ht : t.ty = "Identifier"
    · rcases h with h | ⟨hws, hn⟩
      · exact absurd ht h
      · rw [bind_some _ _ _ _ _ (identifier_hit _ _ ht), bind_some _ _ _ _ _ hws]
        apply bind_none
        cases ts with
        | nil => rfl
        | cons u us => exact tok_miss _ _ _ (hn u us rfl)
    · exact bind_none _ _ _ (identifier_miss _ _ ht)

/-- `variable()` starts with a direct address or an identifier -/
theorem variableP_none (g : Nat) (t : Item) (ts : List Item) (h1 : t.ty ≠ "Identifier") (h2 : t.ty ≠ "DirectAddress") :
    variableP g (t :: ts) = none := by
  cases g with
  | zero => rw [variableP]; rfl
  | succ g =>
    rw [variableP]
    have hd : (do let d ← directVariable; pure (Sx.t "Direct" [d])) (t :: ts) = none := by
      apply bind_none
      rw [directVariable]
      exact bind_none _ _ _ (tok_miss _ _ _ h2)
    rw [orElse_none _ _ _ hd]
    apply bind_none
    cases g with
    | zero => rw [symbolicVariable]; rfl
    | succ g => rw [symbolicVariable]; exact bind_none _ _ _ (identifier_miss _ _ h1)

theorem notP_follow {c : Nat} {rest : List Item} (h : Fol c rest) :
    notP (tok "LeftParen" <|> tok "LeftBracket" <|> tok "Period") rest = some ((), rest) := by
  have hp : (tok "LeftParen" <|> tok "LeftBracket" <|> tok "Period") rest = none := by
    cases rest with
    | nil => rw [orElse_none _ _ _ (tok_nil _), orElse_none _ _ _ (tok_nil _)]; rfl
    | cons u us =>
      have hn := okNext_ne h.1
      rw [orElse_none _ _ _ (tok_miss _ _ _ hn.2.1), orElse_none _ _ _ (tok_miss _ _ _ hn.2.2.1)]
      exact tok_miss _ _ _ hn.2.2.2
  simp only [notP, hp]

/-- an identifier that is not followed by `#`, `(`, `[` or `.` is a late-bound name -/
theorem primary_leaf (g : Nat) (t : Item) (rest : List Item) (c : Nat) (ht : t.ty = "Identifier") (hf : Fol c rest) :
    primaryExpression (g + 1) (t :: rest) = some (S.sx (.leaf t), rest) := by
  rw [primaryExpression]
  have hnh : ∀ u us, rest = u :: us → u.ty ≠ "Hash" := by
    intro u us hr; subst hr; exact (okNext_ne hf.1).1
  have hnp : ∀ u us, rest = u :: us → u.ty ≠ "LeftParen" := by
    intro u us hr; subst hr; exact (okNext_ne hf.1).2.1
  rw [orElse_none _ _ _ (bind_none _ _ _ (constant_ident t rest ht hnh))]
  rw [orElse_none _ _ _ (functionExpression_none g t rest (Or.inr ⟨ws_fol hf, hnp⟩))]
  apply orElse_some
  rw [bind_some _ _ _ _ _ (identifier_hit _ _ ht), bind_some _ _ _ _ _ (ws_fol hf),
    bind_some _ _ _ _ _ (notP_follow hf)]
  rfl

theorem constant_digits (t : Item) (ts : List Item) (v : Nat) (h : t.ty = "Digits") (hv : integerNew t.text = some v) :
    constant (t :: ts) = some (.t "IntegerLiteral" [.n "IntegerLiteral" [("value", sxSigned v false), ("data_type", Sx.none')]], ts) := by
  simp [constant, realLiteral, integerLiteral, optType, realTypeName, integerTypeName,
    signedInteger, integer, binaryInteger, octalInteger, hexInteger,
    bind_run, orElse_run, opt_run, tok_cons, h, map_run, hv, pure_run]

/-- an unsigned integer literal is a constant -/
theorem primary_num (g : Nat) (t : Item) (rest : List Item) (v : Nat) (ht : t.ty = "Digits") (hv : integerNew t.text = some v) :
    primaryExpression (g + 1) (t :: rest) = some (S.sx (.num t v), rest) := by
  rw [primaryExpression]
  apply orElse_some
  rw [bind_some _ _ _ _ _ (constant_digits t rest v ht hv)]
  rfl

/-- `( expression )` as a primary: the inner expression, no node for the parentheses -/
theorem primary_paren (g : Nat) (lp rp : Item) (inner rest : List Item) (e : Sx)
    (hlp : lp.ty = "LeftParen") (hrp : rp.ty = "RightParen")
    (hws : ws inner = some ((), inner))
    (he : climb g 0 inner = some (e, rp :: rest)) :
    primaryExpression (g + 2) (lp :: inner) = some (e, rest) := by
  rw [primaryExpression]
  have hni : lp.ty ≠ "Identifier" := by rw [hlp]; decide
  have hnd : lp.ty ≠ "DirectAddress" := by rw [hlp]; decide
  rw [orElse_none _ _ _ (bind_none _ _ _ (constant_leftParen lp inner hlp))]
  rw [orElse_none _ _ _ (functionExpression_none (g + 1) lp inner (Or.inl hni))]
  rw [orElse_none _ _ _ (bind_none _ _ _ (identifier_miss _ _ hni))]
  rw [orElse_none _ _ _ (bind_none _ _ _ (variableP_none (g + 1) lp inner hni hnd))]
  have hexp : expression (g + 1) inner = some (e, rp :: rest) := by rw [expression]; exact he
  have hwsr : ws (rp :: rest) = some ((), rp :: rest) := ws_cons _ _ (by rw [hrp]; decide)
  rw [bind_some _ _ _ _ _ (tok_hit _ _ _ hlp), bind_some _ _ _ _ _ hws, bind_some _ _ _ _ _ hexp,
    bind_some _ _ _ _ _ hwsr, bind_some _ _ _ _ _ (tok_hit _ _ _ hrp)]
  rfl

/-- an operand without a unary operator -/
theorem atom_plain (g : Nat) (t : Item) (ts rest : List Item) (e : Sx)
    (h1 : t.ty ≠ "Minus") (h2 : t.ty ≠ "Not") (hws : ws (t :: ts) = some ((), t :: ts))
    (hp : primaryExpression g (t :: ts) = some (e, rest)) :
    atom (g + 2) (t :: ts) = some (e, rest) := by
  rw [atom]
  apply orElse_some
  rw [unaryExpression]
  have hopt : P.opt ((do let _ ← tok "Minus"; pure "Neg") <|> (do let _ ← tok "Not"; pure "Not")) (t :: ts)
      = some (none, t :: ts) := by
    have : ((do let _ ← tok "Minus"; pure "Neg") <|> (do let _ ← tok "Not"; pure "Not") : P String) (t :: ts) = none := by
      rw [orElse_none _ _ _ (bind_none _ _ _ (tok_miss _ _ _ h1))]
      exact bind_none _ _ _ (tok_miss _ _ _ h2)
    simp only [P.opt, this]
  rw [bind_some _ _ _ _ _ hopt, bind_some _ _ _ _ _ hws, bind_some _ _ _ _ _ hp]
  rfl

/-- a unary operator and its operand -/
theorem atom_unary (g : Nat) (op : Item) (neg : Bool) (ts rest : List Item) (e : Sx)
    (hop : op.ty = (if neg then "Minus" else "Not")) (hws : ws ts = some ((), ts))
    (hp : primaryExpression g ts = some (e, rest)) :
    atom (g + 2) (op :: ts) =
      some (.t "UnaryOp" [.n "UnaryExpr" [("op", .a (if neg then "Neg" else "Not")), ("term", e)]], rest) := by
  rw [atom]
  apply orElse_some
  rw [unaryExpression]
  have hopt : P.opt ((do let _ ← tok "Minus"; pure "Neg") <|> (do let _ ← tok "Not"; pure "Not")) (op :: ts)
      = some (some (if neg then "Neg" else "Not"), ts) := by
    have : ((do let _ ← tok "Minus"; pure "Neg") <|> (do let _ ← tok "Not"; pure "Not") : P String) (op :: ts)
        = some ((if neg then "Neg" else "Not"), ts) := by
      cases neg with
      | true =>
        simp only [if_true] at hop ⊢
        apply orElse_some
        rw [bind_some _ _ _ _ _ (tok_hit _ _ _ hop)]; rfl
      | false =>
        simp only [Bool.false_eq_true, if_false] at hop ⊢
        rw [orElse_none _ _ _ (bind_none _ _ _ (tok_miss _ _ _ (by rw [hop]; decide)))]
        rw [bind_some _ _ _ _ _ (tok_hit _ _ _ hop)]; rfl
    simp only [P.opt, this]
  rw [bind_some _ _ _ _ _ hopt, bind_some _ _ _ _ _ hws, bind_some _ _ _ _ _ hp]
  rfl

/-! ### the loop of `climb` -/

theorem findSome_unique {α β} (L : List α) (f : α → Option β) (a : α) (ha : a ∈ L)
    (h : ∀ b ∈ L, b ≠ a → f b = none) : L.findSome? f = f a := by
  induction L with
  | nil => cases ha
  | cons x xs ih =>
    by_cases hx : x = a
    · subst hx
      cases hfa : f x with
      | some v => simp [List.findSome?, hfa]
      | none =>
        simp only [List.findSome?, hfa]
        rw [List.findSome?_eq_none_iff]
        intro b hb
        by_cases hbx : b = x
        · rw [hbx]; exact hfa
        · exact h b (List.mem_cons_of_mem _ hb) hbx
    · have hfx : f x = none := h x (List.mem_cons_self ..) hx
      simp only [List.findSome?, hfx]
      have ha' : a ∈ xs := by
        cases ha with
        | head => exact absurd rfl hx
        | tail _ h' => exact h'
      exact ih ha' (fun b hb => h b (List.mem_cons_of_mem _ hb))

/-- the loop stops in front of anything that is not an operator binding at least as tightly as `m` -/
theorem loop_stop (g m : Nat) (lhs : Sx) (rest : List Item)
    (hws : ws rest = some ((), rest))
    (h : ∀ t ts, rest = t :: ts → ∀ row ∈ Gen.prec, t.ty = row.token → row.level < m) :
    climbLoop g m lhs rest = some (lhs, rest) := by
  cases g with
  | zero => rw [climbLoop]; rfl
  | succ g =>
    rw [climbLoop]
    have hnone : (Gen.prec.findSome? fun row =>
        if row.level < m then none else
        (do ws; let _ ← tok row.token; ws
            let rhs ← climb g (if row.leftAssoc then row.level + 1 else row.level)
            pure (applyOp row lhs rhs)) rest) = none := by
      rw [List.findSome?_eq_none_iff]
      intro row hrow
      by_cases hl : row.level < m
      · simp [hl]
      · simp only [hl, if_false]
        rw [bind_some _ _ _ _ _ hws]
        apply bind_none
        cases rest with
        | nil => rfl
        | cons t ts =>
          apply tok_miss
          intro ht
          exact hl (h t ts rfl row hrow ht)
    simp only [hnone]

/-- one turn of the loop: the operator `row` (its token first in the input) with a right operand that
`climb` reads at the level above -/
theorem loop_step (G m : Nat) (lhs rhs : Sx) (row : Gen.PrecRow) (op : Item) (R R' : List Item)
    (hrow : row ∈ Gen.prec) (hop : op.ty = row.token) (hm : m ≤ row.level)
    (hwsR : ws R = some ((), R))
    (hrhs : climb G (row.level + 1) R = some (rhs, R')) :
    climbLoop (G + 1) m lhs (op :: R) = climbLoop G m (applyOp row lhs rhs) R' := by
  rw [climbLoop]
  have hplain := table_tokens_plain row hrow
  have hwsop : ws (op :: R) = some ((), op :: R) := ws_cons op R (by rw [hop]; exact okNext_not_trivia hplain.1)
  have hfind : (Gen.prec.findSome? fun row' =>
        if row'.level < m then none else
        (do ws; let _ ← tok row'.token; ws
            let rhs ← climb G (if row'.leftAssoc then row'.level + 1 else row'.level)
            pure (applyOp row' lhs rhs)) (op :: R)) = some (applyOp row lhs rhs, R') := by
    rw [findSome_unique Gen.prec _ row hrow]
    · have hl : ¬ row.level < m := by omega
      simp only [hl, if_false]
      rw [bind_some _ _ _ _ _ hwsop, bind_some _ _ _ _ _ (tok_hit _ _ _ hop), bind_some _ _ _ _ _ hwsR]
      simp only [table_left_assoc row hrow, if_true]
      rw [bind_some _ _ _ _ _ hrhs]
      rfl
    · intro b hb hne
      by_cases hl : b.level < m
      · simp [hl]
      · simp only [hl, if_false]
        rw [bind_some _ _ _ _ _ hwsop]
        apply bind_none
        apply tok_miss
        intro ht
        exact hne (table_tokens_distinct b hb row hrow (by rw [← ht, hop]))
  simp only [hfind]


/-! ### the round trip -/

theorem ws_toks (s : S) : ∀ c rest, s.WF c → ws (s.toks ++ rest) = some ((), s.toks ++ rest) := by
  induction s with
  | leaf t => intro c rest h; exact ws_cons _ _ (by rw [show t.ty = "Identifier" from h]; decide)
  | num t v => intro c rest h; exact ws_cons _ _ (by rw [h.1]; decide)
  | un op neg p ih =>
    intro c rest h
    have hop : op.ty = (if neg then "Minus" else "Not") := h.1
    exact ws_cons _ _ (by rw [hop]; cases neg <;> decide)
  | bin row op l r ihl ihr =>
    intro c rest h
    have hl : l.WF row.level := h.2.2.2.1
    have := ihl row.level (op :: r.toks ++ rest) hl
    simpa [S.toks, List.append_assoc] using this
  | paren lp rp s ih =>
    intro c rest h
    have hlp : lp.ty = "LeftParen" := h.1
    exact ws_cons _ _ (by rw [hlp]; decide)

theorem fol_rparen (rp : Item) (rest : List Item) (h : rp.ty = "RightParen") : Fol 0 (rp :: rest) := by
  refine ⟨by rw [h]; decide, ?_⟩
  intro row hrow ht
  exact absurd (ht.symm.trans h) (table_tokens_plain row hrow).2.2.1

theorem fol_op (row : Gen.PrecRow) (op : Item) (R : List Item) (hrow : row ∈ Gen.prec) (hop : op.ty = row.token) :
    Fol row.level (op :: R) := by
  refine ⟨by rw [hop]; exact (table_tokens_plain row hrow).1, ?_⟩
  intro row' hrow' ht
  have : row' = row := table_tokens_distinct row' hrow' row hrow (by rw [← ht, hop])
  rw [this]; exact Nat.le_refl _

theorem main (s : S) :
    (∀ c m rest F, s.WF c → m ≤ c → Fol c rest → s.need ≤ F →
        climb F m (s.toks ++ rest) = climbLoop (F - s.d) m s.sx rest) ∧
    (s.isPrimary = true → ∀ c rest g, s.WF 0 → Fol c rest → s.need ≤ g + 3 →
        primaryExpression g (s.toks ++ rest) = some (s.sx, rest)) := by
  induction s with
  | leaf t =>
    have hprim : ∀ c rest g, (S.leaf t).WF 0 → Fol c rest → (S.leaf t).need ≤ g + 3 →
        primaryExpression g ((S.leaf t).toks ++ rest) = some ((S.leaf t).sx, rest) := by
      intro c rest g hwf hf hg
      obtain ⟨g', rfl⟩ : ∃ g', g = g' + 1 := ⟨g - 1, by simp [S.need] at hg; omega⟩
      exact primary_leaf g' t rest c hwf hf
    refine ⟨?_, fun _ => hprim⟩
    intro c m rest F hwf hm hf hF
    obtain ⟨g, rfl⟩ : ∃ g, F = g + 3 := ⟨F - 3, by simp [S.need] at hF; omega⟩
    have ht : t.ty = "Identifier" := hwf
    have hp := hprim c rest g hwf hf (by simpa using hF)
    have ha : atom (g + 2) (t :: rest) = some ((S.leaf t).sx, rest) :=
      atom_plain g t rest rest _ (by rw [ht]; decide) (by rw [ht]; decide)
        (ws_cons _ _ (by rw [ht]; decide)) hp
    show climb (g + 2 + 1) m (t :: rest) = _
    rw [climb, bind_some _ _ _ _ _ ha]
    rfl
  | num t v =>
    have hprim : ∀ c rest g, (S.num t v).WF 0 → Fol c rest → (S.num t v).need ≤ g + 3 →
        primaryExpression g ((S.num t v).toks ++ rest) = some ((S.num t v).sx, rest) := by
      intro c rest g hwf hf hg
      obtain ⟨g', rfl⟩ : ∃ g', g = g' + 1 := ⟨g - 1, by simp [S.need] at hg; omega⟩
      exact primary_num g' t rest v hwf.1 hwf.2
    refine ⟨?_, fun _ => hprim⟩
    intro c m rest F hwf hm hf hF
    obtain ⟨g, rfl⟩ : ∃ g, F = g + 3 := ⟨F - 3, by simp [S.need] at hF; omega⟩
    have ht : t.ty = "Digits" := hwf.1
    have hp := hprim c rest g hwf hf (by simpa using hF)
    have ha : atom (g + 2) (t :: rest) = some ((S.num t v).sx, rest) :=
      atom_plain g t rest rest _ (by rw [ht]; decide) (by rw [ht]; decide)
        (ws_cons _ _ (by rw [ht]; decide)) hp
    show climb (g + 2 + 1) m (t :: rest) = _
    rw [climb, bind_some _ _ _ _ _ ha]
    rfl
  | un op neg p ih =>
    refine ⟨?_, fun h => by simp [S.isPrimary] at h⟩
    intro c m rest F hwf hm hf hF
    obtain ⟨hop, hprimary, hwfp⟩ := hwf
    obtain ⟨g, rfl⟩ : ∃ g, F = g + 3 := ⟨F - 3, by simp [S.need] at hF; omega⟩
    have hp := ih.2 hprimary c rest g hwfp hf (by simp [S.need] at hF; omega)
    have ha := atom_unary g op neg (p.toks ++ rest) rest p.sx hop (ws_toks p 0 rest hwfp) hp
    show climb (g + 2 + 1) m (op :: (p.toks ++ rest)) = _
    rw [climb, bind_some _ _ _ _ _ ha]
    rfl
  | bin row op l r ihl ihr =>
    refine ⟨?_, fun h => by simp [S.isPrimary] at h⟩
    intro c m rest F hwf hm hf hF
    obtain ⟨hrow, hop, hc, hwl, hwr⟩ := hwf
    have hdl := S.d_le_need l
    simp only [S.need] at hF
    have hR : (S.bin row op l r).toks ++ rest = l.toks ++ (op :: (r.toks ++ rest)) := by
      simp [S.toks, List.append_assoc]
    rw [hR, ihl.1 row.level m (op :: (r.toks ++ rest)) F hwl (by omega) (fol_op row op _ hrow hop) (by omega)]
    obtain ⟨G, hG⟩ : ∃ G, F - l.d = G + 1 := ⟨F - l.d - 1, by omega⟩
    -- the right operand, read one level above the operator, stops in front of `rest`
    have hrhs : climb G (row.level + 1) (r.toks ++ rest) = some (r.sx, rest) := by
      rw [ihr.1 (row.level + 1) (row.level + 1) rest G hwr (Nat.le_refl _) (hf.mono (by omega)) (by omega)]
      apply loop_stop _ _ _ _ (ws_fol hf)
      intro t ts hts row' hrow' ht
      subst hts
      have := hf.2 row' hrow' ht
      omega
    rw [hG, loop_step G m l.sx r.sx row op (r.toks ++ rest) rest hrow hop (by omega) (ws_toks r _ rest hwr) hrhs]
    have : F - (S.bin row op l r).d = G := by simp only [S.d]; omega
    rw [this]
    rfl
  | paren lp rp s ih =>
    have hprim : ∀ c rest g, (S.paren lp rp s).WF 0 → Fol c rest → (S.paren lp rp s).need ≤ g + 3 →
        primaryExpression g ((S.paren lp rp s).toks ++ rest) = some ((S.paren lp rp s).sx, rest) := by
      intro c rest g hwf hf hg
      obtain ⟨hlp, hrp, hws⟩ := hwf
      obtain ⟨g', rfl⟩ : ∃ g', g = g' + 2 := ⟨g - 2, by simp [S.need] at hg; omega⟩
      have hinner : climb g' 0 (s.toks ++ rp :: rest) = some (s.sx, rp :: rest) := by
        rw [ih.1 0 0 (rp :: rest) g' hws (Nat.le_refl _) (fol_rparen rp rest hrp) (by simp [S.need] at hg; omega)]
        apply loop_stop _ _ _ _ (ws_cons _ _ (by rw [hrp]; decide))
        intro t ts hts row hrow ht
        cases hts
        exact absurd (ht.symm.trans hrp) (table_tokens_plain row hrow).2.2.1
      have := primary_paren g' lp rp (s.toks ++ rp :: rest) rest s.sx hlp hrp (ws_toks s 0 _ hws) hinner
      simpa [S.toks, S.sx, List.append_assoc] using this
    refine ⟨?_, fun _ => hprim⟩
    intro c m rest F hwf hm hf hF
    obtain ⟨g, rfl⟩ : ∃ g, F = g + 3 := ⟨F - 3, by simp [S.need] at hF; omega⟩
    have hlp : lp.ty = "LeftParen" := hwf.1
    have hp := hprim c rest g hwf hf (by simpa using hF)
    have hws : ws ((S.paren lp rp s).toks ++ rest) = some ((), (S.paren lp rp s).toks ++ rest) := ws_toks _ c rest hwf
    have ha : atom (g + 2) ((S.paren lp rp s).toks ++ rest) = some ((S.paren lp rp s).sx, rest) := by
      have h1 : lp.ty ≠ "Minus" := by rw [hlp]; decide
      have h2 : lp.ty ≠ "Not" := by rw [hlp]; decide
      exact atom_plain g lp _ rest _ h1 h2 hws hp
    show climb (g + 2 + 1) m _ = _
    rw [climb, bind_some _ _ _ _ _ ha]
    rfl

/-- **The mirror reads every well-formed expression token list back as its tree.**  `rest` is what
follows the expression: anything that does not continue it (no operator of the table, no `#`, `(`,
`[`, `.`, no layout). -/
theorem expression_reads (s : S) (rest : List Item) (F : Nat) (hwf : s.WF 0)
    (hrest : ∀ t ts, rest = t :: ts → okNext t.ty = true ∧ ∀ row ∈ Gen.prec, t.ty ≠ row.token)
    (hF : s.need + 1 ≤ F) :
    expression F (s.toks ++ rest) = some (s.sx, rest) := by
  obtain ⟨F', rfl⟩ : ∃ F', F = F' + 1 := ⟨F - 1, by omega⟩
  have hf : Fol 0 rest := by
    cases rest with
    | nil => trivial
    | cons t ts =>
      have := hrest t ts rfl
      exact ⟨this.1, fun row hrow ht => absurd ht (this.2 row hrow)⟩
  rw [expression, (main s).1 0 0 rest F' hwf (Nat.le_refl _) hf (by omega)]
  apply loop_stop _ _ _ _ (ws_fol hf)
  intro t ts hts row hrow ht
  exact absurd ht ((hrest t ts hts).2 row hrow)

/-- the fuel the driver gives the parser (`Parse.fuelFor` of the number of tokens) is enough -/
theorem fuelFor_enough (s : S) (n : Nat) (h : s.toks.length ≤ n) : s.need + 1 ≤ fuelFor n := by
  have := S.need_le s
  unfold fuelFor
  omega


/-! ### expression trees and their two printings -/

/-- an expression tree as the dsl holds it (no parentheses): names, unary and binary operators, each
with the token it was / will be written with -/
inductive E where
  | leaf (t : Item)
  | num (t : Item) (v : Nat)
  | un (op : Item) (neg : Bool) (e : E)
  | bin (row : Gen.PrecRow) (op : Item) (l r : E)

namespace E

/-- tokens carry the right types and the operators are rows of the generated table -/
def Ok : E → Prop
  | leaf t => t.ty = "Identifier"
  | num t v => t.ty = "Digits" ∧ integerNew t.text = some v
  | un op neg e => op.ty = (if neg then "Minus" else "Not") ∧ Ok e
  | bin row op l r => row ∈ Gen.prec ∧ op.ty = row.token ∧ Ok l ∧ Ok r

/-- the tree of the grammar actions -/
def sx : E → Sx
  | leaf t => .t "LateBound" [.n "LateBound" [("name", .a (txt t))]]
  | num _ v => .t "Const" [.t "IntegerLiteral" [.n "IntegerLiteral" [("value", sxSigned v false), ("data_type", Sx.none')]]]
  | un _ neg e => .t "UnaryOp" [.n "UnaryExpr" [("op", .a (if neg then "Neg" else "Not")), ("term", e.sx)]]
  | bin row _ l r => applyOp row l.sx r.sx

/-- minimal parentheses (Annex B.3.1): around a binary node that binds less tightly than its context
`c` requires, and around the operand of a unary operator unless it is a name -/
def pr (lp rp : Item) : Nat → E → S
  | _, leaf t => .leaf t
  | _, num t v => .num t v
  | _, un op neg (leaf t) => .un op neg (.leaf t)
  | _, un op neg (num t v) => .un op neg (.num t v)
  | _, un op neg e => .un op neg (.paren lp rp (pr lp rp 0 e))
  | c, bin row op l r =>
    let body := S.bin row op (pr lp rp row.level l) (pr lp rp (row.level + 1) r)
    if row.level < c then .paren lp rp body else body

/-- the renderer's printing: every binary node in parentheses, a unary operand in parentheses exactly
when it is itself a unary expression (a binary operand already has its own) -/
def full (lp rp : Item) : E → S
  | leaf t => .leaf t
  | num t v => .num t v
  | un op neg (leaf t) => .un op neg (.leaf t)
  | un op neg (num t v) => .un op neg (.num t v)
  | un op neg (un op' neg' e) => .un op neg (.paren lp rp (full lp rp (un op' neg' e)))
  | un op neg (bin row o l r) => .un op neg (full lp rp (bin row o l r))
  | bin row op l r => .paren lp rp (.bin row op (full lp rp l) (full lp rp r))

theorem pr_sx (lp rp : Item) (e : E) : ∀ c, (pr lp rp c e).sx = e.sx := by
  induction e with
  | leaf t => intro c; rfl
  | num t v => intro c; rfl
  | un op neg e ih =>
    intro c
    cases e with
    | leaf t => rfl
    | num t v => rfl
    | un op' neg' e' =>
      show Sx.t "UnaryOp" [.n "UnaryExpr" [("op", _), ("term", (pr lp rp 0 (un op' neg' e')).sx)]] = _
      rw [ih 0]; rfl
    | bin row o l r =>
      show Sx.t "UnaryOp" [.n "UnaryExpr" [("op", _), ("term", (pr lp rp 0 (bin row o l r)).sx)]] = _
      rw [ih 0]; rfl
  | bin row op l r ihl ihr =>
    intro c
    simp only [pr]
    split <;> simp only [S.sx, sx, ihl, ihr]

theorem pr_wf (lp rp : Item) (hlp : lp.ty = "LeftParen") (hrp : rp.ty = "RightParen") (e : E) :
    e.Ok → ∀ c, (pr lp rp c e).WF c := by
  induction e with
  | leaf t => intro h c; exact h
  | num t v => intro h c; exact h
  | un op neg e ih =>
    intro h c
    cases e with
    | leaf t => exact ⟨h.1, rfl, h.2⟩
    | num t v => exact ⟨h.1, rfl, h.2⟩
    | un op' neg' e' => exact ⟨h.1, rfl, hlp, hrp, ih h.2 0⟩
    | bin row o l r => exact ⟨h.1, rfl, hlp, hrp, ih h.2 0⟩
  | bin row op l r ihl ihr =>
    intro h c
    obtain ⟨hrow, hop, hl, hr⟩ := h
    simp only [pr]
    split
    · exact ⟨hlp, hrp, hrow, hop, Nat.zero_le _, ihl hl _, ihr hr _⟩
    · exact ⟨hrow, hop, by omega, ihl hl _, ihr hr _⟩

theorem full_sx (lp rp : Item) (e : E) : (full lp rp e).sx = e.sx := by
  induction e with
  | leaf t => rfl
  | num t v => rfl
  | un op neg e ih =>
    cases e with
    | leaf t => rfl
    | num t v => rfl
    | un op' neg' e' =>
      show Sx.t "UnaryOp" [.n "UnaryExpr" [("op", _), ("term", (full lp rp (un op' neg' e')).sx)]] = _
      rw [ih]; rfl
    | bin row o l r =>
      show Sx.t "UnaryOp" [.n "UnaryExpr" [("op", _), ("term", (full lp rp (bin row o l r)).sx)]] = _
      rw [ih]; rfl
  | bin row op l r ihl ihr => simp only [full, S.sx, sx, ihl, ihr]

theorem full_wf (lp rp : Item) (hlp : lp.ty = "LeftParen") (hrp : rp.ty = "RightParen") (e : E) :
    e.Ok → ∀ c, (full lp rp e).WF c := by
  induction e with
  | leaf t => intro h c; exact h
  | num t v => intro h c; exact h
  | un op neg e ih =>
    intro h c
    cases e with
    | leaf t => exact ⟨h.1, rfl, h.2⟩
    | num t v => exact ⟨h.1, rfl, h.2⟩
    | un op' neg' e' => exact ⟨h.1, rfl, hlp, hrp, ih h.2 0⟩
    | bin row o l r => exact ⟨h.1, rfl, ih h.2 0⟩
  | bin row op l r ihl ihr =>
    intro h c
    obtain ⟨hrow, hop, hl, hr⟩ := h
    exact ⟨hlp, hrp, hrow, hop, Nat.zero_le _, ihl hl _, ihr hr _⟩

end E

end MX
