import PlcProofs.Lemmas.MirrorExpr

/-!
# Round trip of the statement rules of the parser mirror

Continues `MirrorExpr.lean` one level up: `Parse.statement` / `statementList` / `statementsOrEmpty` /
`ifStatement` / `whileStatement` / `repeatStatement` of `PlcModel/Parse/Expr.lean` read the token list of
every statement tree built from assignments to named variables, IF … THEN … [ELSE …] END_IF,
WHILE … DO … END_WHILE, REPEAT … UNTIL … END_REPEAT, EXIT and RETURN — nested to any depth, bodies of any
length, conditions and right-hand sides any expression of `MX.S` — back to exactly the tree the grammar
actions build: every statement of every list, in order, each body under the statement it was written in
("statement nesting" of C01).
-/

open P Parse

namespace MX

/-! ### `p*` on a chain of segments -/

theorem manyF_stop {α} (p : P α) (fuel : Nat) (ts : List Item) (h : p ts = none) :
    manyF p (fuel + 1) ts = some ([], ts) := by
  simp only [manyF, h]

theorem manyF_step {α} (p : P α) (fuel : Nat) (ts rest : List Item) (a : α) (as : List α) (rest' : List Item)
    (h : p ts = some (a, rest)) (hlt : rest.length < ts.length)
    (hrec : manyF p fuel rest = some (as, rest')) :
    manyF p (fuel + 1) ts = some (a :: as, rest') := by
  simp only [manyF, h, hlt, if_true, hrec]

theorem sepBy_nil_of_none {α β} (p : P α) (sep : P β) (ts : List Item) (h : p ts = none) :
    sepBy p sep ts = some ([], ts) := by simp only [sepBy, h]

def flat {α} (segs : List (α × List Item)) : List Item := segs.flatMap (·.2)

/-- `p` reads the segments one after the other and fails on what follows them -/
def Chain {α} (p : P α) : List (α × List Item) → List Item → Prop
  | [], rest => p rest = none
  | (a, seg) :: more, rest => seg ≠ [] ∧ p (seg ++ (flat more ++ rest)) = some (a, flat more ++ rest) ∧ Chain p more rest

theorem manyF_chain {α} (p : P α) : ∀ (segs : List (α × List Item)) (rest : List Item) (fuel : Nat),
    Chain p segs rest → segs.length < fuel → manyF p fuel (flat segs ++ rest) = some (segs.map (·.1), rest) := by
  intro segs
  induction segs with
  | nil =>
    intro rest fuel h hf
    obtain ⟨f, rfl⟩ : ∃ f, fuel = f + 1 := ⟨fuel - 1, by omega⟩
    simpa [flat] using manyF_stop p f rest h
  | cons x more ih =>
    intro rest fuel h hf
    obtain ⟨a, seg⟩ := x
    obtain ⟨hne, hp, hmore⟩ := h
    obtain ⟨f, rfl⟩ : ∃ f, fuel = f + 1 := ⟨fuel - 1, by omega⟩
    have hrec := ih rest f hmore (by simp at hf; omega)
    have hflat : flat ((a, seg) :: more) ++ rest = seg ++ (flat more ++ rest) := by simp [flat]
    rw [hflat]
    have hlt : (flat more ++ rest).length < (seg ++ (flat more ++ rest)).length := by
      have : 0 < seg.length := List.length_pos_iff.mpr hne
      simp only [List.length_append]; omega
    simpa using manyF_step p f _ _ a _ rest hp hlt hrec

theorem many_chain {α} (p : P α) (segs : List (α × List Item)) (rest : List Item)
    (h : Chain p segs rest) (hlen : ∀ x ∈ segs, x.2 ≠ []) :
    many p (flat segs ++ rest) = some (segs.map (·.1), rest) := by
  unfold many
  apply manyF_chain p segs rest _ h
  -- every segment has at least one token
  have : segs.length ≤ (flat segs).length := by
    clear h
    induction segs with
    | nil => simp
    | cons x more ih =>
      have hx : 0 < x.2.length := List.length_pos_iff.mpr (hlen x (List.mem_cons_self ..))
      have := ih (fun y hy => hlen y (List.mem_cons_of_mem _ hy))
      simp only [flat, List.flatMap_cons, List.length_append, List.length_cons] at this ⊢
      omega
  simp only [List.length_append]; omega


/-- like `Chain`, for a list `p ** _`: `p` reads the segments, layout between them is none, `p` fails on what follows -/
def ChainW {α} (p : P α) : List (α × List Item) → List Item → Prop
  | [], rest => p rest = none ∧ ws rest = some ((), rest)
  | (a, seg) :: more, rest => seg ≠ [] ∧ ws (seg ++ (flat more ++ rest)) = some ((), seg ++ (flat more ++ rest)) ∧
      p (seg ++ (flat more ++ rest)) = some (a, flat more ++ rest) ∧ ChainW p more rest

theorem chainW_chain {α} (p : P α) : ∀ (segs : List (α × List Item)) (rest : List Item),
    ChainW p segs rest → Chain (do let _ ← ws; p : P α) segs rest := by
  intro segs
  induction segs with
  | nil => intro rest h; show (do let _ ← ws; p : P α) rest = none; rw [bind_some _ _ _ _ _ h.2]; exact h.1
  | cons x more ih =>
    intro rest h
    obtain ⟨a, seg⟩ := x
    obtain ⟨hne, hws, hp, hmore⟩ := h
    refine ⟨hne, ?_, ih rest hmore⟩
    rw [bind_some _ _ _ _ _ hws]; exact hp

theorem chainW_nonempty {α} (p : P α) : ∀ (segs : List (α × List Item)) (rest : List Item), ChainW p segs rest → ∀ x ∈ segs, x.2 ≠ [] := by
  intro segs
  induction segs with
  | nil => intro rest _ x hx; cases hx
  | cons y more ih =>
    intro rest h x hx
    obtain ⟨a, seg⟩ := y
    rcases List.mem_cons.mp hx with rfl | hx
    · exact h.1
    · exact ih rest h.2.2.2 x hx

/-- `p ** _` on a chain -/
theorem sepBy_chainW {α} (p : P α) (segs : List (α × List Item)) (rest : List Item) (h : ChainW p segs rest) :
    sepBy p ws (flat segs ++ rest) = some (segs.map (·.1), rest) := by
  cases segs with
  | nil => simpa [flat] using sepBy_nil_of_none p ws rest h.1
  | cons x more =>
    obtain ⟨a, seg⟩ := x
    obtain ⟨hne, hws, hp, hmore⟩ := h
    have hm := many_chain (do let _ ← ws; p : P α) more rest (chainW_chain p more rest hmore) (chainW_nonempty p more rest hmore)
    have hfl : flat ((a, seg) :: more) ++ rest = seg ++ (flat more ++ rest) := by simp [flat]
    rw [hfl]
    simp only [sepBy, hp, hm, List.map_cons]

/-! ### the syntax of statement token lists -/

mutual
  inductive St where
    | assign (name asg : Item) (e : S)
    | ifS (kIf kThen : Item) (c : S) (body : Stl) (elifs : Elifs) (kEnd : Item)
    | ifElse (kIf kThen : Item) (c : S) (body : Stl) (elifs : Elifs) (kElse : Item) (els : Stl) (kEnd : Item)
    | whileS (kWhile kDo : Item) (c : S) (body : Stl) (kEnd : Item)
    | repeatS (kRep : Item) (body : Stl) (kUntil : Item) (c : S) (kEnd : Item)
    /-- `FOR ctl := frm TO to [BY step] DO body END_FOR` -/
    | forS (kFor ctl asg : Item) (frm : S) (kTo : Item) (to : S) (step : Option (Item × S)) (kDo : Item) (body : Stl) (kEnd : Item)
    /-- `CASE sel OF groups [ELSE els] END_CASE` -/
    | caseS (kCase kOf : Item) (sel : S) (groups : Groups) (kEnd : Item)
    | caseElse (kCase kOf : Item) (sel : S) (groups : Groups) (kElse : Item) (els : Stl) (kEnd : Item)
    /-- `name(n1 := e1 {, n := e})`: a function block invocation with named inputs -/
    | callS (name lp n1 a1 : Item) (e1 : S) (more : List (Item × Item × Item × S)) (rp : Item)
    | exitS (k : Item)
    | returnS (k : Item)
  /-- statements, each followed by its semicolon -/
  inductive Stl where
    | nil
    | cons (s : St) (semi : Item) (rest : Stl)
  /-- `ELSIF c THEN body` branches -/
  inductive Elifs where
    | nil
    | cons (kElsif kThen : Item) (c : S) (body : Stl) (rest : Elifs)
  /-- `d {, d} : body` groups of a CASE; the selectors are unsigned integer literals (`v` their values) -/
  inductive Groups where
    | nil
    | cons (d : Item) (v : Nat) (more : List (Item × Item × Nat)) (colon : Item) (body : Stl) (rest : Groups)
end

/-- the tokens `, d` of the further selectors of a group -/
def selToks (more : List (Item × Item × Nat)) : List Item := more.flatMap fun m => [m.1, m.2.1]
/-- the tree of an unsigned integer selector -/
def selSx (v : Nat) : Sx := .t "SignedInteger" [sxSigned v false]
/-- the tokens `, n := e` of the further arguments of a call -/
def argToks (more : List (Item × Item × Item × S)) : List Item := more.flatMap fun m => m.1 :: m.2.1 :: m.2.2.1 :: m.2.2.2.toks
/-- the tree of a named input -/
def namedSx (n : Item) (e : S) : Sx := .t "NamedInput" [.n "NamedInput" [("name", .a (txt n)), ("expr", e.sx)]]
def argsNeed (more : List (Item × Item × Item × S)) : Nat := (more.map fun m => m.2.2.2.need + 1).sum

def groupSx (v : Nat) (more : List (Item × Item × Nat)) (body : List Sx) : Sx :=
  .n "CaseStatementGroup" [("selectors", .l (selSx v :: more.map fun m => selSx m.2.2)), ("statements", .l body)]

mutual
  def St.toks : St → List Item
    | .assign n a e => n :: a :: e.toks
    | .ifS kIf kThen c body elifs kEnd => kIf :: (c.toks ++ kThen :: (body.toks ++ (elifs.toks ++ [kEnd])))
    | .ifElse kIf kThen c body elifs kElse els kEnd => kIf :: (c.toks ++ kThen :: (body.toks ++ (elifs.toks ++ kElse :: (els.toks ++ [kEnd]))))
    | .whileS kW kDo c body kEnd => kW :: (c.toks ++ kDo :: (body.toks ++ [kEnd]))
    | .repeatS kR body kU c kEnd => kR :: (body.toks ++ kU :: (c.toks ++ [kEnd]))
    | .forS kFor ctl asg frm kTo to none kDo body kEnd =>
        kFor :: ctl :: asg :: (frm.toks ++ kTo :: (to.toks ++ kDo :: (body.toks ++ [kEnd])))
    | .forS kFor ctl asg frm kTo to (some (kBy, st)) kDo body kEnd =>
        kFor :: ctl :: asg :: (frm.toks ++ kTo :: (to.toks ++ kBy :: (st.toks ++ kDo :: (body.toks ++ [kEnd]))))
    | .caseS kCase kOf sel groups kEnd => kCase :: (sel.toks ++ kOf :: (groups.toks ++ [kEnd]))
    | .caseElse kCase kOf sel groups kElse els kEnd => kCase :: (sel.toks ++ kOf :: (groups.toks ++ kElse :: (els.toks ++ [kEnd])))
    | .callS name lp n1 a1 e1 more rp => name :: lp :: n1 :: a1 :: (e1.toks ++ (argToks more ++ [rp]))
    | .exitS k => [k]
    | .returnS k => [k]
  def Stl.toks : Stl → List Item
    | .nil => []
    | .cons s semi rest => s.toks ++ semi :: rest.toks
  def Elifs.toks : Elifs → List Item
    | .nil => []
    | .cons kE kT c body rest => kE :: (c.toks ++ kT :: (body.toks ++ rest.toks))
  def Groups.toks : Groups → List Item
    | .nil => []
    | .cons d _ more colon body rest => d :: (selToks more ++ colon :: (body.toks ++ rest.toks))
end

mutual
  /-- the tree the grammar actions build -/
  def St.sx : St → Sx
    | .assign n _ e => .t "Assignment" [.n "Assignment"
        [("target", .t "Symbolic" [.t "Named" [.n "NamedVariable" [("name", .a (txt n))]]]), ("value", e.sx)]]
    | .ifS _ _ c body elifs _ => .t "If" [.n "If" [("expr", c.sx), ("body", .l body.sxs), ("else_ifs", .l elifs.sxs), ("else_body", .l [])]]
    | .ifElse _ _ c body elifs _ els _ =>
        .t "If" [.n "If" [("expr", c.sx), ("body", .l body.sxs), ("else_ifs", .l elifs.sxs), ("else_body", .l els.sxs)]]
    | .whileS _ _ c body _ => .t "While" [.n "While" [("condition", c.sx), ("body", .l body.sxs)]]
    | .repeatS _ body _ c _ => .t "Repeat" [.n "Repeat" [("until", c.sx), ("body", .l body.sxs)]]
    | .forS _ ctl _ frm _ to step _ body _ =>
        .t "For" [.n "For" [("control", .a (txt ctl)), ("from", frm.sx), ("to", to.sx),
                            ("step", Sx.opt (step.map fun p => p.2.sx)), ("body", .l body.sxs)]]
    | .caseS _ _ sel groups _ =>
        .t "Case" [.n "Case" [("selector", sel.sx), ("statement_groups", .l groups.sxs), ("else_body", .l [])]]
    | .caseElse _ _ sel groups _ els _ =>
        .t "Case" [.n "Case" [("selector", sel.sx), ("statement_groups", .l groups.sxs), ("else_body", .l els.sxs)]]
    | .callS name _ n1 _ e1 more _ =>
        .t "FbCall" [.n "FbCall" [("var_name", .a (txt name)), ("params", .l (namedSx n1 e1 :: more.map fun m => namedSx m.2.1 m.2.2.2))]]
    | .exitS _ => .a "Exit"
    | .returnS _ => .a "Return"
  def Stl.sxs : Stl → List Sx
    | .nil => []
    | .cons s _ rest => s.sx :: rest.sxs
  def Elifs.sxs : Elifs → List Sx
    | .nil => []
    | .cons _ _ c body rest => .n "ElseIf" [("expr", c.sx), ("body", .l body.sxs)] :: rest.sxs
  def Groups.sxs : Groups → List Sx
    | .nil => []
    | .cons _ v more _ body rest => groupSx v more body.sxs :: rest.sxs
end

def Stl.isNil : Stl → Bool
  | .nil => true
  | _ => false

mutual
  def St.WF : St → Prop
    | .assign n a e => n.ty = "Identifier" ∧ a.ty = "Assignment" ∧ e.WF 0
    | .ifS kIf kThen c body elifs kEnd => kIf.ty = "If" ∧ kThen.ty = "Then" ∧ kEnd.ty = "EndIf" ∧ c.WF 0 ∧ body.WF ∧ elifs.WF
    | .ifElse kIf kThen c body elifs kElse els kEnd =>
        kIf.ty = "If" ∧ kThen.ty = "Then" ∧ kElse.ty = "Else" ∧ kEnd.ty = "EndIf" ∧ c.WF 0 ∧ body.WF ∧ els.WF ∧ els.isNil = false ∧ elifs.WF
    | .whileS kW kDo c body kEnd => kW.ty = "While" ∧ kDo.ty = "Do" ∧ kEnd.ty = "EndWhile" ∧ c.WF 0 ∧ body.WF ∧ body.isNil = false
    | .repeatS kR body kU c kEnd => kR.ty = "Repeat" ∧ kU.ty = "Until" ∧ kEnd.ty = "EndRepeat" ∧ c.WF 0 ∧ body.WF ∧ body.isNil = false
    | .forS kFor ctl asg frm kTo to step kDo body kEnd =>
        kFor.ty = "For" ∧ ctl.ty = "Identifier" ∧ asg.ty = "Assignment" ∧ kTo.ty = "To" ∧ kDo.ty = "Do" ∧ kEnd.ty = "EndFor" ∧
        frm.WF 0 ∧ to.WF 0 ∧ body.WF ∧ body.isNil = false ∧
        (match step with | none => True | some (kBy, st) => kBy.ty = "By" ∧ st.WF 0)
    | .caseS kCase kOf sel groups kEnd => kCase.ty = "Case" ∧ kOf.ty = "Of" ∧ kEnd.ty = "EndCase" ∧ sel.WF 0 ∧ groups.WF
    | .caseElse kCase kOf sel groups kElse els kEnd =>
        kCase.ty = "Case" ∧ kOf.ty = "Of" ∧ kElse.ty = "Else" ∧ kEnd.ty = "EndCase" ∧ sel.WF 0 ∧ groups.WF ∧ els.WF ∧ els.isNil = false
    | .callS name lp n1 a1 e1 more rp =>
        name.ty = "Identifier" ∧ lp.ty = "LeftParen" ∧ rp.ty = "RightParen" ∧ n1.ty = "Identifier" ∧ a1.ty = "Assignment" ∧ e1.WF 0 ∧
        ∀ m ∈ more, m.1.ty = "Comma" ∧ m.2.1.ty = "Identifier" ∧ m.2.2.1.ty = "Assignment" ∧ m.2.2.2.WF 0
    | .exitS k => k.ty = "Exit"
    | .returnS k => k.ty = "Return"
  def Stl.WF : Stl → Prop
    | .nil => True
    | .cons s semi rest => s.WF ∧ semi.ty = "Semicolon" ∧ rest.WF
  def Elifs.WF : Elifs → Prop
    | .nil => True
    | .cons kE kT c body rest => kE.ty = "Elsif" ∧ kT.ty = "Then" ∧ c.WF 0 ∧ body.WF ∧ body.isNil = false ∧ rest.WF
  def Groups.WF : Groups → Prop
    | .nil => True
    | .cons d v more colon body rest =>
        d.ty = "Digits" ∧ integerNew d.text = some v ∧
        (∀ m ∈ more, m.1.ty = "Comma" ∧ m.2.1.ty = "Digits" ∧ integerNew m.2.1.text = some m.2.2) ∧
        colon.ty = "Colon" ∧ body.WF ∧ body.isNil = false ∧ rest.WF
end

mutual
  /-- fuel that suffices for `statement` -/
  def St.need : St → Nat
    | .assign _ _ e => e.need + 4
    | .ifS _ _ c body elifs _ => c.need + body.need + elifs.need + 8
    | .ifElse _ _ c body elifs _ els _ => c.need + body.need + elifs.need + els.need + 8
    | .whileS _ _ c body _ => c.need + body.need + 8
    | .repeatS _ body _ c _ => c.need + body.need + 8
    | .forS _ _ _ frm _ to step _ body _ => frm.need + to.need + (match step with | none => 0 | some (_, st) => st.need) + body.need + 8
    | .caseS _ _ sel groups _ => sel.need + groups.need + 8
    | .caseElse _ _ sel groups _ els _ => sel.need + groups.need + els.need + 8
    | .callS _ _ _ _ e1 more _ => e1.need + argsNeed more + 8
    | .exitS _ => 1
    | .returnS _ => 1
  def Stl.need : Stl → Nat
    | .nil => 0
    | .cons s _ rest => s.need + rest.need
  def Elifs.need : Elifs → Nat
    | .nil => 0
    | .cons _ _ c body rest => c.need + body.need + rest.need + 4
  def Groups.need : Groups → Nat
    | .nil => 0
    | .cons _ _ _ _ body rest => body.need + rest.need
end

/-! ### keywords that end a statement list, and what follows an expression inside a statement -/

def isCloser (ty : String) : Bool :=
  ty == "EndIf" || ty == "Else" || ty == "Elsif" || ty == "EndWhile" || ty == "Until" || ty == "EndRepeat" ||
  ty == "EndProgram" || ty == "EndFunctionBlock" || ty == "EndFunction" || ty == "EndFor" || ty == "EndCase" ||
  ty == "EndAction" || ty == "EndTransition" || ty == "Digits"

theorem ends_kw (t : Item) (ts : List Item)
    (h : t.ty = "Then" ∨ t.ty = "Do" ∨ t.ty = "EndRepeat" ∨ t.ty = "Semicolon") :
    ∀ u us, t :: ts = u :: us → okNext u.ty = true ∧ ∀ row ∈ Gen.prec, u.ty ≠ row.token := by
  intro u us hu
  cases hu
  rcases h with h | h | h | h <;> rw [h] <;> exact ⟨by decide, by decide⟩

theorem ends_kw2 (t : Item) (ts : List Item) (h : t.ty = "To" ∨ t.ty = "By") :
    ∀ u us, t :: ts = u :: us → okNext u.ty = true ∧ ∀ row ∈ Gen.prec, u.ty ≠ row.token := by
  intro u us hu
  cases hu
  rcases h with h | h <;> rw [h] <;> exact ⟨by decide, by decide⟩

theorem not_trivia_of (t : Item) (tys : List String) (h : t.ty ∈ tys) (hall : tys.all (fun x => !isTrivia x) = true) :
    isTrivia t.ty = false := by
  have := List.all_eq_true.mp hall _ h
  simpa using this

/-! ### statement rules that do not start with the token at hand -/

theorem ifStatement_none (g : Nat) (t : Item) (ts : List Item) (h : t.ty ≠ "If") : ifStatement g (t :: ts) = none := by
  cases g with
  | zero => rw [ifStatement]; rfl
  | succ g => rw [ifStatement]; exact bind_none _ _ _ (tok_miss _ _ _ h)

theorem caseStatement_none (g : Nat) (t : Item) (ts : List Item) (h : t.ty ≠ "Case") : caseStatement g (t :: ts) = none := by
  cases g with
  | zero => rw [caseStatement]; rfl
  | succ g => rw [caseStatement]; exact bind_none _ _ _ (tok_miss _ _ _ h)

theorem forStatement_none (g : Nat) (t : Item) (ts : List Item) (h : t.ty ≠ "For") : forStatement g (t :: ts) = none := by
  cases g with
  | zero => rw [forStatement]; rfl
  | succ g => rw [forStatement]; exact bind_none _ _ _ (tok_miss _ _ _ h)

theorem whileStatement_none (g : Nat) (t : Item) (ts : List Item) (h : t.ty ≠ "While") : whileStatement g (t :: ts) = none := by
  cases g with
  | zero => rw [whileStatement]; rfl
  | succ g => rw [whileStatement]; exact bind_none _ _ _ (tok_miss _ _ _ h)

theorem repeatStatement_none (g : Nat) (t : Item) (ts : List Item) (h : t.ty ≠ "Repeat") : repeatStatement g (t :: ts) = none := by
  cases g with
  | zero => rw [repeatStatement]; rfl
  | succ g => rw [repeatStatement]; exact bind_none _ _ _ (tok_miss _ _ _ h)

theorem fbInvocation_none (g : Nat) (t : Item) (ts : List Item) (h : t.ty ≠ "Identifier") : fbInvocation g (t :: ts) = none := by
  cases g with
  | zero => rw [fbInvocation]; rfl
  | succ g => rw [fbInvocation]; exact bind_none _ _ _ (identifier_miss _ _ h)

/-- the assignment alternative of `statement` needs a variable first -/
theorem assignAlt_none (g : Nat) (t : Item) (ts : List Item) (h1 : t.ty ≠ "Identifier") (h2 : t.ty ≠ "DirectAddress") :
    (do let v ← variableP g; ws; let _ ← tok "Assignment"; ws; let e ← expression g
        pure (Sx.t "Assignment" [.n "Assignment" [("target", v), ("value", e)]]) : P Sx) (t :: ts) = none :=
  bind_none _ _ _ (variableP_none g t ts h1 h2)


/-! ### the statement rules, one at a time (sub-results as hypotheses) -/

theorem closer_ne {K : Item} (hK : isCloser K.ty = true) (s : String) (hs : isCloser s = false) : K.ty ≠ s := by
  intro h
  rw [h] at hK
  rw [hK] at hs
  cases hs

theorem closer_not_trivia {K : Item} (hK : isCloser K.ty = true) : isTrivia K.ty = false := by
  cases hT : isTrivia K.ty with
  | false => rfl
  | true =>
    simp only [isTrivia, Bool.or_eq_true, beq_iff_eq] at hT
    rcases hT with (h | h) | h <;> rw [h] at hK <;> exact absurd hK (by decide)

/-- no statement starts with a keyword that closes a statement list -/
theorem statement_none_closer (g : Nat) (K : Item) (R : List Item) (hK : isCloser K.ty = true) :
    statement g (K :: R) = none := by
  cases g with
  | zero => rw [statement]; rfl
  | succ g =>
    rw [statement]
    rw [orElse_none _ _ _ (assignAlt_none g K R (closer_ne hK _ (by decide)) (closer_ne hK _ (by decide)))]
    rw [orElse_none _ _ _ (ifStatement_none g K R (closer_ne hK _ (by decide)))]
    rw [orElse_none _ _ _ (caseStatement_none g K R (closer_ne hK _ (by decide)))]
    rw [orElse_none _ _ _ (forStatement_none g K R (closer_ne hK _ (by decide)))]
    rw [orElse_none _ _ _ (whileStatement_none g K R (closer_ne hK _ (by decide)))]
    rw [orElse_none _ _ _ (repeatStatement_none g K R (closer_ne hK _ (by decide)))]
    rw [orElse_none _ _ _ (bind_none _ _ _ (tok_miss _ _ _ (closer_ne hK _ (by decide))))]
    rw [orElse_none _ _ _ (fbInvocation_none g K R (closer_ne hK _ (by decide)))]
    exact bind_none _ _ _ (tok_miss _ _ _ (closer_ne hK _ (by decide)))

/-- a plain name in front of anything that starts no selector is a named variable -/
theorem variableP_name' (g : Nat) (n a : Item) (R : List Item) (hn : n.ty = "Identifier")
    (ha : a.ty ≠ "Period" ∧ a.ty ≠ "LeftBracket" ∧ isTrivia a.ty = false) :
    variableP (g + 2) (n :: a :: R) =
      some (.t "Symbolic" [.t "Named" [.n "NamedVariable" [("name", .a (txt n))]]], a :: R) := by
  rw [variableP]
  have hd : (do let d ← directVariable; pure (Sx.t "Direct" [d])) (n :: a :: R) = none := by
    apply bind_none
    rw [directVariable]
    exact bind_none _ _ _ (tok_miss _ _ _ (by rw [hn]; decide))
  rw [orElse_none _ _ _ hd]
  have hws : ws (a :: R) = some ((), a :: R) := ws_cons _ _ ha.2.2
  have hsel : ((do ws; let _ ← tok "Period"; ws; let id ← identifier; pure (Sum.inl id))
                <|> (do ws; let s ← subscriptList g; pure (Sum.inr s)) : P (Sum Sx (List Sx))) (a :: R) = none := by
    have h1 : (do ws; let _ ← tok "Period"; ws; let id ← identifier; pure (Sum.inl id) : P (Sum Sx (List Sx))) (a :: R) = none := by
      rw [bind_some _ _ _ _ _ hws]
      exact bind_none _ _ _ (tok_miss _ _ _ ha.1)
    rw [orElse_none _ _ _ h1, bind_some _ _ _ _ _ hws]
    apply bind_none
    cases g with
    | zero => rw [subscriptList]; rfl
    | succ g => rw [subscriptList]; exact bind_none _ _ _ (tok_miss _ _ _ ha.2.1)
  have hsym : symbolicVariable (g + 1) (n :: a :: R) =
      some (.t "Named" [.n "NamedVariable" [("name", .a (txt n))]], a :: R) := by
    rw [symbolicVariable, bind_some _ _ _ _ _ (identifier_hit _ _ hn)]
    have hm : many ((do ws; let _ ← tok "Period"; ws; let id ← identifier; pure (Sum.inl id))
                <|> (do ws; let s ← subscriptList g; pure (Sum.inr s)) : P (Sum Sx (List Sx))) (a :: R) = some ([], a :: R) := by
      unfold many
      exact manyF_stop _ _ _ hsel
    rw [bind_some _ _ _ _ _ hm]
    rfl
  rw [bind_some _ _ _ _ _ hsym]
  rfl

/-- a plain name in front of `:=` is a named variable -/
theorem variableP_name (g : Nat) (n a : Item) (R : List Item) (hn : n.ty = "Identifier") (ha : a.ty = "Assignment") :
    variableP (g + 2) (n :: a :: R) =
      some (.t "Symbolic" [.t "Named" [.n "NamedVariable" [("name", .a (txt n))]]], a :: R) :=
  variableP_name' g n a R hn (by rw [ha]; exact ⟨by decide, by decide, by decide⟩)

theorem statement_assign (g : Nat) (n a : Item) (etoks rest : List Item) (e : Sx)
    (hn : n.ty = "Identifier") (ha : a.ty = "Assignment") (hws : ws etoks = some ((), etoks))
    (he : expression (g + 2) etoks = some (e, rest)) :
    statement (g + 3) (n :: a :: etoks) =
      some (.t "Assignment" [.n "Assignment"
        [("target", .t "Symbolic" [.t "Named" [.n "NamedVariable" [("name", .a (txt n))]]]), ("value", e)]], rest) := by
  rw [statement]
  apply orElse_some
  rw [bind_some _ _ _ _ _ (variableP_name g n a etoks hn ha),
    bind_some _ _ _ _ _ (ws_cons a etoks (by rw [ha]; decide)),
    bind_some _ _ _ _ _ (tok_hit _ _ _ ha), bind_some _ _ _ _ _ hws, bind_some _ _ _ _ _ he]
  rfl


/-! ### statement lists -/

/-- `;` then a statement: what `semisep` repeats -/
def sepStmt (g : Nat) : P Sx := (do let _ ← (do ws; semicolon; ws : P Unit); statement g)

/-- the segments `; statement` of a list, given the semicolon that precedes it -/
def chainOf (prev : Item) : Stl → List (Sx × List Item)
  | .nil => []
  | .cons s semi rest => (s.sx, prev :: s.toks) :: chainOf semi rest

def lastSemi (prev : Item) : Stl → Item
  | .nil => prev
  | .cons _ semi rest => lastSemi semi rest

theorem flat_chainOf : (l : Stl) → ∀ prev, prev :: l.toks = flat (chainOf prev l) ++ [lastSemi prev l]
  | .nil, prev => by simp [Stl.toks, chainOf, lastSemi, flat]
  | .cons s semi rest, prev => by
    have := flat_chainOf rest semi
    simp only [Stl.toks, chainOf, lastSemi, flat, List.flatMap_cons] at this ⊢
    rw [List.append_assoc, ← this]
    simp

theorem map_chainOf : (l : Stl) → ∀ prev, (chainOf prev l).map (·.1) = l.sxs
  | .nil, _ => rfl
  | .cons _ semi rest, _ => by simp only [chainOf, List.map_cons, Stl.sxs, map_chainOf rest semi]

theorem lastSemi_ty : (l : Stl) → ∀ prev, prev.ty = "Semicolon" → l.WF → (lastSemi prev l).ty = "Semicolon"
  | .nil, prev, h, _ => h
  | .cons s semi rest, prev, _, hwf => lastSemi_ty rest semi hwf.2.1 hwf.2.2

theorem chainOf_nonempty : (l : Stl) → ∀ prev, ∀ x ∈ chainOf prev l, x.2 ≠ []
  | .nil, prev, x, hx => by cases hx
  | .cons s semi rest, prev, x, hx => by
    simp only [chainOf, List.mem_cons] at hx
    rcases hx with rfl | hx
    · simp
    · exact chainOf_nonempty rest semi x hx

/-- a statement starts with a name or a statement keyword -/
def isStart (ty : String) : Bool :=
  ty == "Identifier" || ty == "If" || ty == "While" || ty == "Repeat" || ty == "For" || ty == "Case" || ty == "Exit" || ty == "Return"

theorem St.head (s : St) (h : s.WF) : ∃ t ts, s.toks = t :: ts ∧ isStart t.ty = true := by
  cases s with
  | assign n a e => exact ⟨n, _, rfl, by rw [h.1]; decide⟩
  | ifS kIf kThen c body kEnd => exact ⟨kIf, _, rfl, by rw [h.1]; decide⟩
  | ifElse kIf kThen c body kElse els kEnd => exact ⟨kIf, _, rfl, by rw [h.1]; decide⟩
  | whileS kW kDo c body kEnd => exact ⟨kW, _, rfl, by rw [h.1]; decide⟩
  | repeatS kR body kU c kEnd => exact ⟨kR, _, rfl, by rw [h.1]; decide⟩
  | forS kFor ctl asg frm kTo to step kDo body kEnd =>
    cases step with
    | none => exact ⟨kFor, _, rfl, by rw [h.1]; decide⟩
    | some p => obtain ⟨kBy, st⟩ := p; exact ⟨kFor, _, rfl, by rw [h.1]; decide⟩
  | caseS kCase kOf sel groups kEnd => exact ⟨kCase, _, rfl, by rw [h.1]; decide⟩
  | caseElse kCase kOf sel groups kElse els kEnd => exact ⟨kCase, _, rfl, by rw [h.1]; decide⟩
  | callS name lp n1 a1 e1 more rp => exact ⟨name, _, rfl, by rw [h.1]; decide⟩
  | exitS k => exact ⟨k, _, rfl, by rw [show k.ty = "Exit" from h]; decide⟩
  | returnS k => exact ⟨k, _, rfl, by rw [show k.ty = "Return" from h]; decide⟩

theorem start_ne {t : Item} (ht : isStart t.ty = true) (s : String) (hs : isStart s = false) : t.ty ≠ s := by
  intro h
  rw [h] at ht
  rw [ht] at hs
  cases hs

theorem start_not_trivia {t : Item} (ht : isStart t.ty = true) : isTrivia t.ty = false := by
  cases hT : isTrivia t.ty with
  | false => rfl
  | true =>
    simp only [isTrivia, Bool.or_eq_true, beq_iff_eq] at hT
    rcases hT with (h | h) | h <;> rw [h] at ht <;> exact absurd ht (by decide)

theorem semicolon_hit (t : Item) (ts : List Item) (h : t.ty = "Semicolon") : semicolon (t :: ts) = some ((), ts) := by
  rw [semicolon, bind_some _ _ _ _ _ (tok_hit _ _ _ h)]; rfl

theorem semicolon_miss (t : Item) (ts : List Item) (h : t.ty ≠ "Semicolon") : semicolon (t :: ts) = none := by
  rw [semicolon]; exact bind_none _ _ _ (tok_miss _ _ _ h)

/-- nothing of a statement list starts with a closing keyword -/
theorem statementsOrEmpty_none_closer (g : Nat) (K : Item) (R : List Item) (hK : isCloser K.ty = true) :
    statementsOrEmpty g (K :: R) = none := by
  cases g with
  | zero => rw [statementsOrEmpty]; rfl
  | succ g =>
    rw [statementsOrEmpty]
    have hws : ws (K :: R) = some ((), K :: R) := ws_cons _ _ (closer_not_trivia hK)
    have hsemi : semicolon (K :: R) = none := semicolon_miss _ _ (closer_ne hK _ (by decide))
    have h1 : (do ws; semicolon; ws; pure [] : P (List Sx)) (K :: R) = none := by
      rw [bind_some _ _ _ _ _ hws]; exact bind_none _ _ _ hsemi
    rw [orElse_none _ _ _ h1]
    unfold semisep
    have hsep : sepBy (statement g) (do ws; semicolon; ws : P Unit) (K :: R) = some ([], K :: R) := by
      simp only [sepBy, statement_none_closer g K R hK]
    rw [bind_some _ _ _ _ _ hsep, bind_some _ _ _ _ _ hws]
    exact bind_none _ _ _ hsemi

/-- `statement_list()` on `s ; rest… ;` followed by a closing keyword -/
theorem statementList_reads (g : Nat) (s : St) (semi : Item) (rest : Stl) (K : Item) (R : List Item)
    (hs : s.WF) (hsemi : semi.ty = "Semicolon") (hrest : rest.WF) (hK : isCloser K.ty = true)
    (hfirst : statement g (s.toks ++ semi :: (rest.toks ++ K :: R)) = some (s.sx, semi :: (rest.toks ++ K :: R)))
    (hchain : Chain (sepStmt g) (chainOf semi rest) (lastSemi semi rest :: K :: R)) :
    statementList (g + 2) ((Stl.cons s semi rest).toks ++ K :: R) = some ((Stl.cons s semi rest).sxs, K :: R) := by
  obtain ⟨t, ts, hts, hstart⟩ := St.head s hs
  have htoks : (Stl.cons s semi rest).toks ++ K :: R = s.toks ++ semi :: (rest.toks ++ K :: R) := by
    simp [Stl.toks, List.append_assoc]
  -- the first `statements_or_empty`
  have hso : statementsOrEmpty (g + 1) (s.toks ++ semi :: (rest.toks ++ K :: R)) = some ((Stl.cons s semi rest).sxs, K :: R) := by
    rw [statementsOrEmpty]
    have hws0 : ws (s.toks ++ semi :: (rest.toks ++ K :: R)) = some ((), s.toks ++ semi :: (rest.toks ++ K :: R)) := by
      rw [hts]; exact ws_cons _ _ (start_not_trivia hstart)
    have h1 : (do ws; semicolon; ws; pure [] : P (List Sx)) (s.toks ++ semi :: (rest.toks ++ K :: R)) = none := by
      rw [bind_some _ _ _ _ _ hws0, hts]
      exact bind_none _ _ _ (semicolon_miss _ _ (start_ne hstart _ (by decide)))
    rw [orElse_none _ _ _ h1]
    unfold semisep
    have hmany : many (do let _ ← (do ws; semicolon; ws : P Unit); statement g) (semi :: (rest.toks ++ K :: R))
        = some (rest.sxs, lastSemi semi rest :: K :: R) := by
      have hfl : semi :: (rest.toks ++ K :: R) = flat (chainOf semi rest) ++ (lastSemi semi rest :: K :: R) := by
        have := flat_chainOf rest semi
        calc semi :: (rest.toks ++ K :: R) = (semi :: rest.toks) ++ K :: R := rfl
          _ = (flat (chainOf semi rest) ++ [lastSemi semi rest]) ++ K :: R := by rw [this]
          _ = _ := by simp
      rw [hfl]
      have := many_chain (sepStmt g) (chainOf semi rest) (lastSemi semi rest :: K :: R) hchain (chainOf_nonempty rest semi)
      rw [map_chainOf] at this
      exact this
    have hsep : sepBy (statement g) (do ws; semicolon; ws : P Unit) (s.toks ++ semi :: (rest.toks ++ K :: R))
        = some (s.sx :: rest.sxs, lastSemi semi rest :: K :: R) := by
      simp only [sepBy, hfirst, hmany]
    have hlast := lastSemi_ty rest semi hsemi hrest
    rw [bind_some _ _ _ _ _ hsep,
      bind_some _ _ _ _ _ (ws_cons _ _ (by rw [hlast]; decide)),
      bind_some _ _ _ _ _ (semicolon_hit _ _ hlast)]
    rfl
  rw [htoks, statementList]
  unfold many1
  rw [bind_some _ _ _ _ _ (by rw [bind_some _ _ _ _ _ hso,
      bind_some _ _ _ _ _ (show many (statementsOrEmpty (g + 1)) (K :: R) = some ([], K :: R) from by
        unfold many
        exact manyF_stop _ _ _ (statementsOrEmpty_none_closer (g + 1) K R hK))]; rfl)]
  simp [pure_run, Stl.sxs]


/-! ### IF, WHILE, REPEAT -/

theorem opt_some {α} (p : P α) (ts rest : List Item) (a : α) (h : p ts = some (a, rest)) :
    P.opt p ts = some (some a, rest) := by simp only [P.opt, h]

theorem opt_none {α} (p : P α) (ts : List Item) (h : p ts = none) : P.opt p ts = some (none, ts) := by
  simp only [P.opt, h]

theorem sepBy_of_none {α β} (p : P α) (sep : P β) (ts : List Item) (h : p ts = none) :
    sepBy p sep ts = some ([], ts) := by simp only [sepBy, h]

theorem statementList_none_closer (g : Nat) (K : Item) (R : List Item) (hK : isCloser K.ty = true) :
    statementList g (K :: R) = none := by
  cases g with
  | zero => rw [statementList]; rfl
  | succ g =>
    rw [statementList]
    apply bind_none
    unfold many1
    exact bind_none _ _ _ (statementsOrEmpty_none_closer g K R hK)

/-- one `ELSIF c THEN body` branch, as written inside `ifStatement` -/
def elsifP (g : Nat) : P Sx := do
  let _ ← tok "Elsif"; ws; let e ← expression g; ws; let _ ← tok "Then"; ws
  let b ← statementList g
  pure (Sx.n "ElseIf" [("expr", e), ("body", .l b)])

theorem elsifP_reads (g : Nat) (kE kT : Item) (ctoks btoks T : List Item) (c : Sx) (b : List Sx)
    (hE : kE.ty = "Elsif") (hT : kT.ty = "Then")
    (hwsc : ws (ctoks ++ kT :: (btoks ++ T)) = some ((), ctoks ++ kT :: (btoks ++ T)))
    (hc : expression g (ctoks ++ kT :: (btoks ++ T)) = some (c, kT :: (btoks ++ T)))
    (hwsb : ws (btoks ++ T) = some ((), btoks ++ T))
    (hb : statementList g (btoks ++ T) = some (b, T)) :
    elsifP g (kE :: (ctoks ++ kT :: (btoks ++ T))) = some (.n "ElseIf" [("expr", c), ("body", .l b)], T) := by
  unfold elsifP
  rw [bind_some _ _ _ _ _ (tok_hit _ _ _ hE), bind_some _ _ _ _ _ hwsc, bind_some _ _ _ _ _ hc,
    bind_some _ _ _ _ _ (ws_cons kT _ (by rw [hT]; decide)), bind_some _ _ _ _ _ (tok_hit _ _ _ hT),
    bind_some _ _ _ _ _ hwsb, bind_some _ _ _ _ _ hb]
  rfl

theorem elsifP_none (g : Nat) (K : Item) (R : List Item) (h : K.ty ≠ "Elsif") : elsifP g (K :: R) = none := by
  unfold elsifP
  exact bind_none _ _ _ (tok_miss _ _ _ h)

/-- `IF c THEN body {ELSIF ..} END_IF` (`body` may be empty); `T` is what follows the body -/
theorem ifStatement_reads (g : Nat) (kIf kThen kEnd : Item) (ctoks btoks T rest : List Item) (c : Sx) (ob : Option (List Sx))
    (xs : List Sx)
    (hIf : kIf.ty = "If") (hThen : kThen.ty = "Then") (hEnd : kEnd.ty = "EndIf")
    (hwsc : ws (ctoks ++ kThen :: (btoks ++ T)) = some ((), ctoks ++ kThen :: (btoks ++ T)))
    (hc : expression g (ctoks ++ kThen :: (btoks ++ T)) = some (c, kThen :: (btoks ++ T)))
    (hwsb : ws (btoks ++ T) = some ((), btoks ++ T))
    (hb : P.opt (statementList g) (btoks ++ T) = some (ob, T))
    (hwsx : ws T = some ((), T))
    (hx : sepBy (elsifP g) ws T = some (xs, kEnd :: rest)) :
    ifStatement (g + 1) (kIf :: (ctoks ++ kThen :: (btoks ++ T))) =
      some (.t "If" [.n "If" [("expr", c), ("body", .l (ob.getD [])), ("else_ifs", .l xs), ("else_body", .l [])]], rest) := by
  rw [ifStatement]
  have hwsE : ws (kEnd :: rest) = some ((), kEnd :: rest) := ws_cons _ _ (by rw [hEnd]; decide)
  unfold elsifP at hx
  rw [bind_some _ _ _ _ _ (tok_hit _ _ _ hIf), bind_some _ _ _ _ _ hwsc, bind_some _ _ _ _ _ hc,
    bind_some _ _ _ _ _ (ws_cons kThen _ (by rw [hThen]; decide)), bind_some _ _ _ _ _ (tok_hit _ _ _ hThen),
    bind_some _ _ _ _ _ hwsb, bind_some _ _ _ _ _ hb, bind_some _ _ _ _ _ hwsx,
    bind_some _ _ _ _ _ hx,
    bind_some _ _ _ _ _ hwsE,
    bind_some _ _ _ _ _ (opt_none _ _ (bind_none _ _ _ (tok_miss _ _ _ (by rw [hEnd]; decide)))),
    bind_some _ _ _ _ _ hwsE, bind_some _ _ _ _ _ (tok_hit _ _ _ hEnd)]
  rfl

/-- `IF c THEN body {ELSIF ..} ELSE els END_IF` -/
theorem ifElse_reads (g : Nat) (kIf kThen kElse kEnd : Item) (ctoks btoks T etoks rest : List Item) (c : Sx)
    (ob : Option (List Sx)) (xs els : List Sx)
    (hIf : kIf.ty = "If") (hThen : kThen.ty = "Then") (hElse : kElse.ty = "Else") (hEnd : kEnd.ty = "EndIf")
    (hwsc : ws (ctoks ++ kThen :: (btoks ++ T)) = some ((), ctoks ++ kThen :: (btoks ++ T)))
    (hc : expression g (ctoks ++ kThen :: (btoks ++ T)) = some (c, kThen :: (btoks ++ T)))
    (hwsb : ws (btoks ++ T) = some ((), btoks ++ T))
    (hb : P.opt (statementList g) (btoks ++ T) = some (ob, T))
    (hwsx : ws T = some ((), T))
    (hx : sepBy (elsifP g) ws T = some (xs, kElse :: (etoks ++ kEnd :: rest)))
    (hwse : ws (etoks ++ kEnd :: rest) = some ((), etoks ++ kEnd :: rest))
    (he : statementList g (etoks ++ kEnd :: rest) = some (els, kEnd :: rest)) :
    ifStatement (g + 1) (kIf :: (ctoks ++ kThen :: (btoks ++ T))) =
      some (.t "If" [.n "If" [("expr", c), ("body", .l (ob.getD [])), ("else_ifs", .l xs), ("else_body", .l els)]], rest) := by
  rw [ifStatement]
  have hwsE : ws (kEnd :: rest) = some ((), kEnd :: rest) := ws_cons _ _ (by rw [hEnd]; decide)
  have hwsL : ws (kElse :: (etoks ++ kEnd :: rest)) = some ((), kElse :: (etoks ++ kEnd :: rest)) := ws_cons _ _ (by rw [hElse]; decide)
  have helse : (do let _ ← tok "Else"; ws; statementList g : P (List Sx)) (kElse :: (etoks ++ kEnd :: rest)) = some (els, kEnd :: rest) := by
    rw [bind_some _ _ _ _ _ (tok_hit _ _ _ hElse), bind_some _ _ _ _ _ hwse]
    exact he
  unfold elsifP at hx
  rw [bind_some _ _ _ _ _ (tok_hit _ _ _ hIf), bind_some _ _ _ _ _ hwsc, bind_some _ _ _ _ _ hc,
    bind_some _ _ _ _ _ (ws_cons kThen _ (by rw [hThen]; decide)), bind_some _ _ _ _ _ (tok_hit _ _ _ hThen),
    bind_some _ _ _ _ _ hwsb, bind_some _ _ _ _ _ hb, bind_some _ _ _ _ _ hwsx,
    bind_some _ _ _ _ _ hx,
    bind_some _ _ _ _ _ hwsL,
    bind_some _ _ _ _ _ (opt_some _ _ _ _ helse),
    bind_some _ _ _ _ _ hwsE, bind_some _ _ _ _ _ (tok_hit _ _ _ hEnd)]
  rfl

/-! ### CASE -/

theorem ends_of (t : Item) (ts : List Item) (h : t.ty = "Of") :
    ∀ u us, t :: ts = u :: us → okNext u.ty = true ∧ ∀ row ∈ Gen.prec, u.ty ≠ row.token := by
  intro u us hu
  cases hu
  rw [h]; exact ⟨by decide, by decide⟩

/-- an unsigned integer in front of `,` or `:` is a selector: not a subrange, a signed integer -/
theorem caseListElement_digits (d n : Item) (R : List Item) (v : Nat) (hd : d.ty = "Digits") (hv : integerNew d.text = some v)
    (hn : n.ty = "Comma" ∨ n.ty = "Colon") : caseListElement (d :: n :: R) = some (selSx v, n :: R) := by
  rcases hn with hn | hn <;>
  simp [caseListElement, subrange, signedInteger, integer, selSx, ws, List.dropWhile,
    bind_run, orElse_run, opt_run, tok_cons, hd, hn, map_run, hv, pure_run]

theorem caseListElement_none (K : Item) (R : List Item) (hK : K.ty = "Else" ∨ K.ty = "EndCase") :
    caseListElement (K :: R) = none := by
  rcases hK with hK | hK <;>
  simp [caseListElement, subrange, signedInteger, integer, enumeratedValue, typeName, identifier,
    bind_run, orElse_run, opt_run, tok_cons, hK, map_run, pure_run]

/-- one group `d {, d} : body` of a CASE, as written inside `caseStatement` -/
def caseGroupP (g : Nat) : P Sx := do
  let sels ← sepBy1 caseListElement (do ws; comma; ws)
  ws; let _ ← tok "Colon"; ws
  let b ← statementList g
  pure (Sx.n "CaseStatementGroup" [("selectors", .l sels), ("statements", .l b)])

def selSegs (more : List (Item × Item × Nat)) : List (Sx × List Item) := more.map fun m => (selSx m.2.2, [m.1, m.2.1])

theorem flat_selSegs (more : List (Item × Item × Nat)) : flat (selSegs more) = selToks more := by
  simp [flat, selSegs, selToks, List.flatMap_map]

theorem map_selSegs (more : List (Item × Item × Nat)) : (selSegs more).map (·.1) = more.map fun m => selSx m.2.2 := by
  simp [selSegs]

def MoreWF (more : List (Item × Item × Nat)) : Prop :=
  ∀ m ∈ more, m.1.ty = "Comma" ∧ m.2.1.ty = "Digits" ∧ integerNew m.2.1.text = some m.2.2

theorem sel_head (more : List (Item × Item × Nat)) (h : MoreWF more) (colon : Item) (R : List Item) (hc : colon.ty = "Colon") :
    ∃ n R', (n.ty = "Comma" ∨ n.ty = "Colon") ∧ flat (selSegs more) ++ colon :: R = n :: R' := by
  cases more with
  | nil => exact ⟨colon, R, Or.inr hc, rfl⟩
  | cons m more => exact ⟨m.1, m.2.1 :: (flat (selSegs more) ++ colon :: R), Or.inl (h m (List.mem_cons_self ..)).1, by simp [flat, selSegs]⟩

theorem comma_hit (t : Item) (ts : List Item) (h : t.ty = "Comma") : comma (t :: ts) = some ((), ts) := by
  rw [comma, bind_some _ _ _ _ _ (tok_hit _ _ _ h)]; rfl
theorem comma_miss (t : Item) (ts : List Item) (h : t.ty ≠ "Comma") : comma (t :: ts) = none := by
  rw [comma]; exact bind_none _ _ _ (tok_miss _ _ _ h)

theorem sel_chain : ∀ (more : List (Item × Item × Nat)), MoreWF more → ∀ (colon : Item) (R : List Item), colon.ty = "Colon" →
    Chain (do let _ ← (do ws; comma; ws : P Unit); caseListElement : P Sx) (selSegs more) (colon :: R) := by
  intro more
  induction more with
  | nil =>
    intro _ colon R hc
    show (do let _ ← (do ws; comma; ws : P Unit); caseListElement : P Sx) (colon :: R) = none
    apply bind_none
    rw [bind_some _ _ _ _ _ (ws_cons colon _ (by rw [hc]; decide))]
    exact bind_none _ _ _ (comma_miss _ _ (by rw [hc]; decide))
  | cons m more ih =>
    intro h colon R hc
    obtain ⟨hcm, hd, hv⟩ := h m (List.mem_cons_self ..)
    have hmore : MoreWF more := fun x hx => h x (List.mem_cons_of_mem _ hx)
    refine ⟨by simp, ?_, ih hmore colon R hc⟩
    obtain ⟨n, R', hn, heq⟩ := sel_head more hmore colon R hc
    show (do let _ ← (do ws; comma; ws : P Unit); caseListElement : P Sx) ([m.1, m.2.1] ++ (flat (selSegs more) ++ colon :: R))
      = some (selSx m.2.2, flat (selSegs more) ++ colon :: R)
    rw [heq]
    have hsep : (do ws; comma; ws : P Unit) ([m.1, m.2.1] ++ n :: R') = some ((), m.2.1 :: n :: R') := by
      show (do ws; comma; ws : P Unit) (m.1 :: m.2.1 :: n :: R') = _
      rw [bind_some _ _ _ _ _ (ws_cons m.1 _ (by rw [hcm]; decide)), bind_some _ _ _ _ _ (comma_hit _ _ hcm)]
      exact ws_cons _ _ (by rw [hd]; decide)
    rw [bind_some _ _ _ _ _ hsep]
    exact caseListElement_digits _ _ _ _ hd hv hn

/-- the selectors of a group -/
theorem selectors_read (d : Item) (v : Nat) (more : List (Item × Item × Nat)) (colon : Item) (R : List Item)
    (hd : d.ty = "Digits") (hv : integerNew d.text = some v) (hm : MoreWF more) (hc : colon.ty = "Colon") :
    sepBy1 caseListElement (do ws; comma; ws : P Unit) (d :: (selToks more ++ colon :: R)) =
      some (selSx v :: more.map (fun m => selSx m.2.2), colon :: R) := by
  unfold sepBy1
  obtain ⟨n, R', hn, heq⟩ := sel_head more hm colon R hc
  have hfirst : caseListElement (d :: (flat (selSegs more) ++ colon :: R)) = some (selSx v, flat (selSegs more) ++ colon :: R) := by
    rw [heq]; exact caseListElement_digits _ _ _ _ hd hv hn
  have hmany := many_chain _ (selSegs more) (colon :: R) (sel_chain more hm colon R hc)
    (by intro x hx; simp only [selSegs, List.mem_map] at hx; obtain ⟨m, _, rfl⟩ := hx; simp)
  rw [← flat_selSegs, bind_some _ _ _ _ _ hfirst, bind_some _ _ _ _ _ hmany, map_selSegs]
  rfl

theorem caseGroupP_reads (g : Nat) (d : Item) (v : Nat) (more : List (Item × Item × Nat)) (colon : Item) (btoks T : List Item)
    (b : List Sx) (hd : d.ty = "Digits") (hv : integerNew d.text = some v) (hm : MoreWF more) (hc : colon.ty = "Colon")
    (hwsb : ws (btoks ++ T) = some ((), btoks ++ T))
    (hb : statementList g (btoks ++ T) = some (b, T)) :
    caseGroupP g (d :: (selToks more ++ colon :: (btoks ++ T))) = some (groupSx v more b, T) := by
  unfold caseGroupP
  rw [bind_some _ _ _ _ _ (selectors_read d v more colon (btoks ++ T) hd hv hm hc),
    bind_some _ _ _ _ _ (ws_cons colon _ (by rw [hc]; decide)), bind_some _ _ _ _ _ (tok_hit _ _ _ hc),
    bind_some _ _ _ _ _ hwsb, bind_some _ _ _ _ _ hb]
  rfl

theorem caseGroupP_none (g : Nat) (K : Item) (R : List Item) (hK : K.ty = "Else" ∨ K.ty = "EndCase") :
    caseGroupP g (K :: R) = none := by
  unfold caseGroupP sepBy1
  exact bind_none _ _ _ (bind_none _ _ _ (caseListElement_none K R hK))

/-- `CASE sel OF groups END_CASE`; `T` is what follows OF -/
theorem caseStatement_reads (g : Nat) (kCase kOf kEnd : Item) (stoks T rest : List Item) (sel : Sx) (gs : List Sx)
    (hCase : kCase.ty = "Case") (hOf : kOf.ty = "Of") (hEnd : kEnd.ty = "EndCase")
    (hwss : ws (stoks ++ kOf :: T) = some ((), stoks ++ kOf :: T))
    (hs : expression g (stoks ++ kOf :: T) = some (sel, kOf :: T))
    (hwsT : ws T = some ((), T))
    (hx : sepBy (caseGroupP g) ws T = some (gs, kEnd :: rest)) :
    caseStatement (g + 1) (kCase :: (stoks ++ kOf :: T)) =
      some (.t "Case" [.n "Case" [("selector", sel), ("statement_groups", .l gs), ("else_body", .l [])]], rest) := by
  rw [caseStatement]
  have hwsE : ws (kEnd :: rest) = some ((), kEnd :: rest) := ws_cons _ _ (by rw [hEnd]; decide)
  unfold caseGroupP at hx
  rw [bind_some _ _ _ _ _ (tok_hit _ _ _ hCase), bind_some _ _ _ _ _ hwss, bind_some _ _ _ _ _ hs,
    bind_some _ _ _ _ _ (ws_cons kOf _ (by rw [hOf]; decide)), bind_some _ _ _ _ _ (tok_hit _ _ _ hOf),
    bind_some _ _ _ _ _ hwsT, bind_some _ _ _ _ _ hx, bind_some _ _ _ _ _ hwsE,
    bind_some _ _ _ _ _ (opt_none _ _ (bind_none _ _ _ (tok_miss _ _ _ (by rw [hEnd]; decide)))),
    bind_some _ _ _ _ _ hwsE, bind_some _ _ _ _ _ (tok_hit _ _ _ hEnd)]
  rfl

/-- `CASE sel OF groups ELSE els END_CASE` -/
theorem caseElse_reads (g : Nat) (kCase kOf kElse kEnd : Item) (stoks T etoks rest : List Item) (sel : Sx) (gs els : List Sx)
    (hCase : kCase.ty = "Case") (hOf : kOf.ty = "Of") (hElse : kElse.ty = "Else") (hEnd : kEnd.ty = "EndCase")
    (hwss : ws (stoks ++ kOf :: T) = some ((), stoks ++ kOf :: T))
    (hs : expression g (stoks ++ kOf :: T) = some (sel, kOf :: T))
    (hwsT : ws T = some ((), T))
    (hx : sepBy (caseGroupP g) ws T = some (gs, kElse :: (etoks ++ kEnd :: rest)))
    (hwse : ws (etoks ++ kEnd :: rest) = some ((), etoks ++ kEnd :: rest))
    (he : statementList g (etoks ++ kEnd :: rest) = some (els, kEnd :: rest)) :
    caseStatement (g + 1) (kCase :: (stoks ++ kOf :: T)) =
      some (.t "Case" [.n "Case" [("selector", sel), ("statement_groups", .l gs), ("else_body", .l els)]], rest) := by
  rw [caseStatement]
  have hwsE : ws (kEnd :: rest) = some ((), kEnd :: rest) := ws_cons _ _ (by rw [hEnd]; decide)
  have hwsL : ws (kElse :: (etoks ++ kEnd :: rest)) = some ((), kElse :: (etoks ++ kEnd :: rest)) := ws_cons _ _ (by rw [hElse]; decide)
  have helse : (do let _ ← tok "Else"; ws; statementList g : P (List Sx)) (kElse :: (etoks ++ kEnd :: rest)) = some (els, kEnd :: rest) := by
    rw [bind_some _ _ _ _ _ (tok_hit _ _ _ hElse), bind_some _ _ _ _ _ hwse]
    exact he
  unfold caseGroupP at hx
  rw [bind_some _ _ _ _ _ (tok_hit _ _ _ hCase), bind_some _ _ _ _ _ hwss, bind_some _ _ _ _ _ hs,
    bind_some _ _ _ _ _ (ws_cons kOf _ (by rw [hOf]; decide)), bind_some _ _ _ _ _ (tok_hit _ _ _ hOf),
    bind_some _ _ _ _ _ hwsT, bind_some _ _ _ _ _ hx, bind_some _ _ _ _ _ hwsL,
    bind_some _ _ _ _ _ (opt_some _ _ _ _ helse),
    bind_some _ _ _ _ _ hwsE, bind_some _ _ _ _ _ (tok_hit _ _ _ hEnd)]
  rfl

/-! ### function block invocation with named inputs -/

theorem ends_arg (t : Item) (ts : List Item) (h : t.ty = "Comma" ∨ t.ty = "RightParen") :
    ∀ u us, t :: ts = u :: us → okNext u.ty = true ∧ ∀ row ∈ Gen.prec, u.ty ≠ row.token := by
  intro u us hu
  cases hu
  rcases h with h | h <;> rw [h] <;> exact ⟨by decide, by decide⟩

/-- `n := e` as an argument: not an output assignment, a named input -/
theorem paramAssignment_named (g : Nat) (n a : Item) (e : S) (rest : List Item) (hn : n.ty = "Identifier") (ha : a.ty = "Assignment")
    (he : e.WF 0) (hrest : ∀ u us, rest = u :: us → okNext u.ty = true ∧ ∀ row ∈ Gen.prec, u.ty ≠ row.token)
    (hF : e.need + 1 ≤ g) :
    paramAssignment (g + 1) (n :: a :: (e.toks ++ rest)) = some (namedSx n e, rest) := by
  rw [paramAssignment]
  have hwsn : ws (n :: a :: (e.toks ++ rest)) = some ((), n :: a :: (e.toks ++ rest)) := ws_cons _ _ (by rw [hn]; decide)
  have hwsa : ws (a :: (e.toks ++ rest)) = some ((), a :: (e.toks ++ rest)) := ws_cons _ _ (by rw [ha]; decide)
  have hvn : variableName (n :: a :: (e.toks ++ rest)) = some (.a (txt n), a :: (e.toks ++ rest)) := identifier_hit _ _ hn
  have h1 : (do let neg ← opt (tok "Not"); ws
                let src ← variableName; ws; let _ ← tok "RightArrow"; ws
                let tgt ← variableP g
                pure (Sx.t "Output" [.n "Output" [("not", .bool neg.isSome), ("src", src), ("tgt", tgt)]]) : P Sx)
      (n :: a :: (e.toks ++ rest)) = none := by
    rw [bind_some _ _ _ _ _ (opt_none _ _ (tok_miss _ _ _ (by rw [hn]; decide))), bind_some _ _ _ _ _ hwsn,
      bind_some _ _ _ _ _ hvn, bind_some _ _ _ _ _ hwsa]
    exact bind_none _ _ _ (tok_miss _ _ _ (by rw [ha]; decide))
  have hname : (do let n ← variableName; ws; let _ ← tok "Assignment"; pure n : P Sx) (n :: a :: (e.toks ++ rest))
      = some (.a (txt n), e.toks ++ rest) := by
    rw [bind_some _ _ _ _ _ hvn, bind_some _ _ _ _ _ hwsa, bind_some _ _ _ _ _ (tok_hit _ _ _ ha)]
    rfl
  rw [orElse_none _ _ _ h1, bind_some _ _ _ _ _ (opt_some _ _ _ _ hname), bind_some _ _ _ _ _ (ws_toks e 0 _ he),
    bind_some _ _ _ _ _ (expression_reads e rest g he hrest hF)]
  rfl

def argSegs (more : List (Item × Item × Item × S)) : List (Sx × List Item) :=
  more.map fun m => (namedSx m.2.1 m.2.2.2, m.1 :: m.2.1 :: m.2.2.1 :: m.2.2.2.toks)

theorem flat_argSegs (more : List (Item × Item × Item × S)) : flat (argSegs more) = argToks more := by
  simp [flat, argSegs, argToks, List.flatMap_map]

theorem map_argSegs (more : List (Item × Item × Item × S)) : (argSegs more).map (·.1) = more.map fun m => namedSx m.2.1 m.2.2.2 := by
  simp [argSegs]

def ArgsWF (more : List (Item × Item × Item × S)) : Prop :=
  ∀ m ∈ more, m.1.ty = "Comma" ∧ m.2.1.ty = "Identifier" ∧ m.2.2.1.ty = "Assignment" ∧ m.2.2.2.WF 0

theorem arg_head (more : List (Item × Item × Item × S)) (h : ArgsWF more) (rp : Item) (R : List Item) (hr : rp.ty = "RightParen") :
    ∃ t T, (t.ty = "Comma" ∨ t.ty = "RightParen") ∧ flat (argSegs more) ++ rp :: R = t :: T := by
  cases more with
  | nil => exact ⟨rp, R, Or.inr hr, rfl⟩
  | cons m more =>
    exact ⟨m.1, m.2.1 :: m.2.2.1 :: (m.2.2.2.toks ++ (flat (argSegs more) ++ rp :: R)), Or.inl (h m (List.mem_cons_self ..)).1,
      by simp [flat, argSegs]⟩

theorem argsNeed_cons (m : Item × Item × Item × S) (more : List (Item × Item × Item × S)) :
    argsNeed (m :: more) = m.2.2.2.need + 1 + argsNeed more := by simp [argsNeed]

theorem arg_chain (g : Nat) : ∀ (more : List (Item × Item × Item × S)), ArgsWF more → argsNeed more ≤ g → ∀ (rp : Item) (R : List Item),
    rp.ty = "RightParen" →
    Chain (do let _ ← (do ws; comma; ws : P Unit); paramAssignment (g + 1) : P Sx) (argSegs more) (rp :: R) := by
  intro more
  induction more with
  | nil =>
    intro _ _ rp R hr
    show (do let _ ← (do ws; comma; ws : P Unit); paramAssignment (g + 1) : P Sx) (rp :: R) = none
    apply bind_none
    rw [bind_some _ _ _ _ _ (ws_cons rp _ (by rw [hr]; decide))]
    exact bind_none _ _ _ (comma_miss _ _ (by rw [hr]; decide))
  | cons m more ih =>
    intro h hg rp R hr
    obtain ⟨hc, hn, ha, he⟩ := h m (List.mem_cons_self ..)
    have hmore : ArgsWF more := fun x hx => h x (List.mem_cons_of_mem _ hx)
    rw [argsNeed_cons] at hg
    refine ⟨by simp, ?_, ih hmore (by omega) rp R hr⟩
    obtain ⟨t, T, ht, heq⟩ := arg_head more hmore rp R hr
    show (do let _ ← (do ws; comma; ws : P Unit); paramAssignment (g + 1) : P Sx)
        ((m.1 :: m.2.1 :: m.2.2.1 :: m.2.2.2.toks) ++ (flat (argSegs more) ++ rp :: R))
      = some (namedSx m.2.1 m.2.2.2, flat (argSegs more) ++ rp :: R)
    have hsep : (do ws; comma; ws : P Unit) ((m.1 :: m.2.1 :: m.2.2.1 :: m.2.2.2.toks) ++ (flat (argSegs more) ++ rp :: R))
        = some ((), m.2.1 :: m.2.2.1 :: (m.2.2.2.toks ++ (flat (argSegs more) ++ rp :: R))) := by
      show (do ws; comma; ws : P Unit) (m.1 :: m.2.1 :: m.2.2.1 :: (m.2.2.2.toks ++ (flat (argSegs more) ++ rp :: R))) = _
      rw [bind_some _ _ _ _ _ (ws_cons m.1 _ (by rw [hc]; decide)), bind_some _ _ _ _ _ (comma_hit _ _ hc)]
      exact ws_cons _ _ (by rw [hn]; decide)
    rw [bind_some _ _ _ _ _ hsep]
    exact paramAssignment_named g m.2.1 m.2.2.1 m.2.2.2 _ hn ha he (by rw [heq]; exact ends_arg t T ht) (by omega)

/-- `name(n1 := e1 {, n := e})` -/
theorem fbInvocation_reads (g : Nat) (name lp n1 a1 rp : Item) (e1 : S) (more : List (Item × Item × Item × S)) (R : List Item)
    (hname : name.ty = "Identifier") (hlp : lp.ty = "LeftParen") (hrp : rp.ty = "RightParen")
    (hn1 : n1.ty = "Identifier") (ha1 : a1.ty = "Assignment") (he1 : e1.WF 0) (hmore : ArgsWF more)
    (hg : e1.need + 1 + argsNeed more ≤ g) :
    fbInvocation (g + 2) (name :: lp :: n1 :: a1 :: (e1.toks ++ (argToks more ++ rp :: R))) =
      some (.t "FbCall" [.n "FbCall" [("var_name", .a (txt name)),
        ("params", .l (namedSx n1 e1 :: more.map fun m => namedSx m.2.1 m.2.2.2))]], R) := by
  rw [fbInvocation]
  obtain ⟨t, T, ht, heq⟩ := arg_head more hmore rp R hrp
  have hfirst : paramAssignment (g + 1) (n1 :: a1 :: (e1.toks ++ (flat (argSegs more) ++ rp :: R)))
      = some (namedSx n1 e1, flat (argSegs more) ++ rp :: R) :=
    paramAssignment_named g n1 a1 e1 _ hn1 ha1 he1 (by rw [heq]; exact ends_arg t T ht) (by omega)
  have hmany := many_chain _ (argSegs more) (rp :: R) (arg_chain g more hmore (by omega) rp R hrp)
    (by intro x hx; simp only [argSegs, List.mem_map] at hx; obtain ⟨m, _, rfl⟩ := hx; simp)
  have hsep : sepBy (paramAssignment (g + 1)) (do ws; comma; ws : P Unit) (n1 :: a1 :: (e1.toks ++ (argToks more ++ rp :: R)))
      = some (namedSx n1 e1 :: more.map (fun m => namedSx m.2.1 m.2.2.2), rp :: R) := by
    rw [← flat_argSegs]
    simp only [sepBy, hfirst, hmany, map_argSegs]
  rw [bind_some _ _ _ _ _ (identifier_hit _ _ hname), bind_some _ _ _ _ _ (ws_cons lp _ (by rw [hlp]; decide)),
    bind_some _ _ _ _ _ (tok_hit _ _ _ hlp), bind_some _ _ _ _ _ (ws_cons n1 _ (by rw [hn1]; decide)),
    bind_some _ _ _ _ _ hsep, bind_some _ _ _ _ _ (ws_cons rp _ (by rw [hrp]; decide)), bind_some _ _ _ _ _ (tok_hit _ _ _ hrp)]
  rfl

/-- a name in front of `(` starts no assignment -/
theorem assignAlt_none_call (g : Nat) (name lp : Item) (R : List Item) (hname : name.ty = "Identifier") (hlp : lp.ty = "LeftParen") :
    (do let v ← variableP (g + 2); ws; let _ ← tok "Assignment"; ws; let e ← expression (g + 2)
        pure (Sx.t "Assignment" [.n "Assignment" [("target", v), ("value", e)]]) : P Sx) (name :: lp :: R) = none := by
  rw [bind_some _ _ _ _ _ (variableP_name' g name lp R hname (by rw [hlp]; exact ⟨by decide, by decide, by decide⟩)),
    bind_some _ _ _ _ _ (ws_cons lp _ (by rw [hlp]; decide))]
  exact bind_none _ _ _ (tok_miss _ _ _ (by rw [hlp]; decide))

/-- `WHILE c DO body END_WHILE` -/
theorem whileStatement_reads (g : Nat) (kW kDo kEnd : Item) (ctoks btoks rest : List Item) (c : Sx) (body : List Sx)
    (hW : kW.ty = "While") (hDo : kDo.ty = "Do") (hEnd : kEnd.ty = "EndWhile")
    (hwsc : ws (ctoks ++ kDo :: (btoks ++ kEnd :: rest)) = some ((), ctoks ++ kDo :: (btoks ++ kEnd :: rest)))
    (hc : expression g (ctoks ++ kDo :: (btoks ++ kEnd :: rest)) = some (c, kDo :: (btoks ++ kEnd :: rest)))
    (hwsb : ws (btoks ++ kEnd :: rest) = some ((), btoks ++ kEnd :: rest))
    (hb : statementList g (btoks ++ kEnd :: rest) = some (body, kEnd :: rest)) :
    whileStatement (g + 1) (kW :: (ctoks ++ kDo :: (btoks ++ kEnd :: rest))) =
      some (.t "While" [.n "While" [("condition", c), ("body", .l body)]], rest) := by
  rw [whileStatement]
  rw [bind_some _ _ _ _ _ (tok_hit _ _ _ hW), bind_some _ _ _ _ _ hwsc, bind_some _ _ _ _ _ hc,
    bind_some _ _ _ _ _ (ws_cons kDo _ (by rw [hDo]; decide)), bind_some _ _ _ _ _ (tok_hit _ _ _ hDo),
    bind_some _ _ _ _ _ hwsb, bind_some _ _ _ _ _ hb,
    bind_some _ _ _ _ _ (ws_cons kEnd _ (by rw [hEnd]; decide)), bind_some _ _ _ _ _ (tok_hit _ _ _ hEnd)]
  rfl

/-- `REPEAT body UNTIL c END_REPEAT` -/
theorem repeatStatement_reads (g : Nat) (kR kU kEnd : Item) (btoks ctoks rest : List Item) (c : Sx) (body : List Sx)
    (hR : kR.ty = "Repeat") (hU : kU.ty = "Until") (hEnd : kEnd.ty = "EndRepeat")
    (hwsb : ws (btoks ++ kU :: (ctoks ++ kEnd :: rest)) = some ((), btoks ++ kU :: (ctoks ++ kEnd :: rest)))
    (hb : statementList g (btoks ++ kU :: (ctoks ++ kEnd :: rest)) = some (body, kU :: (ctoks ++ kEnd :: rest)))
    (hwsc : ws (ctoks ++ kEnd :: rest) = some ((), ctoks ++ kEnd :: rest))
    (hc : expression g (ctoks ++ kEnd :: rest) = some (c, kEnd :: rest)) :
    repeatStatement (g + 1) (kR :: (btoks ++ kU :: (ctoks ++ kEnd :: rest))) =
      some (.t "Repeat" [.n "Repeat" [("until", c), ("body", .l body)]], rest) := by
  rw [repeatStatement]
  rw [bind_some _ _ _ _ _ (tok_hit _ _ _ hR), bind_some _ _ _ _ _ hwsb, bind_some _ _ _ _ _ hb,
    bind_some _ _ _ _ _ (ws_cons kU _ (by rw [hU]; decide)), bind_some _ _ _ _ _ (tok_hit _ _ _ hU),
    bind_some _ _ _ _ _ hwsc, bind_some _ _ _ _ _ hc,
    bind_some _ _ _ _ _ (ws_cons kEnd _ (by rw [hEnd]; decide)), bind_some _ _ _ _ _ (tok_hit _ _ _ hEnd)]
  rfl



/-- `FOR ctl := frm TO to DO body END_FOR` -/
theorem forStatement_reads (g : Nat) (kFor ctl asg kTo kDo kEnd : Item) (ftoks ttoks btoks rest : List Item) (frm to : Sx) (body : List Sx)
    (hFor : kFor.ty = "For") (hC : ctl.ty = "Identifier") (hA : asg.ty = "Assignment") (hTo : kTo.ty = "To") (hDo : kDo.ty = "Do") (hEnd : kEnd.ty = "EndFor")
    (hwsf : ws (ftoks ++ kTo :: (ttoks ++ kDo :: (btoks ++ kEnd :: rest))) = some ((), ftoks ++ kTo :: (ttoks ++ kDo :: (btoks ++ kEnd :: rest))))
    (hf : expression g (ftoks ++ kTo :: (ttoks ++ kDo :: (btoks ++ kEnd :: rest))) = some (frm, kTo :: (ttoks ++ kDo :: (btoks ++ kEnd :: rest))))
    (hwst : ws (ttoks ++ kDo :: (btoks ++ kEnd :: rest)) = some ((), ttoks ++ kDo :: (btoks ++ kEnd :: rest)))
    (ht : expression g (ttoks ++ kDo :: (btoks ++ kEnd :: rest)) = some (to, kDo :: (btoks ++ kEnd :: rest)))
    (hwsb : ws (btoks ++ kEnd :: rest) = some ((), btoks ++ kEnd :: rest))
    (hb : statementList g (btoks ++ kEnd :: rest) = some (body, kEnd :: rest)) :
    forStatement (g + 1) (kFor :: ctl :: asg :: (ftoks ++ kTo :: (ttoks ++ kDo :: (btoks ++ kEnd :: rest)))) =
      some (.t "For" [.n "For" [("control", .a (txt ctl)), ("from", frm), ("to", to), ("step", Sx.opt none), ("body", .l body)]], rest) := by
  rw [forStatement]
  have hwsDo : ws (kDo :: (btoks ++ kEnd :: rest)) = some ((), kDo :: (btoks ++ kEnd :: rest)) := ws_cons _ _ (by rw [hDo]; decide)
  rw [bind_some _ _ _ _ _ (tok_hit _ _ _ hFor), bind_some _ _ _ _ _ (ws_cons ctl _ (by rw [hC]; decide)),
    bind_some _ _ _ _ _ (identifier_hit _ _ hC), bind_some _ _ _ _ _ (ws_cons asg _ (by rw [hA]; decide)),
    bind_some _ _ _ _ _ (tok_hit _ _ _ hA), bind_some _ _ _ _ _ hwsf, bind_some _ _ _ _ _ hf,
    bind_some _ _ _ _ _ (ws_cons kTo _ (by rw [hTo]; decide)), bind_some _ _ _ _ _ (tok_hit _ _ _ hTo),
    bind_some _ _ _ _ _ hwst, bind_some _ _ _ _ _ ht, bind_some _ _ _ _ _ hwsDo,
    bind_some _ _ _ _ _ (opt_none _ _ (bind_none _ _ _ (tok_miss _ _ _ (by rw [hDo]; decide)))),
    bind_some _ _ _ _ _ hwsDo, bind_some _ _ _ _ _ (tok_hit _ _ _ hDo), bind_some _ _ _ _ _ hwsb, bind_some _ _ _ _ _ hb,
    bind_some _ _ _ _ _ (ws_cons kEnd _ (by rw [hEnd]; decide)), bind_some _ _ _ _ _ (tok_hit _ _ _ hEnd)]
  rfl

/-- `FOR ctl := frm TO to BY step DO body END_FOR` -/
theorem forByStatement_reads (g : Nat) (kFor ctl asg kTo kBy kDo kEnd : Item) (ftoks ttoks stoks btoks rest : List Item) (frm to st : Sx) (body : List Sx)
    (hFor : kFor.ty = "For") (hC : ctl.ty = "Identifier") (hA : asg.ty = "Assignment") (hTo : kTo.ty = "To") (hBy : kBy.ty = "By")
    (hDo : kDo.ty = "Do") (hEnd : kEnd.ty = "EndFor")
    (hwsf : ws (ftoks ++ kTo :: (ttoks ++ kBy :: (stoks ++ kDo :: (btoks ++ kEnd :: rest)))) = some ((), ftoks ++ kTo :: (ttoks ++ kBy :: (stoks ++ kDo :: (btoks ++ kEnd :: rest)))))
    (hf : expression g (ftoks ++ kTo :: (ttoks ++ kBy :: (stoks ++ kDo :: (btoks ++ kEnd :: rest)))) = some (frm, kTo :: (ttoks ++ kBy :: (stoks ++ kDo :: (btoks ++ kEnd :: rest)))))
    (hwst : ws (ttoks ++ kBy :: (stoks ++ kDo :: (btoks ++ kEnd :: rest))) = some ((), ttoks ++ kBy :: (stoks ++ kDo :: (btoks ++ kEnd :: rest))))
    (ht : expression g (ttoks ++ kBy :: (stoks ++ kDo :: (btoks ++ kEnd :: rest))) = some (to, kBy :: (stoks ++ kDo :: (btoks ++ kEnd :: rest))))
    (hwss : ws (stoks ++ kDo :: (btoks ++ kEnd :: rest)) = some ((), stoks ++ kDo :: (btoks ++ kEnd :: rest)))
    (hs : expression g (stoks ++ kDo :: (btoks ++ kEnd :: rest)) = some (st, kDo :: (btoks ++ kEnd :: rest)))
    (hwsb : ws (btoks ++ kEnd :: rest) = some ((), btoks ++ kEnd :: rest))
    (hb : statementList g (btoks ++ kEnd :: rest) = some (body, kEnd :: rest)) :
    forStatement (g + 1) (kFor :: ctl :: asg :: (ftoks ++ kTo :: (ttoks ++ kBy :: (stoks ++ kDo :: (btoks ++ kEnd :: rest))))) =
      some (.t "For" [.n "For" [("control", .a (txt ctl)), ("from", frm), ("to", to), ("step", Sx.opt (some st)), ("body", .l body)]], rest) := by
  rw [forStatement]
  have hwsDo : ws (kDo :: (btoks ++ kEnd :: rest)) = some ((), kDo :: (btoks ++ kEnd :: rest)) := ws_cons _ _ (by rw [hDo]; decide)
  have hstep : (do let _ ← tok "By"; ws; expression g : P Sx) (kBy :: (stoks ++ kDo :: (btoks ++ kEnd :: rest))) = some (st, kDo :: (btoks ++ kEnd :: rest)) := by
    rw [bind_some _ _ _ _ _ (tok_hit _ _ _ hBy), bind_some _ _ _ _ _ hwss]; exact hs
  rw [bind_some _ _ _ _ _ (tok_hit _ _ _ hFor), bind_some _ _ _ _ _ (ws_cons ctl _ (by rw [hC]; decide)),
    bind_some _ _ _ _ _ (identifier_hit _ _ hC), bind_some _ _ _ _ _ (ws_cons asg _ (by rw [hA]; decide)),
    bind_some _ _ _ _ _ (tok_hit _ _ _ hA), bind_some _ _ _ _ _ hwsf, bind_some _ _ _ _ _ hf,
    bind_some _ _ _ _ _ (ws_cons kTo _ (by rw [hTo]; decide)), bind_some _ _ _ _ _ (tok_hit _ _ _ hTo),
    bind_some _ _ _ _ _ hwst, bind_some _ _ _ _ _ ht, bind_some _ _ _ _ _ (ws_cons kBy _ (by rw [hBy]; decide)),
    bind_some _ _ _ _ _ (opt_some _ _ _ _ hstep),
    bind_some _ _ _ _ _ hwsDo, bind_some _ _ _ _ _ (tok_hit _ _ _ hDo), bind_some _ _ _ _ _ hwsb, bind_some _ _ _ _ _ hb,
    bind_some _ _ _ _ _ (ws_cons kEnd _ (by rw [hEnd]; decide)), bind_some _ _ _ _ _ (tok_hit _ _ _ hEnd)]
  rfl

/-! ### the round trip -/

theorem flat_chainOf_app (l : Stl) (prev K : Item) (R : List Item) :
    flat (chainOf prev l) ++ (lastSemi prev l :: K :: R) = prev :: (l.toks ++ K :: R) := by
  have := flat_chainOf l prev
  calc flat (chainOf prev l) ++ (lastSemi prev l :: K :: R)
      = (flat (chainOf prev l) ++ [lastSemi prev l]) ++ K :: R := by simp
    _ = (prev :: l.toks) ++ K :: R := by rw [← this]
    _ = _ := rfl

theorem opt_body_reads (l : Stl) (g : Nat) (K : Item) (R : List Item) (hK : isCloser K.ty = true)
    (h : l.isNil = false → statementList g (l.toks ++ K :: R) = some (l.sxs, K :: R)) :
    P.opt (statementList g) (l.toks ++ K :: R) = some (if l.isNil then none else some l.sxs, K :: R) := by
  cases l with
  | nil => exact opt_none _ _ (statementList_none_closer g K R hK)
  | cons s semi rest => exact opt_some _ _ _ _ (h rfl)

theorem ws_stl (l : Stl) (hl : l.WF) (K : Item) (R : List Item) (hK : isCloser K.ty = true) :
    ws (l.toks ++ K :: R) = some ((), l.toks ++ K :: R) := by
  cases l with
  | nil => exact ws_cons _ _ (closer_not_trivia hK)
  | cons s semi rest =>
    obtain ⟨t, ts, hts, hstart⟩ := St.head s hl.1
    simp only [Stl.toks, hts, List.cons_append]
    exact ws_cons _ _ (start_not_trivia hstart)

theorem sxs_getD (l : Stl) : (if l.isNil then none else some l.sxs : Option (List Sx)).getD [] = l.sxs := by
  cases l <;> rfl

/-- the `ELSIF` branches as segments of a `ChainW` -/
def segsE : Elifs → List (Sx × List Item)
  | .nil => []
  | .cons kE kT c body rest =>
      (.n "ElseIf" [("expr", c.sx), ("body", .l body.sxs)], kE :: (c.toks ++ kT :: body.toks)) :: segsE rest

theorem flat_segsE : (e : Elifs) → flat (segsE e) = e.toks
  | .nil => rfl
  | .cons kE kT c body rest => by
    have := flat_segsE rest
    simp only [flat] at this
    simp only [segsE, flat, List.flatMap_cons, Elifs.toks, this]
    simp

theorem map_segsE : (e : Elifs) → (segsE e).map (·.1) = e.sxs
  | .nil => rfl
  | .cons kE kT c body rest => by simp only [segsE, List.map_cons, Elifs.sxs, map_segsE rest]

/-- what follows a statement list inside an IF is a keyword that closes it -/
theorem elifs_head (e : Elifs) (he : e.WF) (K : Item) (R : List Item) (hK : isCloser K.ty = true) :
    ∃ K' R', isCloser K'.ty = true ∧ e.toks ++ K :: R = K' :: R' := by
  cases e with
  | nil => exact ⟨K, R, hK, rfl⟩
  | cons kE kT c body rest => exact ⟨kE, _, by rw [he.1]; decide, rfl⟩

theorem opt_body_readsT (l : Stl) (g : Nat) (T : List Item) (hT : ∃ K R, isCloser K.ty = true ∧ T = K :: R)
    (h : l.isNil = false → statementList g (l.toks ++ T) = some (l.sxs, T)) :
    P.opt (statementList g) (l.toks ++ T) = some (if l.isNil then none else some l.sxs, T) := by
  obtain ⟨K, R, hK, rfl⟩ := hT
  exact opt_body_reads l g K R hK h

theorem ws_stlT (l : Stl) (hl : l.WF) (T : List Item) (hT : ∃ K R, isCloser K.ty = true ∧ T = K :: R) :
    ws (l.toks ++ T) = some ((), l.toks ++ T) := by
  obtain ⟨K, R, hK, rfl⟩ := hT
  exact ws_stl l hl K R hK

theorem ws_T (T : List Item) (hT : ∃ K R, isCloser K.ty = true ∧ T = K :: R) : ws T = some ((), T) := by
  obtain ⟨K, R, hK, rfl⟩ := hT
  exact ws_cons _ _ (closer_not_trivia hK)

theorem elifs_sepBy (e : Elifs) (g : Nat) (K : Item) (R : List Item)
    (h : ChainW (elsifP g) (segsE e) (K :: R)) :
    sepBy (elsifP g) ws (e.toks ++ K :: R) = some (e.sxs, K :: R) := by
  have := sepBy_chainW (elsifP g) (segsE e) (K :: R) h
  rwa [flat_segsE, map_segsE] at this

/-- the groups of a CASE as segments of a `ChainW` -/
def segsG : Groups → List (Sx × List Item)
  | .nil => []
  | .cons d v more colon body rest => (groupSx v more body.sxs, d :: (selToks more ++ colon :: body.toks)) :: segsG rest

theorem flat_segsG : (e : Groups) → flat (segsG e) = e.toks
  | .nil => rfl
  | .cons d v more colon body rest => by
    have := flat_segsG rest
    simp only [flat] at this
    simp only [segsG, flat, List.flatMap_cons, Groups.toks, this]
    simp

theorem map_segsG : (e : Groups) → (segsG e).map (·.1) = e.sxs
  | .nil => rfl
  | .cons d v more colon body rest => by simp only [segsG, List.map_cons, Groups.sxs, map_segsG rest]

theorem groups_head (e : Groups) (he : e.WF) (K : Item) (R : List Item) (hK : isCloser K.ty = true) :
    ∃ K' R', isCloser K'.ty = true ∧ e.toks ++ K :: R = K' :: R' := by
  cases e with
  | nil => exact ⟨K, R, hK, rfl⟩
  | cons d v more colon body rest => exact ⟨d, _, by rw [he.1]; decide, rfl⟩

theorem groups_sepBy (e : Groups) (g : Nat) (K : Item) (R : List Item)
    (h : ChainW (caseGroupP g) (segsG e) (K :: R)) :
    sepBy (caseGroupP g) ws (e.toks ++ K :: R) = some (e.sxs, K :: R) := by
  have := sepBy_chainW (caseGroupP g) (segsG e) (K :: R) h
  rwa [flat_segsG, map_segsG] at this

mutual
  theorem st_reads : (s : St) → s.WF → ∀ (F : Nat) (semi : Item) (R : List Item), semi.ty = "Semicolon" → s.need ≤ F →
      statement F (s.toks ++ semi :: R) = some (s.sx, semi :: R)
    | .assign n a e, hwf, F, semi, R, hsemi, hF => by
      obtain ⟨hn, ha, he⟩ := hwf
      obtain ⟨g, rfl⟩ : ∃ g, F = g + 3 := ⟨F - 3, by simp only [St.need] at hF; omega⟩
      have hexp := expression_reads e (semi :: R) (g + 2) he (ends_kw semi R (Or.inr (Or.inr (Or.inr hsemi))))
        (by simp only [St.need] at hF; omega)
      have := statement_assign g n a (e.toks ++ semi :: R) (semi :: R) e.sx hn ha (ws_toks e 0 _ he) hexp
      simpa [St.toks, St.sx] using this
    | .ifS kIf kThen c body elifs kEnd, hwf, F, semi, R, hsemi, hF => by
      obtain ⟨hIf, hThen, hEnd, hc, hb, hx⟩ := hwf
      simp only [St.need] at hF
      obtain ⟨g, rfl⟩ : ∃ g, F = g + 4 := ⟨F - 4, by omega⟩
      have hKend : isCloser kEnd.ty = true := by rw [hEnd]; decide
      have hT := elifs_head elifs hx kEnd (semi :: R) hKend
      have hexp := expression_reads c (kThen :: (body.toks ++ (elifs.toks ++ kEnd :: semi :: R))) (g + 2) hc
        (ends_kw kThen _ (Or.inl hThen)) (by omega)
      have hbody := opt_body_readsT body (g + 2) (elifs.toks ++ kEnd :: semi :: R) hT
        (fun hne => by
          obtain ⟨K', R', hK', heq⟩ := hT
          rw [heq]
          exact stl_reads body hb hne g K' R' hK' (by omega))
      have helifs := elifs_sepBy elifs (g + 2) kEnd (semi :: R)
        (elifs_chainW elifs hx g kEnd (semi :: R) hKend (by rw [hEnd]; decide) (by omega))
      have hif := ifStatement_reads (g + 2) kIf kThen kEnd c.toks body.toks (elifs.toks ++ kEnd :: semi :: R) (semi :: R) c.sx _ elifs.sxs
        hIf hThen hEnd (ws_toks c 0 _ hc) hexp (ws_stlT body hb _ hT) hbody (ws_T _ hT) helifs
      have htoks : (St.ifS kIf kThen c body elifs kEnd).toks ++ semi :: R
          = kIf :: (c.toks ++ kThen :: (body.toks ++ (elifs.toks ++ kEnd :: semi :: R))) := by
        simp [St.toks, List.append_assoc]
      rw [htoks, statement]
      rw [orElse_none _ _ _ (assignAlt_none _ kIf _ (by rw [hIf]; decide) (by rw [hIf]; decide))]
      apply orElse_some
      rw [hif, sxs_getD]
      rfl
    | .ifElse kIf kThen c body elifs kElse els kEnd, hwf, F, semi, R, hsemi, hF => by
      obtain ⟨hIf, hThen, hElse, hEnd, hc, hb, he, hene, hx⟩ := hwf
      simp only [St.need] at hF
      obtain ⟨g, rfl⟩ : ∃ g, F = g + 4 := ⟨F - 4, by omega⟩
      have hKend : isCloser kEnd.ty = true := by rw [hEnd]; decide
      have hKelse : isCloser kElse.ty = true := by rw [hElse]; decide
      have hT := elifs_head elifs hx kElse (els.toks ++ kEnd :: semi :: R) hKelse
      have hexp := expression_reads c (kThen :: (body.toks ++ (elifs.toks ++ kElse :: (els.toks ++ kEnd :: semi :: R)))) (g + 2) hc
        (ends_kw kThen _ (Or.inl hThen)) (by omega)
      have hbody := opt_body_readsT body (g + 2) (elifs.toks ++ kElse :: (els.toks ++ kEnd :: semi :: R)) hT
        (fun hne => by
          obtain ⟨K', R', hK', heq⟩ := hT
          rw [heq]
          exact stl_reads body hb hne g K' R' hK' (by omega))
      have helifs := elifs_sepBy elifs (g + 2) kElse (els.toks ++ kEnd :: semi :: R)
        (elifs_chainW elifs hx g kElse _ hKelse (by rw [hElse]; decide) (by omega))
      have hels := stl_reads els he hene g kEnd (semi :: R) hKend (by omega)
      have hif := ifElse_reads (g + 2) kIf kThen kElse kEnd c.toks body.toks (elifs.toks ++ kElse :: (els.toks ++ kEnd :: semi :: R))
        els.toks (semi :: R) c.sx _ elifs.sxs els.sxs
        hIf hThen hElse hEnd (ws_toks c 0 _ hc) hexp (ws_stlT body hb _ hT) hbody (ws_T _ hT) helifs (ws_stl els he kEnd _ hKend) hels
      have htoks : (St.ifElse kIf kThen c body elifs kElse els kEnd).toks ++ semi :: R
          = kIf :: (c.toks ++ kThen :: (body.toks ++ (elifs.toks ++ kElse :: (els.toks ++ kEnd :: semi :: R)))) := by
        simp [St.toks, List.append_assoc]
      rw [htoks, statement]
      rw [orElse_none _ _ _ (assignAlt_none _ kIf _ (by rw [hIf]; decide) (by rw [hIf]; decide))]
      apply orElse_some
      rw [hif, sxs_getD]
      rfl
    | .caseS kCase kOf sel groups kEnd, hwf, F, semi, R, hsemi, hF => by
      obtain ⟨hCase, hOf, hEnd, hs, hg⟩ := hwf
      simp only [St.need] at hF
      obtain ⟨g, rfl⟩ : ∃ g, F = g + 4 := ⟨F - 4, by omega⟩
      have hKend : isCloser kEnd.ty = true := by rw [hEnd]; decide
      have hT := groups_head groups hg kEnd (semi :: R) hKend
      have hexp := expression_reads sel (kOf :: (groups.toks ++ kEnd :: semi :: R)) (g + 2) hs
        (ends_of kOf _ hOf) (by omega)
      have hgroups := groups_sepBy groups (g + 2) kEnd (semi :: R)
        (groups_chainW groups hg g kEnd (semi :: R) (Or.inr hEnd) (by omega))
      have hcase := caseStatement_reads (g + 2) kCase kOf kEnd sel.toks (groups.toks ++ kEnd :: semi :: R) (semi :: R) sel.sx groups.sxs
        hCase hOf hEnd (ws_toks sel 0 _ hs) hexp (ws_T _ hT) hgroups
      have htoks : (St.caseS kCase kOf sel groups kEnd).toks ++ semi :: R
          = kCase :: (sel.toks ++ kOf :: (groups.toks ++ kEnd :: semi :: R)) := by
        simp [St.toks, List.append_assoc]
      rw [htoks, statement]
      rw [orElse_none _ _ _ (assignAlt_none _ kCase _ (by rw [hCase]; decide) (by rw [hCase]; decide))]
      rw [orElse_none _ _ _ (ifStatement_none _ kCase _ (by rw [hCase]; decide))]
      apply orElse_some
      rw [hcase]
      rfl
    | .caseElse kCase kOf sel groups kElse els kEnd, hwf, F, semi, R, hsemi, hF => by
      obtain ⟨hCase, hOf, hElse, hEnd, hs, hg, he, hene⟩ := hwf
      simp only [St.need] at hF
      obtain ⟨g, rfl⟩ : ∃ g, F = g + 4 := ⟨F - 4, by omega⟩
      have hKend : isCloser kEnd.ty = true := by rw [hEnd]; decide
      have hKelse : isCloser kElse.ty = true := by rw [hElse]; decide
      have hT := groups_head groups hg kElse (els.toks ++ kEnd :: semi :: R) hKelse
      have hexp := expression_reads sel (kOf :: (groups.toks ++ kElse :: (els.toks ++ kEnd :: semi :: R))) (g + 2) hs
        (ends_of kOf _ hOf) (by omega)
      have hgroups := groups_sepBy groups (g + 2) kElse (els.toks ++ kEnd :: semi :: R)
        (groups_chainW groups hg g kElse _ (Or.inl hElse) (by omega))
      have hels := stl_reads els he hene g kEnd (semi :: R) hKend (by omega)
      have hcase := caseElse_reads (g + 2) kCase kOf kElse kEnd sel.toks (groups.toks ++ kElse :: (els.toks ++ kEnd :: semi :: R))
        els.toks (semi :: R) sel.sx groups.sxs els.sxs
        hCase hOf hElse hEnd (ws_toks sel 0 _ hs) hexp (ws_T _ hT) hgroups (ws_stl els he kEnd _ hKend) hels
      have htoks : (St.caseElse kCase kOf sel groups kElse els kEnd).toks ++ semi :: R
          = kCase :: (sel.toks ++ kOf :: (groups.toks ++ kElse :: (els.toks ++ kEnd :: semi :: R))) := by
        simp [St.toks, List.append_assoc]
      rw [htoks, statement]
      rw [orElse_none _ _ _ (assignAlt_none _ kCase _ (by rw [hCase]; decide) (by rw [hCase]; decide))]
      rw [orElse_none _ _ _ (ifStatement_none _ kCase _ (by rw [hCase]; decide))]
      apply orElse_some
      rw [hcase]
      rfl
    | .whileS kW kDo c body kEnd, hwf, F, semi, R, hsemi, hF => by
      obtain ⟨hW, hDo, hEnd, hc, hb, hbne⟩ := hwf
      simp only [St.need] at hF
      obtain ⟨g, rfl⟩ : ∃ g, F = g + 4 := ⟨F - 4, by omega⟩
      have hKend : isCloser kEnd.ty = true := by rw [hEnd]; decide
      have hexp := expression_reads c (kDo :: (body.toks ++ kEnd :: semi :: R)) (g + 2) hc
        (ends_kw kDo _ (Or.inr (Or.inl hDo))) (by omega)
      have hbody := stl_reads body hb hbne g kEnd (semi :: R) hKend (by omega)
      have hw := whileStatement_reads (g + 2) kW kDo kEnd c.toks body.toks (semi :: R) c.sx body.sxs hW hDo hEnd
        (ws_toks c 0 _ hc) hexp (ws_stl body hb kEnd _ hKend) hbody
      have htoks : (St.whileS kW kDo c body kEnd).toks ++ semi :: R = kW :: (c.toks ++ kDo :: (body.toks ++ kEnd :: semi :: R)) := by
        simp [St.toks, List.append_assoc]
      rw [htoks, statement]
      rw [orElse_none _ _ _ (assignAlt_none _ kW _ (by rw [hW]; decide) (by rw [hW]; decide))]
      rw [orElse_none _ _ _ (ifStatement_none _ kW _ (by rw [hW]; decide))]
      rw [orElse_none _ _ _ (caseStatement_none _ kW _ (by rw [hW]; decide))]
      rw [orElse_none _ _ _ (forStatement_none _ kW _ (by rw [hW]; decide))]
      apply orElse_some
      rw [hw]
      rfl
    | .repeatS kR body kU c kEnd, hwf, F, semi, R, hsemi, hF => by
      obtain ⟨hR, hU, hEnd, hc, hb, hbne⟩ := hwf
      simp only [St.need] at hF
      obtain ⟨g, rfl⟩ : ∃ g, F = g + 4 := ⟨F - 4, by omega⟩
      have hKu : isCloser kU.ty = true := by rw [hU]; decide
      have hexp := expression_reads c (kEnd :: semi :: R) (g + 2) hc
        (ends_kw kEnd _ (Or.inr (Or.inr (Or.inl hEnd)))) (by omega)
      have hbody := stl_reads body hb hbne g kU (c.toks ++ kEnd :: semi :: R) hKu (by omega)
      have hr := repeatStatement_reads (g + 2) kR kU kEnd body.toks c.toks (semi :: R) c.sx body.sxs hR hU hEnd
        (ws_stl body hb kU _ hKu) hbody (ws_toks c 0 _ hc) hexp
      have htoks : (St.repeatS kR body kU c kEnd).toks ++ semi :: R = kR :: (body.toks ++ kU :: (c.toks ++ kEnd :: semi :: R)) := by
        simp [St.toks, List.append_assoc]
      rw [htoks, statement]
      rw [orElse_none _ _ _ (assignAlt_none _ kR _ (by rw [hR]; decide) (by rw [hR]; decide))]
      rw [orElse_none _ _ _ (ifStatement_none _ kR _ (by rw [hR]; decide))]
      rw [orElse_none _ _ _ (caseStatement_none _ kR _ (by rw [hR]; decide))]
      rw [orElse_none _ _ _ (forStatement_none _ kR _ (by rw [hR]; decide))]
      rw [orElse_none _ _ _ (whileStatement_none _ kR _ (by rw [hR]; decide))]
      apply orElse_some
      rw [hr]
      rfl
    | .forS kFor ctl asg frm kTo to step kDo body kEnd, hwf, F, semi, R, hsemi, hF => by
      obtain ⟨hFor, hC, hA, hTo, hDo, hEnd, hfr, hto, hb, hbne, hstep⟩ := hwf
      have hKend : isCloser kEnd.ty = true := by rw [hEnd]; decide
      cases step with
      | none =>
        simp only [St.need] at hF
        obtain ⟨g, rfl⟩ : ∃ g, F = g + 4 := ⟨F - 4, by omega⟩
        have hef := expression_reads frm (kTo :: (to.toks ++ kDo :: (body.toks ++ kEnd :: semi :: R))) (g + 2) hfr
          (ends_kw2 kTo _ (Or.inl hTo)) (by omega)
        have het := expression_reads to (kDo :: (body.toks ++ kEnd :: semi :: R)) (g + 2) hto
          (ends_kw kDo _ (Or.inr (Or.inl hDo))) (by omega)
        have hbody := stl_reads body hb hbne g kEnd (semi :: R) hKend (by omega)
        have hfor := forStatement_reads (g + 2) kFor ctl asg kTo kDo kEnd frm.toks to.toks body.toks (semi :: R) frm.sx to.sx body.sxs
          hFor hC hA hTo hDo hEnd (ws_toks frm 0 _ hfr) hef (ws_toks to 0 _ hto) het (ws_stl body hb kEnd _ hKend) hbody
        have htoks : (St.forS kFor ctl asg frm kTo to none kDo body kEnd).toks ++ semi :: R
            = kFor :: ctl :: asg :: (frm.toks ++ kTo :: (to.toks ++ kDo :: (body.toks ++ kEnd :: semi :: R))) := by
          simp [St.toks, List.append_assoc]
        rw [htoks, statement]
        rw [orElse_none _ _ _ (assignAlt_none _ kFor _ (by rw [hFor]; decide) (by rw [hFor]; decide))]
        rw [orElse_none _ _ _ (ifStatement_none _ kFor _ (by rw [hFor]; decide))]
        rw [orElse_none _ _ _ (caseStatement_none _ kFor _ (by rw [hFor]; decide))]
        apply orElse_some
        rw [hfor]
        rfl
      | some p =>
        obtain ⟨kBy, st⟩ := p
        obtain ⟨hBy, hst⟩ := hstep
        simp only [St.need] at hF
        obtain ⟨g, rfl⟩ : ∃ g, F = g + 4 := ⟨F - 4, by omega⟩
        have hef := expression_reads frm (kTo :: (to.toks ++ kBy :: (st.toks ++ kDo :: (body.toks ++ kEnd :: semi :: R)))) (g + 2) hfr
          (ends_kw2 kTo _ (Or.inl hTo)) (by omega)
        have het := expression_reads to (kBy :: (st.toks ++ kDo :: (body.toks ++ kEnd :: semi :: R))) (g + 2) hto
          (ends_kw2 kBy _ (Or.inr hBy)) (by omega)
        have hes := expression_reads st (kDo :: (body.toks ++ kEnd :: semi :: R)) (g + 2) hst
          (ends_kw kDo _ (Or.inr (Or.inl hDo))) (by omega)
        have hbody := stl_reads body hb hbne g kEnd (semi :: R) hKend (by omega)
        have hfor := forByStatement_reads (g + 2) kFor ctl asg kTo kBy kDo kEnd frm.toks to.toks st.toks body.toks (semi :: R)
          frm.sx to.sx st.sx body.sxs hFor hC hA hTo hBy hDo hEnd (ws_toks frm 0 _ hfr) hef (ws_toks to 0 _ hto) het
          (ws_toks st 0 _ hst) hes (ws_stl body hb kEnd _ hKend) hbody
        have htoks : (St.forS kFor ctl asg frm kTo to (some (kBy, st)) kDo body kEnd).toks ++ semi :: R
            = kFor :: ctl :: asg :: (frm.toks ++ kTo :: (to.toks ++ kBy :: (st.toks ++ kDo :: (body.toks ++ kEnd :: semi :: R)))) := by
          simp [St.toks, List.append_assoc]
        rw [htoks, statement]
        rw [orElse_none _ _ _ (assignAlt_none _ kFor _ (by rw [hFor]; decide) (by rw [hFor]; decide))]
        rw [orElse_none _ _ _ (ifStatement_none _ kFor _ (by rw [hFor]; decide))]
        rw [orElse_none _ _ _ (caseStatement_none _ kFor _ (by rw [hFor]; decide))]
        apply orElse_some
        rw [hfor]
        rfl
    | .callS name lp n1 a1 e1 more rp, hwf, F, semi, R, hsemi, hF => by
      obtain ⟨hname, hlp, hrp, hn1, ha1, he1, hmore⟩ := hwf
      simp only [St.need] at hF
      obtain ⟨g, rfl⟩ : ∃ g, F = g + 3 := ⟨F - 3, by omega⟩
      have hcall := fbInvocation_reads g name lp n1 a1 rp e1 more (semi :: R) hname hlp hrp hn1 ha1 he1 hmore (by omega)
      have htoks : (St.callS name lp n1 a1 e1 more rp).toks ++ semi :: R
          = name :: lp :: n1 :: a1 :: (e1.toks ++ (argToks more ++ rp :: semi :: R)) := by
        simp [St.toks, List.append_assoc]
      rw [htoks, statement]
      rw [orElse_none _ _ _ (assignAlt_none_call g name lp _ hname hlp)]
      rw [orElse_none _ _ _ (ifStatement_none _ name _ (by rw [hname]; decide))]
      rw [orElse_none _ _ _ (caseStatement_none _ name _ (by rw [hname]; decide))]
      rw [orElse_none _ _ _ (forStatement_none _ name _ (by rw [hname]; decide))]
      rw [orElse_none _ _ _ (whileStatement_none _ name _ (by rw [hname]; decide))]
      rw [orElse_none _ _ _ (repeatStatement_none _ name _ (by rw [hname]; decide))]
      rw [orElse_none _ _ _ (bind_none _ _ _ (tok_miss _ _ _ (by rw [hname]; decide)))]
      apply orElse_some
      rw [hcall]
      rfl
    | .exitS k, hwf, F, semi, R, hsemi, hF => by
      have hk : k.ty = "Exit" := hwf
      obtain ⟨g, rfl⟩ : ∃ g, F = g + 1 := ⟨F - 1, by simp only [St.need] at hF; omega⟩
      show statement (g + 1) (k :: semi :: R) = _
      rw [statement]
      rw [orElse_none _ _ _ (assignAlt_none _ k _ (by rw [hk]; decide) (by rw [hk]; decide))]
      rw [orElse_none _ _ _ (ifStatement_none _ k _ (by rw [hk]; decide))]
      rw [orElse_none _ _ _ (caseStatement_none _ k _ (by rw [hk]; decide))]
      rw [orElse_none _ _ _ (forStatement_none _ k _ (by rw [hk]; decide))]
      rw [orElse_none _ _ _ (whileStatement_none _ k _ (by rw [hk]; decide))]
      rw [orElse_none _ _ _ (repeatStatement_none _ k _ (by rw [hk]; decide))]
      apply orElse_some
      rw [bind_some _ _ _ _ _ (tok_hit _ _ _ hk)]
      rfl
    | .returnS k, hwf, F, semi, R, hsemi, hF => by
      have hk : k.ty = "Return" := hwf
      obtain ⟨g, rfl⟩ : ∃ g, F = g + 1 := ⟨F - 1, by simp only [St.need] at hF; omega⟩
      show statement (g + 1) (k :: semi :: R) = _
      rw [statement]
      rw [orElse_none _ _ _ (assignAlt_none _ k _ (by rw [hk]; decide) (by rw [hk]; decide))]
      rw [orElse_none _ _ _ (ifStatement_none _ k _ (by rw [hk]; decide))]
      rw [orElse_none _ _ _ (caseStatement_none _ k _ (by rw [hk]; decide))]
      rw [orElse_none _ _ _ (forStatement_none _ k _ (by rw [hk]; decide))]
      rw [orElse_none _ _ _ (whileStatement_none _ k _ (by rw [hk]; decide))]
      rw [orElse_none _ _ _ (repeatStatement_none _ k _ (by rw [hk]; decide))]
      rw [orElse_none _ _ _ (bind_none _ _ _ (tok_miss _ _ _ (by rw [hk]; decide)))]
      rw [orElse_none _ _ _ (fbInvocation_none _ k _ (by rw [hk]; decide))]
      rw [bind_some _ _ _ _ _ (tok_hit _ _ _ hk)]
      rfl

  theorem stl_chain : (l : Stl) → l.WF → ∀ (g : Nat) (prev K : Item) (R : List Item), prev.ty = "Semicolon" →
      isCloser K.ty = true → l.need ≤ g → Chain (sepStmt g) (chainOf prev l) (lastSemi prev l :: K :: R)
    | .nil, _, g, prev, K, R, hprev, hK, _ => by
      show sepStmt g (prev :: K :: R) = none
      unfold sepStmt
      have hsep : (do ws; semicolon; ws : P Unit) (prev :: K :: R) = some ((), K :: R) := by
        rw [bind_some _ _ _ _ _ (ws_cons prev _ (by rw [hprev]; decide)), bind_some _ _ _ _ _ (semicolon_hit _ _ hprev)]
        exact ws_cons _ _ (closer_not_trivia hK)
      rw [bind_some _ _ _ _ _ hsep]
      exact statement_none_closer g K R hK
    | .cons s semi rest, hwf, g, prev, K, R, hprev, hK, hg => by
      obtain ⟨hs, hsemi, hrest⟩ := hwf
      simp only [Stl.need] at hg
      refine ⟨by simp, ?_, stl_chain rest hrest g semi K R hsemi hK (by omega)⟩
      show sepStmt g ((prev :: s.toks) ++ (flat (chainOf semi rest) ++ (lastSemi semi rest :: K :: R)))
        = some (s.sx, flat (chainOf semi rest) ++ (lastSemi semi rest :: K :: R))
      rw [flat_chainOf_app]
      obtain ⟨t, ts, hts, hstart⟩ := St.head s hs
      unfold sepStmt
      have hsep : (do ws; semicolon; ws : P Unit) ((prev :: s.toks) ++ semi :: (rest.toks ++ K :: R))
          = some ((), s.toks ++ semi :: (rest.toks ++ K :: R)) := by
        show (do ws; semicolon; ws : P Unit) (prev :: (s.toks ++ semi :: (rest.toks ++ K :: R))) = _
        rw [bind_some _ _ _ _ _ (ws_cons prev _ (by rw [hprev]; decide)), bind_some _ _ _ _ _ (semicolon_hit _ _ hprev)]
        rw [hts]
        exact ws_cons _ _ (start_not_trivia hstart)
      rw [bind_some _ _ _ _ _ hsep]
      exact st_reads s hs g semi (rest.toks ++ K :: R) hsemi (by omega)

  theorem stl_reads : (l : Stl) → l.WF → l.isNil = false → ∀ (g : Nat) (K : Item) (R : List Item),
      isCloser K.ty = true → l.need ≤ g → statementList (g + 2) (l.toks ++ K :: R) = some (l.sxs, K :: R)
    | .nil, _, hne, _, _, _, _, _ => by cases hne
    | .cons s semi rest, hwf, _, g, K, R, hK, hg => by
      obtain ⟨hs, hsemi, hrest⟩ := hwf
      simp only [Stl.need] at hg
      exact statementList_reads g s semi rest K R hs hsemi hrest hK
        (st_reads s hs g semi (rest.toks ++ K :: R) hsemi (by omega))
        (stl_chain rest hrest g semi K R hsemi hK (by omega))

  theorem elifs_chainW : (e : Elifs) → e.WF → ∀ (g : Nat) (K : Item) (R : List Item),
      isCloser K.ty = true → K.ty ≠ "Elsif" → e.need ≤ g → ChainW (elsifP (g + 2)) (segsE e) (K :: R)
    | .nil, _, g, K, R, hK, hne, _ => ⟨elsifP_none _ K R hne, ws_cons _ _ (closer_not_trivia hK)⟩
    | .cons kE kT c body rest, hwf, g, K, R, hK, hne, hg => by
      obtain ⟨hE, hT, hc, hb, hbne, hrest⟩ := hwf
      simp only [Elifs.need] at hg
      have hKe : isCloser kE.ty = true := by rw [hE]; decide
      have hfl : flat (segsE rest) ++ K :: R = rest.toks ++ K :: R := by rw [flat_segsE]
      have hTl := elifs_head rest hrest K R hK
      refine ⟨by simp, ?_, ?_, elifs_chainW rest hrest g K R hK hne (by omega)⟩
      · exact ws_cons _ _ (closer_not_trivia hKe)
      · rw [hfl]
        have hexp := expression_reads c (kT :: (body.toks ++ (rest.toks ++ K :: R))) (g + 2) hc
          (ends_kw kT _ (Or.inl hT)) (by omega)
        have hbody : statementList (g + 2) (body.toks ++ (rest.toks ++ K :: R)) = some (body.sxs, rest.toks ++ K :: R) := by
          obtain ⟨K', R', hK', heq⟩ := hTl
          rw [heq]
          exact stl_reads body hb hbne g K' R' hK' (by omega)
        have := elsifP_reads (g + 2) kE kT c.toks body.toks (rest.toks ++ K :: R) c.sx body.sxs hE hT
          (ws_toks c 0 _ hc) hexp (ws_stlT body hb _ hTl) hbody
        simpa [List.append_assoc] using this

  theorem groups_chainW : (e : Groups) → e.WF → ∀ (g : Nat) (K : Item) (R : List Item),
      (K.ty = "Else" ∨ K.ty = "EndCase") → e.need ≤ g → ChainW (caseGroupP (g + 2)) (segsG e) (K :: R)
    | .nil, _, g, K, R, hK, _ =>
      ⟨caseGroupP_none _ K R hK, ws_cons _ _ (by rcases hK with h | h <;> rw [h] <;> decide)⟩
    | .cons d v more colon body rest, hwf, g, K, R, hK, hg => by
      obtain ⟨hd, hv, hm, hc, hb, hbne, hrest⟩ := hwf
      simp only [Groups.need] at hg
      have hKc : isCloser K.ty = true := by rcases hK with h | h <;> rw [h] <;> decide
      have hfl : flat (segsG rest) ++ K :: R = rest.toks ++ K :: R := by rw [flat_segsG]
      have hTl := groups_head rest hrest K R hKc
      refine ⟨by simp, ?_, ?_, groups_chainW rest hrest g K R hK (by omega)⟩
      · exact ws_cons _ _ (by rw [hd]; decide)
      · rw [hfl]
        have hbody : statementList (g + 2) (body.toks ++ (rest.toks ++ K :: R)) = some (body.sxs, rest.toks ++ K :: R) := by
          obtain ⟨K', R', hK', heq⟩ := hTl
          rw [heq]
          exact stl_reads body hb hbne g K' R' hK' (by omega)
        have := caseGroupP_reads (g + 2) d v more colon body.toks (rest.toks ++ K :: R) body.sxs hd hv hm hc
          (ws_stlT body hb _ hTl) hbody
        simpa [List.append_assoc] using this
end


/-! ### the fuel of the driver is enough -/

theorem argsNeed_le (more : List (Item × Item × Item × S)) : argsNeed more ≤ 5 * (argToks more).length := by
  induction more with
  | nil => simp [argsNeed, argToks]
  | cons m more ih =>
    have := S.need_le m.2.2.2
    rw [argsNeed_cons]
    simp only [argToks, List.flatMap_cons, List.length_append, List.length_cons] at ih ⊢
    omega

mutual
  theorem st_need_le : (s : St) → s.need ≤ 5 * s.toks.length
    | .assign n a e => by have := S.need_le e; simp only [St.need, St.toks, List.length_cons]; omega
    | .ifS kIf kThen c body elifs kEnd => by
      have := S.need_le c; have := stl_need_le body; have := elifs_need_le elifs
      simp only [St.need, St.toks, List.length_cons, List.length_append, List.length_nil]; omega
    | .ifElse kIf kThen c body elifs kElse els kEnd => by
      have := S.need_le c; have := stl_need_le body; have := elifs_need_le elifs; have := stl_need_le els
      simp only [St.need, St.toks, List.length_cons, List.length_append, List.length_nil]; omega
    | .whileS kW kDo c body kEnd => by
      have := S.need_le c; have := stl_need_le body
      simp only [St.need, St.toks, List.length_cons, List.length_append, List.length_nil]; omega
    | .repeatS kR body kU c kEnd => by
      have := S.need_le c; have := stl_need_le body
      simp only [St.need, St.toks, List.length_cons, List.length_append, List.length_nil]; omega
    | .forS kFor ctl asg frm kTo to none kDo body kEnd => by
      have := S.need_le frm; have := S.need_le to; have := stl_need_le body
      simp only [St.need, St.toks, List.length_cons, List.length_append, List.length_nil]; omega
    | .forS kFor ctl asg frm kTo to (some (kBy, st)) kDo body kEnd => by
      have := S.need_le frm; have := S.need_le to; have := S.need_le st; have := stl_need_le body
      simp only [St.need, St.toks, List.length_cons, List.length_append, List.length_nil]; omega
    | .caseS kCase kOf sel groups kEnd => by
      have := S.need_le sel; have := groups_need_le groups
      simp only [St.need, St.toks, List.length_cons, List.length_append, List.length_nil]; omega
    | .caseElse kCase kOf sel groups kElse els kEnd => by
      have := S.need_le sel; have := groups_need_le groups; have := stl_need_le els
      simp only [St.need, St.toks, List.length_cons, List.length_append, List.length_nil]; omega
    | .callS name lp n1 a1 e1 more rp => by
      have := S.need_le e1; have := argsNeed_le more
      simp only [St.need, St.toks, List.length_cons, List.length_append, List.length_nil]; omega
    | .exitS k => by simp [St.need, St.toks]
    | .returnS k => by simp [St.need, St.toks]
  theorem stl_need_le : (l : Stl) → l.need ≤ 5 * l.toks.length
    | .nil => by simp [Stl.need, Stl.toks]
    | .cons s semi rest => by
      have := st_need_le s; have := stl_need_le rest
      simp only [Stl.need, Stl.toks, List.length_cons, List.length_append]; omega
  theorem elifs_need_le : (e : Elifs) → e.need ≤ 5 * e.toks.length
    | .nil => by simp [Elifs.need, Elifs.toks]
    | .cons kE kT c body rest => by
      have := S.need_le c; have := stl_need_le body; have := elifs_need_le rest
      simp only [Elifs.need, Elifs.toks, List.length_cons, List.length_append]; omega
  theorem groups_need_le : (e : Groups) → e.need ≤ 5 * e.toks.length
    | .nil => by simp [Groups.need, Groups.toks]
    | .cons d v more colon body rest => by
      have := stl_need_le body; have := groups_need_le rest
      simp only [Groups.need, Groups.toks, List.length_cons, List.length_append]; omega
end

theorem need_le_toks : (∀ s : St, s.need ≤ 5 * s.toks.length) ∧ (∀ l : Stl, l.need ≤ 5 * l.toks.length) :=
  ⟨st_need_le, stl_need_le⟩

/-- **The mirror reads every well-formed statement list back as its tree**, with the fuel the driver gives
it.  `K` is the keyword that closes the list (END_IF, ELSE, UNTIL, END_WHILE, END_PROGRAM, …). -/
theorem statementList_roundtrip (l : Stl) (hl : l.WF) (hne : l.isNil = false) (K : Item) (R : List Item)
    (hK : isCloser K.ty = true) (n : Nat) (hn : (l.toks ++ K :: R).length ≤ n) :
    statementList (fuelFor n) (l.toks ++ K :: R) = some (l.sxs, K :: R) := by
  have h1 := need_le_toks.2 l
  have hlen : l.toks.length ≤ n := by simp only [List.length_append] at hn; omega
  obtain ⟨g, hg⟩ : ∃ g, fuelFor n = g + 2 := ⟨fuelFor n - 2, by unfold fuelFor; omega⟩
  rw [hg]
  exact stl_reads l hl hne g K R hK (by unfold fuelFor at hg; omega)

end MX
