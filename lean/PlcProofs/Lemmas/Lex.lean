import PlcModel.Lex

/-! Helper lemmas about M-Lex (text, offsets, line/column bookkeeping). -/

@[simp] theorem utf8Len_nil : utf8Len [] = 0 := rfl
@[simp] theorem utf8Len_cons (c : Char) (cs : List Char) : utf8Len (c :: cs) = c.utf8Size + utf8Len cs := by
  simp [utf8Len]
@[simp] theorem utf8Len_append (a b : List Char) : utf8Len (a ++ b) = utf8Len a + utf8Len b := by
  simp [utf8Len]

theorem utf8Size_pos (c : Char) : 0 < c.utf8Size := by
  simp only [Char.utf8Size]; split <;> (try split) <;> (try split) <;> omega

theorem utf8Len_pos {cs : List Char} (h : cs ≠ []) : 0 < utf8Len cs := by
  cases cs with
  | nil => exact absurd rfl h
  | cons c cs => have := utf8Size_pos c; simp; omega

theorem advancePos_append (a b : List Char) (l c : Nat) :
    advancePos (a ++ b) l c = advancePos b (advancePos a l c).1 (advancePos a l c).2 := by
  simp [advancePos, List.foldl_append]

theorem advancePos_cons (x : Char) (xs : List Char) (l c : Nat) :
    advancePos (x :: xs) l c = if x = '\n' then advancePos xs (l+1) 0 else advancePos xs l (c + x.utf8Size) := by
  simp only [advancePos, List.foldl_cons]
  by_cases h : x = '\n' <;> simp [h]

/-- line = number of line feeds passed -/
theorem advancePos_line (pre : List Char) (l c : Nat) :
    (advancePos pre l c).1 = l + pre.count '\n' := by
  induction pre generalizing l c with
  | nil => simp [advancePos]
  | cons x xs ih =>
    rw [advancePos_cons]
    by_cases h : x = '\n'
    · subst h; simp [ih]; omega
    · simp [h, ih]

/-- no line feed passed: the column advances by the byte length -/
theorem advancePos_no_nl (b : List Char) (l c : Nat) (h : '\n' ∉ b) :
    advancePos b l c = (l, c + utf8Len b) := by
  induction b generalizing c with
  | nil => simp [advancePos]
  | cons x xs ih =>
    have hx : x ≠ '\n' := fun e => h (by simp [e])
    have hxs : '\n' ∉ xs := fun e => h (by simp [e])
    rw [advancePos_cons]; simp [hx, ih _ hxs]; omega

/-- column = byte length of what follows the last line feed -/
theorem advancePos_after_nl (a b : List Char) (l c : Nat) (h : '\n' ∉ b) :
    advancePos (a ++ '\n' :: b) l c = (l + a.count '\n' + 1, utf8Len b) := by
  rw [advancePos_append, advancePos_cons]
  simp only [if_true]
  rw [advancePos_no_nl _ _ _ h, advancePos_line]
  simp

/-- split a list at the last occurrence of an element -/
theorem exists_last_split {α} [DecidableEq α] (x : α) : ∀ (l : List α), x ∈ l → ∃ a b, l = a ++ x :: b ∧ x ∉ b := by
  intro l
  induction l with
  | nil => intro h; simp at h
  | cons y ys ih =>
    intro h
    by_cases hys : x ∈ ys
    · obtain ⟨a, b, hab, hb⟩ := ih hys
      exact ⟨y :: a, b, by simp [hab], hb⟩
    · have : x = y := by
        rcases List.mem_cons.mp h with h | h
        · exact h
        · exact absurd h hys
      subst this
      exact ⟨[], ys, by simp, hys⟩

theorem utf8Len_replicate_space (n : Nat) : utf8Len (List.replicate n ' ') = n := by
  induction n with
  | zero => rfl
  | succ n ih =>
    have h : ' '.utf8Size = 1 := by decide
    simp [List.replicate_succ, ih, h]; omega

theorem advancePos_replicate_space (n l c : Nat) : advancePos (List.replicate n ' ') l c = (l, c + n) := by
  rw [advancePos_no_nl _ _ _ (by simp [List.mem_replicate]), utf8Len_replicate_space]

theorem blank_cons (x : Char) (xs : List Char) :
    blank (x :: xs) = (if x == '\n' then ['\n'] else List.replicate x.utf8Size ' ') ++ blank xs := by
  simp [blank]

theorem blank_utf8Len (m : List Char) : utf8Len (blank m) = utf8Len m := by
  induction m with
  | nil => rfl
  | cons x xs ih =>
    rw [blank_cons, utf8Len_append, ih]
    by_cases h : x = '\n'
    · subst h; simp
    · simp [h, utf8Len_replicate_space]

theorem blank_advancePos (m : List Char) (l c : Nat) : advancePos (blank m) l c = advancePos m l c := by
  induction m generalizing l c with
  | nil => rfl
  | cons x xs ih =>
    rw [blank_cons, advancePos_append, advancePos_cons]
    by_cases h : x = '\n'
    · subst h; simp [advancePos_cons, ih]
      rfl
    · simp [h, advancePos_replicate_space, ih]

theorem isPrefixOf'_spec : ∀ (pat s : List Char), isPrefixOf' pat s = true → ∃ post, s = pat ++ post := by
  intro pat
  induction pat with
  | nil => intro s _; exact ⟨s, rfl⟩
  | cons p ps ih =>
    intro s h
    cases s with
    | nil => simp [isPrefixOf'] at h
    | cons c cs =>
      simp only [isPrefixOf', Bool.and_eq_true, beq_iff_eq] at h
      obtain ⟨post, hp⟩ := ih cs h.2
      exact ⟨post, by rw [h.1, hp]; rfl⟩

theorem findSub_spec (pat : List Char) : ∀ (s : List Char) (i a : Nat), findSub pat s i = some a →
    ∃ pre post, s = pre ++ pat ++ post ∧ a = i + pre.length := by
  intro s
  induction s with
  | nil =>
    intro i a h
    simp only [findSub] at h
    split at h
    · rename_i he
      have : pat = [] := by simpa using he
      subst this
      exact ⟨[], [], rfl, by simp at h; simp; omega⟩
    · simp at h
  | cons c cs ih =>
    intro i a h
    simp only [findSub] at h
    split at h
    · rename_i hp
      obtain ⟨post, hpost⟩ := isPrefixOf'_spec _ _ hp
      exact ⟨[], post, by simpa using hpost, by simp at h; simp; omega⟩
    · obtain ⟨pre, post, hs, ha⟩ := ih _ _ h
      exact ⟨c :: pre, post, by simp [hs], by simp [ha]; omega⟩

/-- the two OSCAT markers cannot overlap: the end marker starts after the start marker ends -/
theorem markers_disjoint (s : List Char) (a b : Nat) (ha : findSub oscatStart s 0 = some a)
    (hb : findSub oscatEnd s 0 = some b) (hab : a < b) : a + oscatStart.length ≤ b := by
  obtain ⟨p1, q1, hs1, ha1⟩ := findSub_spec _ _ _ _ ha
  obtain ⟨p2, q2, hs2, hb1⟩ := findSub_spec _ _ _ _ hb
  apply Classical.byContradiction
  intro hlt
  have hk : ∀ k, k < 21 → 1 ≤ k → oscatStart[k]? ≠ some '(' := by decide
  have hlen : oscatStart.length = 21 := by decide
  have h1 : s[b]? = some '(' := by
    rw [hs2]
    have : b = p2.length := by omega
    rw [this]; simp [oscatEnd]
  have h2 : s[b]? = oscatStart[b - a]? := by
    rw [hs1, List.append_assoc, List.getElem?_append_right (by omega),
      List.getElem?_append_left (by omega)]
    congr 1; omega
  rw [h2] at h1
  exact hk (b - a) (by omega) (by omega) h1
