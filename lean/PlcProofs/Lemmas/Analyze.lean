import PlcModel.Analyze

/-! Lemmas about M-Analyze: groups, duplicate detection, the collecting rules. -/

theorem grp_eq_nil_iff (l : List Nat) : grp l = [] ↔ l = [] := by
  unfold grp
  cases l <;> simp

theorem mem_grp_flatten (l : List Nat) (c : Nat) : c ∈ (grp l).flatten ↔ c ∈ l := by
  unfold grp
  cases l with
  | nil => simp
  | cons x xs => simp [List.mem_eraseDups]

theorem hasDup_iff (l : List Nat) : hasDup l = true ↔ ¬ l.Nodup := by
  induction l with
  | nil => simp [hasDup]
  | cons x xs ih =>
    simp only [hasDup, Bool.or_eq_true, List.contains_iff_mem, ih, List.nodup_cons, not_and]
    constructor
    · rintro (h | h)
      · exact fun hn => absurd h hn
      · exact fun _ => h
    · intro h
      by_cases hx : x ∈ xs
      · exact Or.inl hx
      · exact Or.inr (h hx)

/-- same name-keyed map and same name -/
def sameKey (d d' : ADecl) : Bool := d'.isType == d.isType && d'.name == d.name

theorem dupCodes_eq_nil_iff (ds : List ADecl) :
    dupCodes ds = [] ↔ ds.Pairwise (fun d d' => sameKey d d' = false) := by
  induction ds with
  | nil => simp [dupCodes]
  | cons d rest ih =>
    simp only [dupCodes, List.append_eq_nil_iff, ih, List.pairwise_cons]
    constructor
    · rintro ⟨h1, h2⟩
      refine ⟨?_, h2⟩
      intro d' hd'
      by_cases hk : sameKey d d' = true
      · have : rest.any (fun d' => d'.isType == d.isType && d'.name == d.name) = true :=
          List.any_eq_true.mpr ⟨d', hd', hk⟩
        simp [this] at h1
      · simpa using hk
    · rintro ⟨h1, h2⟩
      refine ⟨?_, h2⟩
      have : rest.any (fun d' => d'.isType == d.isType && d'.name == d.name) = false := by
        apply List.any_eq_false.mpr
        intro d' hd'
        have := h1 d' hd'
        simp only [sameKey] at this
        simp [this]
      simp [this]

/-- every branch of the pipeline before the rules answers a non-empty list of groups -/
theorem analyzeDecls_eq_nil_iff (ds : List ADecl) :
    analyzeDecls ds = [] ↔
      (recursive ds = false ∧ dupCodes ds = [] ∧ aliasUnsupported ds = false ∧ exprUnsupported ds = false ∧
       typeFbClash ds = false ∧ typeInitUnsupported ds = false ∧ unknownTypes ds = [] ∧ rules ds = []) := by
  unfold analyzeDecls
  by_cases h1 : recursive ds = true
  · simp [h1]
  · have h1' : recursive ds = false := by simpa using h1
    simp only [h1', Bool.false_eq_true, if_false, true_and]
    by_cases h2 : dupCodes ds = []
    · simp only [h2, List.isEmpty_nil, Bool.not_true, Bool.false_eq_true, if_false, true_and]
      by_cases h3 : aliasUnsupported ds = true
      · simp [h3]
      · have h3' : aliasUnsupported ds = false := by simpa using h3
        simp only [h3', Bool.false_eq_true, if_false, true_and]
        by_cases h4 : exprUnsupported ds = true
        · simp [h4]
        · have h4' : exprUnsupported ds = false := by simpa using h4
          simp only [h4', Bool.false_eq_true, if_false, true_and]
          by_cases h5 : typeFbClash ds = true
          · simp [h5]
          · have h5' : typeFbClash ds = false := by simpa using h5
            simp only [h5', Bool.false_eq_true, if_false, true_and]
            by_cases h6 : typeInitUnsupported ds = true
            · simp [h6]
            · have h6' : typeInitUnsupported ds = false := by simpa using h6
              simp only [h6', Bool.false_eq_true, if_false, true_and]
              by_cases h7 : unknownTypes ds = []
              · simp [h7]
              · have : (unknownTypes ds).isEmpty = false := by
                  cases hh : unknownTypes ds <;> simp_all
                simp [this, h7]
    · have hne : (dupCodes ds).isEmpty = false := by
        cases hh : dupCodes ds <;> simp_all
      have : (dupCodes ds).eraseDups ≠ [] := by
        intro e
        cases hh : dupCodes ds with
        | nil => exact h2 hh
        | cons x xs =>
          have : x ∈ (dupCodes ds).eraseDups := by rw [hh]; simp [List.mem_eraseDups]
          rw [e] at this; simp at this
      simp [hne, h2, this]

theorem rules_eq_nil_iff (ds : List ADecl) :
    rules ds = [] ↔
      (ruleStruct ds = [] ∧ ruleSubrange ds = [] ∧ ruleEnumUnique ds = [] ∧ ruleFbCall ds = [] ∧ ruleTask ds = [] ∧
       ruleEnumUse ds = [] ∧ ruleVarUse ds = [] ∧ ruleStdlib ds = [] ∧ ruleConstInit ds = [] ∧ ruleConstFb ds = [] ∧
       ruleExternalConst ds = []) := by
  simp only [rules, List.append_eq_nil_iff, and_assoc]

theorem mem_rules_flatten (ds : List ADecl) (c : Nat) :
    c ∈ (rules ds).flatten ↔
      (c ∈ (ruleStruct ds).flatten ∨ c ∈ (ruleSubrange ds).flatten ∨ c ∈ (ruleEnumUnique ds).flatten ∨
       c ∈ (ruleFbCall ds).flatten ∨ c ∈ (ruleTask ds).flatten ∨ c ∈ (ruleEnumUse ds).flatten ∨
       c ∈ (ruleVarUse ds).flatten ∨ c ∈ (ruleStdlib ds).flatten ∨ c ∈ (ruleConstInit ds).flatten ∨
       c ∈ (ruleConstFb ds).flatten ∨ c ∈ (ruleExternalConst ds).flatten) := by
  simp only [rules, List.flatten_append, List.mem_append, or_assoc]
