import PlcProofs.Lemmas.MirrorPrint
import PlcProofs.Lemmas.MirrorFb

/-!
# Whole libraries printed the renderer's way are read back

Programs, function blocks and functions as the dsl holds them (`APou`: a name, variables of elementary type, a statement
tree list) are written the way `plc2plc` writes them — `PROGRAM name [VAR n : T; … END_VAR] statements END_PROGRAM`, … —
and `Parse.library` reads the text of any sequence of them back to the library that was printed.
-/

open P Parse

namespace MX

/-- a variable of elementary type: its name, the type keyword and the variant that keyword reads as -/
structure AVarD where
  name : Item
  ty : Item
  v : String

namespace AVarD

def pr (d : AVarD) : VarD := ⟨d.name, kColon, d.ty, d.v, kSemi⟩

def Ok (d : AVarD) : Prop :=
  d.name.ty = "Identifier" ∧ (∀ R, elementaryTypeName (d.ty :: R) = some (d.v, R)) ∧ d.ty.ty ≠ "Identifier" ∧ d.ty.ty ≠ "String" ∧
  d.ty.ty ≠ "WString" ∧ d.ty.ty ≠ "Array" ∧ d.ty.ty ≠ "LeftParen" ∧ isTrivia d.ty.ty = false

/-- the variable declaration node of the dsl -/
def sx (d : AVarD) : Sx := sxVarDecl (.t "Symbol" [.a (txt d.name)]) "Var" "Unspecified" (sxSimpleInit (elementaryAsType d.v) none)

theorem pr_wf (d : AVarD) (h : d.Ok) : d.pr.WF := ⟨h.1, rfl, rfl, h.2.1, h.2.2.1, h.2.2.2.1, h.2.2.2.2.1, h.2.2.2.2.2.1, h.2.2.2.2.2.2.1, h.2.2.2.2.2.2.2⟩

theorem pr_sx (d : AVarD) : d.pr.sx = d.sx := rfl

end AVarD

inductive APou where
  | prog (name : Item) (vars : List AVarD) (body : Al)
  | fb (name : Item) (vars : List AVarD) (body : Al)
  /-- `rty` the return type keyword, `v` the variant it reads as -/
  | fn (name rty : Item) (v : String) (body : Al)

namespace APou

def varBlock : List AVarD → Option (Item × VarD × List VarD × Item)
  | [] => none
  | d :: ds => some (kw "Var" "VAR", d.pr, ds.map AVarD.pr, kw "EndVar" "END_VAR")

/-- the renderer's printing of a declaration, as a token tree of `MirrorFb` -/
def pr : APou → Pou
  | .prog name [] body => .prog (.plain ⟨kw "Program" "PROGRAM", name, body.pr, kw "EndProgram" "END_PROGRAM"⟩)
  | .prog name (d :: ds) body =>
      .prog (.withVars ⟨kw "Program" "PROGRAM", name, kw "Var" "VAR", d.pr, ds.map AVarD.pr, kw "EndVar" "END_VAR", body.pr,
        kw "EndProgram" "END_PROGRAM"⟩)
  | .fb name vars body => .fb ⟨kw "FunctionBlock" "FUNCTION_BLOCK", name, varBlock vars, body.pr, kw "EndFunctionBlock" "END_FUNCTION_BLOCK"⟩
  | .fn name rty v body => .fn ⟨kw "Function" "FUNCTION", name, kColon, rty, v, body.pr, kw "EndFunction" "END_FUNCTION"⟩

def Ok : APou → Prop
  | .prog name vars body => name.ty = "Identifier" ∧ (∀ d ∈ vars, d.Ok) ∧ body.Ok ∧ body.isNil = false
  | .fb name vars body =>
      name.ty = "Identifier" ∧ eqIgnoreAsciiCase name.text "END_VAR".toList = false ∧ (∀ d ∈ vars, d.Ok) ∧ body.Ok ∧ body.isNil = false
  | .fn name rty v body =>
      name.ty = "Identifier" ∧ (∀ R, elementaryTypeName (rty :: R) = some (v, R)) ∧ isTrivia rty.ty = false ∧ body.Ok ∧ body.isNil = false

/-- the library element of the dsl for a declaration -/
def elem : APou → Sx
  | .prog name vars body =>
      .t "ProgramDeclaration" [.n "ProgramDeclaration" [("name", .a (txt name)), ("variables", .l (vars.map AVarD.sx)),
        ("access_variables", .l []), ("body", .t "Statements" [.n "Statements" [("body", .l body.sxs)]])]]
  | .fb name vars body =>
      .t "FunctionBlockDeclaration" [.n "FunctionBlockDeclaration" [("name", .a (txt name)), ("variables", .l (vars.map AVarD.sx)),
        ("edge_variables", .l []), ("body", .t "Statements" [.n "Statements" [("body", .l body.sxs)]])]]
  | .fn name _ v body =>
      .t "FunctionDeclaration" [.n "FunctionDeclaration" [("name", .a (txt name)), ("return_type", elementaryAsType v), ("variables", .l []),
        ("edge_variables", .l []), ("body", .l body.sxs)]]

theorem map_pr_sx (ds : List AVarD) : (ds.map AVarD.pr).map VarD.sx = ds.map AVarD.sx := by
  induction ds with
  | nil => rfl
  | cons d ds ih => simp only [List.map_cons, ih, AVarD.pr_sx]

theorem pr_wf : (a : APou) → a.Ok → a.pr.WF
  | .prog name [] body, h => ⟨rfl, h.1, rfl, Al.pr_wf body h.2.2.1, (pr_isNil body).trans h.2.2.2⟩
  | .prog name (d :: ds) body, h => by
    refine ⟨rfl, h.1, rfl, rfl, rfl, ?_, Al.pr_wf body h.2.2.1, (pr_isNil body).trans h.2.2.2⟩
    intro x hx
    rcases List.mem_cons.mp hx with rfl | hx
    · exact AVarD.pr_wf d (h.2.1 d (List.mem_cons_self ..))
    · obtain ⟨y, hy, rfl⟩ := List.mem_map.mp hx
      exact AVarD.pr_wf y (h.2.1 y (List.mem_cons_of_mem _ hy))
  | .fb name [] body, h => ⟨rfl, h.1, h.2.1, rfl, Al.pr_wf body h.2.2.2.1, (pr_isNil body).trans h.2.2.2.2, trivial⟩
  | .fb name (d :: ds) body, h => by
    refine ⟨rfl, h.1, h.2.1, rfl, Al.pr_wf body h.2.2.2.1, (pr_isNil body).trans h.2.2.2.2, rfl, rfl, ?_⟩
    intro x hx
    rcases List.mem_cons.mp hx with rfl | hx
    · exact AVarD.pr_wf d (h.2.2.1 d (List.mem_cons_self ..))
    · obtain ⟨y, hy, rfl⟩ := List.mem_map.mp hx
      exact AVarD.pr_wf y (h.2.2.1 y (List.mem_cons_of_mem _ hy))
  | .fn name rty v body, h => ⟨rfl, h.1, rfl, rfl, h.2.1, h.2.2.1, Al.pr_wf body h.2.2.2.1, (pr_isNil body).trans h.2.2.2.2⟩

theorem pr_elem : (a : APou) → a.pr.elem = a.elem
  | .prog name [] body => by simp only [pr, Pou.elem, AnyProg.sx, Prog.sx, elem, Al.pr_sxs, List.map_nil]
  | .prog name (d :: ds) body => by
    simp only [pr, Pou.elem, AnyProg.sx, ProgV.sx, elem, Al.pr_sxs, List.map_cons, map_pr_sx, AVarD.pr_sx]
  | .fb name [] body => by simp only [pr, Pou.elem, Fb.sx, Fb.varSx, varBlock, elem, Al.pr_sxs, List.map_nil]
  | .fb name (d :: ds) body => by
    simp only [pr, Pou.elem, Fb.sx, Fb.varSx, varBlock, elem, Al.pr_sxs, List.map_cons, map_pr_sx, AVarD.pr_sx]
  | .fn name rty v body => by simp only [pr, Pou.elem, Fn.sx, elem, Al.pr_sxs]

end APou

/-- **Every printed library is read back**: `Parse.library` on the printing of any sequence of programs, function blocks
(each with or without a VAR block of elementary-typed variables) and functions returns exactly the library that was
printed — the declarations in order, each with its name, variables and statement trees; the whole text is consumed. -/
theorem printed_library_read_back (ps : List APou) (h : ∀ p ∈ ps, p.Ok) :
    library ((ps.map APou.pr).flatMap Pou.toks) = some (.n "Library" [("elements", .l (ps.map APou.elem))]) := by
  have := library_reads_pous (ps.map APou.pr) (by
    intro q hq
    obtain ⟨p, hp, rfl⟩ := List.mem_map.mp hq
    exact APou.pr_wf p (h p hp))
  have hm : (ps.map APou.pr).map Pou.elem = ps.map APou.elem := by
    rw [List.map_map]
    apply List.map_congr_left
    intro p _
    exact APou.pr_elem p
  rw [this, hm]

end MX
