import PlcProofs.Lemmas.MirrorStmt
import PlcModel.Parse.Pou

/-!
# Round trip of whole libraries through the parser mirror

`Parse.library` — the function behind the model's `parseProgram`, compared with `parse_program` on every run —
reads the token list of every library that consists of programs `PROGRAM name statements END_PROGRAM` (no
variable blocks; the statements of `MirrorStmt.lean`, nested to any depth) back to exactly the library that was
written: the programs in source order, each with its name and its statement list.
-/

open P Parse

namespace MX

/-! ### variable blocks and the other declarations do not start with the token at hand -/

theorem varBlocks_none (t : Item) (ts : List Item)
    (h : t.ty ≠ "VarAccess" ∧ t.ty ≠ "VarInput" ∧ t.ty ≠ "VarOutput" ∧ t.ty ≠ "VarInOut" ∧ t.ty ≠ "VarExternal" ∧ t.ty ≠ "Var") :
    ((do let a ← programAccessDecls; pure [a]) <|> ioVarDeclarations
      <|> (do let o ← otherVarDeclarations; pure [o]) <|> (do let l ← locatedVarDeclarations; pure [l]) : P (List VD)) (t :: ts) = none := by
  obtain ⟨h1, h2, h3, h4, h5, h6⟩ := h
  have a1 : (do let a ← programAccessDecls; pure [a] : P (List VD)) (t :: ts) = none := by
    apply bind_none; rw [programAccessDecls]; exact bind_none _ _ _ (tok_miss _ _ _ h1)
  have a2 : ioVarDeclarations (t :: ts) = none := by
    rw [ioVarDeclarations]
    rw [orElse_none _ _ _ (by rw [inputDeclarations]; exact bind_none _ _ _ (tok_miss _ _ _ h2))]
    rw [orElse_none _ _ _ (by apply bind_none; rw [outputDeclarations]; exact bind_none _ _ _ (tok_miss _ _ _ h3))]
    apply bind_none; rw [inputOutputDeclarations]; exact bind_none _ _ _ (tok_miss _ _ _ h4)
  have a3 : (do let o ← otherVarDeclarations; pure [o] : P (List VD)) (t :: ts) = none := by
    apply bind_none
    rw [otherVarDeclarations]
    rw [orElse_none _ _ _ (by rw [externalVarDeclarations]; exact bind_none _ _ _ (tok_miss _ _ _ h5))]
    rw [orElse_none _ _ _ (by rw [varDeclarations]; exact bind_none _ _ _ (tok_miss _ _ _ h6))]
    rw [orElse_none _ _ _ (by rw [retentiveVarDeclarations]; exact bind_none _ _ _ (tok_miss _ _ _ h6))]
    rw [orElse_none _ _ _ (by rw [retentiveVarDeclarations]; exact bind_none _ _ _ (tok_miss _ _ _ h6))]
    rw [incomplLocatedVarDeclarations]; exact bind_none _ _ _ (tok_miss _ _ _ h6)
  have a4 : (do let l ← locatedVarDeclarations; pure [l] : P (List VD)) (t :: ts) = none := by
    apply bind_none; rw [locatedVarDeclarations]; exact bind_none _ _ _ (tok_miss _ _ _ h6)
  rw [orElse_none _ _ _ a1, orElse_none _ _ _ a2, orElse_none _ _ _ a3]
  exact a4

theorem start_not_var {t : Item} (ht : isStart t.ty = true) :
    t.ty ≠ "VarAccess" ∧ t.ty ≠ "VarInput" ∧ t.ty ≠ "VarOutput" ∧ t.ty ≠ "VarInOut" ∧ t.ty ≠ "VarExternal" ∧ t.ty ≠ "Var" :=
  ⟨start_ne ht _ (by decide), start_ne ht _ (by decide), start_ne ht _ (by decide), start_ne ht _ (by decide),
   start_ne ht _ (by decide), start_ne ht _ (by decide)⟩

/-! ### programs -/

/-- `PROGRAM name statements END_PROGRAM` -/
structure Prog where
  kProgram : Item
  name : Item
  body : Stl
  kEnd : Item

namespace Prog

def toks (p : Prog) : List Item := p.kProgram :: p.name :: (p.body.toks ++ [p.kEnd])

def WF (p : Prog) : Prop :=
  p.kProgram.ty = "Program" ∧ p.name.ty = "Identifier" ∧ p.kEnd.ty = "EndProgram" ∧ p.body.WF ∧ p.body.isNil = false

/-- the tree of the grammar action of `program_declaration` -/
def sx (p : Prog) : Sx :=
  .n "ProgramDeclaration" [("name", .a (txt p.name)), ("variables", .l []), ("access_variables", .l []),
    ("body", .t "Statements" [.n "Statements" [("body", .l p.body.sxs)]])]

end Prog

theorem sfc_none (n : Nat) (t : Item) (ts : List Item) (h : t.ty ≠ "InitialStep") :
    sequentialFunctionChart n (t :: ts) = none := by
  cases n with
  | zero => rw [sequentialFunctionChart]; rfl
  | succ n =>
    rw [sequentialFunctionChart]
    unfold sepBy1
    apply bind_none
    cases n with
    | zero => rw [sfcNetwork]; rfl
    | succ n =>
      rw [sfcNetwork]
      apply bind_none
      rw [initialStep]
      exact bind_none _ _ _ (tok_miss _ _ _ h)

theorem fbBody_statements (l : Stl) (hl : l.WF) (hne : l.isNil = false) (K : Item) (R : List Item) (hK : isCloser K.ty = true) :
    fbBody (l.toks ++ K :: R) = some (.t "Statements" [.n "Statements" [("body", .l l.sxs)]], K :: R) := by
  unfold fbBody
  show functionBlockBody ((l.toks ++ K :: R).length + 3 + 1) (l.toks ++ K :: R) = _
  rw [functionBlockBody]
  -- not a sequential function chart: no INITIAL_STEP
  obtain ⟨s, semi, rest, rfl⟩ : ∃ s semi rest, l = Stl.cons s semi rest := by
    cases l with
    | nil => cases hne
    | cons s semi rest => exact ⟨s, semi, rest, rfl⟩
  obtain ⟨t, ts, hts, hstart⟩ := St.head s hl.1
  have htoks : (Stl.cons s semi rest).toks ++ K :: R = t :: (ts ++ semi :: (rest.toks ++ K :: R)) := by
    simp [Stl.toks, hts, List.append_assoc]
  have hsfc : (do let nets ← sequentialFunctionChart (((Stl.cons s semi rest).toks ++ K :: R).length + 3)
                  pure (Sx.t "Sfc" [.n "Sfc" [("networks", .l nets)]]) : P Sx) ((Stl.cons s semi rest).toks ++ K :: R) = none := by
    apply bind_none
    rw [htoks]
    exact sfc_none _ t _ (start_ne hstart _ (by decide))
  rw [orElse_none _ _ _ hsfc]
  apply orElse_some
  have hst := statementList_roundtrip (Stl.cons s semi rest) hl hne K R hK _ (Nat.le_refl _)
  rw [bind_some (fun ts => statementList (fuelFor ts.length) ts) _ _ _ _ hst]
  rfl

theorem programDeclaration_reads (p : Prog) (hp : p.WF) (R : List Item) :
    programDeclaration (p.toks ++ R) = some (p.sx, R) := by
  obtain ⟨hP, hN, hE, hb, hne⟩ := hp
  have hK : isCloser p.kEnd.ty = true := by rw [hE]; decide
  obtain ⟨s, semi, rest, hbody⟩ : ∃ s semi rest, p.body = Stl.cons s semi rest := by
    cases hb' : p.body with
    | nil => rw [hb'] at hne; cases hne
    | cons s semi rest => exact ⟨s, semi, rest, rfl⟩
  have hs : s.WF := by rw [hbody] at hb; exact hb.1
  obtain ⟨t, ts, hts, hstart⟩ := St.head s hs
  have hbt : p.body.toks ++ p.kEnd :: R = t :: (ts ++ semi :: (rest.toks ++ p.kEnd :: R)) := by
    rw [hbody]; simp [Stl.toks, hts, List.append_assoc]
  have htoks : p.toks ++ R = p.kProgram :: p.name :: (p.body.toks ++ p.kEnd :: R) := by
    simp [Prog.toks, List.append_assoc]
  have hws : ws (p.body.toks ++ p.kEnd :: R) = some ((), p.body.toks ++ p.kEnd :: R) := ws_stl p.body hb p.kEnd R hK
  have hsep : sepBy ((do let a ← programAccessDecls; pure [a]) <|> ioVarDeclarations
      <|> (do let o ← otherVarDeclarations; pure [o]) <|> (do let l ← locatedVarDeclarations; pure [l]) : P (List VD)) ws
      (p.body.toks ++ p.kEnd :: R) = some ([], p.body.toks ++ p.kEnd :: R) := by
    apply sepBy_of_none
    rw [hbt]
    exact varBlocks_none t _ (start_not_var hstart)
  rw [htoks, programDeclaration]
  rw [bind_some _ _ _ _ _ (tok_hit _ _ _ hP), bind_some _ _ _ _ _ (ws_cons p.name _ (by rw [hN]; decide)),
    bind_some _ _ _ _ _ (identifier_hit _ _ hN), bind_some _ _ _ _ _ hws, bind_some _ _ _ _ _ hsep,
    bind_some _ _ _ _ _ hws, bind_some _ _ _ _ _ (fbBody_statements p.body hb hne p.kEnd R hK),
    bind_some _ _ _ _ _ (ws_cons p.kEnd _ (closer_not_trivia hK)), bind_some _ _ _ _ _ (tok_hit _ _ _ hE)]
  rfl


/-! ### libraries -/

def elemSx (p : Prog) : List Sx := [.t "ProgramDeclaration" [p.sx]]

theorem libraryElement_program (p : Prog) (hp : p.WF) (R : List Item) :
    libraryElementDeclaration (p.toks ++ R) = some (elemSx p, R) := by
  have hP : p.kProgram.ty = "Program" := hp.1
  have htoks : p.toks ++ R = p.kProgram :: (p.name :: (p.body.toks ++ [p.kEnd]) ++ R) := by simp [Prog.toks]
  rw [libraryElementDeclaration]
  have h1 : (do let ds ← dataTypeDeclaration; pure (ds.map fun d => Sx.t "DataTypeDeclaration" [d]) : P (List Sx)) (p.toks ++ R) = none := by
    apply bind_none; rw [htoks, dataTypeDeclaration]; exact bind_none _ _ _ (tok_miss _ _ _ (by rw [hP]; decide))
  have h2 : (do let f ← functionDeclaration; pure [Sx.t "FunctionDeclaration" [f]] : P (List Sx)) (p.toks ++ R) = none := by
    apply bind_none; rw [htoks, functionDeclaration]; exact bind_none _ _ _ (tok_miss _ _ _ (by rw [hP]; decide))
  have h3 : (do let f ← functionBlockDeclaration; pure [Sx.t "FunctionBlockDeclaration" [f]] : P (List Sx)) (p.toks ++ R) = none := by
    apply bind_none; rw [htoks, functionBlockDeclaration]; exact bind_none _ _ _ (tok_miss _ _ _ (by rw [hP]; decide))
  rw [orElse_none _ _ _ h1, orElse_none _ _ _ h2, orElse_none _ _ _ h3]
  apply orElse_some
  rw [bind_some _ _ _ _ _ (programDeclaration_reads p hp R)]
  rfl

theorem libraryElement_nil : libraryElementDeclaration [] = none := by
  rw [libraryElementDeclaration]
  have h1 : (do let ds ← dataTypeDeclaration; pure (ds.map fun d => Sx.t "DataTypeDeclaration" [d]) : P (List Sx)) [] = none := by
    apply bind_none; rw [dataTypeDeclaration]; exact bind_none _ _ _ (tok_nil _)
  have h2 : (do let f ← functionDeclaration; pure [Sx.t "FunctionDeclaration" [f]] : P (List Sx)) [] = none := by
    apply bind_none; rw [functionDeclaration]; exact bind_none _ _ _ (tok_nil _)
  have h3 : (do let f ← functionBlockDeclaration; pure [Sx.t "FunctionBlockDeclaration" [f]] : P (List Sx)) [] = none := by
    apply bind_none; rw [functionBlockDeclaration]; exact bind_none _ _ _ (tok_nil _)
  have h4 : (do let p ← programDeclaration; pure [Sx.t "ProgramDeclaration" [p]] : P (List Sx)) [] = none := by
    apply bind_none; rw [programDeclaration]; exact bind_none _ _ _ (tok_nil _)
  rw [orElse_none _ _ _ h1, orElse_none _ _ _ h2, orElse_none _ _ _ h3, orElse_none _ _ _ h4]
  apply bind_none; rw [configurationDeclaration]; exact bind_none _ _ _ (tok_nil _)

def progSegs (ps : List Prog) : List (List Sx × List Item) := ps.map fun p => (elemSx p, p.toks)

theorem flat_progSegs (ps : List Prog) : flat (progSegs ps) = ps.flatMap Prog.toks := by
  induction ps with
  | nil => rfl
  | cons p ps ih => simp only [progSegs, List.map_cons, flat, List.flatMap_cons] at ih ⊢; rw [ih]

theorem prog_chain (ps : List Prog) (h : ∀ p ∈ ps, p.WF) :
    Chain (do let _ ← ws; libraryElementDeclaration : P (List Sx)) (progSegs ps) [] := by
  induction ps with
  | nil =>
    show (do let _ ← ws; libraryElementDeclaration : P (List Sx)) [] = none
    rw [bind_some _ _ _ _ _ ws_nil]
    exact libraryElement_nil
  | cons p ps ih =>
    have hp := h p (List.mem_cons_self ..)
    refine ⟨by simp [Prog.toks], ?_, ih (fun q hq => h q (List.mem_cons_of_mem _ hq))⟩
    have hws : ws (p.toks ++ (flat (progSegs ps) ++ [])) = some ((), p.toks ++ (flat (progSegs ps) ++ [])) :=
      ws_cons _ _ (by rw [hp.1]; decide)
    show (do let _ ← ws; libraryElementDeclaration : P (List Sx)) (p.toks ++ (flat (progSegs ps) ++ []))
      = some (elemSx p, flat (progSegs ps) ++ [])
    rw [bind_some _ _ _ _ _ hws]
    exact libraryElement_program p hp _

/-- **`Parse.library` reads every library of such programs back as the library that was written**: the
programs in source order, each with its name and statement list. -/
theorem library_reads (ps : List Prog) (h : ∀ p ∈ ps, p.WF) :
    library (ps.flatMap Prog.toks) =
      some (.n "Library" [("elements", .l (ps.map fun p => Sx.t "ProgramDeclaration" [p.sx]))]) := by
  have hflat : ∀ qs : List Prog, ((progSegs qs).map (·.1)).flatten = qs.map fun p => Sx.t "ProgramDeclaration" [p.sx] := by
    intro qs
    induction qs with
    | nil => rfl
    | cons q qs ih => simp only [progSegs, List.map_cons, List.flatten_cons, elemSx] at ih ⊢; rw [ih]; rfl
  unfold library
  cases ps with
  | nil =>
    have : (do ws; let ds ← sepBy libraryElementDeclaration ws; ws; pure ds : P (List (List Sx))) ([] : List Item) = some ([], []) := by
      rw [bind_some _ _ _ _ _ ws_nil, bind_some _ _ _ _ _ (sepBy_of_none _ _ _ libraryElement_nil), bind_some _ _ _ _ _ ws_nil]
      rfl
    simp only [List.flatMap_nil, this]
    rfl
  | cons p ps =>
    have hp := h p (List.mem_cons_self ..)
    have hps : ∀ q ∈ ps, q.WF := fun q hq => h q (List.mem_cons_of_mem _ hq)
    have htoks : (p :: ps).flatMap Prog.toks = p.toks ++ (flat (progSegs ps) ++ []) := by
      simp [flat_progSegs]
    have hmany : many (do let _ ← ws; libraryElementDeclaration : P (List Sx)) (flat (progSegs ps) ++ [])
        = some ((progSegs ps).map (·.1), []) :=
      many_chain _ (progSegs ps) [] (prog_chain ps hps) (by
        intro x hx
        simp only [progSegs, List.mem_map] at hx
        obtain ⟨q, _, rfl⟩ := hx
        simp [Prog.toks])
    have hsep : sepBy libraryElementDeclaration ws (p.toks ++ (flat (progSegs ps) ++ []))
        = some (elemSx p :: (progSegs ps).map (·.1), []) := by
      simp only [sepBy, libraryElement_program p hp _, hmany]
    have : (do ws; let ds ← sepBy libraryElementDeclaration ws; ws; pure ds : P (List (List Sx))) ((p :: ps).flatMap Prog.toks)
        = some (elemSx p :: (progSegs ps).map (·.1), []) := by
      have hws0 : ws (p.toks ++ (flat (progSegs ps) ++ [])) = some ((), p.toks ++ (flat (progSegs ps) ++ [])) :=
        ws_cons _ _ (by rw [hp.1]; decide)
      rw [htoks, bind_some _ _ _ _ _ hws0, bind_some _ _ _ _ _ hsep, bind_some _ _ _ _ _ ws_nil]
      rfl
    simp only [this, List.flatten_cons, hflat ps, elemSx, List.map_cons]
    rfl

end MX
