import PlcModel.Stages

/-! Lemmas about the stage table of `PlcModel/Stages.lean`. -/

namespace Stages

theorem analyzeStaged_eq (ds : List ADecl) : analyzeStaged ds = analyzeDecls ds := by
  unfold analyzeStaged analyzeDecls
  simp only [xformStages, List.findSome?]
  repeat' split
  all_goals simp_all [ruleStages, rules, List.flatMap_cons, List.flatMap_nil]

theorem grp_sub {L S : List Nat} (h : ∀ c ∈ L, c ∈ S) : ∀ g ∈ grp L, ∀ c ∈ g, c ∈ S := by
  intro g hg c hc
  unfold grp at hg
  split at hg
  · simp at hg
  · simp only [List.mem_singleton] at hg
    subst hg
    exact h c (List.mem_eraseDups.mp hc)

theorem ruleStruct_codes (ds : List ADecl) : ∀ g ∈ ruleStruct ds, ∀ c ∈ g, c ∈ [P0003] := by
  apply grp_sub
  intro c hc
  simp only [List.mem_filterMap] at hc
  obtain ⟨d, _, hd⟩ := hc
  split at hd
  · split at hd <;> simp_all
  · simp at hd


theorem filterMap_sub {α} {l : List α} {f : α → Option Nat} {S : List Nat}
    (h : ∀ a b, f a = some b → b ∈ S) : ∀ c ∈ l.filterMap f, c ∈ S := by
  intro c hc
  obtain ⟨a, _, ha⟩ := List.mem_filterMap.mp hc
  exact h a c ha

theorem flatMap_sub {α} {l : List α} {f : α → List Nat} {S : List Nat}
    (h : ∀ a, ∀ c ∈ f a, c ∈ S) : ∀ c ∈ l.flatMap f, c ∈ S := by
  intro c hc
  obtain ⟨a, _, ha⟩ := List.mem_flatMap.mp hc
  exact h a c ha

theorem ruleSubrange_codes (ds : List ADecl) : ∀ g ∈ ruleSubrange ds, ∀ c ∈ g, c ∈ [P0004] := by
  apply grp_sub; apply filterMap_sub
  intro d b hd
  split at hd
  · split at hd <;> simp_all
  · simp at hd

theorem ruleEnumUnique_codes (ds : List ADecl) : ∀ g ∈ ruleEnumUnique ds, ∀ c ∈ g, c ∈ [P0005] := by
  apply grp_sub; apply filterMap_sub
  intro d b hd
  split at hd
  · split at hd <;> simp_all
  · simp at hd

theorem callCode_codes (ds : List ADecl) (d : ADecl) (i : Nat) (f : List (Nat × Nat)) (p : List Nat) (o : List (Nat × Nat)) (b : Nat)
    (h : callCode ds d i f p o = some b) : b ∈ [P0006, P0007, P0008, P0009, P0021] := by
  unfold callCode at h
  split at h
  · simp_all
  · split at h
    · simp_all
    · simp only at h
      split at h
      · simp_all
      · split at h
        · simp_all
        · split at h
          · simp_all
          · split at h <;> simp_all

theorem ruleFbCall_codes (ds : List ADecl) : ∀ g ∈ ruleFbCall ds, ∀ c ∈ g, c ∈ [P0006, P0007, P0008, P0009, P0021] := by
  apply grp_sub; apply flatMap_sub
  intro d; apply filterMap_sub
  intro s b hs
  split at hs
  · split at hs
    · exact callCode_codes _ _ _ _ _ _ _ hs
    · simp at hs
  · simp at hs

theorem ruleTask_codes (ds : List ADecl) : ∀ g ∈ ruleTask ds, ∀ c ∈ g, c ∈ [P0011] := by
  apply grp_sub; apply flatMap_sub
  intro d
  split
  · apply filterMap_sub
    intro pi b hp
    repeat' split at hp
    all_goals simp_all
  · simp

theorem ruleVarUse_codes (ds : List ADecl) : ∀ g ∈ ruleVarUse ds, ∀ c ∈ g, c ∈ [P0015] := by
  apply grp_sub; apply flatMap_sub
  intro d
  split
  · apply filterMap_sub
    intro r b hr
    split at hr <;> simp_all
  · simp

theorem ruleStdlib_codes (ds : List ADecl) : ∀ g ∈ ruleStdlib ds, ∀ c ∈ g, c ∈ [P0029] := by
  apply grp_sub; apply flatMap_sub
  intro d; apply filterMap_sub
  intro v b hv
  repeat' split at hv
  all_goals simp_all

theorem ruleConstFb_codes (ds : List ADecl) : ∀ g ∈ ruleConstFb ds, ∀ c ∈ g, c ∈ [P0017] := by
  apply grp_sub; apply flatMap_sub
  intro d; apply filterMap_sub
  intro v b hv
  split at hv <;> simp_all

theorem ruleExternalConst_codes (ds : List ADecl) : ∀ g ∈ ruleExternalConst ds, ∀ c ∈ g, c ∈ [P0018] := by
  apply grp_sub; apply flatMap_sub
  intro d; apply filterMap_sub
  intro v b hv
  split at hv <;> simp_all

theorem ruleConstInit_codes (ds : List ADecl) : ∀ g ∈ ruleConstInit ds, ∀ c ∈ g, c ∈ [P0016, P9999] := by
  unfold ruleConstInit
  simp only
  split
  · intro g hg c hc; simp_all
  · apply grp_sub; apply flatMap_sub
    intro d; apply filterMap_sub
    intro v b hv
    repeat' split at hv
    all_goals simp_all

theorem ruleEnumUse_codes (ds : List ADecl) : ∀ g ∈ ruleEnumUse ds, ∀ c ∈ g, c ∈ [P0012, P0014] := by
  apply grp_sub; apply flatMap_sub
  intro d c hc
  rcases List.mem_append.mp hc with h | h
  · refine filterMap_sub (fun v b hv => ?_) c h
    repeat' split at hv
    all_goals simp_all
  · split at h
    · refine filterMap_sub (fun e b he => ?_) c h
      repeat' split at he
      all_goals simp_all
    · simp at h

end Stages
