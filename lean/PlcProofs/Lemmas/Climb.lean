/-! Precedence climbing over abstract tokens: minimal-parenthesis printing round-trips (any precedences). -/

namespace Climb

structure Op where
  id : Nat
  prec : Nat
deriving DecidableEq, Repr

inductive Tok where
  | atom (n : Nat)
  | op (o : Op)
  | lp
  | rp
deriving DecidableEq, Repr

inductive Expr where
  | leaf (n : Nat)
  | bin (o : Op) (l r : Expr)
deriving DecidableEq, Repr

def Expr.size : Expr → Nat
  | .leaf _ => 1
  | .bin _ l r => l.size + r.size + 1

/-- minimal-parenthesis printing in a context that needs precedence ≥ c -/
def pr (c : Nat) : Expr → List Tok
  | .leaf n => [.atom n]
  | .bin o l r =>
    let body := pr o.prec l ++ [.op o] ++ pr (o.prec + 1) r
    if o.prec < c then [.lp] ++ body ++ [.rp] else body

inductive Res where
  | ok (e : Expr) (rest : List Tok)
  | fail
  | oof
deriving DecidableEq, Repr

mutual
  def parseE : Nat → Nat → List Tok → Res
    | 0, _, _ => .oof
    | fuel+1, minp, ts =>
      match parseAtom fuel ts with
      | .ok lhs ts' => loop fuel minp lhs ts'
      | .fail => .fail
      | .oof => .oof
  def parseAtom : Nat → List Tok → Res
    | 0, _ => .oof
    | _+1, .atom n :: ts => .ok (.leaf n) ts
    | fuel+1, .lp :: ts =>
      match parseE fuel 0 ts with
      | .ok e (.rp :: ts') => .ok e ts'
      | .ok _ _ => .fail
      | .fail => .fail
      | .oof => .oof
    | _+1, _ => .fail
  def loop : Nat → Nat → Expr → List Tok → Res
    | 0, _, _, _ => .oof
    | fuel+1, minp, lhs, ts =>
      match ts with
      | .op o :: ts' =>
        if minp ≤ o.prec then
          match parseE fuel (o.prec + 1) ts' with
          | .ok rhs ts'' => loop fuel minp (.bin o lhs rhs) ts''
          | .fail => .ok lhs ts
          | .oof => .oof
        else .ok lhs ts
      | _ => .ok lhs ts
end

/-- the first token of `rest`, if an operator, has precedence ≤ c -/
def Cond (c : Nat) : List Tok → Prop
  | .op o :: _ => o.prec ≤ c
  | _ => True

/-- `rest` does not start with an operator at all -/
def NoOp : List Tok → Prop
  | .op _ :: _ => False
  | _ => True

theorem mono :
    ∀ f, (∀ m ts r, parseE f m ts = r → r ≠ .oof → parseE (f+1) m ts = r) ∧
         (∀ ts r, parseAtom f ts = r → r ≠ .oof → parseAtom (f+1) ts = r) ∧
         (∀ m l ts r, loop f m l ts = r → r ≠ .oof → loop (f+1) m l ts = r) := by
  intro f
  induction f with
  | zero =>
    refine ⟨?_, ?_, ?_⟩ <;> intros <;> simp_all [parseE, parseAtom, loop]
  | succ f ih =>
    obtain ⟨ihE, ihA, ihL⟩ := ih
    refine ⟨?_, ?_, ?_⟩
    · intro m ts r h hr
      rw [parseE] at h
      rw [parseE]
      cases hA : parseAtom f ts with
      | ok lhs ts' =>
        rw [hA] at h; simp only at h
        rw [ihA ts _ hA (by simp)]; simp only
        exact ihL _ _ _ _ h hr
      | fail => rw [hA] at h; simp only at h; subst h; rw [ihA ts _ hA (by simp)]
      | oof => rw [hA] at h; simp only at h; exact absurd h.symm hr
    · intro ts r h hr
      match ts with
      | [] => simp [parseAtom] at h ⊢; exact h
      | .atom n :: ts => simp [parseAtom] at h ⊢; exact h
      | .op o :: ts => simp [parseAtom] at h ⊢; exact h
      | .rp :: ts => simp [parseAtom] at h ⊢; exact h
      | .lp :: ts =>
        rw [parseAtom] at h
        rw [parseAtom]
        cases hE : parseE f 0 ts with
        | ok e rest =>
          rw [hE] at h
          rw [ihE _ _ _ hE (by simp)]
          exact h
        | fail => rw [hE] at h; rw [ihE _ _ _ hE (by simp)]; exact h
        | oof => rw [hE] at h; simp only at h; exact absurd h.symm hr
    · intro m l ts r h hr
      match ts with
      | [] => simp [loop] at h ⊢; exact h
      | .atom n :: ts => simp [loop] at h ⊢; exact h
      | .lp :: ts => simp [loop] at h ⊢; exact h
      | .rp :: ts => simp [loop] at h ⊢; exact h
      | .op o :: ts' =>
        rw [loop] at h
        rw [loop]
        split at h
        · rename_i hle
          simp only [hle, if_true]
          cases hE : parseE f (o.prec + 1) ts' with
          | ok rhs ts'' =>
            rw [hE] at h; simp only at h
            rw [ihE _ _ _ hE (by simp)]; simp only
            exact ihL _ _ _ _ h hr
          | fail => rw [hE] at h; simp only at h; rw [ihE _ _ _ hE (by simp)]; exact h
          | oof => rw [hE] at h; simp only at h; exact absurd h.symm hr
        · rename_i hle
          simp only [hle, if_false]; exact h

end Climb

namespace Climb

theorem monoE (f k m ts r) (h : parseE f m ts = r) (hr : r ≠ .oof) : parseE (f + k) m ts = r := by
  induction k with
  | zero => exact h
  | succ k ih => exact (mono (f + k)).1 _ _ _ ih hr

theorem monoL (f k m l ts r) (h : loop f m l ts = r) (hr : r ≠ .oof) : loop (f + k) m l ts = r := by
  induction k with
  | zero => exact h
  | succ k ih => exact (mono (f + k)).2.2 _ _ _ _ ih hr

theorem loop_pos {f m l ts r} (h : loop f m l ts = r) (hr : r ≠ .oof) : 0 < f := by
  cases f with
  | zero => simp [loop] at h; exact absurd h.symm hr
  | succ f => omega

theorem loop_stop (f m l ts) (h : ∀ o ts', ts = .op o :: ts' → o.prec < m) :
    loop (f+1) m l ts = .ok l ts := by
  match ts with
  | [] => simp [loop]
  | .atom n :: ts => simp [loop]
  | .lp :: ts => simp [loop]
  | .rp :: ts => simp [loop]
  | .op o :: ts' =>
    have := h o ts' rfl
    simp [loop]; omega

theorem cond_mono {c c' rest} (h : Cond c rest) (hc : c ≤ c') : Cond c' rest := by
  match rest with
  | [] => trivial
  | .atom n :: ts => trivial
  | .lp :: ts => trivial
  | .rp :: ts => trivial
  | .op o :: ts' => simp [Cond] at h ⊢; omega

/-- body of a binary node, printed without the outer parentheses -/
def body (o : Op) (l r : Expr) : List Tok := pr o.prec l ++ [.op o] ++ pr (o.prec + 1) r

/-- Main lemma: parsing the printing of `e` (printed for context `c ≥ minp`) followed by `rest`
    is the same as being in the loop at level `minp` with `e` accumulated and `rest` ahead. -/
theorem climb (e : Expr) : ∃ k, ∀ c minp rest f r, minp ≤ c → Cond c rest →
    loop f minp e rest = r → r ≠ .oof → parseE (f + k) minp (pr c e ++ rest) = r := by
  induction e with
  | leaf n =>
    refine ⟨2, ?_⟩
    intro c minp rest f r _ _ h hr
    show parseE (f + 1 + 1) minp (.atom n :: rest) = r
    rw [parseE]
    simp only [parseAtom]
    exact monoL f 1 _ _ _ _ h hr
  | bin o l rr ihl ihr =>
    obtain ⟨kl, ihl⟩ := ihl
    obtain ⟨kr, ihr⟩ := ihr
    -- un-parenthesised form
    have hbody : ∀ c minp rest f r, minp ≤ c → c ≤ o.prec → Cond c rest →
        loop f minp (.bin o l rr) rest = r → r ≠ .oof →
        parseE (f + kr + 1 + kl) minp (body o l rr ++ rest) = r := by
      intro c minp rest f r hm hc hcond h hr
      have hf := loop_pos h hr
      have hR : body o l rr ++ rest = pr o.prec l ++ (.op o :: (pr (o.prec + 1) rr ++ rest)) := by
        simp [body]
      rw [hR]
      apply ihl o.prec minp _ (f + kr + 1) r (by omega) (by simp [Cond]) _ hr
      rw [loop]
      simp only [show minp ≤ o.prec by omega, if_true]
      have hrhs : parseE (f + kr) (o.prec + 1) (pr (o.prec + 1) rr ++ rest) = .ok rr rest := by
        apply ihr (o.prec + 1) (o.prec + 1) rest f _ (Nat.le_refl _) (cond_mono hcond (by omega)) _ (by simp)
        obtain ⟨f', rfl⟩ : ∃ f', f = f' + 1 := ⟨f - 1, by omega⟩
        apply loop_stop
        intro o' ts' hts
        subst hts
        simp [Cond] at hcond
        omega
      rw [hrhs]
      exact monoL f kr _ _ _ _ h hr
    refine ⟨kr + 1 + kl + 2, ?_⟩
    intro c minp rest f r hm hcond h hr
    have hf := loop_pos h hr
    by_cases hp : o.prec < c
    · -- parenthesised
      have hpr : pr c (.bin o l rr) ++ rest = .lp :: (body o l rr ++ (.rp :: rest)) := by
        simp [pr, hp, body]
      rw [hpr, show f + (kr + 1 + kl + 2) = (f + kr + 1 + kl) + 1 + 1 by omega, parseE, parseAtom]
      have hin : parseE (f + kr + 1 + kl) 0 (body o l rr ++ (.rp :: rest)) = .ok (.bin o l rr) (.rp :: rest) := by
        apply hbody 0 0 (.rp :: rest) f _ (Nat.le_refl _) (Nat.zero_le _) (by simp [Cond]) _ (by simp)
        obtain ⟨f', rfl⟩ : ∃ f', f = f' + 1 := ⟨f - 1, by omega⟩
        apply loop_stop
        intro o' ts' hts
        cases hts
      rw [hin]
      simp only
      have := monoL f (kr + 1 + kl + 1) _ _ _ _ h hr
      rw [show f + (kr + 1 + kl + 1) = f + kr + 1 + kl + 1 by omega] at this
      exact this
    · have hpr : pr c (.bin o l rr) ++ rest = body o l rr ++ rest := by
        simp [pr, hp, body]
      rw [hpr]
      have := hbody c minp rest f r hm (by omega) hcond h hr
      have := monoE _ 2 _ _ _ this hr
      rw [show f + (kr + 1 + kl + 2) = f + kr + 1 + kl + 2 by omega]
      exact this

/-- Round trip: every tree, printed with minimal parentheses, parses back to itself. -/
theorem roundtrip (e : Expr) (rest : List Tok) (h : NoOp rest) :
    ∃ fuel, parseE fuel 0 (pr 0 e ++ rest) = .ok e rest := by
  obtain ⟨k, hk⟩ := climb e
  refine ⟨1 + k, ?_⟩
  apply hk 0 0 rest 1 _ (Nat.le_refl _) _ _ (by simp)
  · match rest, h with
    | [], _ => trivial
    | .atom _ :: _, _ => trivial
    | .lp :: _, _ => trivial
    | .rp :: _, _ => trivial
  · apply loop_stop
    intro o ts' hts
    subst hts
    exact absurd h (by simp [NoOp])

-- non-vacuity / sanity: a + b * c - d  with prec(+,-)=5, prec(*)=6
def plus : Op := ⟨0, 5⟩
def minus : Op := ⟨1, 5⟩
def times : Op := ⟨2, 6⟩
def ex1 : Expr := .bin minus (.bin plus (.leaf 1) (.bin times (.leaf 2) (.leaf 3))) (.leaf 4)
def ex2 : Expr := .bin times (.bin plus (.leaf 1) (.leaf 2)) (.bin minus (.leaf 3) (.bin minus (.leaf 4) (.leaf 5)))
example : parseE 50 0 (pr 0 ex1) = .ok ex1 [] := by decide
example : parseE 50 0 (pr 0 ex2) = .ok ex2 [] := by decide

end Climb
