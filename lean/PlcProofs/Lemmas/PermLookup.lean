import PlcModel.Analyze
import PlcProofs.Lemmas.Analyze

/-!
# Name lookups of the analysis model are invariant under permutation of the declarations

`find?` with a predicate that at most one declaration satisfies does not depend on the order of the
list.  After the duplicate stage (`dupCodes ds = []`) and the type / function block clash test, every
lookup of the later stages (alias chains, type table, callee, enumeration values) is of that kind.
-/

namespace PermLookup

theorem find?_of_unique {α} (p : α → Bool) (l : List α) (a : α) (ha : a ∈ l) (hp : p a = true)
    (uniq : ∀ x ∈ l, ∀ y ∈ l, p x = true → p y = true → x = y) : l.find? p = some a := by
  induction l with
  | nil => cases ha
  | cons x xs ih =>
    by_cases hx : p x = true
    · have : x = a := uniq x (List.mem_cons_self) a ha hx hp
      subst this
      simp [List.find?, hx]
    · have hx' : p x = false := by simpa using hx
      have hne : a ≠ x := by intro h; subst h; rw [hp] at hx'; cases hx'
      have ha' : a ∈ xs := by
        cases ha with
        | head => exact absurd rfl hne
        | tail _ h => exact h
      simp only [List.find?, hx']
      exact ih ha' (fun x hx y hy => uniq x (List.mem_cons_of_mem _ hx) y (List.mem_cons_of_mem _ hy))

theorem find?_perm {α} (p : α → Bool) {l l' : List α} (h : l.Perm l')
    (uniq : ∀ x ∈ l, ∀ y ∈ l, p x = true → p y = true → x = y) : l.find? p = l'.find? p := by
  by_cases hex : ∃ a ∈ l, p a = true
  · obtain ⟨a, ha, hp⟩ := hex
    rw [find?_of_unique p l a ha hp uniq]
    rw [find?_of_unique p l' a (h.mem_iff.mp ha) hp
      (fun x hx y hy => uniq x (h.mem_iff.mpr hx) y (h.mem_iff.mpr hy))]
  · have hn : ∀ a ∈ l, p a = false := by
      intro a ha
      cases hpa : p a with
      | false => rfl
      | true => exact absurd ⟨a, ha, hpa⟩ hex
    rw [List.find?_eq_none.mpr (by intro a ha; simp [hn a ha])]
    rw [List.find?_eq_none.mpr (by intro a ha; simp [hn a (h.mem_iff.mpr ha)])]

theorem any_perm {α} (p : α → Bool) {l l' : List α} (h : l.Perm l') : l.any p = l'.any p := by
  rw [Bool.eq_iff_iff]
  simp only [List.any_eq_true]
  constructor
  · rintro ⟨a, ha, hp⟩; exact ⟨a, h.mem_iff.mp ha, hp⟩
  · rintro ⟨a, ha, hp⟩; exact ⟨a, h.mem_iff.mpr ha, hp⟩

/-- no two declarations share the key (type-or-not, name) once the duplicate stage is passed -/
theorem key_unique (ds : List ADecl) (h : dupCodes ds = []) :
    ∀ a ∈ ds, ∀ b ∈ ds, a.isType = b.isType → a.name = b.name → a = b := by
  induction ds with
  | nil => intro a ha; cases ha
  | cons d rest ih =>
    simp only [dupCodes, List.append_eq_nil_iff] at h
    obtain ⟨h1, h2⟩ := h
    have hno : rest.any (fun d' => d'.isType == d.isType && d'.name == d.name) = false := by
      cases hh : rest.any (fun d' => d'.isType == d.isType && d'.name == d.name) with
      | false => rfl
      | true => simp [hh] at h1
    have hno' : ∀ x ∈ rest, ¬ (x.isType = d.isType ∧ x.name = d.name) := by
      intro x hx hc
      have : rest.any (fun d' => d'.isType == d.isType && d'.name == d.name) = true := by
        rw [List.any_eq_true]
        exact ⟨x, hx, by simp [hc.1, hc.2]⟩
      rw [hno] at this; cases this
    intro a ha b hb hty hnm
    cases ha with
    | head =>
      cases hb with
      | head => rfl
      | tail _ hb' => exact absurd ⟨hty.symm, hnm.symm⟩ (hno' b hb')
    | tail _ ha' =>
      cases hb with
      | head => exact absurd ⟨hty, hnm⟩ (hno' a ha')
      | tail _ hb' => exact ih h2 a ha' b hb' hty hnm

/-! ## the lookups

The predicates are taken as parameters with what they imply, so that the lemmas apply to the anonymous
functions (and their private matchers) inside the model definitions. -/

theorem typeFind_perm {ds ds' : List ADecl} (h : ds.Perm ds') (hd : dupCodes ds = []) (n : Nat)
    (p : ADecl → Bool) (hp : ∀ d, p d = true → d.isType = true ∧ d.name = n) :
    ds.find? p = ds'.find? p := by
  apply find?_perm _ h
  intro x hx y hy px py
  have ⟨tx, nx⟩ := hp x px
  have ⟨ty, ny⟩ := hp y py
  exact key_unique ds hd x hx y hy (by rw [tx, ty]) (by rw [nx, ny])

theorem fbFind_perm {ds ds' : List ADecl} (h : ds.Perm ds') (hd : dupCodes ds = []) (n : Nat)
    (p : ADecl → Bool) (hp : ∀ d, p d = true → d.isType = false ∧ d.name = n) :
    ds.find? p = ds'.find? p := by
  apply find?_perm _ h
  intro x hx y hy px py
  have ⟨tx, nx⟩ := hp x px
  have ⟨ty, ny⟩ := hp y py
  exact key_unique ds hd x hx y hy (by rw [tx, ty]) (by rw [nx, ny])

theorem clash_of (ds : List ADecl) (x : ADecl) (n : Nat) (vs : List AVar) (bd : List AStmt) (hx : x ∈ ds)
    (hy : ADecl.fb n vs bd ∈ ds) (tx : x.isType = true) (hn : n = x.name) : typeFbClash ds = true := by
  unfold typeFbClash
  rw [List.any_eq_true]
  refine ⟨x, hx, ?_⟩
  simp only [tx, Bool.true_and, List.any_eq_true]
  exact ⟨.fb n vs bd, hy, by simp [ADecl.name, hn]⟩

theorem tableFind_perm {ds ds' : List ADecl} (h : ds.Perm ds') (hd : dupCodes ds = [])
    (hc : typeFbClash ds = false) (n : Nat) (p : ADecl → Bool)
    (hp : ∀ d, p d = true → (d.isType = true ∨ ∃ m vs bd, d = .fb m vs bd) ∧ d.name = n) :
    ds.find? p = ds'.find? p := by
  apply find?_perm _ h
  intro x hx y hy px py
  have ⟨kx, nx⟩ := hp x px
  have ⟨ky, ny⟩ := hp y py
  have hname : x.name = y.name := by rw [nx, ny]
  by_cases hty : x.isType = y.isType
  · exact key_unique ds hd x hx y hy hty hname
  · exfalso
    rcases kx with tx | ⟨m, vs, bd, rfl⟩
    · rcases ky with ty | ⟨m, vs, bd, rfl⟩
      · exact hty (by rw [tx, ty])
      · have := clash_of ds x m vs bd hx hy tx (by simpa [ADecl.name] using hname.symm)
        rw [hc] at this; cases this
    · rcases ky with ty | ⟨m', vs', bd', rfl⟩
      · have := clash_of ds y m vs bd hy hx ty (by simpa [ADecl.name] using hname)
        rw [hc] at this; cases this
      · exact hty (by simp [ADecl.isType])

theorem aliasRoot_perm {ds ds' : List ADecl} (h : ds.Perm ds') (hd : dupCodes ds = []) :
    ∀ fuel n, aliasRoot ds fuel n = aliasRoot ds' fuel n
  | 0, _ => rfl
  | f+1, n => by
    simp only [aliasRoot]
    rw [typeFind_perm h hd n _ (by intro d hd'; simpa using hd')]
    split <;> first | rfl | exact aliasRoot_perm h hd f _

theorem enumValues_perm {ds ds' : List ADecl} (h : ds.Perm ds') (hd : dupCodes ds = []) :
    ∀ fuel n, enumValues ds fuel n = enumValues ds' fuel n
  | 0, _ => rfl
  | f+1, n => by
    simp only [enumValues]
    rw [typeFind_perm h hd n _ (by intro d hd'; simpa using hd')]
    split <;> first | rfl | exact enumValues_perm h hd f _

theorem findFb_perm {ds ds' : List ADecl} (h : ds.Perm ds') (hd : dupCodes ds = []) (n : Nat) :
    findFb ds n = findFb ds' n := by
  unfold findFb
  exact fbFind_perm h hd n _ (by intro d hd'; cases d <;> simp_all [ADecl.isType])

theorem typeKind_perm {ds ds' : List ADecl} (h : ds.Perm ds') (hd : dupCodes ds = [])
    (hc : typeFbClash ds = false) (n : Nat) : typeKind ds n = typeKind ds' n := by
  unfold typeKind
  rw [tableFind_perm h hd hc n _ (by intro d hd'; cases d <;> simp_all [ADecl.isType]), h.length_eq]
  split <;> first | rfl | (simp only [aliasRoot_perm h hd])

/-! ## the stages that use the lookups -/

section stages
variable {ds ds' : List ADecl} (h : ds.Perm ds') (hd : dupCodes ds = [])
include h hd

theorem aliasRoot_fun : aliasRoot ds = aliasRoot ds' := by
  funext f n; exact aliasRoot_perm h hd f n

theorem enumValues_fun : enumValues ds = enumValues ds' := by
  funext f n; exact enumValues_perm h hd f n

theorem findFb_fun : findFb ds = findFb ds' := by
  funext n; exact findFb_perm h hd n

theorem aliasUnsupported_perm : aliasUnsupported ds = aliasUnsupported ds' := by
  unfold aliasUnsupported
  rw [aliasRoot_fun h hd, h.length_eq]
  exact any_perm _ h

omit hd in
theorem exprUnsupported_perm : exprUnsupported ds = exprUnsupported ds' := by
  unfold exprUnsupported
  exact any_perm _ h

omit hd in
theorem typeFbClash_perm : typeFbClash ds = typeFbClash ds' := by
  unfold typeFbClash
  rw [any_perm _ h]
  congr 1
  funext d
  rw [any_perm _ h]

omit hd in
theorem lateTypeRefs_perm : (lateTypeRefs ds).Perm (lateTypeRefs ds') := by
  unfold lateTypeRefs
  exact h.flatMap_right _

variable (hc : typeFbClash ds = false)
include hc

theorem typeKind_fun : typeKind ds = typeKind ds' := by
  funext n; exact typeKind_perm h hd hc n

theorem isFbVar_fun : isFbVar ds = isFbVar ds' := by
  funext v; unfold isFbVar; rw [typeKind_fun h hd hc]

theorem isEnumVar_fun : isEnumVar ds = isEnumVar ds' := by
  funext v; unfold isEnumVar; rw [typeKind_fun h hd hc]

theorem isStructVar_fun : isStructVar ds = isStructVar ds' := by
  funext v; unfold isStructVar; rw [typeKind_fun h hd hc]

theorem callCode_fun : callCode ds = callCode ds' := by
  funext d i f p o
  unfold callCode
  rw [isFbVar_fun h hd hc, findFb_fun h hd]

theorem unknownTypes_perm : (unknownTypes ds).Perm (unknownTypes ds') := by
  unfold unknownTypes
  rw [typeKind_fun h hd hc]
  exact (lateTypeRefs_perm h).filter _

theorem typeInitUnsupported_perm : typeInitUnsupported ds = typeInitUnsupported ds' := by
  unfold typeInitUnsupported
  rw [typeKind_fun h hd hc]
  exact any_perm _ (lateTypeRefs_perm h)

end stages

/-! ## the rules -/

theorem grp_nil (l : List Nat) : grp l = [] ↔ l = [] := by
  unfold grp
  cases l <;> simp

theorem nil_iff_of_perm {α} {l l' : List α} (h : l.Perm l') : l = [] ↔ l' = [] :=
  ⟨fun e => (e ▸ h).symm.eq_nil, fun e => (e ▸ h.symm).symm.eq_nil⟩

theorem grp_perm {l l' : List Nat} (h : l.Perm l') : grp l = [] ↔ grp l' = [] := by
  rw [grp_nil, grp_nil]; exact nil_iff_of_perm h

theorem contains_flatMap_perm {α β} [BEq β] {l l' : List α} (h : l.Perm l') (g : α → List β) :
    List.contains (l.flatMap g) = List.contains (l'.flatMap g) := by
  funext a; exact (h.flatMap_right g).contains_eq

theorem constInit_nil (sites : List Nat) :
    (if sites.contains P9999 then [[P9999]] else grp sites) = [] ↔ sites = [] := by
  by_cases hc : sites.contains P9999 = true
  · simp only [hc, if_true]
    constructor
    · intro e; cases e
    · intro e; subst e; simp at hc
  · simp only [hc, Bool.false_eq_true, if_false]
    exact grp_nil sites

section rules
variable {ds ds' : List ADecl} (h : ds.Perm ds')
include h

theorem ruleStruct_perm : ruleStruct ds = [] ↔ ruleStruct ds' = [] := by
  unfold ruleStruct; exact grp_perm (h.filterMap _)

theorem ruleSubrange_perm : ruleSubrange ds = [] ↔ ruleSubrange ds' = [] := by
  unfold ruleSubrange; exact grp_perm (h.filterMap _)

theorem ruleEnumUnique_perm : ruleEnumUnique ds = [] ↔ ruleEnumUnique ds' = [] := by
  unfold ruleEnumUnique; exact grp_perm (h.filterMap _)

theorem ruleTask_perm : ruleTask ds = [] ↔ ruleTask ds' = [] := by
  unfold ruleTask; exact grp_perm (h.flatMap_right _)

theorem ruleVarUse_perm : ruleVarUse ds = [] ↔ ruleVarUse ds' = [] := by
  unfold ruleVarUse; exact grp_perm (h.flatMap_right _)

theorem ruleStdlib_perm : ruleStdlib ds = [] ↔ ruleStdlib ds' = [] := by
  unfold ruleStdlib; exact grp_perm (h.flatMap_right _)

theorem ruleExternalConst_perm : ruleExternalConst ds = [] ↔ ruleExternalConst ds' = [] := by
  unfold ruleExternalConst
  simp only []
  rw [contains_flatMap_perm h]
  exact grp_perm (h.flatMap_right _)

variable (hd : dupCodes ds = []) (hc : typeFbClash ds = false)
include hd hc

theorem ruleFbCall_perm : ruleFbCall ds = [] ↔ ruleFbCall ds' = [] := by
  unfold ruleFbCall
  rw [callCode_fun h hd hc]
  exact grp_perm (h.flatMap_right _)

theorem ruleEnumUse_perm : ruleEnumUse ds = [] ↔ ruleEnumUse ds' = [] := by
  unfold ruleEnumUse
  rw [isEnumVar_fun h hd hc, enumValues_fun h hd, h.length_eq]
  exact grp_perm (h.flatMap_right _)

theorem ruleConstFb_perm : ruleConstFb ds = [] ↔ ruleConstFb ds' = [] := by
  unfold ruleConstFb
  rw [isFbVar_fun h hd hc]
  exact grp_perm (h.flatMap_right _)

theorem ruleConstInit_perm : ruleConstInit ds = [] ↔ ruleConstInit ds' = [] := by
  unfold ruleConstInit
  simp only []
  rw [constInit_nil, constInit_nil, isFbVar_fun h hd hc, isStructVar_fun h hd hc]
  exact nil_iff_of_perm (h.flatMap_right _)

/-- all eleven rules are silent on one order iff they are silent on every other -/
theorem rules_perm : rules ds = [] ↔ rules ds' = [] := by
  unfold rules
  simp only [List.append_eq_nil_iff]
  rw [ruleStruct_perm h, ruleSubrange_perm h, ruleEnumUnique_perm h, ruleFbCall_perm h hd hc, ruleTask_perm h,
    ruleEnumUse_perm h hd hc, ruleVarUse_perm h, ruleStdlib_perm h, ruleConstInit_perm h hd hc, ruleConstFb_perm h hd hc,
    ruleExternalConst_perm h]

end rules

/-- one direction of the invariance of all stages after the duplicate stage -/
theorem lookup_stages_mp {ds ds' : List ADecl} (h : ds.Perm ds') (hd : dupCodes ds = []) :
    (aliasUnsupported ds = false ∧ exprUnsupported ds = false ∧ typeFbClash ds = false ∧
      typeInitUnsupported ds = false ∧ unknownTypes ds = [] ∧ rules ds = []) →
    (aliasUnsupported ds' = false ∧ exprUnsupported ds' = false ∧ typeFbClash ds' = false ∧
      typeInitUnsupported ds' = false ∧ unknownTypes ds' = [] ∧ rules ds' = []) := by
  rintro ⟨h1, h2, h3, h4, h5, h6⟩
  refine ⟨?_, ?_, ?_, ?_, ?_, ?_⟩
  · rw [← aliasUnsupported_perm h hd]; exact h1
  · rw [← exprUnsupported_perm h]; exact h2
  · rw [← typeFbClash_perm h]; exact h3
  · rw [← typeInitUnsupported_perm h hd h3]; exact h4
  · exact (nil_iff_of_perm (unknownTypes_perm h hd h3)).mp h5
  · exact (rules_perm h hd h3).mp h6

/-- The name-lookup stages and the rules give the same verdict in every declaration order (given that
the duplicate stage is passed, which is itself order independent). -/
theorem lookup_stages_perm {ds ds' : List ADecl} (h : ds.Perm ds') (hd : dupCodes ds = []) (hd' : dupCodes ds' = []) :
    (aliasUnsupported ds = false ∧ exprUnsupported ds = false ∧ typeFbClash ds = false ∧
      typeInitUnsupported ds = false ∧ unknownTypes ds = [] ∧ rules ds = []) ↔
    (aliasUnsupported ds' = false ∧ exprUnsupported ds' = false ∧ typeFbClash ds' = false ∧
      typeInitUnsupported ds' = false ∧ unknownTypes ds' = [] ∧ rules ds' = []) :=
  ⟨lookup_stages_mp h hd, lookup_stages_mp h.symm hd'⟩

end PermLookup
