import PlcProofs.Lemmas.Lex

/-! Case closure of the token table: changing ASCII letter case anywhere in a text does not change
how it is cut into tokens (C08). -/

def swapCase (c : Char) : Char :=
  if 97 ≤ c.toNat ∧ c.toNat ≤ 122 then Char.ofNat (c.toNat - 32)
  else if 65 ≤ c.toNat ∧ c.toNat ≤ 90 then Char.ofNat (c.toNat + 32)
  else c

/-- re-spell a text: swap the case of the chars selected by the mask -/
def respell : List Bool → List Char → List Char
  | b :: bs, c :: cs => (if b then swapCase c else c) :: respell bs cs
  | _, cs => cs

/-- a character class treats the two cases of every ASCII letter alike -/
def classClosed (rs : List (Char × Char)) : Bool :=
  (List.range 26).all fun i => Re.inRanges rs (Char.ofNat (65 + i)) == Re.inRanges rs (Char.ofNat (97 + i))

def Re.closed : Re → Bool
  | .cls _ rs => classClosed rs
  | .seq a b => a.closed && b.closed
  | .alt a b => a.closed && b.closed
  | .star a => a.closed
  | _ => true

theorem swapCase_cases (c : Char) :
    swapCase c = c ∨ (∃ i, i < 26 ∧ ((c = Char.ofNat (65 + i) ∧ swapCase c = Char.ofNat (97 + i)) ∨
                                      (c = Char.ofNat (97 + i) ∧ swapCase c = Char.ofNat (65 + i)))) := by
  unfold swapCase
  by_cases h1 : 97 ≤ c.toNat ∧ c.toNat ≤ 122
  · right
    refine ⟨c.toNat - 97, by omega, Or.inr ⟨?_, ?_⟩⟩
    · have : 97 + (c.toNat - 97) = c.toNat := by omega
      rw [this, Char.ofNat_toNat]
    · simp only [h1, and_self, if_true]; congr 1; omega
  · by_cases h2 : 65 ≤ c.toNat ∧ c.toNat ≤ 90
    · right
      refine ⟨c.toNat - 65, by omega, Or.inl ⟨?_, ?_⟩⟩
      · have : 65 + (c.toNat - 65) = c.toNat := by omega
        rw [this, Char.ofNat_toNat]
      · simp only [h1, h2, and_self, if_false, if_true]; congr 1; omega
    · left; simp [h1, h2]

theorem inRanges_swapCase (rs : List (Char × Char)) (h : classClosed rs = true) (c : Char) :
    Re.inRanges rs (swapCase c) = Re.inRanges rs c := by
  rcases swapCase_cases c with h0 | ⟨i, hi, hc⟩
  · rw [h0]
  · have := (List.all_eq_true.mp h) i (by simpa using hi)
    simp only [beq_iff_eq] at this
    rcases hc with ⟨h1, h2⟩ | ⟨h1, h2⟩
    · rw [h2, h1]; exact this.symm
    · rw [h2, h1]; exact this

/-- no ASCII letter is a Unicode decimal digit -/
theorem isNd_letters : ∀ i, i < 26 → isNd (Char.ofNat (65 + i)) = false ∧ isNd (Char.ofNat (97 + i)) = false := by
  decide +kernel

theorem isNd_swapCase (c : Char) : isNd (swapCase c) = isNd c := by
  rcases swapCase_cases c with h0 | ⟨i, hi, hc⟩
  · rw [h0]
  · have := isNd_letters i hi
    rcases hc with ⟨h1, h2⟩ | ⟨h1, h2⟩
    · rw [h2, h1, this.1, this.2]
    · rw [h2, h1, this.1, this.2]

theorem deriv_swapCase (r : Re) (h : r.closed = true) (c : Char) :
    Re.deriv isNd (swapCase c) r = Re.deriv isNd c r := by
  induction r with
  | empty => rfl
  | eps => rfl
  | digit => simp [Re.deriv, isNd_swapCase]
  | cls neg rs => simp only [Re.closed] at h; simp [Re.deriv, inRanges_swapCase rs h]
  | seq a b iha ihb =>
    simp only [Re.closed, Bool.and_eq_true] at h
    simp [Re.deriv, iha h.1, ihb h.2]
  | alt a b iha ihb =>
    simp only [Re.closed, Bool.and_eq_true] at h
    simp [Re.deriv, iha h.1, ihb h.2]
  | star a iha =>
    simp only [Re.closed] at h
    simp [Re.deriv, iha h]

theorem closed_mkSeq (a b : Re) (ha : a.closed = true) (hb : b.closed = true) : (Re.mkSeq a b).closed = true := by
  unfold Re.mkSeq
  split <;> simp_all [Re.closed]

theorem closed_mkAlt (a b : Re) (ha : a.closed = true) (hb : b.closed = true) : (Re.mkAlt a b).closed = true := by
  unfold Re.mkAlt
  split
  · exact hb
  · exact ha
  · split <;> simp_all [Re.closed]

theorem closed_deriv (r : Re) (h : r.closed = true) (c : Char) : (Re.deriv isNd c r).closed = true := by
  induction r with
  | empty => rfl
  | eps => rfl
  | digit => simp only [Re.deriv]; split <;> rfl
  | cls neg rs => simp only [Re.deriv]; split <;> rfl
  | seq a b iha ihb =>
    simp only [Re.closed, Bool.and_eq_true] at h
    simp only [Re.deriv]
    split
    · exact closed_mkAlt _ _ (closed_mkSeq _ _ (iha h.1) h.2) (ihb h.2)
    · exact closed_mkSeq _ _ (iha h.1) h.2
  | alt a b iha ihb =>
    simp only [Re.closed, Bool.and_eq_true] at h
    exact closed_mkAlt _ _ (iha h.1) (ihb h.2)
  | star a iha =>
    simp only [Re.closed] at h
    exact closed_mkSeq _ _ (iha h) (by simpa [Re.closed] using h)

theorem longestGo_respell (r : Re) (h : r.closed = true) : ∀ (s : List Char) (mask : List Bool) (n : Nat) (best : Option Nat),
    Re.longestGo isNd r (respell mask s) n best = Re.longestGo isNd r s n best := by
  intro s
  induction s generalizing r with
  | nil => intro mask n best; cases mask <;> rfl
  | cons c cs ih =>
    intro mask n best
    cases mask with
    | nil => rfl
    | cons b bs =>
      have hd : Re.deriv isNd (if b then swapCase c else c) r = Re.deriv isNd c r := by
        cases b
        · rfl
        · simpa using deriv_swapCase r h c
      simp only [respell, Re.longestGo, hd]
      split
      · rfl
      · exact ih _ (closed_deriv r h c) bs _ _

theorem longest_respell (r : Re) (h : r.closed = true) (s : List Char) (mask : List Bool) :
    Re.longest isNd r (respell mask s) = Re.longest isNd r s :=
  longestGo_respell r h s mask 0 _

theorem respell_length (mask : List Bool) (s : List Char) : (respell mask s).length = s.length := by
  induction s generalizing mask with
  | nil => cases mask <;> rfl
  | cons c cs ih => cases mask with
    | nil => rfl
    | cons b bs => simp [respell, ih]
