import PlcProofs.Lemmas.MirrorVars

/-!
# Function blocks in the library round trip

`Parse.functionBlockDeclaration` reads `FUNCTION_BLOCK name [VAR n : T; … END_VAR] statements END_FUNCTION_BLOCK`
(the same variable block and statements as for programs) back to the tree that was written, and `Parse.library`
reads every sequence of such function blocks and programs, in any order, back to the library in source order.
-/

open P Parse

namespace MX

/-- the alternatives of the variable blocks of a function block fail on a token that starts none of them -/
theorem fbVarBlocks_none (t : Item) (ts : List Item)
    (h : t.ty ≠ "VarAccess" ∧ t.ty ≠ "VarInput" ∧ t.ty ≠ "VarOutput" ∧ t.ty ≠ "VarInOut" ∧ t.ty ≠ "VarExternal" ∧ t.ty ≠ "Var") :
    (ioVarDeclarations <|> (do let o ← otherVarDeclarations; pure [o]) : P (List VD)) (t :: ts) = none := by
  obtain ⟨_, h2, h3, h4, h5, h6⟩ := h
  have a2 : ioVarDeclarations (t :: ts) = none := by
    rw [ioVarDeclarations]
    rw [orElse_none _ _ _ (by rw [inputDeclarations]; exact bind_none _ _ _ (tok_miss _ _ _ h2))]
    rw [orElse_none _ _ _ (by apply bind_none; rw [outputDeclarations]; exact bind_none _ _ _ (tok_miss _ _ _ h3))]
    apply bind_none; rw [inputOutputDeclarations]; exact bind_none _ _ _ (tok_miss _ _ _ h4)
  rw [orElse_none _ _ _ a2]
  apply bind_none
  rw [otherVarDeclarations]
  rw [orElse_none _ _ _ (by rw [externalVarDeclarations]; exact bind_none _ _ _ (tok_miss _ _ _ h5))]
  rw [orElse_none _ _ _ (by rw [varDeclarations]; exact bind_none _ _ _ (tok_miss _ _ _ h6))]
  rw [orElse_none _ _ _ (by rw [retentiveVarDeclarations]; exact bind_none _ _ _ (tok_miss _ _ _ h6))]
  rw [orElse_none _ _ _ (by rw [retentiveVarDeclarations]; exact bind_none _ _ _ (tok_miss _ _ _ h6))]
  rw [incomplLocatedVarDeclarations]; exact bind_none _ _ _ (tok_miss _ _ _ h6)

/-- `FUNCTION_BLOCK name [VAR … END_VAR] statements END_FUNCTION_BLOCK` (`vars = none`: no variable block) -/
structure Fb where
  kFb : Item
  name : Item
  vars : Option (Item × VarD × List VarD × Item)
  body : Stl
  kEnd : Item

namespace Fb

def varToks : Option (Item × VarD × List VarD × Item) → List Item
  | none => []
  | some (kVar, d, ds, kEndVar) => kVar :: (declToks (d :: ds) ++ [kEndVar])

def varSx : Option (Item × VarD × List VarD × Item) → List Sx
  | none => []
  | some (_, d, ds, _) => (d :: ds).map VarD.sx

def toks (p : Fb) : List Item := p.kFb :: p.name :: (varToks p.vars ++ (p.body.toks ++ [p.kEnd]))

def WF (p : Fb) : Prop :=
  p.kFb.ty = "FunctionBlock" ∧ p.name.ty = "Identifier" ∧ eqIgnoreAsciiCase p.name.text "END_VAR".toList = false ∧
  p.kEnd.ty = "EndFunctionBlock" ∧ p.body.WF ∧ p.body.isNil = false ∧
  (match p.vars with
   | none => True
   | some (kVar, d, ds, kEndVar) => kVar.ty = "Var" ∧ kEndVar.ty = "EndVar" ∧ ∀ x ∈ d :: ds, x.WF)

def sx (p : Fb) : Sx :=
  .n "FunctionBlockDeclaration" [("name", .a (txt p.name)), ("variables", .l (varSx p.vars)), ("edge_variables", .l []),
    ("body", .t "Statements" [.n "Statements" [("body", .l p.body.sxs)]])]

end Fb

theorem functionBlock_reads (p : Fb) (hp : p.WF) (R : List Item) :
    functionBlockDeclaration (p.toks ++ R) = some (p.sx, R) := by
  obtain ⟨hF, hN, hNot, hE, hb, hne, hv⟩ := hp
  have hK : isCloser p.kEnd.ty = true := by rw [hE]; decide
  obtain ⟨s, semi, rest, hbody⟩ : ∃ s semi rest, p.body = Stl.cons s semi rest := by
    cases hb' : p.body with
    | nil => rw [hb'] at hne; cases hne
    | cons s semi rest => exact ⟨s, semi, rest, rfl⟩
  have hs : s.WF := by rw [hbody] at hb; exact hb.1
  obtain ⟨t, ts, hts, hstart⟩ := St.head s hs
  let B := p.body.toks ++ p.kEnd :: R
  have hB : B = t :: (ts ++ semi :: (rest.toks ++ p.kEnd :: R)) := by
    show p.body.toks ++ p.kEnd :: R = _
    rw [hbody]; simp [Stl.toks, hts, List.append_assoc]
  have hwsB : ws B = some ((), B) := ws_stl p.body hb p.kEnd R hK
  have hnotEndVar : notP (idEq "END_VAR") (p.name :: (Fb.varToks p.vars ++ B)) = some ((), p.name :: (Fb.varToks p.vars ++ B)) := by
    have : idEq "END_VAR" (p.name :: (Fb.varToks p.vars ++ B)) = none := by
      simp only [idEq, tokEq, hNot, Bool.and_false, Bool.false_eq_true, if_false]
    simp only [notP, this]
  have hstop : (do let _ ← ws; (ioVarDeclarations <|> (do let o ← otherVarDeclarations; pure [o]) : P (List VD)) : P (List VD)) B = none := by
    rw [bind_some _ _ _ _ _ hwsB, hB]
    exact fbVarBlocks_none t _ (start_not_var hstart)
  have htoks : p.toks ++ R = p.kFb :: p.name :: (Fb.varToks p.vars ++ B) := by
    simp [Fb.toks, B, List.append_assoc]
  -- the variable blocks: none or one
  have hsep : sepBy (ioVarDeclarations <|> (do let o ← otherVarDeclarations; pure [o]) : P (List VD)) ws (Fb.varToks p.vars ++ B)
      = some ((match p.vars with | none => [] | some _ => [[VD.var (Fb.varSx p.vars)]]), B) := by
    cases hvars : p.vars with
    | none =>
      simp only [Fb.varToks, List.nil_append]
      apply sepBy_of_none
      rw [hB]
      exact fbVarBlocks_none t _ (start_not_var hstart)
    | some v =>
      obtain ⟨kVar, d, ds, kEndVar⟩ := v
      rw [hvars] at hv
      obtain ⟨hV, hEV, hds⟩ := hv
      have hvar := varDeclarations_reads kVar kEndVar d ds B hV hEV hds
      have hnV : kVar.ty ≠ "VarInput" ∧ kVar.ty ≠ "VarOutput" ∧ kVar.ty ≠ "VarInOut" ∧ kVar.ty ≠ "VarExternal" := by
        rw [hV]; exact ⟨by decide, by decide, by decide, by decide⟩
      have htk : Fb.varToks (some (kVar, d, ds, kEndVar)) ++ B = kVar :: (declToks (d :: ds) ++ kEndVar :: B) := by
        simp [Fb.varToks, List.append_assoc]
      rw [htk]
      have halt : (ioVarDeclarations <|> (do let o ← otherVarDeclarations; pure [o]) : P (List VD))
          (kVar :: (declToks (d :: ds) ++ kEndVar :: B)) = some ([VD.var ((d :: ds).map VarD.sx)], B) := by
        have a2 : ioVarDeclarations (kVar :: (declToks (d :: ds) ++ kEndVar :: B)) = none := by
          rw [ioVarDeclarations]
          rw [orElse_none _ _ _ (by rw [inputDeclarations]; exact bind_none _ _ _ (tok_miss _ _ _ hnV.1))]
          rw [orElse_none _ _ _ (by apply bind_none; rw [outputDeclarations]; exact bind_none _ _ _ (tok_miss _ _ _ hnV.2.1))]
          apply bind_none; rw [inputOutputDeclarations]; exact bind_none _ _ _ (tok_miss _ _ _ hnV.2.2.1)
        rw [orElse_none _ _ _ a2]
        have hother : otherVarDeclarations (kVar :: (declToks (d :: ds) ++ kEndVar :: B)) = some (VD.var ((d :: ds).map VarD.sx), B) := by
          rw [otherVarDeclarations]
          rw [orElse_none _ _ _ (by rw [externalVarDeclarations]; exact bind_none _ _ _ (tok_miss _ _ _ hnV.2.2.2))]
          exact orElse_some _ _ _ _ hvar
        rw [bind_some _ _ _ _ _ hother]
        rfl
      have hm : many (do let _ ← ws; (ioVarDeclarations <|> (do let o ← otherVarDeclarations; pure [o]) : P (List VD)) : P (List VD)) B
          = some ([], B) := by
        unfold many; exact manyF_stop _ _ _ hstop
      simp only [sepBy, halt, hm, Fb.varSx]
  have hwsV : ws (Fb.varToks p.vars ++ B) = some ((), Fb.varToks p.vars ++ B) := by
    cases hvars : p.vars with
    | none => simpa [Fb.varToks] using hwsB
    | some v =>
      obtain ⟨kVar, d, ds, kEndVar⟩ := v
      rw [hvars] at hv
      exact ws_cons _ _ (by rw [hv.1]; decide)
  rw [htoks, functionBlockDeclaration]
  rw [bind_some _ _ _ _ _ (tok_hit _ _ _ hF), bind_some _ _ _ _ _ (ws_cons p.name _ (by rw [hN]; decide)),
    bind_some _ _ _ _ _ hnotEndVar, bind_some _ _ _ _ _ (identifier_hit _ _ hN), bind_some _ _ _ _ _ hwsV,
    bind_some _ _ _ _ _ hsep, bind_some _ _ _ _ _ hwsB, bind_some _ _ _ _ _ (fbBody_statements p.body hb hne p.kEnd R hK),
    bind_some _ _ _ _ _ (ws_cons p.kEnd _ (closer_not_trivia hK)), bind_some _ _ _ _ _ (tok_hit _ _ _ hE)]
  cases hvars : p.vars with
  | none => simp only [Fb.sx, hvars, Fb.varSx]; rfl
  | some v => simp only [Fb.sx, hvars, Fb.varSx]; rfl


/-! ### libraries of programs and function blocks -/

theorem libraryElement_fb (p : Fb) (hp : p.WF) (R : List Item) :
    libraryElementDeclaration (p.toks ++ R) = some ([.t "FunctionBlockDeclaration" [p.sx]], R) := by
  have hF : p.kFb.ty = "FunctionBlock" := hp.1
  have htoks : p.toks ++ R = p.kFb :: (p.name :: (Fb.varToks p.vars ++ (p.body.toks ++ [p.kEnd])) ++ R) := by simp [Fb.toks]
  rw [libraryElementDeclaration]
  have h1 : (do let ds ← dataTypeDeclaration; pure (ds.map fun d => Sx.t "DataTypeDeclaration" [d]) : P (List Sx)) (p.toks ++ R) = none := by
    apply bind_none; rw [htoks, dataTypeDeclaration]; exact bind_none _ _ _ (tok_miss _ _ _ (by rw [hF]; decide))
  have h2 : (do let f ← functionDeclaration; pure [Sx.t "FunctionDeclaration" [f]] : P (List Sx)) (p.toks ++ R) = none := by
    apply bind_none; rw [htoks, functionDeclaration]; exact bind_none _ _ _ (tok_miss _ _ _ (by rw [hF]; decide))
  rw [orElse_none _ _ _ h1, orElse_none _ _ _ h2]
  apply orElse_some
  rw [bind_some _ _ _ _ _ (functionBlock_reads p hp R)]
  rfl

/-! ### functions -/

/-- the alternatives of the variable blocks of a function fail on a token that starts none of them -/
theorem fnVarBlocks_none (t : Item) (ts : List Item)
    (h : t.ty ≠ "VarAccess" ∧ t.ty ≠ "VarInput" ∧ t.ty ≠ "VarOutput" ∧ t.ty ≠ "VarInOut" ∧ t.ty ≠ "VarExternal" ∧ t.ty ≠ "Var") :
    (ioVarDeclarations <|> (do let f ← functionVarDecls; pure [f]) : P (List VD)) (t :: ts) = none := by
  obtain ⟨_, h2, h3, h4, _, h6⟩ := h
  have a2 : ioVarDeclarations (t :: ts) = none := by
    rw [ioVarDeclarations]
    rw [orElse_none _ _ _ (by rw [inputDeclarations]; exact bind_none _ _ _ (tok_miss _ _ _ h2))]
    rw [orElse_none _ _ _ (by apply bind_none; rw [outputDeclarations]; exact bind_none _ _ _ (tok_miss _ _ _ h3))]
    apply bind_none; rw [inputOutputDeclarations]; exact bind_none _ _ _ (tok_miss _ _ _ h4)
  rw [orElse_none _ _ _ a2]
  apply bind_none
  rw [functionVarDecls]; exact bind_none _ _ _ (tok_miss _ _ _ h6)

/-- `FUNCTION name : T statements END_FUNCTION` (no variable blocks; `T` an elementary type name, `v` its variant) -/
structure Fn where
  kFn : Item
  name : Item
  colon : Item
  rty : Item
  v : String
  body : Stl
  kEnd : Item

namespace Fn

def toks (p : Fn) : List Item := p.kFn :: p.name :: p.colon :: p.rty :: (p.body.toks ++ [p.kEnd])

def WF (p : Fn) : Prop :=
  p.kFn.ty = "Function" ∧ p.name.ty = "Identifier" ∧ p.colon.ty = "Colon" ∧ p.kEnd.ty = "EndFunction" ∧
  (∀ R, elementaryTypeName (p.rty :: R) = some (p.v, R)) ∧ isTrivia p.rty.ty = false ∧ p.body.WF ∧ p.body.isNil = false

def sx (p : Fn) : Sx :=
  .n "FunctionDeclaration" [("name", .a (txt p.name)), ("return_type", elementaryAsType p.v), ("variables", .l []),
    ("edge_variables", .l []), ("body", .l p.body.sxs)]

end Fn

theorem function_reads (p : Fn) (hp : p.WF) (R : List Item) :
    functionDeclaration (p.toks ++ R) = some (p.sx, R) := by
  obtain ⟨hF, hN, hC, hE, hT, hTt, hb, hne⟩ := hp
  have hK : isCloser p.kEnd.ty = true := by rw [hE]; decide
  obtain ⟨s, semi, rest, hbody⟩ : ∃ s semi rest, p.body = Stl.cons s semi rest := by
    cases hb' : p.body with
    | nil => rw [hb'] at hne; cases hne
    | cons s semi rest => exact ⟨s, semi, rest, rfl⟩
  have hs : s.WF := by rw [hbody] at hb; exact hb.1
  obtain ⟨t, ts, hts, hstart⟩ := St.head s hs
  let B := p.body.toks ++ p.kEnd :: R
  have hB : B = t :: (ts ++ semi :: (rest.toks ++ p.kEnd :: R)) := by
    show p.body.toks ++ p.kEnd :: R = _
    rw [hbody]; simp [Stl.toks, hts, List.append_assoc]
  have hwsB : ws B = some ((), B) := ws_stl p.body hb p.kEnd R hK
  have htoks : p.toks ++ R = p.kFn :: p.name :: p.colon :: p.rty :: B := by
    simp [Fn.toks, B, List.append_assoc]
  have hrt : ((do let et ← elementaryTypeName; pure (elementaryAsType et)) <|> typeName : P Sx) (p.rty :: B)
      = some (elementaryAsType p.v, B) := by
    apply orElse_some
    rw [bind_some _ _ _ _ _ (hT B)]
    rfl
  have hsep : sepBy (ioVarDeclarations <|> (do let f ← functionVarDecls; pure [f]) : P (List VD)) ws B = some ([], B) := by
    apply sepBy_of_none
    rw [hB]
    exact fnVarBlocks_none t _ (start_not_var hstart)
  have hst : (fun ts => statementList (fuelFor ts.length) ts : P (List Sx)) B = some (p.body.sxs, p.kEnd :: R) :=
    statementList_roundtrip p.body hb hne p.kEnd R hK _ (Nat.le_refl _)
  rw [htoks, functionDeclaration]
  rw [bind_some _ _ _ _ _ (tok_hit _ _ _ hF), bind_some _ _ _ _ _ (ws_cons p.name _ (by rw [hN]; decide)),
    bind_some _ _ _ _ _ (identifier_hit _ _ hN), bind_some _ _ _ _ _ (ws_cons p.colon _ (by rw [hC]; decide)),
    bind_some _ _ _ _ _ (tok_hit _ _ _ hC), bind_some _ _ _ _ _ (ws_cons p.rty _ hTt),
    bind_some _ _ _ _ _ hrt, bind_some _ _ _ _ _ hwsB, bind_some _ _ _ _ _ hsep, bind_some _ _ _ _ _ hwsB,
    bind_some (fun ts => statementList (fuelFor ts.length) ts) _ _ _ _ hst,
    bind_some _ _ _ _ _ (ws_cons p.kEnd _ (closer_not_trivia hK)), bind_some _ _ _ _ _ (tok_hit _ _ _ hE)]
  rfl

theorem libraryElement_fn (p : Fn) (hp : p.WF) (R : List Item) :
    libraryElementDeclaration (p.toks ++ R) = some ([.t "FunctionDeclaration" [p.sx]], R) := by
  have hF : p.kFn.ty = "Function" := hp.1
  have htoks : p.toks ++ R = p.kFn :: (p.name :: p.colon :: p.rty :: (p.body.toks ++ [p.kEnd]) ++ R) := by simp [Fn.toks]
  rw [libraryElementDeclaration]
  have h1 : (do let ds ← dataTypeDeclaration; pure (ds.map fun d => Sx.t "DataTypeDeclaration" [d]) : P (List Sx)) (p.toks ++ R) = none := by
    apply bind_none; rw [htoks, dataTypeDeclaration]; exact bind_none _ _ _ (tok_miss _ _ _ (by rw [hF]; decide))
  rw [orElse_none _ _ _ h1]
  apply orElse_some
  rw [bind_some _ _ _ _ _ (function_reads p hp R)]
  rfl

/-- a top-level declaration of the family: a program (with or without variables), a function block or a function -/
inductive Pou where
  | prog (a : AnyProg)
  | fb (p : Fb)
  | fn (p : Fn)

namespace Pou

def toks : Pou → List Item
  | prog a => a.toks
  | fb p => p.toks
  | fn p => p.toks

/-- the library element the grammar action builds -/
def elem : Pou → Sx
  | prog a => .t "ProgramDeclaration" [a.sx]
  | fb p => .t "FunctionBlockDeclaration" [p.sx]
  | fn p => .t "FunctionDeclaration" [p.sx]

def WF : Pou → Prop
  | prog a => a.WF
  | fb p => p.WF
  | fn p => p.WF

theorem head (a : Pou) (h : a.WF) : ∃ t ts, a.toks = t :: ts ∧ isTrivia t.ty = false := by
  cases a with
  | prog a => obtain ⟨t, ts, hts, hP⟩ := a.head h; exact ⟨t, ts, hts, by rw [hP]; decide⟩
  | fb p => exact ⟨p.kFb, _, rfl, by rw [h.1]; decide⟩
  | fn p => exact ⟨p.kFn, _, rfl, by rw [h.1]; decide⟩

theorem reads (a : Pou) (h : a.WF) (R : List Item) : libraryElementDeclaration (a.toks ++ R) = some ([a.elem], R) := by
  cases a with
  | prog a => exact libraryElement_any a h R
  | fb p => exact libraryElement_fb p h R
  | fn p => exact libraryElement_fn p h R

end Pou

def pouSegs (ps : List Pou) : List (List Sx × List Item) := ps.map fun a => ([a.elem], a.toks)

theorem flat_pouSegs (ps : List Pou) : flat (pouSegs ps) = ps.flatMap Pou.toks := by
  induction ps with
  | nil => rfl
  | cons p ps ih => simp only [pouSegs, List.map_cons, flat, List.flatMap_cons] at ih ⊢; rw [ih]

theorem pou_chain (ps : List Pou) (h : ∀ p ∈ ps, p.WF) :
    Chain (do let _ ← ws; libraryElementDeclaration : P (List Sx)) (pouSegs ps) [] := by
  induction ps with
  | nil =>
    show (do let _ ← ws; libraryElementDeclaration : P (List Sx)) [] = none
    rw [bind_some _ _ _ _ _ ws_nil]
    exact libraryElement_nil
  | cons p ps ih =>
    have hp := h p (List.mem_cons_self ..)
    obtain ⟨t, ts, hts, hT⟩ := p.head hp
    refine ⟨by rw [hts]; simp, ?_, ih (fun q hq => h q (List.mem_cons_of_mem _ hq))⟩
    show (do let _ ← ws; libraryElementDeclaration : P (List Sx)) (p.toks ++ (flat (pouSegs ps) ++ []))
      = some ([p.elem], flat (pouSegs ps) ++ [])
    have hws : ws (p.toks ++ (flat (pouSegs ps) ++ [])) = some ((), p.toks ++ (flat (pouSegs ps) ++ [])) := by
      rw [hts]; exact ws_cons _ _ hT
    rw [bind_some _ _ _ _ _ hws]
    exact p.reads hp _

/-- **`Parse.library` on libraries of programs, function blocks** (each with or without a VAR block of
elementary-typed variables) **and functions** (`FUNCTION name : T statements END_FUNCTION`; statements nested to any depth), in any order and number: the declarations in source
order, nothing dropped, duplicated or reordered; the whole input is consumed. -/
theorem library_reads_pous (ps : List Pou) (h : ∀ p ∈ ps, p.WF) :
    library (ps.flatMap Pou.toks) = some (.n "Library" [("elements", .l (ps.map Pou.elem))]) := by
  have hflat : ∀ qs : List Pou, ((pouSegs qs).map (·.1)).flatten = qs.map Pou.elem := by
    intro qs
    induction qs with
    | nil => rfl
    | cons q qs ih => simp only [pouSegs, List.map_cons, List.flatten_cons] at ih ⊢; rw [ih]; rfl
  unfold library
  cases ps with
  | nil =>
    have : (do ws; let ds ← sepBy libraryElementDeclaration ws; ws; pure ds : P (List (List Sx))) ([] : List Item) = some ([], []) := by
      rw [bind_some _ _ _ _ _ ws_nil, bind_some _ _ _ _ _ (sepBy_of_none _ _ _ libraryElement_nil), bind_some _ _ _ _ _ ws_nil]
      rfl
    simp only [List.flatMap_nil, this]
    rfl
  | cons p ps =>
    have hp := h p (List.mem_cons_self ..)
    have hps : ∀ q ∈ ps, q.WF := fun q hq => h q (List.mem_cons_of_mem _ hq)
    obtain ⟨t, ts, hts, hT⟩ := p.head hp
    have htoks : (p :: ps).flatMap Pou.toks = p.toks ++ (flat (pouSegs ps) ++ []) := by
      simp [flat_pouSegs]
    have hmany : many (do let _ ← ws; libraryElementDeclaration : P (List Sx)) (flat (pouSegs ps) ++ [])
        = some ((pouSegs ps).map (·.1), []) :=
      many_chain _ (pouSegs ps) [] (pou_chain ps hps) (by
        intro x hx
        simp only [pouSegs, List.mem_map] at hx
        obtain ⟨q, hq, rfl⟩ := hx
        obtain ⟨t', ts', hts', _⟩ := q.head (hps q hq)
        simp [hts'])
    have hsep : sepBy libraryElementDeclaration ws (p.toks ++ (flat (pouSegs ps) ++ []))
        = some ([p.elem] :: (pouSegs ps).map (·.1), []) := by
      simp only [sepBy, p.reads hp _, hmany]
    have : (do ws; let ds ← sepBy libraryElementDeclaration ws; ws; pure ds : P (List (List Sx))) ((p :: ps).flatMap Pou.toks)
        = some ([p.elem] :: (pouSegs ps).map (·.1), []) := by
      have hws0 : ws (p.toks ++ (flat (pouSegs ps) ++ [])) = some ((), p.toks ++ (flat (pouSegs ps) ++ [])) := by
        rw [hts]; exact ws_cons _ _ hT
      rw [htoks, bind_some _ _ _ _ _ hws0, bind_some _ _ _ _ _ hsep, bind_some _ _ _ _ _ ws_nil]
      rfl
    simp only [this, List.flatten_cons, hflat ps, List.map_cons]
    rfl

end MX
