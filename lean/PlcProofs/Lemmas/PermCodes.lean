import PlcProofs.Lemmas.PermLookup

/-!
# The codes the analysis model may report do not depend on the declaration order

Membership versions of the lemmas of `PermLookup`: for every code `c`, `c` is among the candidate codes
of a stage for one order of the declarations iff it is for every other order.
-/

namespace PermCodes
open PermLookup

def dupCode (d : ADecl) : Nat := if d.isType then P0019 else P0020

def keyOf (a : ADecl) : ADecl → Bool := fun d => d.isType == a.isType && d.name == a.name

theorem keyOf_self (a : ADecl) : keyOf a a = true := by simp [keyOf]

theorem keyOf_trans {a b d : ADecl} (h1 : keyOf a b = true) : keyOf a d = keyOf b d := by
  simp only [keyOf, Bool.and_eq_true, beq_iff_eq] at h1
  simp only [keyOf, h1.1, h1.2]

theorem dupCode_of_key {a b : ADecl} (h : keyOf a b = true) : dupCode b = dupCode a := by
  simp only [keyOf, Bool.and_eq_true, beq_iff_eq] at h
  simp [dupCode, h.1]

/-- a duplicate code is reported iff some declaration's key occurs at least twice -/
theorem mem_dupCodes (ds : List ADecl) (c : Nat) :
    c ∈ dupCodes ds ↔ ∃ a ∈ ds, dupCode a = c ∧ 2 ≤ ds.countP (keyOf a) := by
  induction ds with
  | nil => simp [dupCodes]
  | cons d rest ih =>
    have hany : rest.any (fun d' => d'.isType == d.isType && d'.name == d.name) = rest.any (keyOf d) := rfl
    simp only [dupCodes, hany, List.mem_append]
    constructor
    · rintro (hh | ht)
      · by_cases ha : rest.any (keyOf d) = true
        · simp only [ha, if_true, List.mem_singleton] at hh
          refine ⟨d, List.mem_cons_self, by simp [dupCode, hh], ?_⟩
          have e : (d :: rest).countP (keyOf d) = rest.countP (keyOf d) + 1 := by
            rw [List.countP_cons]; simp [keyOf_self]
          have : 0 < rest.countP (keyOf d) := by
            rw [List.countP_pos_iff]
            simpa [List.any_eq_true] using ha
          omega
        · simp [ha] at hh
      · obtain ⟨a, ha, hc, hn⟩ := ih.mp ht
        refine ⟨a, List.mem_cons_of_mem _ ha, hc, ?_⟩
        have e : rest.countP (keyOf a) ≤ (d :: rest).countP (keyOf a) := by
          rw [List.countP_cons]; omega
        omega
    · rintro ⟨a, ha, hc, hn⟩
      by_cases hk : keyOf a d = true
      · left
        have e : (d :: rest).countP (keyOf a) = rest.countP (keyOf a) + 1 := by
          rw [List.countP_cons]; simp [hk]
        have hpos : 0 < rest.countP (keyOf a) := by omega
        have hex : rest.any (keyOf d) = true := by
          rw [List.any_eq_true]
          obtain ⟨x, hx, hxa⟩ := List.countP_pos_iff.mp hpos
          exact ⟨x, hx, by rw [← keyOf_trans hk]; exact hxa⟩
        simp only [hex, if_true, List.mem_singleton]
        have := dupCode_of_key hk
        simp only [dupCode] at this hc
        rw [← hc, ← this]
      · right
        have hk' : keyOf a d = false := by simpa using hk
        have e : (d :: rest).countP (keyOf a) = rest.countP (keyOf a) := by
          rw [List.countP_cons]; simp [hk']
        have ha' : a ∈ rest := by
          cases ha with
          | head => rw [keyOf_self] at hk'; cases hk'
          | tail _ h => exact h
        exact ih.mpr ⟨a, ha', hc, by omega⟩

theorem dupCodes_mem_perm {ds ds' : List ADecl} (h : ds.Perm ds') (c : Nat) :
    c ∈ dupCodes ds ↔ c ∈ dupCodes ds' := by
  rw [mem_dupCodes, mem_dupCodes]
  constructor
  · rintro ⟨a, ha, hc, hn⟩; exact ⟨a, h.mem_iff.mp ha, hc, by rw [← h.countP_eq]; exact hn⟩
  · rintro ⟨a, ha, hc, hn⟩; exact ⟨a, h.mem_iff.mpr ha, hc, by rw [h.countP_eq]; exact hn⟩

/-! ## the rules -/

theorem mem_grp (l : List Nat) (c : Nat) : c ∈ (grp l).flatten ↔ c ∈ l := by
  unfold grp
  cases l with
  | nil => simp
  | cons x xs => simp [List.mem_eraseDups]

theorem grp_mem_perm {l l' : List Nat} (h : l.Perm l') (c : Nat) :
    c ∈ (grp l).flatten ↔ c ∈ (grp l').flatten := by
  rw [mem_grp, mem_grp]; exact h.mem_iff

theorem constInit_mem_perm {l l' : List Nat} (h : l.Perm l') (c : Nat) :
    c ∈ (if l.contains P9999 then [[P9999]] else grp l).flatten ↔
    c ∈ (if l'.contains P9999 then [[P9999]] else grp l').flatten := by
  rw [h.contains_eq]
  split
  · rfl
  · exact grp_mem_perm h c

section rules
variable {ds ds' : List ADecl} (h : ds.Perm ds') (c : Nat)
include h

theorem ruleStruct_mem : c ∈ (ruleStruct ds).flatten ↔ c ∈ (ruleStruct ds').flatten := by
  unfold ruleStruct; exact grp_mem_perm (h.filterMap _) c

theorem ruleSubrange_mem : c ∈ (ruleSubrange ds).flatten ↔ c ∈ (ruleSubrange ds').flatten := by
  unfold ruleSubrange; exact grp_mem_perm (h.filterMap _) c

theorem ruleEnumUnique_mem : c ∈ (ruleEnumUnique ds).flatten ↔ c ∈ (ruleEnumUnique ds').flatten := by
  unfold ruleEnumUnique; exact grp_mem_perm (h.filterMap _) c

theorem ruleTask_mem : c ∈ (ruleTask ds).flatten ↔ c ∈ (ruleTask ds').flatten := by
  unfold ruleTask; exact grp_mem_perm (h.flatMap_right _) c

theorem ruleVarUse_mem : c ∈ (ruleVarUse ds).flatten ↔ c ∈ (ruleVarUse ds').flatten := by
  unfold ruleVarUse; exact grp_mem_perm (h.flatMap_right _) c

theorem ruleStdlib_mem : c ∈ (ruleStdlib ds).flatten ↔ c ∈ (ruleStdlib ds').flatten := by
  unfold ruleStdlib; exact grp_mem_perm (h.flatMap_right _) c

theorem ruleExternalConst_mem : c ∈ (ruleExternalConst ds).flatten ↔ c ∈ (ruleExternalConst ds').flatten := by
  unfold ruleExternalConst
  simp only []
  rw [contains_flatMap_perm h]
  exact grp_mem_perm (h.flatMap_right _) c

variable (hd : dupCodes ds = []) (hc : typeFbClash ds = false)
include hd hc

theorem ruleFbCall_mem : c ∈ (ruleFbCall ds).flatten ↔ c ∈ (ruleFbCall ds').flatten := by
  unfold ruleFbCall
  rw [callCode_fun h hd hc]
  exact grp_mem_perm (h.flatMap_right _) c

theorem ruleEnumUse_mem : c ∈ (ruleEnumUse ds).flatten ↔ c ∈ (ruleEnumUse ds').flatten := by
  unfold ruleEnumUse
  rw [isEnumVar_fun h hd hc, enumValues_fun h hd, h.length_eq]
  exact grp_mem_perm (h.flatMap_right _) c

theorem ruleConstFb_mem : c ∈ (ruleConstFb ds).flatten ↔ c ∈ (ruleConstFb ds').flatten := by
  unfold ruleConstFb
  rw [isFbVar_fun h hd hc]
  exact grp_mem_perm (h.flatMap_right _) c

theorem ruleConstInit_mem : c ∈ (ruleConstInit ds).flatten ↔ c ∈ (ruleConstInit ds').flatten := by
  unfold ruleConstInit
  simp only []
  rw [isFbVar_fun h hd hc, isStructVar_fun h hd hc]
  exact constInit_mem_perm (h.flatMap_right _) c

/-- the candidate codes of the eleven rules are the same in every declaration order -/
theorem rules_mem : c ∈ (rules ds).flatten ↔ c ∈ (rules ds').flatten := by
  unfold rules
  simp only [List.flatten_append, List.mem_append]
  rw [ruleStruct_mem h c, ruleSubrange_mem h c, ruleEnumUnique_mem h c, ruleFbCall_mem h c hd hc, ruleTask_mem h c,
    ruleEnumUse_mem h c hd hc, ruleVarUse_mem h c, ruleStdlib_mem h c, ruleConstInit_mem h c hd hc, ruleConstFb_mem h c hd hc,
    ruleExternalConst_mem h c]

end rules

end PermCodes
