import PlcModel.Lex
import PlcModel.Gen.Legend

/-!
# M-SemTok: model of `LspProject::tokenize` (semantic tokens) of `compiler/plc2x/src/lsp_project.rs`
-/

/-- a highlighted lexeme with absolute position -/
structure AbsTok where
  line : Nat
  col : Nat
  len : Nat
  ty : Nat
deriving Repr, BEq, DecidableEq

/-- legend index of a token type (`From<LspTokenType> for Option<SemanticToken>`, generated table) -/
def legendOf (ty : String) : Option Nat :=
  match Gen.legendMap.lookup ty with
  | some r => r
  | none => none

/-- tokens that get a semantic token, with the fields as the code fills them:
line, col (bytes from line start), length = byte length of the token text -/
def hl1 (it : Item) : Option AbsTok :=
  if it.err then none else (legendOf it.ty).map fun i => ⟨it.line, it.col, utf8Len it.text, i⟩

def highlight (items : List Item) : List AbsTok := items.filterMap hl1

/-- the LSP relative encoding (`to_relative_positions`), 5 numbers per token -/
def encodeRel : Nat → Nat → List AbsTok → List Nat
  | _, _, [] => []
  | pl, pc, t :: ts =>
    (t.line - pl) :: (if t.line == pl then t.col - pc else t.col) :: t.len :: t.ty :: 0 :: encodeRel t.line t.col ts

/-- the decoding rule of the LSP specification -/
def decodeRel : Nat → Nat → List Nat → List AbsTok
  | pl, pc, dl :: ds :: len :: ty :: _ :: rest =>
    let l := pl + dl
    let c := if dl == 0 then pc + ds else ds
    ⟨l, c, len, ty⟩ :: decodeRel l c rest
  | _, _, _ => []

/-- `textDocument/semanticTokens/full` for a document text: `none` (null) when the text has a lexical error -/
def semTokens (doc : List Char) : Option (List Nat) :=
  let items := tokenizeProgram doc
  if items.any (·.err) then none else some (encodeRel 0 0 (highlight items))
