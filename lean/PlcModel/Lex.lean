import PlcModel.Regex
import PlcModel.Gen.Tokens

/-!
# M-Lex: model of `compiler/parser/src/lexer.rs::tokenize`, `preprocessor.rs` and
`xform_tokens.rs::insert_keyword_statement_terminators`

Source text is a `List Char`; offsets are UTF-8 byte offsets (`Char.utf8Size`), the unit of
`SourceSpan`.  The token table is generated (`Gen.table`).
-/

def utf8Len (cs : List Char) : Nat := (cs.map Char.utf8Size).sum

structure Item where
  err : Bool               -- a lexical error (logos `Err`) rather than a token
  ty : String              -- TokenType variant ("" for errors)
  start : Nat
  stop : Nat
  line : Nat
  col : Nat
  text : List Char
deriving Repr, BEq, DecidableEq

def isNd (c : Char) : Bool := Gen.ndRanges.any fun (a, b) => a ≤ c.toNat && c.toNat ≤ b

/-- best (longest, then highest priority, then first) entry of `tbl` matching a non-empty prefix of `s` -/
def lexOneIn (tbl : List Gen.Entry) (s : List Char) : Option (Gen.Entry × Nat) :=
  tbl.foldl (init := none) fun best e =>
    match Re.longest isNd e.re s with
    | some n =>
      if n == 0 then best else
      match best with
      | none => some (e, n)
      | some (be, bn) => if n > bn || (n == bn && e.prio > be.prio) then some (e, n) else best
    | none => best

def lexOne (s : List Char) : Option (Gen.Entry × Nat) := lexOneIn Gen.table s

/-- The text starts a pattern that contains a loop that can run to the end of input
(comment, string).  logos reports one error up to end of input when such a pattern was
entered and never reached an accepting state (calibrated; held by the correspondence check). -/
def isOpener : List Char → Bool
  | '(' :: '*' :: _ => true
  | '\'' :: _ => true
  | '"' :: _ => true
  | _ => false

def closesOpener (ty : String) : Bool :=
  ty == "Comment" || ty == "SingleByteString" || ty == "DoubleByteString"

/-- what the lexer does at the head of a non-empty `s`: a token type and its length in chars, or
`none` and the length of the error -/
def choose (s : List Char) : Option String × Nat :=
  match lexOne s with
  | some (e, n) =>
    if isOpener s && !closesOpener e.ty then (none, s.length) else (some e.ty, n)
  | none => (none, if isOpener s then s.length else 1)

/-- line/column bookkeeping of `tokenize` (`advance_position`): a line feed starts a new line, any
other char advances the column by its length in bytes.  Same for tokens and for errors. -/
def advancePos (txt : List Char) (line col : Nat) : Nat × Nat :=
  txt.foldl (fun (lc : Nat × Nat) ch => if ch == '\n' then (lc.1 + 1, 0) else (lc.1, lc.2 + ch.utf8Size)) (line, col)

def advance (_ty : String) (txt : List Char) (line col : Nat) : Nat × Nat := advancePos txt line col

/-- bookkeeping after a lexical error -/
def advanceErr (txt : List Char) (line col : Nat) : Nat × Nat := advancePos txt line col

/-- The lexing loop, for an arbitrary decision function `ch` (so that the tiling theorem holds for
every error-extent policy).  The decision's length is clipped to `1 ≤ n ≤ s.length`. -/
def lexWith (ch : List Char → Option String × Nat) : Nat → List Char → Nat → Nat → Nat → List Item
  | 0, _, _, _, _ => []
  | _, [], _, _, _ => []
  | fuel+1, c :: cs, off, line, col =>
    let s := c :: cs
    let d := ch s
    let n := max 1 (min d.2 s.length)
    let txt := s.take n
    let len := utf8Len txt
    match d.1 with
    | some ty =>
      let lc := advance ty txt line col
      { err := false, ty := ty, start := off, stop := off + len, line := line, col := col, text := txt }
        :: lexWith ch fuel (s.drop n) (off + len) lc.1 lc.2
    | none =>
      let lc := advanceErr txt line col
      { err := true, ty := "", start := off, stop := off + len, line := line, col := col, text := txt }
        :: lexWith ch fuel (s.drop n) (off + len) lc.1 lc.2

def lexItems (s : List Char) : List Item := lexWith choose s.length s 0 0 0

/-- `insert_keyword_statement_terminators` (errors are not in the token vector; they pass through).
After an END_IF the next token that is not white space or a comment decides: a semicolon ends the
search, anything else gets a synthetic semicolon in front of it. -/
def insertSemisGo : Bool → List Item → List Item
  | _, [] => []
  | inEnd, it :: rest =>
    if it.err then it :: insertSemisGo inEnd rest
    else
      let isTrivia := it.ty == "Comment" || it.ty == "Whitespace"
      let synth := inEnd && !isTrivia && it.ty != "Semicolon"
      let inEnd' := if it.ty == "EndIf" then true else if inEnd && isTrivia then true else false
      if synth then { it with ty := "Semicolon", text := [] } :: it :: insertSemisGo inEnd' rest
      else it :: insertSemisGo inEnd' rest

def insertSemis (items : List Item) : List Item := insertSemisGo false items

/-! ## preprocessor: OSCAT description blanking -/

def isPrefixOf' : List Char → List Char → Bool
  | [], _ => true
  | _ :: _, [] => false
  | a :: as, b :: bs => a == b && isPrefixOf' as bs

/-- char index of the first occurrence of `pat` in `s` -/
def findSub (pat : List Char) : List Char → Nat → Option Nat
  | [], i => if pat.isEmpty then some i else none
  | c :: cs, i => if isPrefixOf' pat (c :: cs) then some i else findSub pat cs (i+1)

def oscatStart : List Char := ['(', '*', '@', 'K', 'E', 'Y', '@', ':', 'D', 'E', 'S', 'C', 'R', 'I', 'P', 'T', 'I', 'O', 'N', '*', ')']
def oscatEnd : List Char := ['(', '*', '@', 'K', 'E', 'Y', '@', ':', 'E', 'N', 'D', '_', 'D', 'E', 'S', 'C', 'R', 'I', 'P', 'T', 'I', 'O', 'N', '*', ')']

/-- the blanking of the OSCAT description: one `' '` per *byte*, line feeds kept -/
def blank (m : List Char) : List Char :=
  m.flatMap (fun c => if c == '\n' then ['\n'] else List.replicate c.utf8Size ' ')

/-- `remove_oscat_comment` -/
def preprocess (s : List Char) : List Char :=
  match findSub oscatStart s 0, findSub oscatEnd s 0 with
  | some a, some b =>
    if a < b then
      let k := a + oscatStart.length
      s.take k ++ blank ((s.drop k).take (b - k)) ++ s.drop b
    else s
  | _, _ => s

/-- `tokenize_program` without the C-style-comment rule: tokens (with synthetic semicolons) and errors -/
def tokenizeProgram (s : List Char) : List Item := insertSemis (lexItems (preprocess s))

/-- the chars of `s` lying in the byte range `[start, stop)`, provided both ends are char boundaries -/
def sliceBytes : List Char → Nat → Nat → Nat → Option (List Char)
  | [], off, start, stop => if start == off && stop == off then some [] else if stop == off && start < off then some [] else none
  | c :: cs, off, start, stop =>
    if off < start then sliceBytes cs (off + c.utf8Size) start stop
    else if off == start ∨ (start < off ∧ off < stop) then
      if off == stop then some []
      else if off < stop then (sliceBytes cs (off + c.utf8Size) (off + c.utf8Size) stop).map (c :: ·)
      else none
    else if off == stop then some [] else none
