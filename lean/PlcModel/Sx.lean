/-!
# Sx: generic trees in the shape of Rust's `{:?}` output

The parser model builds, for every grammar action, the tree that `#[derive(Debug)]` prints for the
dsl node the Rust action builds; the canonical text is Rust's single-line Debug text with white
space outside string/char literals removed and `SourceSpan`-valued fields dropped.  The correspondence
check normalises the implementation's Debug output the same way and compares the two strings.
-/

inductive Sx where
  | a (s : String)                                  -- atom: unit variant, number, identifier, bool
  | n (name : String) (fields : List (String × Sx)) -- struct `Name { f: v, … }`
  | t (name : String) (args : List Sx)              -- tuple struct / variant with payload `Name(v, …)`
  | l (items : List Sx)                             -- `[a, b, …]`
deriving Repr, Inhabited, BEq

namespace Sx

def some' (x : Sx) : Sx := .t "Some" [x]
def none' : Sx := .a "None"
def opt : Option Sx → Sx
  | some x => some' x
  | none => none'
def bool (b : Bool) : Sx := .a (if b then "true" else "false")
def nat (n : Nat) : Sx := .a (toString n)

/-- Rust's `Debug` for `char` (the escapes that can occur for printable text) -/
def rustChar (c : Char) : String :=
  if c == '\'' then "'\\''" else if c == '\\' then "'\\\\'" else if c == '\n' then "'\\n'"
  else if c == '\r' then "'\\r'" else if c == '\t' then "'\\t'" else if c == '\x00' then "'\\0'"
  else "'" ++ String.singleton c ++ "'"

def chr (c : Char) : Sx := .a (rustChar c)

partial def render : Sx → String
  | .a s => s
  | .n name fs => name ++ "{" ++ ",".intercalate (fs.map fun f => f.1 ++ ":" ++ render f.2) ++ "}"
  | .t name args => name ++ "(" ++ ",".intercalate (args.map render) ++ ")"
  | .l items => "[" ++ ",".intercalate (items.map render) ++ "]"

end Sx
