import PlcModel.SemTok

/-!
# M-Lsp: model of the language server loop (`compiler/plc2x/src/lsp.rs`, `lsp_project.rs`,
`project.rs::FileBackedProject`) at the message level.

The content of diagnostics is *not* computed here: a `publish` output records the snapshot of the
document store it was computed from; the diagnostics are a function of (snapshot, uri)
(`FileBackedProject::semantic` + the per-file filter).  The store is a finite map, modelled as an
assoc list kept sorted by key (a canonical form: the real `HashMap`'s iteration order is covered
by the C06 order-independence results).
-/

inductive Uri where
  | file (k : Nat)      -- a `file://` URI (convertible to a path)
  | other (k : Nat)     -- any other URI (`to_file_path` fails)
deriving Repr, BEq, DecidableEq

abbrev Store := List (Nat × List Char)

def setDoc : Store → Nat → List Char → Store
  | [], k, v => [(k, v)]
  | (k', v') :: rest, k, v =>
    if k < k' then (k, v) :: (k', v') :: rest
    else if k = k' then (k, v) :: rest
    else (k', v') :: setDoc rest k v

def getDoc : Store → Nat → Option (List Char)
  | [], _ => none
  | (k', v') :: rest, k => if k = k' then some v' else getDoc rest k

inductive Msg where
  | didOpen (u : Uri) (ver : Int) (text : List Char)
  | didChange (u : Uri) (ver : Int) (changes : List (List Char))
  | semTok (id : Nat) (u : Uri)
  | unknownReq (id : Nat) (method : String)
  | unknownNotif (method : String)
  | response (id : Nat)
  | shutdown (id : Nat)
  | exit
deriving Repr

inductive Out where
  | publish (u : Uri) (ver : Int) (snapshot : Store)
  | tokens (id : Nat) (data : Option (List Nat))
  | error (id : Nat) (code : Int)
  | shutdownReply (id : Nat)
deriving Repr, BEq, DecidableEq

/-- `LspProject::change_text_document`: only file URIs reach the project -/
def changeText (st : Store) (u : Uri) (text : List Char) : Store :=
  match u with
  | .file k => setDoc st k text
  | .other _ => st

/-- `LspProject::tokenize` + `handle_request` for SemanticTokensFullRequest -/
def semTokReply (st : Store) (u : Uri) : Option (List Nat) :=
  match u with
  | .file k =>
    match getDoc st k with
    | some doc => semTokens doc
    | none => none            -- P0030 "No documents to tokenize" → Err → null
  | .other _ => none

def methodNotFound : Int := -32601

/-- one iteration of `LspServer::run` on a message other than shutdown/exit -/
def step (st : Store) : Msg → Store × List Out
  | .didOpen u ver text =>
    let st' := changeText st u text
    (st', [.publish u ver st'])
  | .didChange u ver changes =>
    -- full-document sync: the last change carries the current text; none leaves it as it is
    let st' := match changes.getLast? with
      | some t => changeText st u t
      | none => st
    (st', [.publish u ver st'])
  | .semTok id u => (st, [.tokens id (semTokReply st u)])
  | .unknownReq id _ => (st, [.error id methodNotFound])
  | .unknownNotif _ => (st, [])
  | .response _ => (st, [])
  | .shutdown _ => (st, [])      -- handled by `run`
  | .exit => (st, [])            -- handled by `run`

inductive Phase where
  | running
  | exited (code : Nat)
deriving Repr, BEq, DecidableEq

structure Run where
  store : Store
  outs : List Out
  phase : Phase
deriving Repr

/-- The whole session after initialization. `shutdown` makes `run` return; lsp-server's
`handle_shutdown` then replies and expects `exit` as the very next message (exit status 0),
anything else is a protocol error (status 1). An `exit` without shutdown stops the reader thread;
the loop ends with "terminated but no shutdown" (status 1), as does end of input. -/
def runFrom : Store → List Msg → List Out → Run
  | st, [], acc => ⟨st, acc, .exited 1⟩
  | st, .shutdown id :: rest, acc =>
    match rest with
    | .exit :: _ => ⟨st, acc ++ [.shutdownReply id], .exited 0⟩
    | _ => ⟨st, acc ++ [.shutdownReply id], .exited 1⟩
  | st, .exit :: _, acc => ⟨st, acc, .exited 1⟩
  | st, m :: rest, acc =>
    let r := step st m
    runFrom r.1 rest (acc ++ r.2)

def run (h : List Msg) : Run := runFrom [] h []
