/-!
# M-Regex: regular expressions with Brzozowski derivatives

The subset of regex syntax used by `compiler/parser/src/token.rs` (`#[token]` / `#[regex]`
attributes): character classes (possibly negated), `\d` (Unicode `Nd`), sequence, alternation,
Kleene star.  `+` and `?` are desugared by the translator.

Core Lean only (the driver executable links against this file).
-/

inductive Re where
  | empty
  | eps
  | digit                                   -- `\d` (Unicode Nd; the predicate is a parameter)
  | cls (neg : Bool) (ranges : List (Char × Char))
  | seq (a b : Re)
  | alt (a b : Re)
  | star (a : Re)
deriving Repr, BEq, Inhabited, DecidableEq

namespace Re

def inRanges (rs : List (Char × Char)) (c : Char) : Bool :=
  rs.any fun (a, b) => a ≤ c && c ≤ b

def nullable : Re → Bool
  | empty => false | eps => true | digit => false | cls _ _ => false
  | seq a b => a.nullable && b.nullable
  | alt a b => a.nullable || b.nullable
  | star _ => true

/-- smart constructors keep derivatives small -/
def mkSeq : Re → Re → Re
  | empty, _ => empty | _, empty => empty | eps, b => b | a, eps => a | a, b => seq a b
def mkAlt : Re → Re → Re
  | empty, b => b | a, empty => a | a, b => if a == b then a else alt a b

def deriv (nd : Char → Bool) (c : Char) : Re → Re
  | empty => empty | eps => empty
  | digit => if nd c then eps else empty
  | cls neg rs => if (inRanges rs c) != neg then eps else empty
  | seq a b =>
    let d := mkSeq (deriv nd c a) b
    if a.nullable then mkAlt d (deriv nd c b) else d
  | alt a b => mkAlt (deriv nd c a) (deriv nd c b)
  | star a => mkSeq (deriv nd c a) (star a)

/-- Walk `s` with derivatives. `n` is the number of chars consumed so far, `best` the longest
accepted prefix length so far.  Structural recursion on `s`. -/
def longestGo (nd : Char → Bool) : Re → List Char → Nat → Option Nat → Option Nat
  | _, [], _, best => best
  | r, c :: cs, n, best =>
    let r' := deriv nd c r
    if r' == empty then best
    else longestGo nd r' cs (n+1) (if r'.nullable then some (n+1) else best)

/-- length (in chars) of the longest prefix of `s` matched by `r`, if any -/
def longest (nd : Char → Bool) (r : Re) (s : List Char) : Option Nat :=
  longestGo nd r s 0 (if r.nullable then some 0 else none)

/-- does `r` match the whole of `s` -/
def matchesAll (nd : Char → Bool) : Re → List Char → Bool
  | r, [] => r.nullable
  | r, c :: cs => matchesAll nd (deriv nd c r) cs

end Re
