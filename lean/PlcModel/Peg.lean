import PlcModel.Lex
import PlcModel.Sx

/-!
# M-Peg: PEG combinators over the token list (first-order mirror of what rust-peg generates)

A parser is a function from the remaining tokens to `none` (failure) or a value and the rest.
Ordered choice is `<|>`; repetition is bounded by the remaining input (a repetition that does not
consume stops), so every combinator is total.
-/

abbrev P (α : Type) := StateT (List Item) Option α

namespace P

def fail {α} : P α := fun _ => none

/-- `[t]`: any one token -/
def anyTok : P Item := fun ts => match ts with
  | t :: rest => some (t, rest)
  | [] => none

/-- `tok(TokenType::X)` -/
def tok (ty : String) : P Item := fun ts => match ts with
  | t :: rest => if t.ty == ty then some (t, rest) else none
  | [] => none

def asciiLower (c : Char) : Char := if 'A' ≤ c && c ≤ 'Z' then Char.ofNat (c.toNat + 32) else c

/-- `str::eq_ignore_ascii_case` -/
def eqIgnoreAsciiCase (a b : List Char) : Bool := a.map asciiLower == b.map asciiLower

/-- `tok_eq(ty, val)` / `id_eq(val)` / `dt_sep(val)`: token of a type whose text equals `val` up to ASCII case -/
def tokEq (ty : String) (val : String) : P Item := fun ts => match ts with
  | t :: rest => if t.ty == ty && eqIgnoreAsciiCase t.text val.toList then some (t, rest) else none
  | [] => none

def idEq (val : String) : P Item := tokEq "Identifier" val

/-- `!p` -/
def notP {α} (p : P α) : P Unit := fun ts => match p ts with
  | some _ => none
  | none => some ((), ts)

def opt {α} (p : P α) : P (Option α) := fun ts => match p ts with
  | some (a, rest) => some (some a, rest)
  | none => some (none, ts)

/-- `p*`, bounded by fuel; stops when `p` fails or does not consume -/
def manyF {α} (p : P α) : Nat → P (List α)
  | 0 => fun ts => some ([], ts)
  | fuel+1 => fun ts => match p ts with
    | some (a, rest) =>
      if rest.length < ts.length then
        match manyF p fuel rest with
        | some (as, rest') => some (a :: as, rest')
        | none => some ([a], rest)
      else some ([a], rest)
    | none => some ([], ts)

def many {α} (p : P α) : P (List α) := fun ts => manyF p (ts.length + 1) ts

def many1 {α} (p : P α) : P (List α) := do
  let a ← p
  let as ← many p
  pure (a :: as)

/-- `_`: `(whitespace() / comment())*` -/
def ws : P Unit := fun ts =>
  some ((), ts.dropWhile fun t => t.ty == "Whitespace" || t.ty == "Newline" || t.ty == "Comment")

/-- `x ** sep` -/
def sepBy {α β} (p : P α) (sep : P β) : P (List α) := fun ts =>
  match p ts with
  | none => some ([], ts)
  | some (a, rest) =>
    match many (do let _ ← sep; p) rest with
    | some (as, rest') => some (a :: as, rest')
    | none => some ([a], rest)

/-- `x ++ sep` -/
def sepBy1 {α β} (p : P α) (sep : P β) : P (List α) := do
  let a ← p
  let as ← many (do let _ ← sep; p)
  pure (a :: as)

def semicolon : P Unit := do let _ ← tok "Semicolon"; pure ()
def comma : P Unit := do let _ ← tok "Comma"; pure ()
def period : P Unit := do let _ ← tok "Period"; pure ()

/-- `semisep(x) = v:(x() ** (_ semicolon() _)) _ semicolon() {v}` -/
def semisep {α} (p : P α) : P (List α) := do
  let v ← sepBy p (do ws; semicolon; ws)
  ws; semicolon
  pure v

/-- `semisep_oneplus(x) = v:(x() ++ (_ semicolon() _)) _ semicolon() {v}` -/
def semisepOneplus {α} (p : P α) : P (List α) := do
  let v ← sepBy1 p (do ws; semicolon; ws)
  ws; semicolon
  pure v

/-- `commasep_oneplus(x) = v:(x() ++ (_ comma() _)) comma() {v}` -/
def commasepOneplus {α} (p : P α) : P (List α) := do
  let v ← sepBy1 p (do ws; comma; ws)
  comma
  pure v

def txt (t : Item) : String := String.ofList t.text

end P
