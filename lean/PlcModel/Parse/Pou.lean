import PlcModel.Parse.Vars

/-!
# M-Parse: program organization units, SFC, configuration, library (`parser.rs` B.1.5 – B.1.7, B.0)
and `parse_program` (`lib.rs`).
-/

open P

namespace Parse

def stmts (f : Nat) : P (List Sx) := statementList f
def expr : P Sx := fun ts => expression (fuelFor ts.length) ts

/-! ### SFC -/

def actionTime : P Sx :=
  (do let d ← duration; pure (.t "Duration" [d])) <|> (do let v ← variableName; pure (.t "VariableName" [v]))

def actionQualifier : P Sx :=
  (do let _ ← idEq "N"; pure (.a "N")) <|> (do let _ ← idEq "R"; pure (.a "R")) <|> (do let _ ← idEq "S"; pure (.a "S"))
  <|> (do let _ ← idEq "L"; pure (.a "L")) <|> (do let _ ← idEq "D"; pure (.a "D")) <|> (do let _ ← idEq "P"; pure (.a "P"))
  <|> (do let _ ← idEq "SD"; ws; comma; ws; let t ← actionTime; pure (.t "SD" [t]))
  <|> (do let _ ← idEq "DS"; ws; comma; ws; let t ← actionTime; pure (.t "DS" [t]))
  <|> (do let _ ← idEq "SL"; ws; comma; ws; let t ← actionTime; pure (.t "SL" [t]))
  <|> (do let _ ← idEq "P1"; ws; comma; ws; let t ← actionTime; pure (.t "PR" [t]))
  <|> (do let _ ← idEq "P0"; ws; comma; ws; let t ← actionTime; pure (.t "PF" [t]))

def actionAssociation : P Sx := do
  let name ← identifier; ws; let _ ← tok "LeftParen"; ws
  let q ← opt actionQualifier; ws
  let inds ← opt (do comma; ws; sepBy variableName (do ws; comma; ws))
  ws; let _ ← tok "RightParen"
  pure (.n "ActionAssociation" [("name", name), ("qualifier", Sx.opt q), ("indicators", .l (inds.getD []))])

/-- `action_associations() = a:action_association() ** (_ ; _) _ semicolon()? {a}` -/
def actionAssociations : P (List Sx) := do
  let aa ← sepBy actionAssociation (do ws; semicolon; ws)
  ws; let _ ← opt semicolon
  pure aa

def initialStep : P Sx := do
  let _ ← tok "InitialStep"; ws; let name ← identifier; ws; let _ ← tok "Colon"; ws
  let aa ← actionAssociations
  ws; let _ ← tok "EndStep"
  pure (.n "Step" [("name", name), ("action_associations", .l aa)])

def step : P Sx := do
  let _ ← tok "Step"; ws; let name ← identifier; ws; let _ ← tok "Colon"; ws
  let aa ← actionAssociations
  ws; let _ ← tok "EndStep"
  pure (.t "Step" [.n "Step" [("name", name), ("action_associations", .l aa)]])

def steps : P (List Sx) :=
  (do let n ← identifier; pure [n])
  <|> (do let _ ← tok "LeftParen"; ws; let n1 ← identifier; ws; comma; ws; let n2 ← identifier; ws
          let nr ← sepBy (do comma; ws; identifier) ws
          ws; let _ ← tok "RightParen"
          pure ([n1, n2] ++ nr))

def transition : P Sx := do
  let _ ← tok "Transition"; ws
  let name ← opt identifier; ws
  let prio ← opt (do let _ ← tok "LeftParen"; ws; let _ ← idEq "PRIORITY"; ws; let _ ← tok "Assignment"; ws
                     let p ← integer; ws; let _ ← tok "RightParen"; pure p)
  ws; let _ ← tok "From"; ws; let frm ← steps; ws; let _ ← tok "To"; ws; let to ← steps; ws
  let _ ← tok "Assignment"; ws; let cond ← expr; ws; semicolon
  ws; let _ ← tok "EndTransition"
  match prio with
  | some p => if p < 2 ^ 32 then pure () else fail
  | none => pure ()
  pure (.t "Transition" [.n "Transition" [("name", Sx.opt name), ("priority", Sx.opt (prio.map Sx.nat)),
    ("from", .l frm), ("to", .l to), ("condition", cond)]])

mutual
  /-- `function_block_body()` -/
  def functionBlockBody : Nat → P Sx
    | 0 => fail
    | f+1 =>
      (do let nets ← sequentialFunctionChart f; pure (.t "Sfc" [.n "Sfc" [("networks", .l nets)]]))
      <|> (do let ss ← fun ts => statementList (fuelFor ts.length) ts
              pure (.t "Statements" [.n "Statements" [("body", .l ss)]]))
      <|> (do ws; pure (.a "Empty"))

  def sequentialFunctionChart : Nat → P (List Sx)
    | 0 => fail
    | f+1 => sepBy1 (sfcNetwork f) ws

  def sfcNetwork : Nat → P Sx
    | 0 => fail
    | f+1 => do
      let init ← initialStep; ws
      let elements ← sepBy (step <|> action f <|> transition) ws
      pure (.n "Network" [("initial_step", init), ("elements", .l elements)])

  def action : Nat → P Sx
    | 0 => fail
    | f+1 => do
      let _ ← tok "Action"; ws; let name ← identifier; ws; let _ ← tok "Colon"; ws
      let body ← functionBlockBody f
      ws; let _ ← tok "EndAction"
      pure (.t "Action" [.n "Action" [("name", name), ("body", body)]])
end

def fbBody : P Sx := fun ts => functionBlockBody (ts.length + 4) ts

/-! ### POUs -/

def functionVarDecls : P VD := do
  let _ ← tok "Var"; ws
  let q ← opt (do let _ ← tok "Constant"; pure "Constant"); ws
  let vars ← semisepOneplus var1InitDeclWithAmbiguousStruct
  ws; let _ ← tok "EndVar"
  pure (.var (flatMap vars "Var" q))

def functionDeclaration : P Sx := do
  let _ ← tok "Function"; ws; let name ← identifier; ws; let _ ← tok "Colon"; ws
  let rt ← (do let et ← elementaryTypeName; pure (elementaryAsType et)) <|> typeName
  ws
  let varDecls ← sepBy (ioVarDeclarations <|> (do let f ← functionVarDecls; pure [f])) ws
  ws
  let body ← fun ts => statementList (fuelFor ts.length) ts
  ws; let _ ← tok "EndFunction"
  let (variables, remainder) := drainVarDecl varDecls.flatten
  let (edges, _) := drainEdgeDecl remainder
  pure (.n "FunctionDeclaration" [("name", name), ("return_type", rt), ("variables", .l variables),
    ("edge_variables", .l edges), ("body", .l body)])

def functionBlockDeclaration : P Sx := do
  let _ ← tok "FunctionBlock"; ws
  notP (idEq "END_VAR")
  let name ← identifier; ws
  let decls ← sepBy (ioVarDeclarations <|> (do let o ← otherVarDeclarations; pure [o])) ws
  ws
  let body ← fbBody
  ws; let _ ← tok "EndFunctionBlock"
  let (variables, remainder) := drainVarDecl decls.flatten
  let (edges, _) := drainEdgeDecl remainder
  pure (.n "FunctionBlockDeclaration" [("name", name), ("variables", .l variables), ("edge_variables", .l edges),
    ("body", body)])

def programDeclaration : P Sx := do
  let _ ← tok "Program"; ws; let name ← identifier; ws
  let decls ← sepBy ((do let a ← programAccessDecls; pure [a]) <|> ioVarDeclarations
    <|> (do let o ← otherVarDeclarations; pure [o]) <|> (do let l ← locatedVarDeclarations; pure [l])) ws
  ws
  let body ← fbBody
  ws; let _ ← tok "EndProgram"
  let (variables, remainder) := drainVarDecl decls.flatten
  let (access, _) := drainAccess remainder
  pure (.n "ProgramDeclaration" [("name", name), ("variables", .l variables), ("access_variables", .l access),
    ("body", body)])

/-! ### configuration -/

def taskConfiguration : P Sx := do
  let _ ← tok "Task"; ws; let name ← identifier; ws
  let _ ← tok "LeftParen"; ws
  let interval ← opt (do
    let _ ← idEq "INTERVAL"; ws; let _ ← tok "Assignment"; ws
    let c ← constant; ws; comma
    match c with
    | .t "Duration" [d] => pure d
    | _ => fail)
  ws
  let _ ← idEq "PRIORITY"; ws; let _ ← tok "Assignment"; ws
  let prio ← integer
  if !(prio < 2 ^ 32) then fail
  ws; let _ ← tok "RightParen"
  pure (.n "TaskConfiguration" [("name", name), ("priority", .nat prio), ("interval", Sx.opt interval)])

def symVar : P Sx := fun ts => symbolicVariable (fuelFor ts.length) ts

def globalVarReference : P Sx := do
  let res ← opt (do let r ← identifier; period; pure r)
  let name ← identifier
  let s ← opt (do period; identifier)
  pure (.n "GlobalVarReference" [("resource_name", Sx.opt res), ("global_var_name", name), ("structure_element_name", Sx.opt s)])

def progConfElement : P (String × Sx) :=
  (do let fb ← identifier; ws; let _ ← tok "With"; ws; let task ← identifier
      pure ("fb", .n "FunctionBlockTask" [("fb_name", fb), ("task_name", task)]))
  <|> (do let dst ← symVar; ws; let _ ← tok "Assignment"; ws
          let src ← (do let c ← constant; pure (Sx.t "Constant" [c]))
            <|> (do let e ← enumeratedValue; pure (Sx.t "EnumeratedValue" [e]))
            <|> (do let g ← globalVarReference; pure (Sx.t "GlobalVarReference" [g]))
            <|> (do let d ← directVariable; pure (Sx.t "DirectVariable" [d]))
          pure ("source", .n "ProgramConnectionSource" [("dst", dst), ("src", src)]))
  <|> (do let src ← symVar; ws; let _ ← tok "RightArrow"; ws
          let dst ← (do let g ← globalVarReference; pure (Sx.t "GlobalVarReference" [g]))
            <|> (do let d ← directVariable; pure (Sx.t "DirectVariable" [d]))
          pure ("sink", .n "ProgramConnectionSink" [("src", src), ("dst", dst)]))

def programConfiguration : P Sx := do
  let _ ← tok "Program"; ws
  let storage ← opt retainQualifier; ws
  let name ← identifier
  let task ← opt (do ws; let _ ← tok "With"; ws; identifier)
  ws; let _ ← tok "Colon"; ws
  let pt ← identifier
  let elements ← opt (do ws; let _ ← tok "LeftParen"; ws; let e ← commasepOneplus progConfElement; ws; let _ ← tok "RightParen"; pure e)
  let es := elements.getD []
  let pick (k : String) : List Sx := (es.filter (·.1 == k)).map (·.2)
  pure (.n "ProgramConfiguration" [("name", name), ("storage", Sx.opt (storage.map Sx.a)), ("task_name", Sx.opt task),
    ("type_name", pt), ("fb_tasks", .l (pick "fb")), ("sources", .l (pick "source")), ("sinks", .l (pick "sink"))])

def resourceDeclaration : P Sx := do
  let _ ← tok "Resource"; ws; let n ← identifier; ws; let _ ← tok "On"; ws; let t ← identifier; ws
  let g ← opt globalVarDeclarations; ws
  let tasks ← opt (semisep taskConfiguration); ws
  let progs ← semisepOneplus programConfiguration
  ws; let _ ← tok "EndResource"
  pure (.n "ResourceDeclaration" [("name", n), ("resource", t), ("global_vars", .l (g.getD [])),
    ("tasks", .l (tasks.getD [])), ("programs", .l progs)])

def instanceSpecificInit : P (String × Sx) :=
  -- instance_specific_init__fb_init
  (do let res ← identifier; period; let prog ← identifier; period
      let path ← sepBy1 identifier period
      ws; let _ ← tok "Colon"; ws; let ty ← typeName; ws; let _ ← tok "Assignment"; ws
      let init ← structureInitialization
      pure ("fb", .n "FunctionBlockInit" [("resource_name", res), ("program_name", prog), ("fb_path", .l path),
        ("fb_name", .a ""), ("type_name", ty), ("initializer", .l init)]))
  -- instance_specific_init__located
  <|> (do let res ← identifier; period; let prog ← identifier; period
          let path ← sepBy identifier (do ws; period; ws)
          ws
          let addr ← opt location
          ws; let _ ← tok "Colon"; ws
          let init ← simpleSpecInit
          pure ("located", .n "LocatedVarInit" [("resource_name", res), ("program_name", prog), ("fb_path", .l path),
            ("address", Sx.opt addr), ("initializer", init)]))

def configurationDeclaration : P Sx := do
  let _ ← tok "Configuration"; ws; let n ← identifier; ws
  let g ← opt globalVarDeclarations; ws
  let r ← resourceDeclaration; ws
  let inits ← sepBy (do let _ ← tok "VarConfig"; ws; let i ← semisepOneplus instanceSpecificInit; ws; let _ ← tok "EndVar"; pure i) ws
  ws; let _ ← tok "EndConfiguration"
  let is := inits.flatten
  pure (.n "ConfigurationDeclaration" [("name", n), ("global_var", .l (g.getD [])), ("resource_decl", .l [r]),
    ("fb_inits", .l ((is.filter (·.1 == "fb")).map (·.2))), ("located_var_inits", .l ((is.filter (·.1 == "located")).map (·.2)))])

/-! ### library -/

def libraryElementDeclaration : P (List Sx) :=
  (do let ds ← dataTypeDeclaration; pure (ds.map fun d => .t "DataTypeDeclaration" [d]))
  <|> (do let f ← functionDeclaration; pure [.t "FunctionDeclaration" [f]])
  <|> (do let f ← functionBlockDeclaration; pure [.t "FunctionBlockDeclaration" [f]])
  <|> (do let p ← programDeclaration; pure [.t "ProgramDeclaration" [p]])
  <|> (do let c ← configurationDeclaration; pure [.t "ConfigurationDeclaration" [c]])

/-- `library__impl()`; the whole input must be consumed -/
def library : List Item → Option Sx := fun ts =>
  match (do ws; let ds ← sepBy libraryElementDeclaration ws; ws; pure ds : P (List (List Sx))) ts with
  | some (ds, []) => some (.n "Library" [("elements", .l ds.flatten)])
  | _ => none

/-- `parse_program`: the first lexical error wins (P0031), then the grammar (P0002) -/
def parseProgram (src : List Char) : Except String Sx :=
  let items := tokenizeProgram src
  if items.any (·.err) then .error "P0031"
  else match library items with
    | some lib => .ok lib
    | none => .error "P0002"

end Parse
