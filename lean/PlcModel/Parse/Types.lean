import PlcModel.Parse.Expr

/-!
# M-Parse: data type declarations (`parser.rs` B.1.3.3 derived data types)
Rule names and the order of alternatives follow parser.rs.
-/

open P

namespace Parse

def nonGenericTypeName : P Sx :=
  (do let et ← elementaryTypeName; pure (elementaryAsType et)) <|> typeName

/-- `simple_specification()` -/
def simpleSpecification : P Sx :=
  (do let et ← elementaryTypeName; pure (elementaryAsType et)) <|> typeName

def sxSimpleInit (ty : Sx) (c : Option Sx) : Sx :=
  .t "Simple" [.n "SimpleInitializer" [("type_name", ty), ("initial_value", Sx.opt c)]]

def simpleSpecInit : P Sx := do
  let ty ← simpleSpecification; ws
  let c ← opt (do let _ ← tok "Assignment"; ws; constant)
  pure (sxSimpleInit ty c)

def simpleSpecInitWithConstant : P Sx := do
  let ty ← simpleSpecification; ws; let _ ← tok "Assignment"; ws
  let c ← constant
  pure (sxSimpleInit ty (some c))

/-- `subrange_specification__with_range()` → SubrangeSpecificationKind -/
def subrangeSpecificationWithRange : P Sx := do
  let ty ← integerTypeName; ws; let _ ← tok "LeftParen"; ws
  let sr ← subrange; ws; let _ ← tok "RightParen"
  pure (.t "Specification" [.n "SubrangeSpecification" [("type_name", .a ty), ("subrange", sr)]])

def subrangeSpecInitWithRange : P (Sx × Option Sx) := do
  let spec ← subrangeSpecificationWithRange; ws
  let d ← opt (do let _ ← tok "Assignment"; ws; signedInteger)
  pure (spec, d)

def sxEnumValues (vs : List Sx) : Sx := .t "Values" [.n "EnumeratedSpecificationValues" [("values", .l vs)]]

def enumeratedSpecificationOnlyValues : P (List Sx) := do
  let _ ← tok "LeftParen"; ws
  let v ← sepBy1 enumeratedValue (do ws; comma; ws)
  ws; let _ ← tok "RightParen"
  pure v

/-- `enumerated_specification()`: `inl values` or `inr type name` -/
def enumeratedSpecification : P (Sum (List Sx) Sx) :=
  (do let v ← enumeratedSpecificationOnlyValues; pure (Sum.inl v))
  <|> (do let n ← typeName; pure (Sum.inr n))

def sxEnumSpec : Sum (List Sx) Sx → Sx
  | .inl vs => sxEnumValues vs
  | .inr n => .t "TypeName" [n]

def arraySpecification : P Sx := do
  let _ ← tok "Array"; ws; let _ ← tok "LeftBracket"; ws
  let ranges ← sepBy subrange (do ws; comma; ws)
  ws; let _ ← tok "RightBracket"; ws; let _ ← tok "Of"; ws
  let ty ← nonGenericTypeName
  pure (.t "Subranges" [.n "ArraySubranges" [("ranges", .l ranges), ("type_name", ty)]])

def arrayInitialElement : P Sx :=
  (do let c ← constant; pure (.t "Constant" [c]))
  <|> (do let e ← enumeratedValue; pure (.t "EnumValue" [e]))

def arrayInitialElements : P Sx :=
  (do let size ← integer; ws; let _ ← tok "LeftParen"; ws
      let ai ← opt arrayInitialElement
      ws; let _ ← tok "RightParen"
      pure (.t "Repeated" [.n "Repeated" [("size", sxInteger size), ("init", Sx.opt ai)]]))
  <|> arrayInitialElement

def arrayInitialization : P (List Sx) := do
  let _ ← tok "LeftBracket"; ws
  let init ← sepBy arrayInitialElements (do ws; comma; ws)
  ws; let _ ← tok "RightBracket"
  pure init

/-- `array_spec_init()` → (spec, initial values) -/
def arraySpecInit : P (Sx × List Sx) := do
  let spec ← arraySpecification; ws
  let init ← opt (do let _ ← tok "Assignment"; ws; arrayInitialization)
  pure (spec, init.getD [])

def sxArrayInit (p : Sx × List Sx) : Sx :=
  .t "Array" [.n "ArrayInitialValueAssignment" [("spec", p.1), ("initial_values", .l p.2)]]

/-- `structure_initialization()`; nested structures recurse (fuel) -/
def structureInitializationF : Nat → P (List Sx)
  | 0 => fail
  | f+1 => do
    let _ ← tok "LeftParen"; ws
    let elems ← sepBy1 (do
        let name ← identifier; ws; let _ ← tok "Assignment"; ws
        let init ← (do let c ← constant; pure (Sx.t "Constant" [c]))
          <|> (do let e ← enumeratedValue; pure (Sx.t "EnumeratedValue" [e]))
          <|> (do let a ← arrayInitialization; pure (Sx.t "Array" [.l a]))
          <|> (do let s ← structureInitializationF f; pure (Sx.t "Structure" [.l s]))
        pure (Sx.n "StructureElementInit" [("name", name), ("init", init)])) (do ws; comma; ws)
    ws; let _ ← tok "RightParen"
    pure elems

def structureInitialization : P (List Sx) := fun ts => structureInitializationF (ts.length + 2) ts

def sxStructInit (ty : Sx) (elems : List Sx) : Sx :=
  .n "StructureInitializationDeclaration" [("type_name", ty), ("elements_init", .l elems)]

def initializedStructureWithoutAmbiguous : P Sx := do
  let ty ← typeName; ws; let _ ← tok "Assignment"; ws
  let init ← structureInitialization
  pure (sxStructInit ty init)

def initializedStructure : P Sx := do
  let ty ← typeName; ws
  let init ← opt (do let _ ← tok "Assignment"; ws; structureInitialization)
  pure (sxStructInit ty (init.getD []))

/-- `enumerated_spec_init__with_value()` -/
def enumeratedSpecInitWithValue : P (Sum (List Sx) Sx × Sx) := do
  let spec ← enumeratedSpecification; ws; let _ ← tok "Assignment"; ws
  let d ← enumeratedValue
  pure (spec, d)

def sxEnumType (ty : Sx) (v : Option Sx) : Sx :=
  .t "EnumeratedType" [.n "EnumeratedInitialValueAssignment" [("type_name", ty), ("initial_value", Sx.opt v)]]
def sxEnumVals (vs : List Sx) (v : Option Sx) : Sx :=
  .t "EnumeratedValues" [.n "EnumeratedValuesInitializer" [("values", .l vs), ("initial_value", Sx.opt v)]]

/-- `simple_or_enumerated_or_subrange_ambiguous_struct_spec_init()` -/
def ambiguousSpecInit : P Sx :=
  (do let s ← simpleSpecification; ws; let _ ← tok "Assignment"; ws; let c ← constant
      pure (sxSimpleInit s (some c)))
  <|> (do let spec ← enumeratedSpecification; ws; let _ ← tok "Assignment"; ws; let init ← enumeratedValue
          pure (match spec with
            | .inr name => sxEnumType name (some init)
            | .inl vs => sxEnumVals vs (some init)))
  <|> (do let _ ← tok "LeftParen"; ws
          let vs ← sepBy enumeratedValue (do ws; comma; ws)
          ws; let _ ← tok "RightParen"; ws
          let init ← opt (do let _ ← tok "Assignment"; ws; enumeratedValue)
          pure (sxEnumVals vs init))
  <|> (do let et ← elementaryTypeName; pure (sxSimpleInit (elementaryAsType et) none))
  <|> (do let i ← typeName; pure (.t "LateResolvedType" [i]))

def structureElementDeclaration : P Sx := do
  let name ← identifier; ws; let _ ← tok "Colon"; ws
  let init ←
    (do let a ← arraySpecInit; pure (sxArrayInit a))
    <|> (do let s ← subrangeSpecInitWithRange; pure (Sx.t "Subrange" [s.1]))
    <|> (do let i ← initializedStructureWithoutAmbiguous; pure (Sx.t "Structure" [i]))
    <|> (do let si ← enumeratedSpecInitWithValue
            pure (match si.1 with
              | .inr id => sxEnumType id (some si.2)
              | .inl vs => sxEnumVals vs (some si.2)))
    <|> simpleSpecInitWithConstant
    <|> ambiguousSpecInit
  pure (.n "StructureElementDeclaration" [("name", name), ("init", init)])

def structureDeclarationElements : P (List Sx) := do
  let _ ← tok "Struct"; ws
  let elements ← semisepOneplus structureElementDeclaration
  ws; let _ ← tok "EndStruct"
  pure elements

def stringWidth : P String := (do let _ ← tok "String"; pure "String") <|> (do let _ ← tok "WString"; pure "WString")

/-- Rust's Debug of a `String` (escapes for the chars that can occur in a single-quoted token) -/
def rustString (cs : List Char) : String :=
  "\"" ++ String.join (cs.map fun c =>
    if c == '"' then "\\\"" else if c == '\\' then "\\\\" else if c == '\n' then "\\n"
    else if c == '\r' then "\\r" else if c == '\t' then "\\t" else String.singleton c) ++ "\""

def stringTypeDeclarationWith (open_ close : String) : P Sx := do
  let ty ← typeName; ws; let _ ← tok "Colon"; ws
  let width ← stringWidth; ws; let _ ← tok open_; ws
  let length ← integer; ws; let _ ← tok close; ws
  let init ← opt (do let _ ← tok "Assignment"; ws; characterString)
  pure (.t "String" [.n "StringDeclaration" [("type_name", ty), ("length", sxInteger length), ("width", .a width),
    ("init", match init with | some cs => Sx.some' (.a (rustString cs)) | none => Sx.none')]])

def typeDeclaration : P Sx :=
  stringTypeDeclarationWith "LeftBracket" "RightBracket"
  <|> stringTypeDeclarationWith "LeftParen" "RightParen"
  -- array_type_declaration
  <|> (do let ty ← typeName; ws; let _ ← tok "Colon"; ws; let a ← arraySpecInit
          pure (.t "Array" [.n "ArrayDeclaration" [("type_name", ty), ("spec", a.1), ("init", .l a.2)]]))
  -- subrange_type_declaration__with_range
  <|> (do let ty ← typeName; ws; let _ ← tok "Colon"; ws; let s ← subrangeSpecInitWithRange
          pure (.t "Subrange" [.n "SubrangeDeclaration" [("type_name", ty), ("spec", s.1), ("default", Sx.opt s.2)]]))
  -- structure_type_declaration__with_constant
  <|> (do let ty ← typeName; ws; let _ ← tok "Colon"; ws; let es ← structureDeclarationElements
          pure (.t "Structure" [.n "StructureDeclaration" [("type_name", ty), ("elements", .l es)]]))
  <|> (do let ty ← typeName; ws; let _ ← tok "Colon"; ws; let i ← initializedStructureWithoutAmbiguous
          pure (match i with
            | .n _ fs => .t "StructureInitialization" [.n "StructureInitializationDeclaration"
                [("type_name", ty), ("elements_init", (fs.lookup "elements_init").getD (.l []))]]
            | x => x))
  -- enumerated_type_declaration__with_value
  <|> (do let ty ← typeName; ws; let _ ← tok "Colon"; ws; let si ← enumeratedSpecInitWithValue
          pure (.t "Enumeration" [.n "EnumerationDeclaration" [("type_name", ty),
            ("spec_init", .n "EnumeratedSpecificationInit" [("spec", sxEnumSpec si.1), ("default", Sx.some' si.2)])]]))
  <|> (do let ty ← typeName; ws; let _ ← tok "Colon"; ws
          let vs ← enumeratedSpecificationOnlyValues; ws
          let d ← opt (do let _ ← tok "Assignment"; ws; enumeratedValue)
          pure (.t "Enumeration" [.n "EnumerationDeclaration" [("type_name", ty),
            ("spec_init", .n "EnumeratedSpecificationInit" [("spec", sxEnumValues vs), ("default", Sx.opt d)])]]))
  -- simple_type_declaration__with_constant
  <|> (do let ty ← typeName; ws; let _ ← tok "Colon"; ws; let si ← simpleSpecInitWithConstant
          pure (.t "Simple" [.n "SimpleDeclaration" [("type_name", ty), ("spec_and_init", si)]]))
  -- structure_or_enumerated_or_simple_type_declaration__without_value
  <|> (do let ty ← typeName; ws; let _ ← tok "Colon"; ws; let base ← typeName
          pure (.t "LateBound" [.n "LateBoundDeclaration" [("data_type_name", ty), ("base_type_name", base)]]))

def dataTypeDeclaration : P (List Sx) := do
  let _ ← tok "Type"; ws
  let ds ← semisep typeDeclaration
  ws; let _ ← tok "EndType"
  pure ds

end Parse
