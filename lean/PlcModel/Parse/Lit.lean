import PlcModel.Peg

/-!
# M-Parse / M-Literal: identifiers, type names and constants (`parser.rs` B.1.1 – B.1.3.1,
`dsl/src/common.rs` Integer / SignedInteger / FixedPoint / RealLiteral, `dsl/src/time.rs`)

Rule names follow parser.rs.  Integer arithmetic is on `Nat`/`Int` with the range checks the Rust
types impose made explicit (u128, u64, u32, u8, i64, i32); an out-of-range value makes the rule
fail (the `{? … }` actions return `Err`), never wraps.
-/

open P

namespace Parse

/-! ### numbers from text -/

def digitVal (c : Char) : Option Nat :=
  if '0' ≤ c && c ≤ '9' then some (c.toNat - '0'.toNat)
  else if 'a' ≤ c && c ≤ 'f' then some (c.toNat - 'a'.toNat + 10)
  else if 'A' ≤ c && c ≤ 'F' then some (c.toNat - 'A'.toNat + 10)
  else none

/-- a char as a digit of `base` -/
def digitOf (base : Nat) (c : Char) : Option Nat :=
  match digitVal c with
  | some d => if d < base then some d else none
  | none => none

def digitStep (base : Nat) (acc : Option Nat) (c : Char) : Option Nat :=
  match acc, digitOf base c with
  | some a, some d => some (a * base + d)
  | _, _ => none

/-- value of a digit string in `base`; `none` if a char is not a digit of the base or the string is empty -/
def natOfDigits (base : Nat) (cs : List Char) : Option Nat :=
  if cs.isEmpty then none else cs.foldl (digitStep base) (some 0)

def u128Max : Nat := 2 ^ 128
def u64Max : Nat := 2 ^ 64

/-- `Integer::new`: keep the ASCII digits, parse as u128 -/
def integerNew (text : List Char) : Option Nat :=
  match natOfDigits 10 (text.filter fun c => '0' ≤ c && c ≤ '9') with
  | some v => if v < u128Max then some v else none
  | none => none

/-- `Integer::try_hex` / `try_octal` / `try_binary`: prefix, underscores removed, all remaining chars digits of the base -/
def integerBased (base : Nat) (pre : List Char) (text : List Char) : Option Nat :=
  if !(pre.isPrefixOf text) then none else
  match natOfDigits base ((text.drop pre.length).filter (· != '_')) with
  | some v => if v < u128Max then some v else none
  | none => none

def sxInteger (v : Nat) : Sx := .n "Integer" [("value", .nat v)]
def sxSigned (v : Nat) (neg : Bool) : Sx := .n "SignedInteger" [("value", sxInteger v), ("is_neg", .bool neg)]

/-! ### B.1.1 identifiers, type names -/

def identifier : P Sx := do let t ← tok "Identifier"; pure (.a (txt t))
def typeName : P Sx := do let i ← identifier; pure (.n "Type" [("name", i)])

/-- `elementary_type_name()` (alternatives in grammar order); returns the `ElementaryTypeName` variant name -/
def integerTypeName : P String :=
  (do let _ ← tok "Sint"; pure "SINT") <|> (do let _ ← tok "Int"; pure "INT") <|> (do let _ ← tok "Dint"; pure "DINT")
  <|> (do let _ ← tok "Lint"; pure "LINT") <|> (do let _ ← tok "Usint"; pure "USINT") <|> (do let _ ← tok "Uint"; pure "UINT")
  <|> (do let _ ← tok "Udint"; pure "UDINT") <|> (do let _ ← tok "Ulint"; pure "ULINT")
def realTypeName : P String := (do let _ ← tok "Real"; pure "REAL") <|> (do let _ ← tok "Lreal"; pure "LREAL")
def dateTypeName : P String :=
  (do let _ ← tok "Date"; pure "DATE") <|> (do let _ ← tok "TimeOfDay"; pure "TimeOfDay") <|> (do let _ ← tok "DateAndTime"; pure "DateAndTime")
def bitStringTypeName : P String :=
  (do let _ ← tok "Bool"; pure "BOOL") <|> (do let _ ← tok "Byte"; pure "BYTE") <|> (do let _ ← tok "Word"; pure "WORD")
  <|> (do let _ ← tok "Dword"; pure "DWORD") <|> (do let _ ← tok "Lword"; pure "LWORD")
def elementaryTypeName : P String :=
  integerTypeName <|> realTypeName <|> dateTypeName <|> bitStringTypeName
  <|> (do let _ ← tok "String"; pure "STRING") <|> (do let _ ← tok "WString"; pure "WSTRING") <|> (do let _ ← tok "Time"; pure "TIME")

/-- `From<ElementaryTypeName> for Type` -/
def elementaryAsType (v : String) : Sx :=
  let name := if v == "TimeOfDay" then "TIME_OF_DAY" else if v == "DateAndTime" then "DATE_AND_TIME" else v
  .n "Type" [("name", .a name)]

/-! ### B.1.2.1 numeric literals -/

def integer : P Nat := do
  let t ← tok "Digits"
  match integerNew t.text with
  | some v => pure v
  | none => fail

def integerSx : P Sx := do let v ← integer; pure (sxInteger v)

def signedInteger : P Sx :=
  (do let _ ← opt (do let _ ← tok "Plus"; ws); let v ← integer; pure (sxSigned v false))
  <|> (do let _ ← tok "Minus"; ws; let v ← integer; pure (sxSigned v true))

def binaryInteger : P Nat := do
  let t ← tok "BinDigits"
  match integerBased 2 ['2', '#'] t.text with | some v => pure v | none => fail
def octalInteger : P Nat := do
  let t ← tok "OctDigits"
  match integerBased 8 ['8', '#'] t.text with | some v => pure v | none => fail
def hexInteger : P Nat := do
  let t ← tok "HexDigits"
  match integerBased 16 ['1', '6', '#'] t.text with | some v => pure v | none => fail

def optType (p : P String) : P Sx := do
  let t ← opt (do let t ← p; let _ ← tok "Hash"; pure t)
  pure (match t with | some t => Sx.some' (.a t) | none => Sx.none')

def integerLiteral : P Sx := do
  let dt ← optType integerTypeName
  let v ← (do let v ← binaryInteger; pure (sxSigned v false)) <|> (do let v ← octalInteger; pure (sxSigned v false))
        <|> (do let v ← hexInteger; pure (sxSigned v false)) <|> signedInteger
  pure (.n "IntegerLiteral" [("value", v), ("data_type", dt)])

/-- binary64 overflow threshold: decimal values `≥ 2^1024 − 2^970` round to infinity (ties to even) -/
def realInfThreshold : Nat := 2 ^ 1024 - 2 ^ 970

/-- does the cleaned text `ddd.ddd[E[±]ddd]` denote a value that `f64::from_str` rounds to infinity?
exact integer arithmetic on mantissa × 10^scale -/
def realOverflows (cleaned : List Char) : Bool :=
  let isDigit (c : Char) : Bool := '0' ≤ c && c ≤ '9'
  let intPart := cleaned.takeWhile isDigit
  let rest := cleaned.dropWhile isDigit
  let rest := match rest with | '.' :: r => r | r => r
  let fracPart := rest.takeWhile isDigit
  let rest := rest.dropWhile isDigit
  let (expNeg, expDigits) := match rest with
    | _ :: '-' :: ds => (true, ds)
    | _ :: '+' :: ds => (false, ds)
    | _ :: ds => (false, ds)
    | [] => (false, [])
  let mantDigits := (intPart ++ fracPart).dropWhile (· == '0')
  let mant := (natOfDigits 10 (intPart ++ fracPart)).getD 0
  -- an exponent that is not a plain number is left to the caller (the token shape excludes it)
  let e := (natOfDigits 10 expDigits).getD 0
  if mant == 0 then false else
  -- value = mant × 10^(±e − |fracPart|)
  if expNeg then
    let down := e + fracPart.length
    if down ≥ mantDigits.length then false else mant ≥ realInfThreshold * 10 ^ down
  else if e ≥ fracPart.length then
    let up := e - fracPart.length
    if up + mantDigits.length > 400 then true else mant * 10 ^ up ≥ realInfThreshold
  else
    let down := fracPart.length - e
    if down ≥ mantDigits.length then false else mant ≥ realInfThreshold * 10 ^ down

/-- `RealLiteral::try_parse`: underscores removed; only digits `.` `E` `e` `-` `+` may remain.
The value handed to `f64::from_str` is kept as text (`R:<sign><text>`): binary64 rounding is Rust's;\na value that rounds to infinity is rejected. -/
def realLiteral : P Sx := do
  let dt ← optType realTypeName
  let sign ← opt ((do let _ ← tok "Minus"; pure "-") <|> (do let _ ← tok "Plus"; pure ""))
  let t ← tok "FloatingPoint" <|> tok "FixedPoint"
  let cleaned := t.text.filter (· != '_')
  if cleaned.all (fun c => ('0' ≤ c && c ≤ '9') || c == '.' || c == 'E' || c == 'e' || c == '-' || c == '+')
      && !realOverflows cleaned then
    pure (.n "RealLiteral" [("value", .a ("R:" ++ sign.getD "" ++ String.ofList cleaned)), ("data_type", dt)])
  else fail

def bitStringLiteral : P Sx := do
  let dt ← optType ((do let _ ← tok "Byte"; pure "BYTE") <|> (do let _ ← tok "Word"; pure "WORD")
                    <|> (do let _ ← tok "Dword"; pure "DWORD") <|> (do let _ ← tok "Lword"; pure "LWORD"))
  let v ← binaryInteger <|> octalInteger <|> hexInteger <|> integer
  pure (.n "BitStringLiteral" [("value", sxInteger v), ("data_type", dt)])

def sxBool (b : Bool) : Sx := .n "BooleanLiteral" [("value", .a (if b then "True" else "False"))]

def booleanLiteral : P Sx :=
  (do let _ ← tok "Bool"; let _ ← tok "Hash"; let _ ← tokEq "Digits" "1"; pure (sxBool true))
  <|> (do let _ ← tok "Bool"; let _ ← tok "Hash"; let _ ← tokEq "Digits" "0"; pure (sxBool false))
  <|> (do let _ ← tok "Bool"; let _ ← tok "Hash"; let _ ← tok "True"; pure (sxBool true))
  <|> (do let _ ← tok "True"; pure (sxBool true))
  <|> (do let _ ← tok "Bool"; let _ ← tok "Hash"; let _ ← tok "False"; pure (sxBool false))
  <|> (do let _ ← tok "False"; pure (sxBool false))

/-! ### B.1.2.2 character strings: the token text without its first and last char, char by char -/

def stripQuotes (cs : List Char) : List Char := (cs.drop 1).dropLast

def singleByteCharacterString : P (List Char) := do
  let _ ← opt (do let _ ← tok "String"; tok "Hash")
  let t ← tok "SingleByteString"
  pure (stripQuotes t.text)
def doubleByteCharacterString : P (List Char) := do
  let _ ← opt (do let _ ← tok "WString"; tok "Hash")
  let t ← tok "DoubleByteString"
  pure (stripQuotes t.text)
def characterString : P (List Char) := singleByteCharacterString <|> doubleByteCharacterString

def sxChars (cs : List Char) : Sx := .l (cs.map Sx.chr)

/-! ### B.1.2.3 time literals -/

structure FixedPt where
  whole : Nat      -- < 2^64
  femptos : Nat    -- < 10^15

def femptoUnits : Nat := 1000000000000000

/-- `FixedPoint::parse` -/
def fixedPointParse (text : List Char) : Option FixedPt :=
  let v := text.filter fun c => ('0' ≤ c && c ≤ '9') || c == '.'
  match v.span (· != '.') with
  | (w, '.' :: d) =>
    match natOfDigits 10 w with
    | some whole =>
      if whole < u64Max ∧ d.length ≤ 15 then
        -- Rust's `split_once` keeps further periods in the decimal part, which then fails to parse
        match natOfDigits 10 (d ++ List.replicate (15 - d.length) '0') with
        | some f => some ⟨whole, f⟩
        | none => none
      else none
    | none => none
  | (w, _) =>
    match natOfDigits 10 w with
    | some whole => if whole < u64Max then some ⟨whole, 0⟩ else none
    | none => none

def fixedPointInteger : P FixedPt := do
  let v ← integer
  if v < u64Max then pure ⟨v, 0⟩ else fail

def fixedPoint : P FixedPt :=
  (do let t ← tok "FixedPoint"
      match fixedPointParse t.text with | some f => pure f | none => fail)
  <|> fixedPointInteger

def i64Max : Nat := 2 ^ 63

/-- `DurationLiteral::try_from_units`: exact nanoseconds, or failure -/
def durationOfUnits (v : FixedPt) (nanosPerUnit : Nat) : Option Nat :=
  let fraction := v.femptos * nanosPerUnit
  if fraction % femptoUnits != 0 then none else
  let ns := v.whole * nanosPerUnit + fraction / femptoUnits
  if ns / 1000000000 < i64Max then some ns else none

def nsSecond : Nat := 1000000000
def nsMs : Nat := 1000000
def nsMinute : Nat := 60 * nsSecond
def nsHour : Nat := 3600 * nsSecond
def nsDay : Nat := 86400 * nsSecond

/-- `try_plus`: `Duration::checked_add` (both operands are non-negative here) -/
def durPlus (a b : Nat) : Option Nat :=
  if (a + b) / nsSecond < i64Max then some (a + b) else none

def liftO {α} : Option α → P α
  | some a => pure a
  | none => fail

def dtSep (s : String) : P Item := idEq s

def milliseconds : P Nat := do
  let v ← fixedPoint; let _ ← dtSep "ms"; liftO (durationOfUnits v nsMs)
def seconds : P Nat :=
  (do let v ← fixedPoint; let _ ← dtSep "s"; liftO (durationOfUnits v nsSecond))
  <|> (do let v ← fixedPointInteger; let _ ← dtSep "s"; let _ ← opt (dtSep "_"); let r ← milliseconds
          let a ← liftO (durationOfUnits v nsSecond); liftO (durPlus r a))
def minutes : P Nat :=
  (do let v ← fixedPoint; let _ ← dtSep "m"; liftO (durationOfUnits v nsMinute))
  <|> (do let v ← fixedPointInteger; let _ ← dtSep "m"; let _ ← opt (dtSep "_"); let r ← seconds
          let a ← liftO (durationOfUnits v nsMinute); liftO (durPlus r a))
def hours : P Nat :=
  (do let v ← fixedPoint; let _ ← dtSep "h"; liftO (durationOfUnits v nsHour))
  <|> (do let v ← fixedPointInteger; let _ ← dtSep "h"; let _ ← opt (dtSep "_"); let r ← minutes
          let a ← liftO (durationOfUnits v nsHour); liftO (durPlus r a))
def days : P Nat :=
  (do let v ← fixedPoint; let _ ← dtSep "d"; liftO (durationOfUnits v nsDay))
  <|> (do let v ← fixedPointInteger; let _ ← dtSep "d"; let _ ← opt (dtSep "_"); let r ← hours
          let a ← liftO (durationOfUnits v nsDay); liftO (durPlus r a))

def interval : P Nat := milliseconds <|> days <|> hours <|> minutes <|> seconds

/-- `time::Duration`'s Debug: seconds and nanoseconds, both carrying the sign -/
def sxDuration (ns : Nat) (neg : Bool) : Sx :=
  let s := ns / nsSecond
  let n := ns % nsSecond
  let sg (x : Nat) : String := if neg && x != 0 then "-" ++ toString x else toString x
  .n "DurationLiteral" [("interval", .n "Duration" [("seconds", .a (sg s)), ("nanoseconds", .a (sg n))])]

def duration : P Sx := do
  let _ ← tok "Time" <|> dtSep "T" <|> dtSep "t"
  let _ ← tok "Hash"
  let neg ← opt (tok "Minus")
  let ns ← interval
  pure (sxDuration ns neg.isSome)

def pad2 (n : Nat) : String := if n < 10 then "0" ++ toString n else toString n

/-- trailing zeros removed, at least one digit (time's Display for the sub-second part) -/
def fracDigits (nanos : Nat) : String :=
  let ds := (toString (1000000000 + nanos)).toList.drop 1
  let trimmed := (ds.reverse.dropWhile (· == '0')).reverse
  if trimmed.isEmpty then "0" else String.ofList trimmed

structure Tod where
  h : Nat
  m : Nat
  s : Nat
  nanos : Nat

/-- `daytime()`: hour and minute fit u8, the second fits u8, the fraction is whole nanoseconds,
and `Time::from_hms_nano` accepts the fields -/
def daytime : P Tod := do
  let h ← integer; let _ ← tok "Colon"; let m ← integer; let _ ← tok "Colon"; let s ← fixedPoint
  if h < 256 ∧ m < 256 ∧ s.whole < 256 ∧ s.femptos % 1000000 == 0 ∧ h < 24 ∧ m < 60 ∧ s.whole < 60 then
    pure ⟨h, m, s.whole, s.femptos / 1000000⟩
  else fail

def showTod (t : Tod) : String := s!"{t.h}:{pad2 t.m}:{pad2 t.s}.{fracDigits t.nanos}"

def timeOfDay : P Sx := do
  let _ ← tok "TimeOfDay"; let _ ← tok "Hash"; let t ← daytime
  pure (.n "TimeOfDayLiteral" [("value", .a (showTod t))])

def isLeap (y : Nat) : Bool := (y % 4 == 0 && y % 100 != 0) || y % 400 == 0
def daysInMonth (y m : Nat) : Nat :=
  if m == 2 then (if isLeap y then 29 else 28)
  else if m == 4 || m == 6 || m == 9 || m == 11 then 30 else 31

structure Ymd where
  y : Nat
  m : Nat
  d : Nat

/-- `date_literal()`: month 1..12 (u8), year within the time crate's default range (0 ≤ y ≤ 9999 for an
unsigned literal), day valid for the month -/
def dateLiteral : P Ymd := do
  let y ← integer; let _ ← tok "Minus"; let m ← integer; let _ ← tok "Minus"; let d ← integer
  if 1 ≤ m ∧ m ≤ 12 ∧ y ≤ 9999 ∧ 1 ≤ d ∧ d ≤ daysInMonth y m then pure ⟨y, m, d⟩ else fail

def pad4 (n : Nat) : String := String.ofList (List.replicate (4 - (toString n).length) '0') ++ toString n
def showDate (d : Ymd) : String := s!"{pad4 d.y}-{pad2 d.m}-{pad2 d.d}"

def date : P Sx := do
  let _ ← tok "Date" <|> dtSep "D" <|> dtSep "d"
  let _ ← tok "Hash"; let d ← dateLiteral
  pure (.n "DateLiteral" [("value", .a (showDate d))])

def dateAndTime : P Sx := do
  let _ ← tok "DateAndTime"; let _ ← tok "Hash"; let d ← dateLiteral; let _ ← tok "Minus"; let t ← daytime
  pure (.n "DateAndTimeLiteral" [("value", .a (showDate d ++ showTod t))])

/-- `constant()` -/
def constant : P Sx :=
  (do let r ← realLiteral; pure (.t "RealLiteral" [r]))
  <|> (do let i ← integerLiteral; pure (.t "IntegerLiteral" [i]))
  <|> (do let c ← characterString; pure (.t "CharacterString" [.n "CharacterStringLiteral" [("value", sxChars c)]]))
  <|> (do let d ← duration; pure (.t "Duration" [d]))
  <|> (do let t ← timeOfDay; pure (.t "TimeOfDay" [t]))
  <|> (do let d ← date; pure (.t "Date" [d]))
  <|> (do let d ← dateAndTime; pure (.t "DateAndTime" [d]))
  <|> (do let b ← bitStringLiteral; pure (.t "BitStringLiteral" [b]))
  <|> (do let b ← booleanLiteral; pure (.t "Boolean" [b]))

end Parse
