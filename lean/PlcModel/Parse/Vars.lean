import PlcModel.Parse.Types

/-!
# M-Parse: variable declarations (`parser.rs` B.1.4.3) and the plumbing of `vars.rs`
(`VarDeclarations::{flatten, drain_var_decl, drain_edge_decl, drain_access, with, map, flat_map}`,
`UntypedVarDecl::into_var_decl`, `From<IncomplVarDecl> for VarDecl`).
-/

open P

namespace Parse

/-- replace (or keep) a field of a struct node -/
def setField (name : String) (v : Sx) : Sx → Sx
  | .n nm fs => .n nm (fs.map fun f => if f.1 == name then (f.1, v) else f)
  | x => x

def sxVarDecl (ident : Sx) (varType : String) (qualifier : String) (init : Sx) : Sx :=
  .n "VarDecl" [("identifier", ident), ("var_type", .a varType), ("qualifier", .a qualifier), ("initializer", init)]

/-- `VarDeclarations` -/
inductive VD where
  | inputs (l : List Sx) | outputs (l : List Sx) | inouts (l : List Sx) | located (l : List Sx)
  | var (l : List Sx) | external (l : List Sx)
  | incomplete (l : List Sx)          -- already converted by `From<IncomplVarDecl> for VarDecl`
  | programAccess (l : List Sx) | configAccess (l : List Sx) | edge (l : List Sx)

/-- `VarDeclarations::map`: `with_qualifier` on every declaration -/
def mapQualifier (q : String) (l : List Sx) : List Sx := l.map (setField "qualifier" (.a q))

/-- `VarDeclarations::with` -/
def VD.withQ (q : String) : VD → VD
  | .inputs l => .inputs (mapQualifier q l) | .outputs l => .outputs (mapQualifier q l)
  | .inouts l => .inouts (mapQualifier q l) | .located l => .located (mapQualifier q l)
  | .var l => .var (mapQualifier q l) | .external l => .external (mapQualifier q l)
  | .incomplete l => .incomplete (mapQualifier q l)
  | .programAccess l => .programAccess l | .configAccess l => .configAccess l
  | .edge l => .edge (mapQualifier q l)

/-- `drain_var_decl`: the variables in order; access and edge declarations stay behind -/
def drainVarDecl (ds : List VD) : List Sx × List VD :=
  ds.foldl (fun acc d => match d with
    | .inputs l | .outputs l | .inouts l | .located l | .var l | .external l | .incomplete l => (acc.1 ++ l, acc.2)
    | other => (acc.1, acc.2 ++ [other])) ([], [])

def drainEdgeDecl (ds : List VD) : List Sx × List VD :=
  ds.foldl (fun acc d => match d with
    | .edge l => (acc.1 ++ l, acc.2)
    | other => (acc.1, acc.2 ++ [other])) ([], [])

def drainAccess (ds : List VD) : List Sx × List VD :=
  ds.foldl (fun acc d => match d with
    | .programAccess l => (acc.1 ++ l, acc.2)
    | other => (acc.1, acc.2 ++ [other])) ([], [])

/-- `VarDeclarations::flat_map`: untyped declarations (name, initializer) → `VarDecl`s of a class and qualifier -/
def flatMap (decls : List (List (Sx × Sx))) (varType : String) (q : Option String) : List Sx :=
  decls.flatten.map fun d => sxVarDecl (.t "Symbol" [d.1]) varType (q.getD "Unspecified") d.2

def var1List : P (List Sx) := sepBy1 variableName (do ws; comma; ws)

def untyped (names : List Sx) (init : Sx) : List (Sx × Sx) := names.map fun n => (n, init)

def sxStringInit (length : Option Nat) (width : String) (init : Option (List Char)) : Sx :=
  .t "String" [.n "StringInitializer" [("length", Sx.opt (length.map sxInteger)), ("width", .a width),
    ("initial_value", Sx.opt (init.map sxChars))]]

def stringSpec (tk width : String) (str : P (List Char)) : P Sx := do
  let _ ← tok tk; ws
  let length ← opt (do let _ ← tok "LeftBracket"; ws; let i ← integer; ws; let _ ← tok "RightBracket"; pure i)
  ws
  let init ← opt (do let _ ← tok "Assignment"; ws; str)
  pure (sxStringInit length width init)

def stringVarDeclaration : P (List (Sx × Sx)) :=
  (do let names ← var1List; ws; let _ ← tok "Colon"; ws
      let spec ← stringSpec "String" "String" singleByteCharacterString
      pure (untyped names spec))
  <|> (do let names ← var1List; ws; let _ ← tok "Colon"; ws
          let spec ← stringSpec "WString" "WString" doubleByteCharacterString
          pure (untyped names spec))

def fbNameDecl : P (List (Sx × Sx)) := do
  let names ← commasepOneplus identifier
  ws; let _ ← tok "Colon"; ws
  let ty ← typeName; ws
  let init ← opt (do let _ ← tok "Assignment"; ws; structureInitialization)
  pure (untyped names (.t "FunctionBlock" [.n "FunctionBlockInitialValueAssignment"
    [("type_name", ty), ("init", .l (init.getD []))]]))

def var1InitDeclWithAmbiguousStruct : P (List (Sx × Sx)) := do
  let names ← var1List; ws; let _ ← tok "Colon"; ws
  let init ← ambiguousSpecInit
  pure (untyped names init)

/-- `var_init_decl()` -/
def varInitDecl : P (List (Sx × Sx)) :=
  (do let names ← var1List; ws; let _ ← tok "Colon"; ws
      let i ← initializedStructureWithoutAmbiguous
      pure (untyped names (.t "Structure" [i])))
  <|> stringVarDeclaration
  <|> (do let names ← var1List; ws; let _ ← tok "Colon"; ws
          let a ← arraySpecInit
          pure (untyped names (sxArrayInit a)))
  <|> fbNameDecl
  <|> stringVarDeclaration
  <|> var1InitDeclWithAmbiguousStruct

def retainQualifier : P String :=
  (do let _ ← tok "Retain"; pure "Retain") <|> (do let _ ← tok "NonRetain"; pure "NonRetain")

def edgeDeclaration : P (List Sx) := do
  let names ← var1List; ws; let _ ← tok "Colon"; ws; let _ ← tok "Bool"; ws
  let edge ← (do let _ ← tok "REdge"; pure "Rising") <|> (do let _ ← tok "FEdge"; pure "Falling")
  pure (names.map fun n => .n "EdgeVarDecl" [("identifier", n), ("direction", .a edge), ("qualifier", .a "Unspecified")])

def inputDeclarations : P (List VD) := do
  let _ ← tok "VarInput"; ws
  let q ← opt retainQualifier; ws
  let decls ← semisep ((do let e ← edgeDeclaration; pure (VD.edge e))
    <|> (do let vs ← varInitDecl
            pure (VD.inputs (vs.map fun d => sxVarDecl (.t "Symbol" [d.1]) "Input" "Unspecified" d.2))))
  ws; let _ ← tok "EndVar"
  pure (decls.map (VD.withQ (q.getD "Unspecified")))

def outputDeclarations : P (List Sx) := do
  let _ ← tok "VarOutput"; ws
  let q ← opt retainQualifier; ws
  let decls ← semisep varInitDecl
  ws; let _ ← tok "EndVar"
  pure (flatMap decls "Output" q)

/-- `var1_declaration / array_var_declaration / structured_var_declaration / string_var_declaration / fb_name_decl` -/
def varDeclaration : P (List (Sx × Sx)) :=
  (do let names ← var1List; ws; let _ ← tok "Colon"; ws
      let init ← (do let s ← subrangeSpecificationWithRange; pure (Sx.t "Subrange" [s]))
        <|> (do let vs ← enumeratedSpecificationOnlyValues; pure (sxEnumVals vs none))
        <|> (do let s ← simpleSpecification; pure (Sx.t "LateResolvedType" [s]))
      pure (untyped names init))
  <|> (do let names ← var1List; ws; let _ ← tok "Colon"; ws
          let spec ← arraySpecification
          pure (untyped names (sxArrayInit (spec, []))))
  <|> (do let names ← var1List; ws; let _ ← tok "Colon"; ws
          let name ← typeName
          pure (untyped names (.t "Structure" [sxStructInit name []])))
  <|> stringVarDeclaration
  <|> fbNameDecl

def inputOutputDeclarations : P (List Sx) := do
  let _ ← tok "VarInOut"; ws
  let decls ← semisep varDeclaration
  ws; let _ ← tok "EndVar"
  pure (flatMap decls "InOut" none)

def ioVarDeclarations : P (List VD) :=
  inputDeclarations
  <|> (do let o ← outputDeclarations; pure [VD.outputs o])
  <|> (do let io ← inputOutputDeclarations; pure [VD.inouts io])

def varDeclarations : P VD := do
  let _ ← tok "Var"; ws
  let q ← opt (do let _ ← tok "Constant"; pure "Constant"); ws
  let decls ← semisep varInitDecl
  ws; let _ ← tok "EndVar"
  pure (.var (flatMap decls "Var" q))

def retentiveVarDeclarations (tk q : String) : P VD := do
  let _ ← tok "Var"; ws; let _ ← tok tk; ws
  let decls ← semisep varInitDecl
  ws; let _ ← tok "EndVar"
  pure (.var (flatMap decls "Var" (some q)))

def location : P Sx := do let _ ← tok "At"; ws; directVariable

def sxDirectIdent (name : Option Sx) (addr : Sx) : Sx :=
  .t "Direct" [.n "DirectVariableIdentifier" [("name", Sx.opt name), ("address_assignment", addr)]]

def locatedVarDeclarations : P VD := do
  let _ ← tok "Var"; ws
  let q ← opt ((do let _ ← tok "Constant"; pure "Constant") <|> retainQualifier); ws
  let decls ← semisep (do
    let name ← opt variableName; ws
    let loc ← location; ws; let _ ← tok "Colon"; ws
    let init ← simpleSpecInit
    pure (sxVarDecl (sxDirectIdent name loc) "Var" "Unspecified" init))
  ws; let _ ← tok "EndVar"
  pure (.located (mapQualifier (q.getD "Unspecified") decls))

def externalVarDeclarations : P VD := do
  let _ ← tok "VarExternal"; ws
  let q ← opt (do let _ ← tok "Constant"; pure "Constant"); ws
  let decls ← semisep (do
    let name ← identifier; ws; let _ ← tok "Colon"; ws
    let ty ← simpleSpecification
    pure (sxVarDecl (.t "Symbol" [name]) "External" "Unspecified" (sxSimpleInit ty none)))
  ws; let _ ← tok "EndVar"
  pure (.external (mapQualifier (q.getD "Unspecified") decls))

/-- `global_var_declarations()` → the `VarDecl`s -/
def globalVarDeclarations : P (List Sx) := do
  let _ ← tok "VarGlobal"; ws
  let q ← opt ((do let _ ← tok "Constant"; pure "Constant") <|> (do let _ ← tok "Retain"; pure "Retain")); ws
  let decls ← semisep (do
    -- global_var_spec
    let names ← (sepBy1 identifier (do ws; comma; ws))
      <|> (do let _ ← opt identifier; let _ ← location; pure [Sx.a ""])
    ws; let _ ← tok "Colon"; ws
    let init ← opt (simpleSpecInit
      <|> (do let f ← typeName
              pure (Sx.t "FunctionBlock" [.n "FunctionBlockInitialValueAssignment" [("type_name", f), ("init", .l [])]])))
    pure (names.map fun n => sxVarDecl (.t "Symbol" [n]) "Global" "Unspecified" (init.getD (.t "None" []))))
  ws; let _ ← tok "EndVar"
  pure (decls.flatten.map (setField "qualifier" (.a (q.getD "Unspecified"))))

/-- `var_spec()` together with `From<IncomplVarDecl> for VarDecl`: the initializer the variable gets -/
def varSpecAsInit : P Sx :=
  (do let s ← subrangeSpecificationWithRange; pure (Sx.t "Subrange" [s]))
  <|> (do let e ← enumeratedSpecification
          pure (match e with
            | .inr ty => sxEnumType ty none
            | .inl vs => sxEnumVals vs none))
  <|> (do let a ← arraySpecification; pure (sxArrayInit (a, [])))
  <|> (do let _ ← tok "String"
          let length ← opt (do ws; let _ ← tok "LeftBracket"; ws; let l ← integer; ws; let _ ← tok "RightBracket"; pure l)
          pure (sxStringInit length "String" none))
  <|> (do let _ ← tok "WString"
          let length ← opt (do ws; let _ ← tok "LeftBracket"; ws; let l ← integer; ws; let _ ← tok "RightBracket"; pure l)
          pure (sxStringInit length "WString" none))
  <|> (do let et ← elementaryTypeName; pure (sxSimpleInit (elementaryAsType et) none))
  <|> (do let id ← typeName; pure (Sx.t "LateResolvedType" [id]))

def incomplLocatedVarDeclarations : P VD := do
  let _ ← tok "Var"; ws
  let q ← opt retainQualifier; ws
  let decls ← semisep (do
    let name ← variableName; ws
    let _ ← tok "At"; ws
    let t ← tok "DirectAddressIncomplete"
    let loc ← liftO (addressOfText t.text)
    ws; let _ ← tok "Colon"; ws
    let init ← varSpecAsInit
    pure (sxVarDecl (sxDirectIdent (some name) loc) "Var" (q.getD "Unspecified") init))
  ws; let _ ← tok "EndVar"
  pure (.incomplete decls)

def otherVarDeclarations : P VD :=
  externalVarDeclarations <|> varDeclarations <|> retentiveVarDeclarations "Retain" "Retain"
  <|> retentiveVarDeclarations "NonRetain" "NonRetain" <|> incomplLocatedVarDeclarations

def direction : P Sx :=
  (do let _ ← tok "ReadOnly"; pure (.a "ReadOnly")) <|> (do let _ ← tok "ReadWrite"; pure (.a "ReadWrite"))

def programAccessDecls : P VD := do
  let _ ← tok "VarAccess"; ws
  let decls ← semisepOneplus (do
    let accessName ← identifier; ws; let _ ← tok "Colon"; ws
    let sv ← fun ts => symbolicVariable (fuelFor ts.length) ts
    ws; let _ ← tok "Colon"; ws
    let ty ← nonGenericTypeName; ws
    let dir ← opt direction
    pure (Sx.n "ProgramAccessDecl" [("access_name", accessName), ("symbolic_variable", sv), ("type_name", ty),
      ("direction", Sx.opt dir)]))
  ws; let _ ← tok "EndVar"
  pure (.programAccess decls)

end Parse
