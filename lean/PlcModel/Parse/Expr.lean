import PlcModel.Parse.Lit
import PlcModel.Gen.Prec

/-!
# M-Parse: variables, expressions and statements (`parser.rs` B.1.4 variables, B.3 ST)

`expression()` is the precedence climbing that rust-peg 0.8 generates for `precedence!{…}`, driven
by the generated level table `Gen.prec`: parse an atom, then repeatedly try the operators whose
level is at least the current minimum (levels from weakest, operators in order); a left-associative
operator parses its right operand at `level + 1`.

The recursive rules take a fuel argument (recursion depth); the callers supply more fuel than any
input can use (see `Parse.fuelFor`).
-/

open P

namespace Parse

/-- `AddressAssignment::try_from` on a DirectAddress / DirectAddressIncomplete token text -/
def addressOfText (text : List Char) : Option Sx :=
  let up (c : Char) : Char := c.toUpper
  match text with
  | '%' :: l :: rest =>
    let loc := up l
    if !(loc == 'I' || loc == 'Q' || loc == 'M') then none else
    if rest == ['*'] then some (.n "AddressAssignment" [("location", .a (String.singleton loc)), ("size", .a "Unspecified"), ("address", .l [])]) else
    let (size, digits) := match rest with
      | s :: ds => if (up s == 'X' || up s == 'B' || up s == 'W' || up s == 'D' || up s == 'L') then (String.singleton (up s), ds) else ("Nil", rest)
      | [] => ("Nil", rest)
    -- every part is a decimal number that fits u32
    let parts := ((String.ofList digits).splitOn ".").map fun p => natOfDigits 10 p.toList
    if parts.all (fun p => match p with | some v => v < 2 ^ 32 | none => false) then
      some (.n "AddressAssignment" [("location", .a (String.singleton loc)), ("size", .a size),
                                    ("address", .l ((parts.filterMap id).map Sx.nat))])
    else none
  | _ => none

/-- the components of a direct address: location, size, numeric parts (what C09 compares) -/
def addressParts (text : List Char) : Option (String × String × List Nat) :=
  match text with
  | '%' :: l :: rest =>
    let loc := l.toUpper
    if !(loc == 'I' || loc == 'Q' || loc == 'M') then none else
    if rest == ['*'] then some (String.singleton loc, "Unspecified", []) else
    let (size, digits) := match rest with
      | s :: ds => if (s.toUpper == 'X' || s.toUpper == 'B' || s.toUpper == 'W' || s.toUpper == 'D' || s.toUpper == 'L') then (String.singleton s.toUpper, ds) else ("Nil", rest)
      | [] => ("Nil", rest)
    let parts := ((String.ofList digits).splitOn ".").map fun p => natOfDigits 10 p.toList
    if parts.all (fun p => match p with | some v => v < 2 ^ 32 | none => false) then
      some (String.singleton loc, size, parts.filterMap id)
    else none
  | _ => none

def directVariable : P Sx := do
  let t ← tok "DirectAddress"
  liftO (addressOfText t.text)

def variableName : P Sx := identifier

/-- build `SymbolicVariableKind` from the head name and the selectors -/
def buildSymbolic (name : Sx) (elems : List (Sum Sx (List Sx))) : Sx :=
  elems.foldl (fun head e => match e with
    | .inl field => .t "Structured" [.n "StructuredVariable" [("record", head), ("field", field)]]
    | .inr subs => .t "Array" [.n "ArrayVariable" [("subscripted_variable", head), ("subscripts", .l subs)]])
    (.t "Named" [.n "NamedVariable" [("name", name)]])

def sxCompare (op l r : Sx) : Sx := .t "Compare" [.n "CompareExpr" [("op", op), ("left", l), ("right", r)]]
def sxBinary (op l r : Sx) : Sx := .t "BinaryOp" [.n "BinaryExpr" [("op", op), ("left", l), ("right", r)]]

def applyOp (row : Gen.PrecRow) (l r : Sx) : Sx :=
  if row.ctor == "compare" then sxCompare (.a row.op) l r else sxBinary (.a row.op) l r

/-- case_list_element / subrange (no white space inside a subrange) -/
def subrange : P Sx := do
  let s ← signedInteger; ws; let _ ← tok "Range"; ws; let e ← signedInteger
  pure (.n "Subrange" [("start", s), ("end", e)])

def enumeratedValue : P Sx := do
  let ty ← opt (do let n ← typeName; let _ ← tok "Hash"; pure n)
  let v ← identifier
  pure (.n "EnumeratedValue" [("type_name", Sx.opt ty), ("value", v)])

def caseListElement : P Sx :=
  (do let s ← subrange; pure (.t "Subrange" [s]))
  <|> (do let s ← signedInteger; pure (.t "SignedInteger" [s]))
  <|> (do let e ← enumeratedValue; pure (.t "EnumeratedValue" [e]))

mutual
  /-- `expression()` -/
  def expression : Nat → P Sx
    | 0 => fail
    | f+1 => climb f 0

  /-- `__infix_parse(min_level)` -/
  def climb : Nat → Nat → P Sx
    | 0, _ => fail
    | f+1, minLevel => do
      let lhs ← atom f
      climbLoop f minLevel lhs

  def climbLoop : Nat → Nat → Sx → P Sx
    | 0, _, lhs => pure lhs
    | f+1, minLevel, lhs => fun ts =>
      -- first operator row (levels from weakest, rows in order) whose pattern `_ tok _ rhs` matches
      let tryRow (row : Gen.PrecRow) : Option (Sx × List Item) :=
        if row.level < minLevel then none else
        (do ws; let _ ← tok row.token; ws
            let rhs ← climb f (if row.leftAssoc then row.level + 1 else row.level)
            pure (applyOp row lhs rhs)) ts
      match Gen.prec.findSome? tryRow with
      | some (e, rest) => climbLoop f minLevel e rest
      | none => some (lhs, ts)

  /-- the atoms of the precedence block, in order -/
  def atom : Nat → P Sx
    | 0 => fail
    | f+1 =>
      unaryExpression f
      <|> (do let c ← constant; pure (.t "Const" [c]))
      <|> (do let v ← variableP f; pure (.t "Variable" [v]))
      <|> (do let _ ← tok "LeftParen"; ws; let e ← expression f; ws; let _ ← tok "RightParen"; pure (.t "Expression" [e]))
      <|> functionExpression f

  def unaryExpression : Nat → P Sx
    | 0 => fail
    | f+1 => do
      let u ← opt ((do let _ ← tok "Minus"; pure "Neg") <|> (do let _ ← tok "Not"; pure "Not"))
      ws
      let e ← primaryExpression f
      pure (match u with
        | some op => .t "UnaryOp" [.n "UnaryExpr" [("op", .a op), ("term", e)]]
        | none => e)

  def primaryExpression : Nat → P Sx
    | 0 => fail
    | f+1 =>
      (do let c ← constant; pure (.t "Const" [c]))
      <|> functionExpression f
      <|> (do let id ← identifier; ws
              notP (tok "LeftParen" <|> tok "LeftBracket" <|> tok "Period")
              pure (.t "LateBound" [.n "LateBound" [("name", id)]]))
      <|> (do let v ← variableP f; pure (.t "Variable" [v]))
      <|> (do let _ ← tok "LeftParen"; ws; let e ← expression f; ws; let _ ← tok "RightParen"; pure e)

  def functionExpression : Nat → P Sx
    | 0 => fail
    | f+1 => do
      let name ← identifier
      ws; let _ ← tok "LeftParen"; ws
      let params ← sepBy (paramAssignment f) (do ws; comma; ws)
      ws; let _ ← tok "RightParen"
      pure (.t "Function" [.n "Function" [("name", name), ("param_assignment", .l params)]])

  def paramAssignment : Nat → P Sx
    | 0 => fail
    | f+1 =>
      (do let neg ← opt (tok "Not"); ws
          let src ← variableName; ws; let _ ← tok "RightArrow"; ws
          let tgt ← variableP f
          pure (.t "Output" [.n "Output" [("not", .bool neg.isSome), ("src", src), ("tgt", tgt)]]))
      <|> (do let name ← opt (do let n ← variableName; ws; let _ ← tok "Assignment"; pure n)
              ws
              let e ← expression f
              pure (match name with
                | some n => .t "NamedInput" [.n "NamedInput" [("name", n), ("expr", e)]]
                | none => .t "PositionalInput" [.n "PositionalInput" [("expr", e)]]))

  /-- `variable()` -/
  def variableP : Nat → P Sx
    | 0 => fail
    | f+1 =>
      (do let d ← directVariable; pure (.t "Direct" [d]))
      <|> (do let s ← symbolicVariable f; pure (.t "Symbolic" [s]))

  def symbolicVariable : Nat → P Sx
    | 0 => fail
    | f+1 => do
      let name ← identifier
      let elems ← many ((do ws; let _ ← tok "Period"; ws; let id ← identifier; pure (Sum.inl id))
                        <|> (do ws; let s ← subscriptList f; pure (Sum.inr s)))
      pure (buildSymbolic name elems)

  def subscriptList : Nat → P (List Sx)
    | 0 => fail
    | f+1 => do
      let _ ← tok "LeftBracket"; ws
      let l ← sepBy1 (expression f) (do ws; comma; ws)
      ws; let _ ← tok "RightBracket"
      pure l

  /-- `statement_list()`: one or more `statements_or_empty`, flattened -/
  def statementList : Nat → P (List Sx)
    | 0 => fail
    | f+1 => do
      let items ← many1 (statementsOrEmpty f)
      pure items.flatten

  def statementsOrEmpty : Nat → P (List Sx)
    | 0 => fail
    | f+1 =>
      (do ws; semicolon; ws; pure [])
      <|> semisep (statement f)

  def statement : Nat → P Sx
    | 0 => fail
    | f+1 =>
      -- assignment_statement
      (do let v ← variableP f; ws; let _ ← tok "Assignment"; ws; let e ← expression f
          pure (.t "Assignment" [.n "Assignment" [("target", v), ("value", e)]]))
      -- selection_statement
      <|> ifStatement f <|> caseStatement f
      -- iteration_statement
      <|> forStatement f <|> whileStatement f <|> repeatStatement f
      <|> (do let _ ← tok "Exit"; pure (.a "Exit"))
      -- subprogram_control_statement
      <|> fbInvocation f
      <|> (do let _ ← tok "Return"; pure (.a "Return"))

  def fbInvocation : Nat → P Sx
    | 0 => fail
    | f+1 => do
      let name ← identifier
      ws; let _ ← tok "LeftParen"; ws
      let params ← sepBy (paramAssignment f) (do ws; comma; ws)
      ws; let _ ← tok "RightParen"
      pure (.t "FbCall" [.n "FbCall" [("var_name", name), ("params", .l params)]])

  def ifStatement : Nat → P Sx
    | 0 => fail
    | f+1 => do
      let _ ← tok "If"; ws; let e ← expression f; ws; let _ ← tok "Then"; ws
      let body ← opt (statementList f); ws
      let elseIfs ← sepBy (do
          let _ ← tok "Elsif"; ws; let e ← expression f; ws; let _ ← tok "Then"; ws
          let b ← statementList f
          pure (Sx.n "ElseIf" [("expr", e), ("body", .l b)])) ws
      ws
      let elseBody ← opt (do let _ ← tok "Else"; ws; statementList f)
      ws; let _ ← tok "EndIf"
      pure (.t "If" [.n "If" [("expr", e), ("body", .l (body.getD [])), ("else_ifs", .l elseIfs),
                              ("else_body", .l (elseBody.getD []))]])

  def caseStatement : Nat → P Sx
    | 0 => fail
    | f+1 => do
      let _ ← tok "Case"; ws; let sel ← expression f; ws; let _ ← tok "Of"; ws
      let cases ← sepBy (do
          let sels ← sepBy1 caseListElement (do ws; comma; ws)
          ws; let _ ← tok "Colon"; ws
          let b ← statementList f
          pure (Sx.n "CaseStatementGroup" [("selectors", .l sels), ("statements", .l b)])) ws
      ws
      let elseBody ← opt (do let _ ← tok "Else"; ws; statementList f)
      ws; let _ ← tok "EndCase"
      pure (.t "Case" [.n "Case" [("selector", sel), ("statement_groups", .l cases), ("else_body", .l (elseBody.getD []))]])

  def forStatement : Nat → P Sx
    | 0 => fail
    | f+1 => do
      let _ ← tok "For"; ws; let control ← identifier; ws; let _ ← tok "Assignment"; ws
      let frm ← expression f; ws; let _ ← tok "To"; ws; let to ← expression f; ws
      let step ← opt (do let _ ← tok "By"; ws; expression f)
      ws; let _ ← tok "Do"; ws
      let body ← statementList f
      ws; let _ ← tok "EndFor"
      pure (.t "For" [.n "For" [("control", control), ("from", frm), ("to", to), ("step", Sx.opt step), ("body", .l body)]])

  def whileStatement : Nat → P Sx
    | 0 => fail
    | f+1 => do
      let _ ← tok "While"; ws; let c ← expression f; ws; let _ ← tok "Do"; ws
      let body ← statementList f
      ws; let _ ← tok "EndWhile"
      pure (.t "While" [.n "While" [("condition", c), ("body", .l body)]])

  def repeatStatement : Nat → P Sx
    | 0 => fail
    | f+1 => do
      let _ ← tok "Repeat"; ws
      let body ← statementList f
      ws; let _ ← tok "Until"; ws; let u ← expression f; ws; let _ ← tok "EndRepeat"
      pure (.t "Repeat" [.n "Repeat" [("until", u), ("body", .l body)]])
end

/-- enough recursion depth for any parse of `n` tokens -/
def fuelFor (n : Nat) : Nat := 24 * n + 200

end Parse
