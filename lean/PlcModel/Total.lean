/-!
# M-Total: the pieces of C04 that are decision logic

`isLessThan` mirrors `is_less_than` of analyzer/src/rule_decl_subrange_limits.rs (the comparison of
subrange bounds by sign and 128-bit magnitude that replaced the panicking conversion to i128).
-/

namespace Total

/-- `is_less_than(first, second)`: a bound is a sign flag and a magnitude -/
def isLessThan (firstNeg : Bool) (first : Nat) (secondNeg : Bool) (second : Nat) : Bool :=
  let fn := firstNeg && first != 0
  let sn := secondNeg && second != 0
  match fn, sn with
  | true, false => true
  | false, true => false
  | false, false => first < second
  | true, true => first > second

/-- the integer a bound denotes -/
def value (neg : Bool) (mag : Nat) : Int := if neg then -(mag : Int) else (mag : Int)

end Total
