import PlcModel.Sx

/-!
# M-Render: model of `plc2plc/src/renderer.rs` (LibraryRenderer)

The renderer is a visitor that appends lexemes to a buffer: `write_ws` puts a blank (or the
indentation) before the lexeme, `write` appends directly, `newline` ends the line.  The model works
on the generic tree `Sx` (the shape of the dsl's `Debug` output, which is what the parser mirror
produces) and returns the text with one blank where `write_ws` separates and nothing where `write`
joins; indentation and the number of blanks are not modelled — the correspondence check compares
the *lexeme sequences* (both texts split at white space), so a change of layout alone is not a
difference, a change of any lexeme is.

`none` = the tree has a shape the model does not cover (reported as UNSUPPORTED, never compared).
Fuel only bounds the recursion depth (trees are finite); the driver passes the size of the tree.
-/

namespace Render

abbrev O := Option String

def fld (fs : List (String × Sx)) (k : String) : Option Sx := (fs.find? (·.1 == k)).map (·.2)

def ws (s : String) : String := " " ++ s
def nl : String := "\n"

def cat : List O → O
  | [] => some ""
  | x :: xs => do let a ← x; let b ← cat xs; pure (a ++ b)

/-- `visit_id`: the original spelling -/
def rId : Sx → O
  | .a s => some (ws s)
  | _ => none

def atomText : Sx → Option String
  | .a s => some s
  | _ => none

/-- `visit_type` (default traversal): the name -/
def rType : Sx → O
  | .n "Type" fs => do rId (← fld fs "name")
  | _ => none

def rInteger : Sx → O
  | .n "Integer" fs => do rId (← fld fs "value")
  | _ => none

def isTrue : Sx → Bool
  | .a "true" => true
  | _ => false

/-- `visit_signed_integer`: the sign is written without a separating blank, the digits with one -/
def rSigned : Sx → O
  | .n "SignedInteger" fs => do
    let v ← rInteger (← fld fs "value")
    pure ((if isTrue (← fld fs "is_neg") then "-" else "") ++ v)
  | _ => none

def optOf : Sx → Option (Option Sx)
  | .a "None" => some none
  | .t "Some" [x] => some (some x)
  | _ => none

def digitsOfSigned : Sx → Option (Bool × String)
  | .n "SignedInteger" fs => do
    match ← fld fs "value" with
    | .n "Integer" gs => do pure (isTrue (← fld fs "is_neg"), ← atomText (← fld gs "value"))
    | _ => none
  | _ => none

/-- inverse of `Sx.rustChar` (Rust's `Debug` for `char`) -/
def unRustChar (s : String) : Option Char :=
  match s.toList with
  | ['\'', '\\', '\'', '\''] => some '\''
  | ['\'', '\\', '\\', '\''] => some '\\'
  | ['\'', '\\', 'n', '\''] => some '\n'
  | ['\'', '\\', 'r', '\''] => some '\r'
  | ['\'', '\\', 't', '\''] => some '\t'
  | ['\'', '\\', '0', '\''] => some '\x00'
  | ['\'', c, '\''] => some c
  | _ => none

def charsOf : Sx → Option (List Char)
  | .l xs => xs.mapM fun x => match x with | .a s => unRustChar s | _ => none
  | _ => none

/-- inverse of the `Debug` form of a Rust `String` as the parser mirror writes it -/
def unRustString (s : String) : Option String :=
  let rec go : List Char → List Char → Option (List Char)
    | [], _ => none
    | ['"'], acc => some acc.reverse
    | '\\' :: '"' :: r, acc => go r ('"' :: acc)
    | '\\' :: '\\' :: r, acc => go r ('\\' :: acc)
    | '\\' :: 'n' :: r, acc => go r ('\n' :: acc)
    | '\\' :: 'r' :: r, acc => go r ('\r' :: acc)
    | '\\' :: 't' :: r, acc => go r ('\t' :: acc)
    | c :: r, acc => go r (c :: acc)
  match s.toList with
  | '"' :: r => (go r []).map String.ofList
  | _ => none

def pad (n : Nat) (width : Nat) : String :=
  let s := toString n
  String.ofList (List.replicate (width - s.length) '0') ++ s

def trimZeros (s : String) : String := String.ofList (s.toList.reverse.dropWhile (· == '0')).reverse

/-- `visit_duration_literal` on the total number of nanoseconds -/
def durationText (nanos : Int) : String :=
  let sign := if nanos < 0 then "-" else ""
  let mag := nanos.natAbs
  let (per, unit, digits) := if mag / 1000000 > 2 ^ 64 - 1 then (1000000000, "s", 9) else (1000000, "ms", 6)
  let sub := mag % per
  if sub == 0 then "TIME#" ++ sign ++ toString (mag / per) ++ unit
  else "TIME#" ++ sign ++ toString (mag / per) ++ "." ++ trimZeros (pad sub digits) ++ unit

def intOfText (s : String) : Option Int :=
  match s.toList with
  | '-' :: r => (String.ofList r).toNat?.map fun n => -(n : Int)
  | _ => s.toNat?.map fun n => (n : Int)

def rDuration : Sx → O
  | .n "DurationLiteral" fs => do
    match ← fld fs "interval" with
    | .n "Duration" gs => do
      let s ← intOfText (← atomText (← fld gs "seconds"))
      let n ← intOfText (← atomText (← fld gs "nanoseconds"))
      pure (ws (durationText (s * 1000000000 + n)))
    | _ => none
  | _ => none

/-- `H:MM:SS.f…` (the `Debug` text of `time::Time`) → `HH:MM:SS.<fraction>` as `fraction_of_second` writes it -/
def todText (s : String) : Option String :=
  match s.splitOn ":" with
  | [h, m, rest] =>
    match rest.splitOn "." with
    | [sec, frac] => do
      let hn ← h.toNat?
      let mn ← m.toNat?
      let sn ← sec.toNat?
      let f := trimZeros frac
      pure (pad hn 2 ++ ":" ++ pad mn 2 ++ ":" ++ pad sn 2 ++ "." ++ (if f.isEmpty then "00" else f))
    | _ => none
  | _ => none

/-- display of an f64 whose literal has at most 15 significant digits: the shortest decimal that
reads back to the same binary64 is the literal's own value, written without exponent.
`R:<sign><digits>.<digits>[E[±]<digits>]` → text; `none` outside that range (not modelled) -/
def realText (v : String) : Option String :=
  match v.toList with
  | 'R' :: ':' :: r =>
    let (neg, r) := match r with | '-' :: r' => (true, r') | _ => (false, r)
    let isDigit (c : Char) : Bool := '0' ≤ c && c ≤ '9'
    let ip := r.takeWhile isDigit
    let r := r.dropWhile isDigit
    let r := match r with | '.' :: r' => r' | _ => r
    let fp := r.takeWhile isDigit
    let r := r.dropWhile isDigit
    let (eneg, ed) := match r with
      | _ :: '-' :: ds => (true, ds)
      | _ :: '+' :: ds => (false, ds)
      | _ :: ds => (false, ds)
      | [] => (false, [])
    let e := (String.ofList ed).toNat?.getD 0
    if e > 30 then none else
    -- move the decimal point
    let (ip, fp) :=
      if eneg then
        let k := e
        let ipPadded := List.replicate (k - ip.length + 1) '0' ++ ip
        (ipPadded.take (ipPadded.length - k), ipPadded.drop (ipPadded.length - k) ++ fp)
      else
        let fpPadded := fp ++ List.replicate (e - fp.length) '0'
        (ip ++ fpPadded.take e, fpPadded.drop e)
    let ip := ip.dropWhile (· == '0')
    let fp := (fp.reverse.dropWhile (· == '0')).reverse
    let sig := (ip ++ fp).dropWhile (· == '0')
    if sig.length > 15 then none else
    let ipS := if ip.isEmpty then "0" else String.ofList ip
    let body := if fp.isEmpty then ipS else ipS ++ "." ++ String.ofList fp
    let isZero := sig.isEmpty
    some ((if neg && !isZero then "-" else if neg then "-" else "") ++ body)
  | _ => none

def typePrefix (dt : Sx) : Option String :=
  match dt with
  | .a "None" => some ""
  | .t "Some" [.a t] => some (t ++ "#")
  | _ => none

/-- `visit_constant_kind` and the literal visitors -/
def rConst : Sx → O
  | .t "IntegerLiteral" [.n "IntegerLiteral" fs] => do
    let v ← fld fs "value"
    match ← fld fs "data_type" with
    | .a "None" => rSigned v
    | .t "Some" [.a t] => do
      let (neg, d) ← digitsOfSigned v
      pure (ws (t ++ "#" ++ (if neg then "-" else "") ++ d))
    | _ => none
  | .t "RealLiteral" [.n "RealLiteral" fs] => do
    let p ← typePrefix (← fld fs "data_type")
    let t ← realText (← atomText (← fld fs "value"))
    pure (ws (p ++ t))
  | .t "Boolean" [.n "BooleanLiteral" fs] => do
    match ← fld fs "value" with
    | .a "True" => some (ws "BOOL#TRUE")
    | .a "False" => some (ws "BOOL#FALSE")
    | _ => none
  | .t "CharacterString" [.n "CharacterStringLiteral" fs] => do
    let cs ← charsOf (← fld fs "value")
    let q := if cs.contains '\'' then "\"" else "'"
    pure (ws (q ++ String.ofList cs ++ q))
  | .t "Duration" [d] => rDuration d
  | .t "TimeOfDay" [.n "TimeOfDayLiteral" fs] => do
    pure (ws ("TIME_OF_DAY#" ++ (← todText (← atomText (← fld fs "value")))))
  | .t "Date" [.n "DateLiteral" fs] => do
    pure (ws ("DATE#" ++ (← atomText (← fld fs "value"))))
  | .t "DateAndTime" [.n "DateAndTimeLiteral" fs] => do
    let v ← atomText (← fld fs "value")
    -- `YYYY-MM-DD` immediately followed by the time
    let d := String.ofList (v.toList.take 10)
    let t ← todText (String.ofList (v.toList.drop 10))
    pure (ws ("DATE_AND_TIME#" ++ d ++ "-" ++ t))
  | .t "BitStringLiteral" [.n "BitStringLiteral" fs] => do
    let p ← typePrefix (← fld fs "data_type")
    match ← fld fs "value" with
    | .n "Integer" gs => do pure (ws (p ++ (← atomText (← fld gs "value"))))
    | _ => none
  | _ => none

def rEnumValue : Sx → O
  | .n "EnumeratedValue" fs => do
    let v ← atomText (← fld fs "value")
    match ← fld fs "type_name" with
    | .a "None" => some (ws v)
    | .t "Some" [.n "Type" gs] => do pure (ws ((← atomText (← fld gs "name")) ++ "#" ++ v))
    | _ => none
  | _ => none

def rSubrange : Sx → O
  | .n "Subrange" fs => do
    pure ((← rSigned (← fld fs "start")) ++ ".." ++ (← rSigned (← fld fs "end")))
  | _ => none

/-- `visit_address_assignment` -/
def rAddress : Sx → O
  | .n "AddressAssignment" fs => do
    let loc ← atomText (← fld fs "location")
    let size ← match ← fld fs "size" with
      | .a "Unspecified" => some "*" | .a "Nil" => some "" | .a s => some s | _ => none
    match ← fld fs "address" with
    | .l parts => do
      let ps ← parts.mapM atomText
      pure (ws ("%" ++ loc ++ size ++ ".".intercalate ps))
    | _ => none
  | _ => none

def commaIds (xs : List Sx) : O := do
  let ss ← xs.mapM rId
  pure ((ws ",").intercalate ss)

def compareOp : String → Option String
  | "Or" => some "OR" | "Xor" => some "XOR" | "And" => some "AND" | "Eq" => some "=" | "Ne" => some "<>"
  | "Lt" => some "<" | "Gt" => some ">" | "LtEq" => some "<=" | "GtEq" => some ">=" | _ => none

def binaryOp : String → Option String
  | "Add" => some "+" | "Sub" => some "-" | "Mul" => some "*" | "Div" => some "/" | "Mod" => some "MOD"
  | "Pow" => some "**" | _ => none

def qualifierKw : Sx → O
  | .a "Unspecified" => some ""
  | .a "Constant" => some (ws "CONSTANT")
  | .a "Retain" => some (ws "RETAIN")
  | .a "NonRetain" => some (ws "NON_RETAIN")
  | _ => none

def varTypeKw : Sx → O
  | .a "Var" => some (ws "VAR") | .a "VarTemp" => some (ws "VAR_TEMP") | .a "Input" => some (ws "VAR_INPUT")
  | .a "Output" => some (ws "VAR_OUTPUT") | .a "InOut" => some (ws "VAR_IN_OUT") | .a "External" => some (ws "VAR_EXTERNAL")
  | .a "Global" => some (ws "VAR_GLOBAL") | .a "Access" => some (ws "VAR_ACCESS") | _ => none

def pathText (r p : Sx) (path : Sx) : O := do
  let a ← atomText r
  let b ← atomText p
  match path with
  | .l xs => do pure (".".intercalate (a :: b :: (← xs.mapM atomText)))
  | _ => none

mutual

/-- expressions, variables and call parameters (`visit_compare_expr`, `visit_binary_expr`, `visit_unary_expr`,
`visit_function`, `visit_array_variable`, `visit_structured_variable`, `visit_named_input`, `visit_output`) -/
def RE : Nat → Sx → O
  | 0, _ => none
  | f+1, x =>
    match x with
    -- ---------------------------------------------------------------- expressions
    | .t "Compare" [.n "CompareExpr" fs] => do
      let op ← compareOp (← atomText (← fld fs "op"))
      pure (ws "(" ++ (← RE f (← fld fs "left")) ++ ws op ++ (← RE f (← fld fs "right")) ++ ws ")")
    | .t "BinaryOp" [.n "BinaryExpr" fs] => do
      let op ← binaryOp (← atomText (← fld fs "op"))
      pure (ws "(" ++ (← RE f (← fld fs "left")) ++ ws op ++ (← RE f (← fld fs "right")) ++ ws ")")
    | .t "UnaryOp" [.n "UnaryExpr" fs] => do
      let op ← match ← fld fs "op" with | .a "Neg" => some "-" | .a "Not" => some "NOT" | _ => none
      let term ← fld fs "term"
      let t ← RE f term
      match term with
      | .t "UnaryOp" _ => pure (ws op ++ ws "(" ++ t ++ ws ")")
      | _ => pure (ws op ++ t)
    | .t "Const" [c] => rConst c
    | .t "LateBound" [.n "LateBound" fs] => do rId (← fld fs "name")
    | .t "Function" [.n "Function" fs] => do
      match ← fld fs "param_assignment" with
      | .l ps => do pure ((← rId (← fld fs "name")) ++ ws "(" ++ (← REs f ps (ws ",")) ++ ws ")")
      | _ => none
    | .t "Variable" [v] => RE f v
    -- ---------------------------------------------------------------- variables
    | .t "Symbolic" [v] => RE f v
    | .t "Direct" [.n "AddressAssignment" fs] => rAddress (.n "AddressAssignment" fs)
    | .t "Named" [.n "NamedVariable" fs] => do rId (← fld fs "name")
    | .t "Array" [.n "ArrayVariable" fs] => do
      match ← fld fs "subscripts" with
      | .l subs => do pure ((← RE f (← fld fs "subscripted_variable")) ++ ws "[" ++ (← REs f subs (ws ",")) ++ ws "]")
      | _ => none
    | .t "Structured" [.n "StructuredVariable" fs] => do
      pure ((← RE f (← fld fs "record")) ++ "." ++ (← atomText (← fld fs "field")))
    -- ---------------------------------------------------------------- parameters
    | .t "PositionalInput" [.n "PositionalInput" fs] => do RE f (← fld fs "expr")
    | .t "NamedInput" [.n "NamedInput" fs] => do
      pure ((← rId (← fld fs "name")) ++ ws ":=" ++ (← RE f (← fld fs "expr")))
    | .t "Output" [.n "Output" fs] => do
      pure ((if isTrue (← fld fs "not") then ws "NOT" else "") ++ (← rId (← fld fs "src")) ++ ws "=>" ++ (← RE f (← fld fs "tgt")))
    | _ => none

def REs : Nat → List Sx → String → O
  | 0, _, _ => none
  | _+1, [], _ => some ""
  | f+1, [x], _ => RE f x
  | f+1, x :: y :: xs, sep => do pure ((← RE f x) ++ sep ++ (← REs f (y :: xs) sep))

end

mutual

/-- the visitor: one case per node kind, in the order of renderer.rs (expressions: `RE`) -/
def R : Nat → Sx → O
  | 0, _ => none
  | f+1, x =>
    match x with
    -- ---------------------------------------------------------------- statements
    | .a "Return" => some (ws "RETURN" ++ ws ";" ++ nl)
    | .a "Exit" => some (ws "EXIT" ++ ws ";" ++ nl)
    | .t "Assignment" [.n "Assignment" fs] => do
      pure ((← R f (← fld fs "target")) ++ ws ":=" ++ (← R f (← fld fs "value")) ++ ws ";" ++ nl)
    | .t "FbCall" [.n "FbCall" fs] => do
      match ← fld fs "params" with
      | .l ps => do pure ((← rId (← fld fs "var_name")) ++ ws "(" ++ (← Rs f ps (ws ",")) ++ ws ")" ++ ws ";" ++ nl)
      | _ => none
    | .t "If" [.n "If" fs] => do
      match ← fld fs "body", ← fld fs "else_ifs", ← fld fs "else_body" with
      | .l body, .l eis, .l eb => do
        let els ← if eb.isEmpty then some "" else do pure (ws "ELSE" ++ nl ++ (← Rs f eb ""))
        pure (ws "IF" ++ (← R f (← fld fs "expr")) ++ ws "THEN" ++ nl ++ (← Rs f body "") ++ (← Rs f eis "") ++ els
              ++ ws "END_IF" ++ ws ";" ++ nl ++ nl)
      | _, _, _ => none
    | .n "ElseIf" fs => do
      match ← fld fs "body" with
      | .l body => do pure (ws "ELSIF" ++ (← R f (← fld fs "expr")) ++ ws "THEN" ++ nl ++ (← Rs f body ""))
      | _ => none
    | .t "Case" [.n "Case" fs] => do
      match ← fld fs "statement_groups", ← fld fs "else_body" with
      | .l gs, .l eb => do
        let els ← if eb.isEmpty then some "" else do pure (ws "ELSE" ++ nl ++ (← Rs f eb ""))
        pure (ws "CASE" ++ (← R f (← fld fs "selector")) ++ ws "OF" ++ nl ++ (← Rs f gs "") ++ els
              ++ ws "END_CASE" ++ ws ";" ++ nl ++ nl)
      | _, _ => none
    | .n "CaseStatementGroup" fs => do
      match ← fld fs "selectors", ← fld fs "statements" with
      | .l sels, .l stmts => do
        let body ← if stmts.isEmpty then some (ws "(* empty *)" ++ ws ";" ++ nl) else Rs f stmts ""
        pure ((← Rs f sels (ws ",")) ++ ws ":" ++ nl ++ body)
      | _, _ => none
    | .t "Subrange" [.n "Subrange" fs] => rSubrange (.n "Subrange" fs)
    | .t "SignedInteger" [s] => rSigned s
    | .t "EnumeratedValue" [e] => rEnumValue e
    | .t "For" [.n "For" fs] => do
      match ← fld fs "body", optOf (← fld fs "step") with
      | .l body, some step => do
        let by_ ← match step with | some e => do pure (ws "BY" ++ (← R f e)) | none => some ""
        pure (ws "FOR" ++ (← rId (← fld fs "control")) ++ ws ":=" ++ (← R f (← fld fs "from")) ++ ws "TO" ++ (← R f (← fld fs "to"))
              ++ by_ ++ ws "DO" ++ nl ++ (← Rs f body "") ++ ws "END_FOR" ++ ws ";" ++ nl ++ nl)
      | _, _ => none
    | .t "While" [.n "While" fs] => do
      match ← fld fs "body" with
      | .l body => do
        pure (ws "WHILE" ++ (← R f (← fld fs "condition")) ++ ws "DO" ++ nl ++ (← Rs f body "") ++ ws "END_WHILE" ++ ws ";" ++ nl ++ nl)
      | _ => none
    | .t "Repeat" [.n "Repeat" fs] => do
      match ← fld fs "body" with
      | .l body => do
        pure (ws "REPEAT" ++ nl ++ (← Rs f body "") ++ ws "UNTIL" ++ (← R f (← fld fs "until")) ++ nl ++ ws "END_REPEAT" ++ ws ";" ++ nl ++ nl)
      | _ => none
    -- ---------------------------------------------------------------- bodies
    | .t "Statements" [.n "Statements" fs] => do
      match ← fld fs "body" with | .l body => Rs f body "" | _ => none
    | .a "Empty" => some ""
    | .t "Sfc" [.n "Sfc" fs] => do
      match ← fld fs "networks" with | .l ns => Rs f ns "" | _ => none
    | .n "Network" fs => do
      match ← fld fs "initial_step", ← fld fs "elements" with
      | .n "Step" ss, .l elems => do
        match ← fld ss "action_associations" with
        | .l aas => do
          let es ← elems.mapM fun e => (R f e).map (· ++ nl)
          pure (ws "INITIAL_STEP" ++ (← rId (← fld ss "name")) ++ ws ":" ++ nl ++ (← Rs f aas nl) ++ (if aas.isEmpty then "" else nl)
                ++ ws "END_STEP" ++ nl ++ nl ++ String.join es)
        | _ => none
      | _, _ => none
    | .t "Step" [.n "Step" ss] => do
      match ← fld ss "action_associations" with
      | .l aas => do
        pure (ws "STEP" ++ (← rId (← fld ss "name")) ++ ws ":" ++ nl ++ (← Rs f aas nl) ++ (if aas.isEmpty then "" else nl) ++ ws "END_STEP" ++ nl)
      | _ => none
    | .n "ActionAssociation" fs => do
      match ← fld fs "indicators" with
      | .l inds => do
        let q ← match ← fld fs "qualifier" with
          | .a "None" => some ""
          | .t "Some" [.a q] => some (ws q ++ (if inds.isEmpty then "" else ws ","))
          | .t "Some" [.t q [time]] => do
            let name ← match q with | "SD" => some "SD" | "DS" => some "DS" | "SL" => some "SL" | "PR" => some "P1" | "PF" => some "P0" | _ => none
            let t ← match time with
              | .t "Duration" [d] => rDuration d
              | .t "VariableName" [v] => rId v
              | _ => none
            pure (ws name ++ ws "," ++ t ++ (if inds.isEmpty then "" else ws ","))
          | _ => none
        pure ((← rId (← fld fs "name")) ++ ws "(" ++ q ++ (← commaIds inds) ++ ws ");")
      | _ => none
    | .t "Transition" [.n "Transition" fs] => do
      match ← fld fs "from", ← fld fs "to" with
      | .l from_, .l to_ => do
        let name ← match ← fld fs "name" with | .a "None" => some "" | .t "Some" [n] => rId n | _ => none
        let prio ← match ← fld fs "priority" with
          | .a "None" => some ""
          | .t "Some" [.a p] => some (ws "(" ++ ws "PRIORITY" ++ ws ":=" ++ ws p ++ ws ")")
          | _ => none
        let steps (xs : List Sx) : O := do
          let s ← commaIds xs
          pure (if xs.length > 1 then ws "(" ++ s ++ ws ")" else s)
        pure (ws "TRANSITION" ++ name ++ prio ++ ws "FROM" ++ (← steps from_) ++ ws "TO" ++ (← steps to_) ++ nl
              ++ ws ":=" ++ (← R f (← fld fs "condition")) ++ ws ";" ++ nl ++ ws "END_TRANSITION" ++ nl)
      | _, _ => none
    | .t "Action" [.n "Action" fs] => do
      pure (ws "ACTION" ++ (← rId (← fld fs "name")) ++ ws ":" ++ nl ++ (← R f (← fld fs "body")) ++ ws "END_ACTION" ++ nl)
    -- ---------------------------------------------------------------- initial values
    | .t "Simple" [.n "SimpleInitializer" fs] => do
      let iv ← match optOf (← fld fs "initial_value") with
        | some (some c) => do pure (ws ":=" ++ (← rConst c))
        | some none => some ""
        | none => none
      pure ((← rType (← fld fs "type_name")) ++ iv)
    | .t "String" [.n "StringInitializer" fs] => do
      let (kw, q) ← match ← fld fs "width" with | .a "String" => some ("STRING", "'") | .a "WString" => some ("WSTRING", "\"") | _ => none
      let len ← match optOf (← fld fs "length") with
        | some (some l) => do pure (ws "[" ++ (← rInteger l) ++ ws "]")
        | some none => some ""
        | none => none
      let iv ← match optOf (← fld fs "initial_value") with
        | some (some cs) => do pure (ws ":=" ++ q ++ String.ofList (← charsOf cs) ++ q)
        | some none => some ""
        | none => none
      pure (ws kw ++ len ++ iv)
    | .t "EnumeratedValues" [.n "EnumeratedValuesInitializer" fs] => do
      match ← fld fs "values" with
      | .l vs => do
        let iv ← match optOf (← fld fs "initial_value") with
          | some (some e) => do pure (ws ":=" ++ (← rEnumValue e))
          | some none => some ""
          | none => none
        pure (ws "(" ++ (ws ",").intercalate (← vs.mapM rEnumValue) ++ ws ")" ++ iv)
      | _ => none
    | .t "EnumeratedType" [.n "EnumeratedInitialValueAssignment" fs] => do
      let iv ← match optOf (← fld fs "initial_value") with
        | some (some e) => do pure (ws ":=" ++ (← rEnumValue e))
        | some none => some ""
        | none => none
      pure ((← rType (← fld fs "type_name")) ++ iv)
    | .t "FunctionBlock" [.n "FunctionBlockInitialValueAssignment" fs] => do rType (← fld fs "type_name")
    | .t "Subrange" [.t k ks] => R f (.t k ks)
    | .t "Specification" [.n "SubrangeSpecification" fs] => do
      pure ((← rId (← fld fs "type_name")) ++ ws "(" ++ (← rSubrange (← fld fs "subrange")) ++ ws ")")
    | .t "Type" [t] => rType t
    | .t "Structure" [.n "StructureInitializationDeclaration" fs] => R f (.n "StructureInitializationDeclaration" fs)
    | .n "StructureInitializationDeclaration" fs => do
      match ← fld fs "elements_init" with
      | .l es => do
        let init ← if es.isEmpty then some "" else do pure (ws ":=" ++ ws "(" ++ (← Rs f es (ws ",")) ++ ws ")")
        pure ((← rType (← fld fs "type_name")) ++ init)
      | _ => none
    | .n "StructureElementInit" fs => do
      let init ← match ← fld fs "init" with
        | .t "Constant" [c] => rConst c
        | .t "EnumeratedValue" [e] => rEnumValue e
        | .t "Array" [.l es] => do pure (ws "[" ++ (← Rs f es (ws ",")) ++ ws "]")
        | .t "Structure" [.l es] => do pure (ws "(" ++ (← Rs f es (ws ",")) ++ ws ")")
        | _ => none
      pure ((← rId (← fld fs "name")) ++ ws ":=" ++ init)
    | .t "Constant" [c] => rConst c
    | .t "EnumValue" [e] => rEnumValue e
    | .t "Repeated" [.n "Repeated" fs] => do
      let init ← match optOf (← fld fs "init") with
        | some (some i) => R f i
        | some none => some ""
        | none => none
      pure ((← rInteger (← fld fs "size")) ++ init)
    | .t "Array" [.n "ArrayInitialValueAssignment" fs] => do
      match ← fld fs "initial_values" with
      | .l vs => do
        let init ← if vs.isEmpty then some "" else do pure (ws ":=" ++ (← Rs f vs (ws ",")))
        pure ((← R f (← fld fs "spec")) ++ init)
      | _ => none
    | .t "Subranges" [.n "ArraySubranges" fs] => do
      match ← fld fs "ranges" with
      | .l rs => do
        pure (ws "ARRAY" ++ ws "[" ++ (ws ",").intercalate (← rs.mapM rSubrange) ++ ws "]" ++ ws "OF" ++ (← rType (← fld fs "type_name")))
      | _ => none
    | .t "LateResolvedType" [t] => rType t
    | .a "None" => some ""
    -- ---------------------------------------------------------------- type declarations
    | .t "DataTypeDeclaration" [k] => do
      pure (ws "TYPE" ++ nl ++ (← R f k) ++ ws ";" ++ nl ++ ws "END_TYPE" ++ nl)
    | .t "Enumeration" [.n "EnumerationDeclaration" fs] => do
      pure ((← rType (← fld fs "type_name")) ++ ws ":" ++ (← R f (← fld fs "spec_init")))
    | .n "EnumeratedSpecificationInit" fs => do
      let spec ← match ← fld fs "spec" with
        | .t "TypeName" [t] => rType t
        | .t "Values" [.n "EnumeratedSpecificationValues" gs] => do
          match ← fld gs "values" with
          | .l vs => do pure (ws "(" ++ (ws ",").intercalate (← vs.mapM rEnumValue) ++ ws ")")
          | _ => none
        | _ => none
      let d ← match optOf (← fld fs "default") with
        | some (some e) => do pure (ws ":=" ++ (← rEnumValue e))
        | some none => some ""
        | none => none
      pure (spec ++ d)
    | .t "Subrange" [.n "SubrangeDeclaration" fs] => do
      let d ← match optOf (← fld fs "default") with
        | some (some s) => do pure (ws ":=" ++ (← rSigned s))
        | some none => some ""
        | none => none
      pure ((← rType (← fld fs "type_name")) ++ ws ":" ++ (← R f (← fld fs "spec")) ++ d)
    | .t "Simple" [.n "SimpleDeclaration" fs] => do
      pure ((← rType (← fld fs "type_name")) ++ ws ":" ++ (← R f (← fld fs "spec_and_init")))
    | .t "Array" [.n "ArrayDeclaration" fs] => do
      match ← fld fs "init" with
      | .l vs => do
        let init ← if vs.isEmpty then some "" else do pure (ws ":=" ++ ws "[" ++ (← Rs f vs (ws ",")) ++ ws "]")
        pure ((← rType (← fld fs "type_name")) ++ ws ":" ++ (← R f (← fld fs "spec")) ++ init)
      | _ => none
    | .t "Structure" [.n "StructureDeclaration" fs] => do
      match ← fld fs "elements" with
      | .l es => do
        let body ← es.mapM fun e => (R f e).map (· ++ ws ";" ++ nl)
        pure ((← rType (← fld fs "type_name")) ++ ws ":" ++ ws "STRUCT" ++ nl ++ String.join body ++ ws "END_STRUCT")
      | _ => none
    | .n "StructureElementDeclaration" fs => do
      pure ((← rId (← fld fs "name")) ++ ws ":" ++ (← R f (← fld fs "init")))
    | .t "StructureInitialization" [d] => R f d
    | .t "String" [.n "StringDeclaration" fs] => do
      let (kw, q) ← match ← fld fs "width" with | .a "String" => some ("STRING", "\"") | .a "WString" => some ("WSTRING", "'") | _ => none
      let iv ← match optOf (← fld fs "init") with
        | some (some (.a s)) => do pure (ws ":=" ++ q ++ (← unRustString s) ++ q)
        | some none => some ""
        | _ => none
      pure ((← rType (← fld fs "type_name")) ++ ws ":" ++ ws kw ++ ws "[" ++ (← rInteger (← fld fs "length")) ++ ws "]" ++ iv)
    | .t "LateBound" [.n "LateBoundDeclaration" fs] => do
      pure ((← rType (← fld fs "data_type_name")) ++ ws ":" ++ (← rType (← fld fs "base_type_name")))
    -- ---------------------------------------------------------------- variables of a POU
    | .n "VarDecl" fs => do
      let ident ← match ← fld fs "identifier" with
        | .t "Symbol" [i] => rId i
        | .t "Direct" [.n "DirectVariableIdentifier" gs] => do
          let name ← match optOf (← fld gs "name") with
            | some (some n) => rId n
            | some none => some ""
            | none => none
          pure (name ++ ws "AT" ++ (← rAddress (← fld gs "address_assignment")))
        | _ => none
      pure (nl ++ (← varTypeKw (← fld fs "var_type")) ++ (← qualifierKw (← fld fs "qualifier")) ++ nl ++ ident ++ ws ":"
            ++ (← R f (← fld fs "initializer")) ++ ";" ++ nl ++ ws "END_VAR" ++ nl)
    | .n "EdgeVarDecl" fs => do
      let dir ← match ← fld fs "direction" with | .a "Rising" => some "R_EDGE" | .a "Falling" => some "F_EDGE" | _ => none
      pure (nl ++ ws "VAR_INPUT" ++ (← qualifierKw (← fld fs "qualifier")) ++ nl ++ (← rId (← fld fs "identifier")) ++ ws ":" ++ ws "BOOL"
            ++ ws dir ++ ";" ++ nl ++ ws "END_VAR" ++ nl)
    -- ---------------------------------------------------------------- POUs
    | .t "FunctionDeclaration" [.n "FunctionDeclaration" fs] => do
      match ← fld fs "variables", ← fld fs "edge_variables", ← fld fs "body" with
      | .l vs, .l es, .l body => do
        pure (ws "FUNCTION" ++ (← rId (← fld fs "name")) ++ ws ":" ++ (← rType (← fld fs "return_type"))
              ++ (← Rs f vs "") ++ (if vs.isEmpty then "" else nl) ++ (← Rs f es "") ++ (if es.isEmpty then "" else nl)
              ++ (← Rs f body "") ++ ws "END_FUNCTION" ++ nl)
      | _, _, _ => none
    | .t "FunctionBlockDeclaration" [.n "FunctionBlockDeclaration" fs] => do
      match ← fld fs "variables", ← fld fs "edge_variables" with
      | .l vs, .l es => do
        pure (ws "FUNCTION_BLOCK" ++ (← rId (← fld fs "name")) ++ nl ++ (← Rs f vs "") ++ (← Rs f es "") ++ (← R f (← fld fs "body")) ++ nl
              ++ ws "END_FUNCTION_BLOCK" ++ nl)
      | _, _ => none
    | .t "ProgramDeclaration" [.n "ProgramDeclaration" fs] => do
      match ← fld fs "variables", ← fld fs "access_variables" with
      | .l vs, .l [] => do
        pure (ws "PROGRAM" ++ (← rId (← fld fs "name")) ++ nl ++ (← Rs f vs "") ++ (← R f (← fld fs "body")) ++ ws "END_PROGRAM" ++ nl)
      | _, _ => none
    -- ---------------------------------------------------------------- configuration
    | .t "ConfigurationDeclaration" [.n "ConfigurationDeclaration" fs] => do
      match ← fld fs "global_var", ← fld fs "resource_decl", ← fld fs "fb_inits", ← fld fs "located_var_inits" with
      | .l gs, .l rs, .l fis, .l lis => do
        pure (ws "CONFIGURATION" ++ (← rId (← fld fs "name")) ++ nl ++ (← Globals f gs) ++ (← Rs f rs "") ++ (← Rs f fis "") ++ (← Rs f lis "")
              ++ nl ++ ws "END_CONFIGURATION" ++ nl)
      | _, _, _, _ => none
    | .n "ResourceDeclaration" fs => do
      match ← fld fs "global_vars", ← fld fs "tasks", ← fld fs "programs" with
      | .l gs, .l ts, .l ps => do
        pure (ws "RESOURCE" ++ (← rId (← fld fs "name")) ++ ws "ON" ++ (← rId (← fld fs "resource")) ++ nl ++ (← Globals f gs)
              ++ (← Rs f ts "") ++ (← Rs f ps "") ++ ws "END_RESOURCE" ++ nl)
      | _, _, _ => none
    | .n "TaskConfiguration" fs => do
      let iv ← match optOf (← fld fs "interval") with
        | some (some d) => do pure (ws "INTERNAL" ++ ws ":=" ++ (← rDuration d) ++ ws ",")
        | some none => some ""
        | none => none
      pure (ws "TASK" ++ (← rId (← fld fs "name")) ++ ws "(" ++ iv ++ ws "PRIORITY" ++ ws ":=" ++ (← rId (← fld fs "priority")) ++ ws ")" ++ ws ";" ++ nl)
    | .n "ProgramConfiguration" fs => do
      let storage ← match ← fld fs "storage" with
        | .a "None" => some ""
        | .t "Some" [.a "Retain"] => some (ws "RETAIN")
        | .t "Some" [.a "NonRetain"] => some (ws "NON_RETAIN")
        | .t "Some" [_] => some (ws "")
        | _ => none
      let task ← match optOf (← fld fs "task_name") with
        | some (some t) => do pure (ws "WITH" ++ (← rId t))
        | some none => some ""
        | none => none
      pure (ws "PROGRAM" ++ storage ++ (← rId (← fld fs "name")) ++ task ++ ws ":" ++ (← rId (← fld fs "type_name")) ++ ws ";" ++ nl)
    | .n "FunctionBlockInit" fs => do
      match ← fld fs "initializer" with
      | .l es => do
        pure (ws "VAR_CONFIG" ++ nl ++ (← pathText (← fld fs "resource_name") (← fld fs "program_name") (← fld fs "fb_path")) ++ ws ":"
              ++ (← rType (← fld fs "type_name")) ++ ws ":=" ++ ws "(" ++ (← Rs f es (ws ",")) ++ ws ");" ++ nl ++ ws "END_VAR" ++ nl)
      | _ => none
    | .n "LocatedVarInit" fs => do
      let addr ← match optOf (← fld fs "address") with
        | some (some a) => do pure (ws "AT" ++ (← rAddress a))
        | some none => some ""
        | none => none
      pure (ws "VAR_CONFIG" ++ nl ++ (← pathText (← fld fs "resource_name") (← fld fs "program_name") (← fld fs "fb_path")) ++ addr ++ ws ":"
            ++ (← R f (← fld fs "initializer")) ++ ws ";" ++ nl ++ ws "END_VAR" ++ nl)
    -- ---------------------------------------------------------------- library
    | .n "Library" fs => do
      match ← fld fs "elements" with | .l es => Rs f es "" | _ => none
    | other => RE f other

/-- the elements of a list, separated by `sep` -/
def Rs : Nat → List Sx → String → O
  | 0, _, _ => none
  | _+1, [], _ => some ""
  | f+1, [x], _ => R f x
  | f+1, x :: y :: xs, sep => do pure ((← R f x) ++ sep ++ (← Rs f (y :: xs) sep))

/-- `write_global_var_decls`: all global variables of a configuration / resource in one block -/
def Globals : Nat → List Sx → O
  | 0, _ => none
  | _+1, [] => some ""
  | f+1, vs@(.n "VarDecl" fs :: _) => do
    let one (v : Sx) : O := match v with
      | .n "VarDecl" gs => do
        let ident ← match ← fld gs "identifier" with
          | .t "Symbol" [i] => rId i
          | .t "Direct" [.n "DirectVariableIdentifier" hs] => do
            let name ← match optOf (← fld hs "name") with
              | some (some n) => rId n
              | some none => some ""
              | none => none
            pure (name ++ ws "AT" ++ (← rAddress (← fld hs "address_assignment")))
          | _ => none
        pure (ident ++ ws ":" ++ (← R f (← fld gs "initializer")) ++ ";" ++ nl)
      | _ => none
    pure (ws "VAR_GLOBAL" ++ (← qualifierKw (← fld fs "qualifier")) ++ nl ++ String.join (← vs.mapM one) ++ ws "END_VAR" ++ nl)
  | _+1, _ => none

end

/-- number of nodes: enough fuel for the recursion -/
partial def size : Sx → Nat
  | .a _ => 1
  | .n _ fs => 1 + (fs.map fun f => size f.2).foldl (· + ·) 0
  | .t _ xs => 1 + (xs.map size).foldl (· + ·) 0
  | .l xs => 1 + (xs.map size).foldl (· + ·) 0

def library (lib : Sx) : O := R (2 * size lib + 10) lib

end Render
