import PlcModel.Lex
import PlcModel.Lsp

/-!
# plcdrv: line protocol driver for the executable model

One request per input line: `<cmd> <arg> ...`; one response line per request.
Text arguments are hex-encoded UTF-8.  Unknown commands answer `bad-op`.
-/

def hexVal (c : Char) : Option Nat :=
  if '0' ≤ c && c ≤ '9' then some (c.toNat - '0'.toNat)
  else if 'a' ≤ c && c ≤ 'f' then some (c.toNat - 'a'.toNat + 10)
  else if 'A' ≤ c && c ≤ 'F' then some (c.toNat - 'A'.toNat + 10)
  else none

def unhexGo : List Char → ByteArray → Option ByteArray
  | [], acc => some acc
  | [_], _ => none
  | a :: b :: rest, acc =>
    match hexVal a, hexVal b with
    | some x, some y => unhexGo rest (acc.push (UInt8.ofNat (x * 16 + y)))
    | _, _ => none

def unhex (s : String) : Option ByteArray := unhexGo s.toList ByteArray.empty

def unhexText (s : String) : Option (List Char) :=
  match unhex s with
  | some b => (String.fromUTF8? b).map String.toList
  | none => none

def showItem (orig : List Char) (it : Item) : String :=
  if it.err then s!"!:P0031:{it.start}:{it.stop}"
  else
    let flag := if it.text.isEmpty then "s"
      else if sliceBytes orig 0 it.start it.stop == some it.text then "t" else "x"
    s!"{it.ty}:{it.start}:{it.stop}:{it.line}:{it.col}:{flag}"

/-- tokens, then ` | `, then lexical errors (the Rust side keeps them in two vectors) -/
def showItems (orig : List Char) (items : List Item) : String :=
  " ".intercalate ((items.filter (!·.err)).map (showItem orig)) ++ " | " ++
  " ".intercalate ((items.filter (·.err)).map (showItem orig))

/-! ### LSP histories: `lsp m1 m2 ...` with
`open:<uri>:<ver>:<hex>`, `change:<uri>:<ver>:x<hex>,x<hex>…` (possibly none), `semtok:<id>:<uri>`,
`req:<id>:<method>`, `notif:<method>`, `resp:<id>`, `shutdown:<id>`, `exit`; uri = `f<k>` | `n<k>` -/

def parseUri (s : String) : Option Uri :=
  match s.toList with
  | 'f' :: ds => (String.ofList ds).toNat?.map Uri.file
  | 'n' :: ds => (String.ofList ds).toNat?.map Uri.other
  | _ => none

def showUri : Uri → String
  | .file k => s!"f{k}"
  | .other k => s!"n{k}"

def parseChanges (s : String) : Option (List (List Char)) :=
  if s.isEmpty then some [] else
  (s.splitOn ",").foldr (fun h acc => match unhexText (h.drop 1).toString, acc with
    | some t, some l => some (t :: l)
    | _, _ => none) (some [])

def parseMsg (s : String) : Option Msg :=
  match s.splitOn ":" with
  | ["open", u, v, h] => do
    let u ← parseUri u; let v ← v.toInt?; let t ← unhexText h
    pure (.didOpen u v t)
  | ["change", u, v, hs] => do
    let u ← parseUri u; let v ← v.toInt?; let cs ← parseChanges hs
    pure (.didChange u v cs)
  | ["semtok", i, u] => do
    let i ← i.toNat?; let u ← parseUri u
    pure (.semTok i u)
  | ["req", i, m] => do let i ← i.toNat?; pure (.unknownReq i m)
  | ["notif", m] => some (.unknownNotif m)
  | ["resp", i] => do let i ← i.toNat?; pure (.response i)
  | ["shutdown", i] => do let i ← i.toNat?; pure (.shutdown i)
  | ["exit"] => some .exit
  | _ => none

def showOut : Out → String
  | .publish u v _ => s!"pub:{showUri u}:{v}"
  | .tokens i none => s!"tok:{i}:null"
  | .tokens i (some d) => s!"tok:{i}:" ++ ",".intercalate (d.map toString)
  | .error i c => s!"err:{i}:{c}"
  | .shutdownReply i => s!"shut:{i}"

def handleLsp (ws : List String) : String :=
  match ws.foldr (fun w acc => match parseMsg w, acc with
      | some m, some l => some (m :: l)
      | _, _ => none) (some []) with
  | none => "bad-arg"
  | some h =>
    let r := run h
    let code := match r.phase with | .exited c => s!"exit:{c}" | .running => "running"
    " ".intercalate (r.outs.map showOut ++ [code])

def handle (line : String) : String :=
  match line.trimAscii.toString.splitOn " " with
  | ["lex", h] =>
    match unhexText h with
    | some cs => showItems cs (tokenizeProgram cs)
    | none => "bad-arg"
  | ["rawlex", h] =>
    match unhexText h with
    | some cs => showItems cs (lexItems cs)
    | none => "bad-arg"
  | ["semtok", h] =>
    match unhexText h with
    | some cs => (match semTokens cs with
        | none => "null"
        | some d => ",".intercalate (d.map toString))
    | none => "bad-arg"
  | "lsp" :: ws => handleLsp ws
  | _ => "bad-op"

partial def loop (h : IO.FS.Stream) (out : IO.FS.Stream) : IO Unit := do
  let line ← h.getLine
  if line.isEmpty then return ()
  out.putStrLn (handle line)
  loop h out

def main : IO Unit := do
  let stdin ← IO.getStdin
  let stdout ← IO.getStdout
  loop stdin stdout
