import PlcModel.Lex
import PlcModel.Lsp
import PlcModel.Graph
import PlcModel.Analyze
import PlcModel.Cli
import PlcModel.Decode
import PlcModel.Parse.Pou
import PlcModel.Render
import PlcModel.Total

/-!
# plcdrv: line protocol driver for the executable model

One request per input line: `<cmd> <arg> ...`; one response line per request.
Text arguments are hex-encoded UTF-8.  Unknown commands answer `bad-op`.
-/

def hexVal (c : Char) : Option Nat :=
  if '0' ≤ c && c ≤ '9' then some (c.toNat - '0'.toNat)
  else if 'a' ≤ c && c ≤ 'f' then some (c.toNat - 'a'.toNat + 10)
  else if 'A' ≤ c && c ≤ 'F' then some (c.toNat - 'A'.toNat + 10)
  else none

def unhexGo : List Char → ByteArray → Option ByteArray
  | [], acc => some acc
  | [_], _ => none
  | a :: b :: rest, acc =>
    match hexVal a, hexVal b with
    | some x, some y => unhexGo rest (acc.push (UInt8.ofNat (x * 16 + y)))
    | _, _ => none

def unhex (s : String) : Option ByteArray := unhexGo s.toList ByteArray.empty

def unhexText (s : String) : Option (List Char) :=
  match unhex s with
  | some b => (String.fromUTF8? b).map String.toList
  | none => none

def hexDigit (n : Nat) : Char := if n < 10 then Char.ofNat ('0'.toNat + n) else Char.ofNat ('a'.toNat + n - 10)

def hexOfString (s : String) : String :=
  String.ofList (s.toUTF8.toList.flatMap fun b => [hexDigit (b.toNat / 16), hexDigit (b.toNat % 16)])

def showItem (orig : List Char) (it : Item) : String :=
  if it.err then s!"!:P0031:{it.start}:{it.stop}"
  else
    let flag := if it.text.isEmpty then "s"
      else if sliceBytes orig 0 it.start it.stop == some it.text then "t" else "x"
    s!"{it.ty}:{it.start}:{it.stop}:{it.line}:{it.col}:{flag}"

/-- tokens, then ` | `, then lexical errors (the Rust side keeps them in two vectors) -/
def showItems (orig : List Char) (items : List Item) : String :=
  " ".intercalate ((items.filter (!·.err)).map (showItem orig)) ++ " | " ++
  " ".intercalate ((items.filter (·.err)).map (showItem orig))

/-! ### LSP histories: `lsp m1 m2 ...` with
`open:<uri>:<ver>:<hex>`, `change:<uri>:<ver>:x<hex>,x<hex>…` (possibly none), `semtok:<id>:<uri>`,
`req:<id>:<method>`, `notif:<method>`, `resp:<id>`, `shutdown:<id>`, `exit`; uri = `f<k>` | `n<k>` -/

def parseUri (s : String) : Option Uri :=
  match s.toList with
  | 'f' :: ds => (String.ofList ds).toNat?.map Uri.file
  | 'n' :: ds => (String.ofList ds).toNat?.map Uri.other
  | _ => none

def showUri : Uri → String
  | .file k => s!"f{k}"
  | .other k => s!"n{k}"

def parseChanges (s : String) : Option (List (List Char)) :=
  if s.isEmpty then some [] else
  (s.splitOn ",").foldr (fun h acc => match unhexText (h.drop 1).toString, acc with
    | some t, some l => some (t :: l)
    | _, _ => none) (some [])

def parseMsg (s : String) : Option Msg :=
  match s.splitOn ":" with
  | ["open", u, v, h] => do
    let u ← parseUri u; let v ← v.toInt?; let t ← unhexText h
    pure (.didOpen u v t)
  | ["change", u, v, hs] => do
    let u ← parseUri u; let v ← v.toInt?; let cs ← parseChanges hs
    pure (.didChange u v cs)
  | ["semtok", i, u] => do
    let i ← i.toNat?; let u ← parseUri u
    pure (.semTok i u)
  | ["req", i, m] => do let i ← i.toNat?; pure (.unknownReq i m)
  | ["notif", m] => some (.unknownNotif m)
  | ["resp", i] => do let i ← i.toNat?; pure (.response i)
  | ["shutdown", i] => do let i ← i.toNat?; pure (.shutdown i)
  | ["exit"] => some .exit
  | _ => none

def showOut : Out → String
  | .publish u v _ => s!"pub:{showUri u}:{v}"
  | .tokens i none => s!"tok:{i}:null"
  | .tokens i (some d) => s!"tok:{i}:" ++ ",".intercalate (d.map toString)
  | .error i c => s!"err:{i}:{c}"
  | .shutdownReply i => s!"shut:{i}"

def handleLsp (ws : List String) : String :=
  match ws.foldr (fun w acc => match parseMsg w, acc with
      | some m, some l => some (m :: l)
      | _, _ => none) (some []) with
  | none => "bad-arg"
  | some h =>
    let r := run h
    let code := match r.phase with | .exited c => s!"exit:{c}" | .running => "running"
    " ".intercalate (r.outs.map showOut ++ [code])

/-! ### C07: `c07 fb:<n>:<r1>,<r2>… alias:<n>:<b> struct:<n>:<r1>,…` → `P0010` | `-` -/

def parseNats (s : String) : Option (List Nat) :=
  if s.isEmpty then some [] else
  (s.splitOn ",").foldr (fun w acc => match w.toNat?, acc with
    | some n, some l => some (n :: l)
    | _, _ => none) (some [])

def parseDecl (s : String) : Option Decl :=
  match s.splitOn ":" with
  | ["fb", n, rs] => do let n ← n.toNat?; let rs ← parseNats rs; pure (.fb n rs)
  | ["alias", n, b] => do let n ← n.toNat?; let b ← b.toNat?; pure (.alias n b)
  | ["struct", n, rs] => do let n ← n.toNat?; let rs ← parseNats rs; pure (.struct n rs)
  | _ => none

def handleC07 (ws : List String) : String :=
  match ws.foldr (fun w acc => match parseDecl w, acc with
      | some d, some l => some (d :: l)
      | _, _ => none) (some []) with
  | none => "bad-arg"
  | some ds => if rejectsRecursive ds then "P0010" else "-"

/-! ### abstract compilation units: `unit <decl> <decl> | <decl> … | X`
files are separated by `|`; `X` is a file that does not parse.  Declarations:
`E:<n>:<v,v,…>:<dflt|->`  `A:<n>:<base>`  `S:<n>:<e.t,e.t,…>`  `R:<n>:<lo>:<hi>`
`F|U|P:<n>:<vars>:<stmts>`  `C:<n>:<vars>:<t,t,…>:<inst.task|-.type,…>`
var = `name.cls.const.ty.init` (cls v i o x e g; const 0 1; ty b i n<k>; init `-` or number);
stmt = `a.<target>.<r+r+…>` | `c.<inst>.<f=v+f=v>.<p+p>.<o=t+o=t>`; negative numbers `m5`. -/

def splitNE (s : String) (sep : String) : List String := if s.isEmpty then [] else s.splitOn sep

def optAll {α β} (f : α → Option β) (l : List α) : Option (List β) :=
  l.foldr (fun x acc => match f x, acc with | some y, some ys => some (y :: ys) | _, _ => none) (some [])

def parseTy (s : String) : Option Ty :=
  match s.toList with
  | ['b'] => some .bool
  | ['i'] => some .int
  | ['s'] => some .str
  | 'n' :: ds => (String.ofList ds).toNat?.map Ty.named
  | _ => none

def parseCls (s : String) : Option VCls :=
  match s with
  | "v" => some .var | "i" => some .input | "o" => some .output | "x" => some .inout
  | "e" => some .external | "g" => some .global | _ => none

def parseOptNat (s : String) : Option (Option Nat) :=
  if s == "-" then some none else s.toNat?.map some

def parseVar (s : String) : Option AVar :=
  match s.splitOn "." with
  | [n, c, k, t, i] => do
    let n ← n.toNat?; let c ← parseCls c; let t ← parseTy t; let i ← parseOptNat i
    pure { name := n, cls := c, const := k == "1", ty := t, init := i }
  | _ => none

def parsePair (s : String) : Option (Nat × Nat) :=
  match s.splitOn "=" with
  | [a, b] => do let a ← a.toNat?; let b ← b.toNat?; pure (a, b)
  | _ => none

def parseStmt (s : String) : Option AStmt :=
  match s.splitOn "." with
  | ["a", t, rhs] => do
    let t ← t.toNat?; let rs ← optAll String.toNat? (splitNE rhs "+")
    pure (.assign t rs)
  | ["c", i, f, p, o] => do
    let i ← i.toNat?
    let f ← optAll parsePair (splitNE f "+")
    let p ← optAll String.toNat? (splitNE p "+")
    let o ← optAll parsePair (splitNE o "+")
    pure (.call i f p o)
  | _ => none

def parseInt' (s : String) : Option Int :=
  match s.toList with
  | 'm' :: ds => (String.ofList ds).toNat?.map fun n => -(n : Int)
  | _ => s.toNat?.map fun n => (n : Int)

def parseProgInst (s : String) : Option AProgInst :=
  match s.splitOn "." with
  | [n, t, ty] => do
    let n ← n.toNat?; let t ← parseOptNat t; let ty ← ty.toNat?
    pure { name := n, task := t, ty := ty }
  | _ => none

def parseADecl (s : String) : Option ADecl :=
  match s.splitOn ":" with
  | ["E", n, vs, d] => do
    let n ← n.toNat?; let vs ← optAll String.toNat? (splitNE vs ","); let d ← parseOptNat d
    pure (.enumT n vs d)
  | ["A", n, b] => do let n ← n.toNat?; let b ← b.toNat?; pure (.enumAlias n b)
  | ["S", n, es] => do
    let n ← n.toNat?
    let es ← optAll (fun e => match e.splitOn "." with
      | [a, t] => do let a ← a.toNat?; let t ← parseTy t; pure (a, t, none)
      | [a, t, i] => do let a ← a.toNat?; let t ← parseTy t; let i ← parseOptNat i; pure (a, t, i)
      | _ => none) (splitNE es ",")
    pure (.structT n es)
  | ["R", n, lo, hi] => do let n ← n.toNat?; let lo ← parseInt' lo; let hi ← parseInt' hi; pure (.subrangeT n lo hi)
  | [k, n, vs, ss] =>
    if k == "F" || k == "U" || k == "P" then do
      let n ← n.toNat?
      let vs ← optAll parseVar (splitNE vs ",")
      let ss ← optAll parseStmt (splitNE ss ",")
      pure (if k == "F" then .fb n vs ss else if k == "U" then .func n vs ss else .prog n vs ss)
    else none
  | ["C", n, vs, ts, ps] => do
    let n ← n.toNat?
    let vs ← optAll parseVar (splitNE vs ",")
    let ts ← optAll String.toNat? (splitNE ts ",")
    let ps ← optAll parseProgInst (splitNE ps ",")
    pure (.config n vs ts ps)
  | _ => none

/-- split the words of a `unit` request into files -/
def splitFiles : List String → List String → List (List String) → List (List String)
  | [], cur, acc => (acc ++ [cur])
  | w :: ws, cur, acc => if w == "|" then splitFiles ws [] (acc ++ [cur]) else splitFiles ws (cur ++ [w]) acc

def parseFile (ws : List String) : Option AFile :=
  if ws == ["X"] then some { parseError := true, decls := [] }
  else (optAll parseADecl ws).map fun ds => { parseError := false, decls := ds }

def showGroups (g : Groups) : String :=
  if g.isEmpty then "OK" else
  "ERR " ++ " ".intercalate (g.map fun alt => "|".intercalate (alt.map toString))

def handleUnit (ws : List String) : String :=
  match optAll parseFile (splitFiles (ws.filter (!·.isEmpty)) [] []) with
  | none => "bad-arg"
  | some files => showGroups (semantic files)

/-! ### CLI: `cli <check|echo|tokenize> <patharg> ; <patharg> ; …`
patharg = `M` | `F <flags> <decl…|X>` | `D <flags> <decl…|X> , <flags> <decl…|X> , …`; flags = readable decodable tokenizes as `0`/`1` -/

def splitOnWord (sep : String) : List String → List String → List (List String) → List (List String)
  | [], cur, acc => acc ++ [cur]
  | w :: ws, cur, acc => if w == sep then splitOnWord sep ws [] (acc ++ [cur]) else splitOnWord sep ws (cur ++ [w]) acc

def parseCFile (ws : List String) : Option CFile :=
  match ws with
  | flags :: rest =>
    match flags.toList, parseFile rest with
    | [r, d, t], some u => some { readable := r == '1', decodable := d == '1', tokenizes := t == '1', unit := u }
    | _, _ => none
  | [] => none

def parsePathArg (ws : List String) : Option PathArg :=
  match ws with
  | ["M"] => some .missing
  | "F" :: rest => (parseCFile rest).map PathArg.file
  | "D" :: rest =>
    if rest.isEmpty then some (.dir []) else
    (optAll parseCFile (splitOnWord "," rest [] [])).map PathArg.dir
  | _ => none

def showCli (o : CliOut) : String :=
  s!"exit={o.exit} ok={if o.ok then 1 else 0} " ++
    (if o.coded.isEmpty then "-" else " ".intercalate (o.coded.map fun alt => "|".intercalate (alt.map toString)))

def handleCli (ws : List String) : String :=
  match ws with
  | act :: rest =>
    let rest := rest.filter (!·.isEmpty)
    let args := if rest.isEmpty then some [] else optAll parsePathArg (splitOnWord ";" rest [] [])
    match args with
    | none => "bad-arg"
    | some ps =>
      if act == "check" then showCli (cliCheck ps)
      else if act == "echo" then showCli (cliEcho ps)
      else if act == "tokenize" then showCli (cliTokenize ps)
      else "bad-op"
  | [] => "bad-op"

def handle (line : String) : String :=
  match line.trimAscii.toString.splitOn " " with
  | ["lex", h] =>
    match unhexText h with
    | some cs => showItems cs (tokenizeProgram cs)
    | none => "bad-arg"
  | ["rawlex", h] =>
    match unhexText h with
    | some cs => showItems cs (lexItems cs)
    | none => "bad-arg"
  | ["semtok", h] =>
    match unhexText h with
    | some cs => (match semTokens cs with
        | none => "null"
        | some d => ",".intercalate (d.map toString))
    | none => "bad-arg"
  | ["parse", h] =>
    match unhexText h with
    | some cs => (match Parse.parseProgram cs with
        | .ok sx => "OK " ++ sx.render
        | .error c => "ERR " ++ c)
    | none => "bad-arg"
  | ["sublt", an, a, bn, b] =>
    -- `is_less_than` of the subrange limits rule on (sign, magnitude) pairs
    match a.toNat?, b.toNat? with
    | some x, some y => if Total.isLessThan (an == "1") x (bn == "1") y then "1" else "0"
    | _, _ => "bad-arg"
  | ["render", h] =>
    -- parser mirror, then the renderer model; answer: the text (hex) whose lexemes are compared
    match unhexText h with
    | some cs => (match Parse.parseProgram cs with
        | .ok sx => (match Render.library sx with
            | some t => "OK " ++ hexOfString t
            | none => "UNSUPPORTED")
        | .error c => "ERR " ++ c)
    | none => "bad-arg"
  | ["rt", h] =>
    -- the round trip inside the model: parser mirror, renderer model, parser mirror again
    match unhexText h with
    | some cs => (match Parse.parseProgram cs with
        | .ok sx => (match Render.library sx with
            | some t => (match Parse.parseProgram t.toList with
                | .ok sx2 => if sx2.render == sx.render then "SAME" else "DIFF"
                | .error c => "REPARSE " ++ c)
            | none => "UNSUPPORTED")
        | .error c => "ERR " ++ c)
    | none => "bad-arg"
  | ["addr", h] =>
    match unhexText h with
    | some cs =>
      -- the text must be exactly one DirectAddress token
      (match tokenizeProgram cs with
        | [it] => if it.ty == "DirectAddress" || it.ty == "DirectAddressIncomplete" then
            (match Parse.addressParts it.text with
              | some (l, sz, ps) => s!"addr {l} {sz} " ++ ".".intercalate (ps.map toString)
              | none => "ERR")
          else "ERR"
        | _ => "ERR")
    | none => "bad-arg"
  | ["decodelex", h] =>
    match unhex h with
    | some b => (match decodeFile b.toList with
        | some cs => showItems cs (tokenizeProgram cs)
        | none => "P0028")
    | none => "bad-arg"
  | ["decode", h] =>
    match unhex h with
    | some b => (match decodeFile b.toList with
        | some cs => " ".intercalate (cs.map fun c => toString c.toNat)
        | none => "P0028")
    | none => "bad-arg"
  | "lsp" :: ws => handleLsp ws
  | "c07" :: ws => handleC07 ws
  | "unit" :: ws => handleUnit ws
  | "cli" :: ws => handleCli ws
  | _ => "bad-op"

partial def loop (h : IO.FS.Stream) (out : IO.FS.Stream) : IO Unit := do
  let line ← h.getLine
  if line.isEmpty then return ()
  out.putStrLn (handle line)
  loop h out

def main : IO Unit := do
  let stdin ← IO.getStdin
  let stdout ← IO.getStdout
  loop stdin stdout
