import PlcModel.Lex

/-!
# plcdrv: line protocol driver for the executable model

One request per input line: `<cmd> <arg> ...`; one response line per request.
Text arguments are hex-encoded UTF-8.  Unknown commands answer `bad-op`.
-/

def hexVal (c : Char) : Option Nat :=
  if '0' ≤ c && c ≤ '9' then some (c.toNat - '0'.toNat)
  else if 'a' ≤ c && c ≤ 'f' then some (c.toNat - 'a'.toNat + 10)
  else if 'A' ≤ c && c ≤ 'F' then some (c.toNat - 'A'.toNat + 10)
  else none

def unhexGo : List Char → ByteArray → Option ByteArray
  | [], acc => some acc
  | [_], _ => none
  | a :: b :: rest, acc =>
    match hexVal a, hexVal b with
    | some x, some y => unhexGo rest (acc.push (UInt8.ofNat (x * 16 + y)))
    | _, _ => none

def unhex (s : String) : Option ByteArray := unhexGo s.toList ByteArray.empty

def unhexText (s : String) : Option (List Char) :=
  match unhex s with
  | some b => (String.fromUTF8? b).map String.toList
  | none => none

def showItem (orig : List Char) (it : Item) : String :=
  if it.err then s!"!:P0031:{it.start}:{it.stop}"
  else
    let flag := if it.text.isEmpty then "s"
      else if sliceBytes orig 0 it.start it.stop == some it.text then "t" else "x"
    s!"{it.ty}:{it.start}:{it.stop}:{it.line}:{it.col}:{flag}"

/-- tokens, then ` | `, then lexical errors (the Rust side keeps them in two vectors) -/
def showItems (orig : List Char) (items : List Item) : String :=
  " ".intercalate ((items.filter (!·.err)).map (showItem orig)) ++ " | " ++
  " ".intercalate ((items.filter (·.err)).map (showItem orig))

def handle (line : String) : String :=
  match line.trimAscii.toString.splitOn " " with
  | ["lex", h] =>
    match unhexText h with
    | some cs => showItems cs (tokenizeProgram cs)
    | none => "bad-arg"
  | ["rawlex", h] =>
    match unhexText h with
    | some cs => showItems cs (lexItems cs)
    | none => "bad-arg"
  | _ => "bad-op"

partial def loop (h : IO.FS.Stream) (out : IO.FS.Stream) : IO Unit := do
  let line ← h.getLine
  if line.isEmpty then return ()
  out.putStrLn (handle line)
  loop h out

def main : IO Unit := do
  let stdin ← IO.getStdin
  let stdout ← IO.getStdout
  loop stdin stdout
