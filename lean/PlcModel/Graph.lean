/-!
# M-Graph: the declaration graph and the executable cyclicity test

`xform_toposort_declarations.rs` builds a `petgraph` digraph over declaration names and asks
`toposort` for an order; `toposort` fails exactly when the graph has a cycle (trusted, sampled by the
correspondence).  The executable test here is Kahn-style elimination: repeatedly drop a node that
has no incoming edge from a node still alive; the graph is cyclic iff nodes are left over.
-/

abbrev Edges := List (Nat × Nat)

def hasIncoming (alive : List Nat) (edges : Edges) (v : Nat) : Bool :=
  edges.any fun e => e.2 == v && alive.contains e.1

def elim : Nat → List Nat → Edges → List Nat
  | 0, alive, _ => alive
  | fuel+1, alive, edges =>
    match alive.find? (fun v => !hasIncoming alive edges v) with
    | some v => elim fuel (alive.filter (· != v)) edges
    | none => alive

def cyclicExec (nodes : List Nat) (edges : Edges) : Bool :=
  !(elim nodes.length nodes edges).isEmpty

/-! ## the abstract compilation unit of C07: declarations and what they refer to

`fb i refs`     : FUNCTION_BLOCK i with one instance variable per element of `refs`
`alias i j`     : TYPE i : j;
`struct i refs` : TYPE i : STRUCT one element per `refs` END_STRUCT
-/

inductive Decl where
  | fb (name : Nat) (instances : List Nat)
  | alias (name : Nat) (base : Nat)
  | struct (name : Nat) (elems : List Nat)
deriving Repr, DecidableEq

def Decl.name : Decl → Nat
  | .fb n _ => n | .alias n _ => n | .struct n _ => n

/-- "refers to" edges of the property: a function block contains an instance of another, a type
refers to a type through an alias or a structure element -/
def Decl.refs : Decl → Edges
  | .fb n is => is.map (n, ·)
  | .alias n b => [(n, b)]
  | .struct n es => es.map (n, ·)

def specEdges (ds : List Decl) : Edges := ds.flatMap Decl.refs

/-- edges as `RuleGraphReferenceableElements` inserts them: every edge goes from the
declaration that is referred to, to the declaration that refers to it (dependency first) -/
def builtEdges (ds : List Decl) : Edges := (specEdges ds).map fun e => (e.2, e.1)

/-- nodes: every declared name and every name referred to (`add_node` on both ends) -/
def graphNodes (ds : List Decl) : List Nat :=
  (ds.map Decl.name ++ (specEdges ds).map (·.2)).eraseDups

/-- does `xform_toposort_declarations` answer P0010 -/
def rejectsRecursive (ds : List Decl) : Bool := cyclicExec (graphNodes ds) (builtEdges ds)
