/-!
# M-Decode: model of `compiler/plc2x/src/source.rs::path_to_source`

`encoding_rs::Encoding::decode` first sniffs a byte-order mark (UTF-8, UTF-16LE, UTF-16BE) and, when
there is one, decodes with *that* encoding whatever `self` is; otherwise it decodes with `self`.
`path_to_source` tries `UTF_8` and then `WINDOWS_1252` and takes the first that reports no error.
So: with a BOM the bytes must be valid in the BOM's encoding (else P0028); without one the bytes are
UTF-8 when they are valid UTF-8 and Windows-1252 (total, WHATWG table) otherwise.

UTF-8 validity and decoding are Lean core's `ByteArray.utf8Decode?` (strict UTF-8).
-/

/-- the bytes 0x80–0x9F of windows-1252 (WHATWG index: the five unassigned bytes map to the C1 control
with the same number); every other byte maps to the code point with the same number -/
def cp1252High : List Nat :=
  [8364, 129, 8218, 402, 8222, 8230, 8224, 8225, 710, 8240, 352, 8249, 338, 141, 381, 143,
   144, 8216, 8217, 8220, 8221, 8226, 8211, 8212, 732, 8482, 353, 8250, 339, 157, 382, 376]

def cp1252Char (b : UInt8) : Char :=
  let n := b.toNat
  if 0x80 ≤ n ∧ n < 0xA0 then Char.ofNat (cp1252High.getD (n - 0x80) n) else Char.ofNat n

def decodeCp1252 (bs : List UInt8) : List Char := bs.map cp1252Char

def decodeUtf8 (bs : List UInt8) : Option (List Char) :=
  bs.toByteArray.utf8Decode?.map Array.toList

/-- UTF-16 code units → chars; lone or misordered surrogates are errors -/
def decodeUnits : List Nat → Option (List Char)
  | [] => some []
  | u :: rest =>
    if 0xD800 ≤ u ∧ u < 0xDC00 then
      match rest with
      | v :: rest' =>
        if 0xDC00 ≤ v ∧ v < 0xE000 then
          (decodeUnits rest').map (Char.ofNat (0x10000 + (u - 0xD800) * 0x400 + (v - 0xDC00)) :: ·)
        else none
      | [] => none
    else if 0xDC00 ≤ u ∧ u < 0xE000 then none
    else (decodeUnits rest).map (Char.ofNat u :: ·)

/-- bytes → 16-bit units (little endian when `le`); an odd trailing byte is an error -/
def unitsOf (le : Bool) : List UInt8 → Option (List Nat)
  | [] => some []
  | [_] => none
  | a :: b :: rest =>
    (unitsOf le rest).map ((if le then a.toNat + 256 * b.toNat else 256 * a.toNat + b.toNat) :: ·)

def decodeUtf16 (le : Bool) (bs : List UInt8) : Option (List Char) :=
  (unitsOf le bs).bind decodeUnits

/-- `path_to_source`: `none` is P0028 (no decoder accepts the bytes) -/
def decodeFile (bs : List UInt8) : Option (List Char) :=
  match bs with
  | 0xEF :: 0xBB :: 0xBF :: rest => decodeUtf8 rest
  | 0xFF :: 0xFE :: rest => decodeUtf16 true rest
  | 0xFE :: 0xFF :: rest => decodeUtf16 false rest
  | _ =>
    match decodeUtf8 bs with
    | some t => some t
    | none => some (decodeCp1252 bs)

/-! encoders (for the statements of the theorems and for the generator) -/

def encodeUtf8 (cs : List Char) : List UInt8 := cs.flatMap String.utf8EncodeChar

def unitsOfChar (c : Char) : List Nat :=
  let n := c.toNat
  if n < 0x10000 then [n] else [0xD800 + (n - 0x10000) / 0x400, 0xDC00 + (n - 0x10000) % 0x400]

def bytesOfUnit (le : Bool) (u : Nat) : List UInt8 :=
  if le then [UInt8.ofNat (u % 256), UInt8.ofNat (u / 256)] else [UInt8.ofNat (u / 256), UInt8.ofNat (u % 256)]

def encodeUtf16 (le : Bool) (cs : List Char) : List UInt8 :=
  (cs.flatMap unitsOfChar).flatMap (bytesOfUnit le)
