import PlcModel.Graph

/-!
# M-Analyze: model of `ironplc_analyzer::stages::analyze` and `FileBackedProject::semantic`
on an abstract syntax that keeps exactly what the analyzer looks at.

Names are natural numbers (the analysis compares lower-cased identifiers only).  A statement's
nesting inside IF / CASE / FOR / WHILE / REPEAT is not represented: every rule visitor recurses
through statement bodies uniformly (the printer of the correspondence check wraps statements in
random nesting, so a visitor that stops recursing disagrees with this model).

Stage order, early aborts, "first error only" rule visitors versus collecting ones, and the
name-keyed re-assembly of `xform_toposort_declarations` are modelled as in the code.
-/

inductive Ty where
  | bool | int
  | str                   -- STRING / WSTRING, with or without a length (`init = some _`: has an initial value)
  | named (n : Nat)       -- a derived type or function block type name
deriving Repr, DecidableEq

/-- variable block classes -/
inductive VCls where
  | var | input | output | inout | external | global
deriving Repr, DecidableEq

structure AVar where
  name : Nat
  cls : VCls
  const : Bool
  ty : Ty
  init : Option Nat       -- a literal for bool/int, an enumeration value for a named (enum) type
deriving Repr, DecidableEq

inductive AStmt where
  /-- `target := r1 + r2 + …` (`rhs = []`: a literal) -/
  | assign (target : Nat) (rhs : List Nat)
  /-- `inst(f1 := v1, …, p1, …, o1 => t1, …)` -/
  | call (inst : Nat) (formal : List (Nat × Nat)) (positional : List Nat) (outs : List (Nat × Nat))
deriving Repr, DecidableEq

/-- program instance in a configuration: instance name, task, program type -/
structure AProgInst where
  name : Nat
  task : Option Nat
  ty : Nat
deriving Repr, DecidableEq

inductive ADecl where
  | enumT (name : Nat) (values : List Nat) (dflt : Option Nat)
  | enumAlias (name base : Nat)
  /-- elements: name, type, initial value (an enumeration value for an element of a named type) -/
  | structT (name : Nat) (elems : List (Nat × Ty × Option Nat))
  | subrangeT (name : Nat) (lo hi : Int)
  | fb (name : Nat) (vars : List AVar) (body : List AStmt)
  | func (name : Nat) (vars : List AVar) (body : List AStmt)
  | prog (name : Nat) (vars : List AVar) (body : List AStmt)
  | config (name : Nat) (globals : List AVar) (tasks : List Nat) (progs : List AProgInst)
deriving Repr, DecidableEq

structure AFile where
  parseError : Bool            -- the file does not tokenize / parse
  decls : List ADecl
deriving Repr, DecidableEq

namespace ADecl

def name : ADecl → Nat
  | enumT n _ _ => n | enumAlias n _ => n | structT n _ => n | subrangeT n _ _ => n
  | fb n _ _ => n | func n _ _ => n | prog n _ _ => n | config n _ _ _ => n

def isType : ADecl → Bool
  | enumT .. => true | enumAlias .. => true | structT .. => true | subrangeT .. => true
  | _ => false

def vars : ADecl → List AVar
  | fb _ vs _ => vs | func _ vs _ => vs | prog _ vs _ => vs | config _ gs _ _ => gs
  | _ => []

def body : ADecl → List AStmt
  | fb _ _ b => b | func _ _ b => b | prog _ _ b => b
  | _ => []

def isPou : ADecl → Bool
  | fb .. => true | func .. => true | prog .. => true | _ => false

end ADecl

/-! ## problem codes (numbers of `problem-codes.csv`) -/

def P0002 := 2
def P0003 := 3
def P0004 := 4
def P0005 := 5
def P0006 := 6
def P0007 := 7
def P0008 := 8
def P0009 := 9
def P0010 := 10
def P0011 := 11
def P0012 := 12
def P0014 := 14
def P0015 := 15
def P0016 := 16
def P0017 := 17
def P0018 := 18
def P0019 := 19
def P0020 := 20
def P0021 := 21
def P0022 := 22
def P0029 := 29
def P0030 := 30
def P0031 := 31
def P9999 := 9999

/-- names of the standard function blocks the analyzer knows but does not implement
(`stdlib.rs`); the generated programs use name 9000 for one of them (printed `TON`) -/
def isUnsupportedStd (n : Nat) : Bool := n == 9000

/-! ## stage 1: `xform_toposort_declarations` -/

/-- does the initialiser of this variable still carry a bare type name when the graph is built
(a named type without an enumeration initial value parses as LateResolvedType / FunctionBlock) -/
def AVar.refEdge (v : AVar) : Option Nat :=
  match v.ty, v.init with
  | .named n, none => some n
  | _, _ => none

def declEdges : ADecl → Edges
  | .enumAlias n b => [(n, b)]
  | .structT n es => es.filterMap fun e => match e.2.1, e.2.2 with | .named t, none => some (n, t) | _, _ => none
  | .enumT .. => []
  | .subrangeT .. => []
  | d => d.vars.filterMap fun v => v.refEdge.map fun t => (d.name, t)

def unitEdges (ds : List ADecl) : Edges := ds.flatMap declEdges

def unitNodes (ds : List ADecl) : List Nat :=
  (ds.map ADecl.name ++ (unitEdges ds).map (·.2)).eraseDups

def recursive (ds : List ADecl) : Bool :=
  cyclicExec (unitNodes ds) ((unitEdges ds).map fun e => (e.2, e.1))

/-- names declared more than once in the same name-keyed map (`types_by_name` / `elems_by_name`):
one entry per declaration after the first -/
def dupCodes : List ADecl → List Nat
  | [] => []
  | d :: rest =>
    (if rest.any (fun d' => d'.isType == d.isType && d'.name == d.name)
      then [if d.isType then P0019 else P0020] else []) ++ dupCodes rest

/-! ## stage 2: `xform_resolve_late_bound_data_decl` -/

/-- what kind of declaration an alias chain ends in: 0 = enumeration, 1 = structure, 2 = anything else
(undeclared, subrange, function block): P9999.  Fuel = number of declarations. -/
def aliasRoot (ds : List ADecl) : Nat → Nat → Nat
  | 0, _ => 2
  | fuel+1, n =>
    match ds.find? (fun d => d.isType && d.name == n) with
    | some (.enumT ..) => 0
    | some (.structT ..) => 1
    | some (.enumAlias _ b) => aliasRoot ds fuel b
    | _ => 2

def aliasUnsupported (ds : List ADecl) : Bool :=
  ds.any fun d => match d with
    | .enumAlias n _ => aliasRoot ds (ds.length + 1) n == 2
    | _ => false

/-! ## stage 3: `xform_resolve_late_bound_expr_kind`

An assignment whose target is declared with a named type and no initial value — or in a
VAR_IN_OUT block, whatever its type — is still `LateResolvedType` here; a bare identifier on the
right-hand side then is P9999. -/
def exprUnsupported (ds : List ADecl) : Bool :=
  ds.any fun d => d.isPou && d.body.any fun s => match s with
    | .assign t rhs =>
      !rhs.isEmpty && (match d.vars.find? (·.name == t) with
        | some v => v.cls == .inout || (match v.ty with | .named _ => true | _ => false)
        | none => false)
    | _ => false

/-! ## stage 4: `xform_resolve_late_bound_type_initializer` -/

/-- kind of a type name in the type table: 0 enumeration, 1 structure, 2 function block,
3 subrange / initialised structure (P9999 when used for a variable), none = unknown -/
def typeKind (ds : List ADecl) (n : Nat) : Option Nat :=
  match ds.find? (fun d => (d.isType || (match d with | .fb .. => true | _ => false)) && d.name == n) with
  | some (.enumT ..) => some 0
  | some (.enumAlias a _) => if aliasRoot ds (ds.length + 1) a == 0 then some 0 else some 3
  | some (.structT ..) => some 1
  | some (.fb ..) => some 2
  | some (.subrangeT ..) => some 3
  | _ => none

/-- a type declaration and a function block with the same name collide in the type table -/
def typeFbClash (ds : List ADecl) : Bool :=
  ds.any fun d => d.isType && ds.any fun d' => (match d' with | .fb .. => true | _ => false) && d'.name == d.name

/-- type names still to be resolved: variables and structure elements with a bare type name -/
def lateTypeRefs (ds : List ADecl) : List Nat :=
  ds.flatMap fun d => match d with
    | .structT _ es => es.filterMap fun e => match e.2.1, e.2.2 with | .named t, none => some t | _, _ => none
    | d => d.vars.filterMap AVar.refEdge

def unknownTypes (ds : List ADecl) : List Nat :=
  (lateTypeRefs ds).filter fun t => !isUnsupportedStd t && (typeKind ds t).isNone

def typeInitUnsupported (ds : List ADecl) : Bool :=
  (lateTypeRefs ds).any fun t => !isUnsupportedStd t && typeKind ds t == some 3

/-- is variable `v` a function block instance after type resolution -/
def isFbVar (ds : List ADecl) (v : AVar) : Bool :=
  match v.refEdge with
  | some t => isUnsupportedStd t || typeKind ds t == some 2
  | none => false

def isEnumVar (ds : List ADecl) (v : AVar) : Bool :=
  match v.ty with
  | .named t => v.init.isSome || (!isUnsupportedStd t && typeKind ds t == some 0)
  | _ => false

def isStructVar (ds : List ADecl) (v : AVar) : Bool :=
  match v.refEdge with
  | some t => !isUnsupportedStd t && typeKind ds t == some 1
  | none => false

/-! ## stage 5: the eleven rules

A rule result is a list of *groups*; a group is a non-empty list of alternative codes of which
at least one is reported.  Collecting rules give singleton groups; a rule visitor that returns at
its first error gives one group holding the codes of all its failing sites. -/

abbrev Groups := List (List Nat)

def hasDup : List Nat → Bool
  | [] => false
  | x :: xs => xs.contains x || hasDup xs

def grp (codes : List Nat) : Groups := if codes.isEmpty then [] else [codes.eraseDups]

/-- P0003 structure element names unique (collecting) -/
def ruleStruct (ds : List ADecl) : Groups :=
  grp (ds.filterMap fun d => match d with
    | .structT _ es => if hasDup (es.map (·.1)) then some P0003 else none
    | _ => none)

/-- P0004 subrange minimum below maximum (collecting) -/
def ruleSubrange (ds : List ADecl) : Groups :=
  grp (ds.filterMap fun d => match d with
    | .subrangeT _ lo hi => if lo ≥ hi then some P0004 else none
    | _ => none)

/-- P0005 enumeration values unique (collecting) -/
def ruleEnumUnique (ds : List ADecl) : Groups :=
  grp (ds.filterMap fun d => match d with
    | .enumT _ vs _ => if hasDup vs then some P0005 else none
    | _ => none)

/-- the callee's declaration as `rule_function_block_invocation` finds it -/
def findFb (ds : List ADecl) (n : Nat) : Option ADecl :=
  ds.find? fun d => (match d with | .fb .. => true | _ => false) && d.name == n

/-- `check_assignments` + `visit_fb_call` for one call in POU `d` -/
def callCode (ds : List ADecl) (d : ADecl) (inst : Nat) (formal : List (Nat × Nat)) (positional : List Nat)
    (outs : List (Nat × Nat)) : Option Nat :=
  match d.vars.find? (fun v => v.name == inst && isFbVar ds v) with
  | none => some P0021
  | some v =>
    match v.refEdge.bind (findFb ds) with
    | none => some P0021
    | some callee =>
      let inputs := callee.vars.filter (fun x => x.cls == .input || x.cls == .inout)
      let nInputs := (callee.vars.filter (·.cls == .input)).length
      let outputs := callee.vars.filter (·.cls == .output)
      if !formal.isEmpty && !positional.isEmpty then some P0006
      else if formal.any (fun f => !(inputs.any (·.name == f.1))) then some P0007
      else if !positional.isEmpty && positional.length != nInputs then some P0008
      else if outs.any (fun o => !(outputs.any (·.name == o.1))) then some P0009
      else none

/-- P0006..P0009, P0021 (first error only) -/
def ruleFbCall (ds : List ADecl) : Groups :=
  grp (ds.flatMap fun d => d.body.filterMap fun s => match s with
    | .call i f p o => if d.isPou then callCode ds d i f p o else none
    | _ => none)

/-- P0011 task references defined (collecting) -/
def ruleTask (ds : List ADecl) : Groups :=
  grp (ds.flatMap fun d => match d with
    | .config _ _ tasks progs => progs.filterMap fun p => match p.task with
        | some t => if tasks.contains t then none else some P0011
        | none => none
    | _ => [])

/-- values of an enumeration type name, following aliases (`find_enum_declaration_values`) -/
def enumValues (ds : List ADecl) : Nat → Nat → Option (List Nat)
  | 0, _ => none
  | fuel+1, n =>
    match ds.find? (fun d => d.isType && d.name == n) with
    | some (.enumT _ vs _) => some vs
    | some (.enumAlias _ b) => enumValues ds fuel b
    | _ => none

/-- P0012, P0014 (first error only): every enumeration-typed variable -/
def ruleEnumUse (ds : List ADecl) : Groups :=
  grp (ds.flatMap fun d =>
    (d.vars.filterMap fun v =>
      match v.ty with
      | .named t =>
        if isEnumVar ds v then
          match enumValues ds (ds.length + 1) t with
          | none => some P0012
          | some vs => (match v.init with
              | some x => if vs.contains x then none else some P0014
              | none => none)
        else none
      | _ => none)
    -- structure elements with an enumeration initial value are checked the same way
    ++ (match d with
        | .structT _ es => es.filterMap fun e =>
            match e.2.1, e.2.2 with
            | .named t, some x =>
              (match enumValues ds (ds.length + 1) t with
                | none => some P0012
                | some vs => if vs.contains x then none else some P0014)
            | _, _ => none
        | _ => []))

/-- names a statement refers to as variables -/
def AStmt.varRefs : AStmt → List Nat
  | .assign t rhs => t :: rhs
  | .call _ formal positional outs => formal.map (·.2) ++ positional ++ outs.map (·.2)

/-- P0015 every used variable declared (first error only); the scope of a POU is its own name and
its variables -/
def ruleVarUse (ds : List ADecl) : Groups :=
  grp (ds.flatMap fun d =>
    if d.isPou then
      (d.body.flatMap AStmt.varRefs).filterMap fun r =>
        if r == d.name || d.vars.any (·.name == r) then none else some P0015
    else [])

/-- P0029 unsupported standard library type (collecting) -/
def ruleStdlib (ds : List ADecl) : Groups :=
  grp (ds.flatMap fun d => d.vars.filterMap fun v =>
    match v.refEdge with
    | some t => if isUnsupportedStd t then some P0029 else none
    | none => none)

/-- P0016 constants initialised (collecting, but a P9999 site aborts the walk and discards them) -/
def ruleConstInit (ds : List ADecl) : Groups :=
  let sites := ds.flatMap fun d => d.vars.filterMap fun v =>
    if v.const && v.cls != .external then
      if isFbVar ds v || isStructVar ds v then some P9999
      else if v.init.isNone then some P0016 else none
    else none
  if sites.contains P9999 then [[P9999]] else grp sites

/-- P0017 constants are not function block instances (collecting) -/
def ruleConstFb (ds : List ADecl) : Groups :=
  grp (ds.flatMap fun d => d.vars.filterMap fun v =>
    if v.const && isFbVar ds v then some P0017 else none)

/-- P0018 externals of constant globals declared constant (first error only).
`FindGlobalConstVars` collects the names of the constant *global* variables. -/
def ruleExternalConst (ds : List ADecl) : Groups :=
  let consts := ds.flatMap fun d => (d.vars.filter fun v => v.const && v.cls == .global).map (·.name)
  grp (ds.flatMap fun d => d.vars.filterMap fun v =>
    if v.cls == .external && !v.const && consts.contains v.name then some P0018 else none)

def rules (ds : List ADecl) : Groups :=
  ruleStruct ds ++ ruleSubrange ds ++ ruleEnumUnique ds ++ ruleFbCall ds ++ ruleTask ds ++
  ruleEnumUse ds ++ ruleVarUse ds ++ ruleStdlib ds ++ ruleConstInit ds ++ ruleConstFb ds ++
  ruleExternalConst ds

/-! ## the pipeline -/

/-- `analyze` on the concatenation of the libraries -/
def analyzeDecls (ds : List ADecl) : Groups :=
  if recursive ds then [[P0010]]
  else if !(dupCodes ds).isEmpty then (dupCodes ds).eraseDups.map fun c => [c]
  else if aliasUnsupported ds then [[P9999]]
  else if exprUnsupported ds then [[P9999]]
  else if typeFbClash ds then [[P0020]]
  else if typeInitUnsupported ds then [[P9999]]
  else if !(unknownTypes ds).isEmpty then [[P0022]]
  else rules ds

/-- `FileBackedProject::semantic`: parse errors of the files that do not parse, plus the analysis
of those that do (P0030 when none does) -/
def semantic (files : List AFile) : Groups :=
  let perr := if files.any (·.parseError) then [[P0002, P0031]] else []
  let libs := files.filter (!·.parseError)
  if libs.isEmpty then perr ++ [[P0030]]
  else perr ++ analyzeDecls (libs.flatMap (·.decls))

def verdictOk (g : Groups) : Bool := g.isEmpty
