import PlcModel.Analyze
import PlcModel.Gen.Stages

/-!
# The analysis pipeline as a table of stages

`Analyze.analyzeDecls` writes the pipeline of `stages.rs` as a chain of `if`s.  Here the same pipeline is a
table — one entry per transform of `resolve_types` (what makes it abort, with which codes) and one per rule
of `semantic` (the rule function and the problem codes it may report) — named like the Rust modules, so
that the order of the stages and the codes each stage names can be compared with the tables the translator
re-extracts from `stages.rs`, the stage modules and `problem-codes.csv` on every run (`Gen/Stages.lean`).
`PlcProofs/Lemmas/Stages.lean` proves that running the table is `analyzeDecls`.
-/

structure XformStage where
  name : String
  /-- the problem codes the model lets this transform abort with -/
  codes : List Nat
  /-- `some g`: the transform returns `Err` with the diagnostics `g` and the analysis ends here -/
  abort : List ADecl → Option Groups

structure RuleStage where
  name : String
  /-- the problem codes the model lets this rule report -/
  codes : List Nat
  run : List ADecl → Groups

def xformStages : List XformStage := [
  { name := "xform_toposort_declarations", codes := [P0010, P0019, P0020],
    abort := fun ds =>
      if recursive ds then some [[P0010]]
      else if !(dupCodes ds).isEmpty then some ((dupCodes ds).eraseDups.map fun c => [c])
      else none },
  { name := "xform_resolve_late_bound_data_decl", codes := [P9999],
    abort := fun ds => if aliasUnsupported ds then some [[P9999]] else none },
  { name := "xform_resolve_late_bound_expr_kind", codes := [P9999],
    abort := fun ds => if exprUnsupported ds then some [[P9999]] else none },
  { name := "xform_resolve_late_bound_type_initializer", codes := [P0020, P0022, P9999],
    abort := fun ds =>
      if typeFbClash ds then some [[P0020]]
      else if typeInitUnsupported ds then some [[P9999]]
      else if !(unknownTypes ds).isEmpty then some [[P0022]]
      else none }
]

def ruleStages : List RuleStage := [
  { name := "rule_decl_struct_element_unique_names", codes := [P0003], run := ruleStruct },
  { name := "rule_decl_subrange_limits", codes := [P0004], run := ruleSubrange },
  { name := "rule_enumeration_values_unique", codes := [P0005], run := ruleEnumUnique },
  { name := "rule_function_block_invocation", codes := [P0006, P0007, P0008, P0009, P0021], run := ruleFbCall },
  { name := "rule_program_task_definition_exists", codes := [P0011], run := ruleTask },
  { name := "rule_use_declared_enumerated_value", codes := [P0012, P0014], run := ruleEnumUse },
  { name := "rule_use_declared_symbolic_var", codes := [P0015], run := ruleVarUse },
  { name := "rule_unsupported_stdlib_type", codes := [P0029], run := ruleStdlib },
  { name := "rule_var_decl_const_initialized", codes := [P0016, P9999], run := ruleConstInit },
  { name := "rule_var_decl_const_not_fb", codes := [P0017], run := ruleConstFb },
  { name := "rule_var_decl_global_const_requires_external_const", codes := [P0018], run := ruleExternalConst }
]

/-- `resolve_types` then `semantic`: the first transform that aborts ends the analysis with its
diagnostics (`library = xform(library)?`); otherwise every rule runs and the diagnostics are concatenated -/
def analyzeStaged (ds : List ADecl) : Groups :=
  match xformStages.findSome? (fun s => s.abort ds) with
  | some g => g
  | none => ruleStages.flatMap (fun s => s.run ds)

/-- the codes of `Gen.stageProblems` for a stage module -/
def namedInSource (name : String) : List Nat :=
  match Gen.stageProblems.find? (fun e => e.1 == name) with
  | some e => e.2
  | none => []
