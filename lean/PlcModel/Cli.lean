import PlcModel.Analyze

/-!
# M-Cli: model of `compiler/plc2x/src/cli.rs` (`check`, `echo`, `tokenize`, `create_project`,
`enumerate_files`) and the mapping of `main`'s `Result<(), String>` to the exit status.

File contents are abstract: a file either cannot be read, cannot be decoded, or carries the abstract
compilation-unit file of M-Analyze plus "does it tokenize".
-/

structure CFile where
  readable : Bool        -- `std::fs::read` succeeds (false: e.g. the entry is a directory)
  decodable : Bool       -- the decoder cascade of `source.rs` finds an encoding
  tokenizes : Bool       -- `tokenize_program` reports no error
  unit : AFile           -- what the parser/analyzer see (`parseError` must hold when `tokenizes` is false)
deriving Repr, DecidableEq

inductive PathArg where
  | file (f : CFile)
  | dir (entries : List CFile)
  | missing                       -- `canonicalize` fails
deriving Repr, DecidableEq

structure CliOut where
  exit : Nat             -- process exit status
  ok : Bool              -- the line `OK` was printed on stdout
  coded : Groups         -- coded diagnostics printed on stderr (groups of alternatives, as in M-Analyze)
deriving Repr, DecidableEq

def P0023 := 23
def P0026 := 26
def P0028 := 28

/-- `enumerate_files` over all path arguments: the files, and one P0023 per path that cannot be canonicalized -/
def enumerate : List PathArg → List CFile × List Nat
  | [] => ([], [])
  | .file f :: rest => let r := enumerate rest; (f :: r.1, r.2)
  | .dir es :: rest => let r := enumerate rest; (es ++ r.1, r.2)
  | .missing :: rest => let r := enumerate rest; (r.1, P0023 :: r.2)

def readErrors (files : List CFile) : List Nat :=
  files.filterMap fun f => if !f.readable then some P0026 else if !f.decodable then some P0028 else none

/-- `create_project`: `none` = Err (the diagnostics were printed, the command fails) -/
def createProject (ps : List PathArg) : Except Groups (List CFile) :=
  let e := enumerate ps
  if !e.2.isEmpty then .error (e.2.map fun c => [c])
  else if !(readErrors e.1).isEmpty then .error ((readErrors e.1).map fun c => [c])
  else .ok e.1

def cliCheck (ps : List PathArg) : CliOut :=
  match createProject ps with
  | .error g => ⟨1, false, g⟩
  | .ok files =>
    let g := semantic (files.map (·.unit))
    if g.isEmpty then ⟨0, true, []⟩ else ⟨1, false, g⟩

def cliEcho (ps : List PathArg) : CliOut :=
  match createProject ps with
  | .error g => ⟨1, false, g⟩
  | .ok files =>
    if files.any (·.unit.parseError) then ⟨1, false, [[P0002, P0031]]⟩ else ⟨0, false, []⟩

def cliTokenize (ps : List PathArg) : CliOut :=
  match createProject ps with
  | .error g => ⟨1, false, g⟩
  | .ok files =>
    if files.any (!·.tokenizes) then ⟨1, false, [[P0031]]⟩ else ⟨0, true, []⟩
