import PlcProofs.Lemmas.Lex
import PlcProofs.Props.C05
