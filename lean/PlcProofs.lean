import PlcProofs.Lemmas.Lex
import PlcProofs.Lemmas.SemTok
import PlcProofs.Lemmas.Lsp
import PlcProofs.Props.C05
import PlcProofs.Props.C11
import PlcProofs.Props.C12
import PlcProofs.Props.C15
