import PlcModel.Regex
import PlcModel.Lex
import PlcModel.SemTok
import PlcModel.Lsp
