import PlcModel.Regex
import PlcModel.Lex
