import PlcModel.Regex
import PlcModel.Lex
import PlcModel.SemTok
import PlcModel.Lsp
import PlcModel.Graph
import PlcModel.Analyze
import PlcModel.Cli
import PlcModel.Decode
