#!/usr/bin/env python3
"""Translator: /repo sources -> /verif/lean/PlcModel/Gen/*.lean

Re-extracts the table-like parts of ironplc's source into Lean definitions on every check run, so
that theorems quantifying over these tables are re-checked against what the code says *now*.
A file is rewritten only when its content changes (keeps lake's incremental build warm).

usage: gen_tables.py [--repo /repo] [--out /verif/lean/PlcModel/Gen] [table ...]
prints one line per table: `TABLE <name> ok <summary>` or `TABLE <name> FAILED <reason>`;
exit status 0 iff every requested table was extracted.
"""
import os, re, sys, unicodedata, json, traceback

REPO = '/repo'
OUT = os.path.join(os.path.dirname(os.path.abspath(__file__)), '..', 'lean', 'PlcModel', 'Gen')


def read(rel):
    with open(os.path.join(REPO, rel), encoding='utf-8') as f:
        return f.read()


def write_if_changed(name, text):
    path = os.path.join(OUT, name)
    old = None
    if os.path.exists(path):
        with open(path, encoding='utf-8') as f:
            old = f.read()
    if old != text:
        os.makedirs(OUT, exist_ok=True)
        with open(path, 'w', encoding='utf-8') as f:
            f.write(text)
        return True
    return False


def lean_str(s):
    out = ['"']
    for ch in s:
        o = ord(ch)
        if ch == '\\': out.append('\\\\')
        elif ch == '"': out.append('\\"')
        elif ch == '\n': out.append('\\n')
        elif ch == '\r': out.append('\\r')
        elif ch == '\t': out.append('\\t')
        elif o < 0x20 or o == 0x7f: out.append('\\x%02x' % o)
        else: out.append(ch)
    out.append('"')
    return ''.join(out)


# --------------------------------------------------------------------------------------------
# Tokens: token.rs `#[token]` / `#[regex]` attributes
# --------------------------------------------------------------------------------------------

def rust_string(s, i):
    """parse a Rust string literal starting at s[i] (either r"..." or "..."), return (value, next_i)"""
    if s.startswith('r"', i):
        j = s.index('"', i + 2)
        return s[i + 2:j], j + 1
    if s.startswith('r#"', i):
        j = s.index('"#', i + 3)
        return s[i + 3:j], j + 2
    assert s[i] == '"', s[i:i + 20]
    j = i + 1
    out = []
    while s[j] != '"':
        if s[j] == '\\':
            c = s[j + 1]
            out.append({'n': '\n', 'r': '\r', 't': '\t', '\\': '\\', '"': '"', "'": "'"}.get(c, '\\' + c))
            j += 2
        else:
            out.append(s[j])
            j += 1
    return ''.join(out), j + 1


class P:
    def __init__(s, t): s.t = t; s.i = 0
    def peek(s): return s.t[s.i] if s.i < len(s.t) else None
    def eat(s):
        c = s.t[s.i]; s.i += 1; return c


def esc_char(c):
    return {'n': '\n', 'r': '\r', 't': '\t', 'f': '\x0c'}.get(c, c)


def parse_alt(p):
    alts = [parse_seq(p)]
    while p.peek() == '|':
        p.eat(); alts.append(parse_seq(p))
    r = alts[0]
    for a in alts[1:]: r = ('alt', r, a)
    return r


def parse_seq(p):
    items = []
    while p.peek() is not None and p.peek() not in '|)':
        items.append(parse_rep(p))
    if not items: return ('eps',)
    r = items[0]
    for a in items[1:]: r = ('seq', r, a)
    return r


def parse_rep(p):
    a = parse_atom(p)
    while p.peek() in ('*', '+', '?'):
        q = p.eat()
        a = {'*': ('star', a), '+': ('seq', a, ('star', a)), '?': ('alt', a, ('eps',))}[q]
    if p.peek() == '{':
        raise ValueError('unsupported regex syntax: {m,n}')
    return a


def parse_atom(p):
    c = p.eat()
    if c == '(':
        if p.t.startswith('?:', p.i): p.i += 2
        elif p.peek() == '?': raise ValueError('unsupported group flag')
        r = parse_alt(p)
        if p.eat() != ')': raise ValueError('unbalanced group')
        return r
    if c == '[': return parse_class(p)
    if c == '\\':
        e = p.eat()
        if e == 'd': return ('digit',)
        if e in 'wsWSDbB': raise ValueError('unsupported escape \\' + e)
        return ('cls', False, [(esc_char(e), esc_char(e))])
    if c in '.^$': raise ValueError('unsupported regex syntax: ' + c)
    return ('cls', False, [(c, c)])


def parse_class(p):
    neg = False
    if p.peek() == '^': p.eat(); neg = True
    rs = []
    while p.peek() != ']':
        c = p.eat()
        if c == '\\':
            e = p.eat()
            if e in 'dwsDWS': raise ValueError('unsupported class escape')
            c = esc_char(e)
        if p.peek() == '-' and p.t[p.i + 1] != ']':
            p.eat(); d = p.eat()
            if d == '\\': d = esc_char(p.eat())
            rs.append((c, d))
        else: rs.append((c, c))
    p.eat()
    return ('cls', neg, rs)


def ci(r):
    """apply ignore(case) to a regex: every class gets the other ASCII case added"""
    if r[0] == 'cls':
        neg, rs = r[1], r[2]
        out = list(rs)
        for (a, b) in rs:
            for x in range(ord(a), ord(b) + 1):
                ch = chr(x)
                if ch.isascii() and ch.isalpha():
                    o = ch.swapcase()
                    if (o, o) not in out: out.append((o, o))
        return ('cls', neg, out)
    if r[0] in ('seq', 'alt'): return (r[0], ci(r[1]), ci(r[2]))
    if r[0] == 'star': return ('star', ci(r[1]))
    return r


def lit(text, ic):
    r = None
    for ch in text:
        rs = [(ch, ch)]
        if ic and ch.isascii() and ch.isalpha(): rs.append((ch.swapcase(), ch.swapcase()))
        a = ('cls', False, rs)
        r = a if r is None else ('seq', r, a)
    return r if r is not None else ('eps',)


def lean_char(c): return f'(Char.ofNat {ord(c)})'


def lean_re(r):
    k = r[0]
    if k == 'eps': return 'Re.eps'
    if k == 'digit': return 'Re.digit'
    if k == 'cls':
        return f'(Re.cls {"true" if r[1] else "false"} [{", ".join(f"({lean_char(a)}, {lean_char(b)})" for a, b in r[2])}])'
    if k == 'star': return f'(Re.star {lean_re(r[1])})'
    return f'(Re.{k} {lean_re(r[1])} {lean_re(r[2])})'


def token_entries():
    src = read('compiler/parser/src/token.rs')
    enum = src[src.index('pub enum TokenType'):]
    enum = enum[:enum.index('\nimpl TokenType')]
    entries = []  # (variant, kind, text, ignore_case, priority)
    pending = []
    variants = []
    for line in enum.splitlines():
        t = line.strip()
        m = re.match(r'#\[(token|regex)\(', t)
        if m:
            kind = m.group(1)
            val, k = rust_string(t, m.end())
            rest = t[k:]
            ic = 'ignore(case)' in rest or 'ignore(ascii_case)' in rest
            pm = re.search(r'priority\s*=\s*(\d+)', rest)
            pending.append((kind, val, ic, int(pm.group(1)) if pm else None))
            continue
        m = re.match(r'([A-Z][A-Za-z0-9]*),$', t)
        if m:
            variants.append(m.group(1))
            for (kind, val, ic, pr) in pending:
                entries.append((m.group(1), kind, val, ic, pr))
            pending = []
    if pending: raise ValueError('dangling attribute')
    return entries, variants


def nd_ranges():
    nd = []
    start = None
    for cp in range(0x110000):
        is_nd = unicodedata.category(chr(cp)) == 'Nd'
        if is_nd and start is None: start = cp
        if not is_nd and start is not None:
            nd.append((start, cp - 1)); start = None
    return nd


def gen_tokens():
    entries, variants = token_entries()
    out = ['-- GENERATED by translator/gen_tables.py from compiler/parser/src/token.rs; do not edit',
           'import PlcModel.Regex', 'namespace Gen',
           '/-- Unicode general category Nd (what `\\d` means to logos / the regex crate), from python unicodedata -/',
           'def ndRanges : List (Nat × Nat) := [' + ', '.join(f'({a}, {b})' for a, b in nd_ranges()) + ']',
           '',
           'structure Entry where',
           '  ty : String          -- TokenType variant',
           '  isRegex : Bool',
           '  text : String        -- the literal / regex source text',
           '  ignoreCase : Bool',
           '  prio : Nat           -- explicit priority, else 2*len for literals and 2 for regexes (only used to break ties)',
           '  explicitPrio : Bool',
           '  re : Re',
           '',
           'def table : List Entry := [']
    rows = []
    for (v, kind, val, ic, pr) in entries:
        if kind == 'token':
            r = lit(val, ic)
            prio = pr if pr is not None else 2 * len(val.encode())
        else:
            r = parse_alt(P(val))
            if ic: r = ci(r)
            prio = pr if pr is not None else 2
        rows.append(f'  {{ ty := "{v}", isRegex := {"true" if kind == "regex" else "false"}, text := {lean_str(val)}, '
                    f'ignoreCase := {"true" if ic else "false"}, prio := {prio}, explicitPrio := {"true" if pr is not None else "false"}, re := {lean_re(r)} }}')
    out.append(',\n'.join(rows))
    out.append(']')
    out.append('')
    out.append('/-- every variant of `TokenType`, in declaration order -/')
    out.append('def variants : List String := [' + ', '.join(f'"{v}"' for v in variants) + ']')
    out.append('end Gen')
    write_if_changed('Tokens.lean', '\n'.join(out) + '\n')
    return f'{len(entries)} entries, {sum(1 for e in entries if e[1] == "regex")} regexes, {len(variants)} variants'


# --------------------------------------------------------------------------------------------
# Legend: lsp_project.rs TOKEN_TYPE_LEGEND, *_INDEX constants, `From<LspTokenType>` match
# --------------------------------------------------------------------------------------------

def gen_legend():
    src = read('compiler/plc2x/src/lsp_project.rs')
    m = re.search(r'pub const TOKEN_TYPE_LEGEND: \[SemanticTokenType; (\d+)\] = \[(.*?)\];', src, re.S)
    if not m: raise ValueError('TOKEN_TYPE_LEGEND not found')
    legend = re.findall(r'SemanticTokenType::([A-Z_]+)', m.group(2))
    if len(legend) != int(m.group(1)): raise ValueError('legend length mismatch')
    consts = {k: int(v) for k, v in re.findall(r'const ([A-Z_]+_INDEX): u32 = (\d+);', src)}
    body = src[src.index('impl From<LspTokenType> for Option<SemanticToken>'):]
    body = body[:body.index('token_type.map(')]
    arms = re.findall(r'TokenType::([A-Za-z0-9]+) => (None|Some\(([A-Z_]+)\)),', body)
    if not arms: raise ValueError('no match arms found')
    if re.search(r'\b_ =>', body): raise ValueError('wildcard arm in legend match is not supported')
    rows = []
    for v, val, c in arms:
        if val == 'None': rows.append(f'  ("{v}", none)')
        else:
            if c not in consts: raise ValueError('unknown index constant ' + c)
            rows.append(f'  ("{v}", some {consts[c]})')
    # how a SemanticToken is filled from a Token (field -> expression), for the record
    fill = re.search(r'token_type\.map\(\|token_type\| SemanticToken \{(.*?)\}\)', src, re.S)
    fields = re.findall(r'(\w+): ([^,]+),', fill.group(1)) if fill else []
    out = ['-- GENERATED by translator/gen_tables.py from compiler/plc2x/src/lsp_project.rs; do not edit',
           'namespace Gen',
           '/-- `TOKEN_TYPE_LEGEND` (lower-cased LSP names) -/',
           'def legend : List String := [' + ', '.join(f'"{x.lower()}"' for x in legend) + ']',
           '',
           '/-- the `match` of `From<LspTokenType> for Option<SemanticToken>`: variant ↦ legend index -/',
           'def legendMap : List (String × Option Nat) := [',
           ',\n'.join(rows), ']',
           '',
           '/-- how the SemanticToken fields are filled (source text of the expressions) -/',
           'def semTokFields : List (String × String) := [' + ', '.join(f'({lean_str(a)}, {lean_str(b.strip())})' for a, b in fields) + ']',
           'end Gen']
    write_if_changed('Legend.lean', '\n'.join(out) + '\n')
    return f'{len(legend)} legend entries, {len(arms)} arms'


# --------------------------------------------------------------------------------------------
# Prec: parser.rs `precedence!{ … }` block of `expression()`
# --------------------------------------------------------------------------------------------

def gen_prec():
    src = read('compiler/parser/src/parser.rs')
    m = re.search(r'pub rule expression\(\) -> ExprKind = precedence!\{(.*?)\n    \}', src, re.S)
    if not m: raise ValueError('precedence! block not found')
    body = m.group(1)
    levels = [l for l in re.split(r'\n\s*--\s*\n', body)]
    rows = []
    atoms = []
    for li, lvl in enumerate(levels):
        for line in lvl.strip().split('\n'):
            line = line.strip()
            if not line or line.startswith('//'): continue
            mm = re.match(r'x:(\(@\)|@) _ tok\(TokenType::(\w+)\)\s*_ y:(\(@\)|@) \{ ExprKind::(compare|binary)\((\w+)::(\w+), x, y\s*\) \}$', line)
            if mm:
                left_assoc = mm.group(1) == '(@)' and mm.group(3) == '@'
                right_assoc = mm.group(1) == '@' and mm.group(3) == '(@)'
                if not (left_assoc or right_assoc): raise ValueError('unsupported associativity: ' + line)
                rows.append((li, mm.group(2), mm.group(4), mm.group(5), mm.group(6), left_assoc))
            else:
                atoms.append((li, line))
    if not rows: raise ValueError('no operator rows')
    out = ['-- GENERATED by translator/gen_tables.py from compiler/parser/src/parser.rs (precedence! block); do not edit',
           'namespace Gen',
           'structure PrecRow where',
           '  level : Nat          -- 0 = binds weakest',
           '  token : String       -- TokenType variant of the operator',
           '  ctor : String        -- `compare` (ExprKind::Compare) or `binary` (ExprKind::BinaryOp)',
           '  opEnum : String      -- CompareOp | Operator',
           '  op : String          -- variant',
           '  leftAssoc : Bool',
           'deriving Repr, DecidableEq',
           '',
           'def prec : List PrecRow := [',
           ',\n'.join(f'  {{ level := {l}, token := "{t}", ctor := "{c}", opEnum := "{e}", op := "{o}", leftAssoc := {"true" if la else "false"} }}' for (l, t, c, e, o, la) in rows),
           ']',
           '',
           '/-- the atom alternatives of the block, in order (level, source text) -/',
           'def precAtoms : List (Nat × String) := [' + ', '.join(f'({l}, {lean_str(t)})' for l, t in atoms) + ']',
           'end Gen']
    write_if_changed('Prec.lean', '\n'.join(out) + '\n')
    return f'{len(rows)} operators on {len(set(r[0] for r in rows))} levels, {len(atoms)} atoms'


# --------------------------------------------------------------------------------------------
# Stages: analyzer/src/stages.rs (order of transforms and rules), the Problem variants each stage names,
#         problems/resources/problem-codes.csv
# --------------------------------------------------------------------------------------------

def gen_stages():
    import csv, io
    src = read('compiler/analyzer/src/stages.rs')
    def vec_of(var):
        m = re.search(r'let\s+' + var + r'\s*:[^=]*=\s*vec!\s*\[(.*?)\]\s*;', src, re.S)
        if not m: raise ValueError(f'`let {var}: Vec<..> = vec![..]` not found in stages.rs')
        items = re.findall(r'(\w+)\s*::\s*apply', re.sub(r'//[^\n]*', '', m.group(1)))
        if not items: raise ValueError(f'no `<module>::apply` entries in {var}')
        return items
    xforms, rules = vec_of('xforms'), vec_of('functions')
    codes = {}
    rows = []
    for r in csv.DictReader(io.StringIO(read('compiler/problems/resources/problem-codes.csv'))):
        c = r['Code'].strip(); n = r['Name'].strip()
        if not re.match(r'^P\d{4}$', c): raise ValueError('unexpected problem code ' + c)
        codes[n] = int(c[1:]); rows.append((int(c[1:]), n))
    named = []
    for mod in xforms + rules:
        text = read(f'compiler/analyzer/src/{mod}.rs').split('#[cfg(test)]')[0]
        text = re.sub(r'//[^\n]*', '', text)
        ps = sorted(set(re.findall(r'Problem::(\w+)', text)))
        for pn in ps:
            if pn not in codes: raise ValueError(f'{mod}.rs names Problem::{pn}, which problem-codes.csv does not list')
        named.append((mod, sorted(codes[pn] for pn in ps)))
    lst = lambda xs: '[' + ', '.join(f'"{x}"' for x in xs) + ']'
    out = ['-- GENERATED by translator/gen_tables.py from compiler/analyzer/src/stages.rs, the stage modules and',
           '-- compiler/problems/resources/problem-codes.csv; do not edit',
           'namespace Gen',
           '/-- the `xforms` vector of `resolve_types`, in order -/',
           'def xforms : List String := ' + lst(xforms),
           '/-- the `functions` vector of `semantic`, in order -/',
           'def rules : List String := ' + lst(rules),
           '/-- per stage module: the codes of the `Problem::` variants its (non-test) source names, ascending -/',
           'def stageProblems : List (String × List Nat) := [',
           ',\n'.join(f'  ("{m}", [{", ".join(str(c) for c in cs)}])' for m, cs in named),
           ']',
           '/-- problem-codes.csv: code number and name -/',
           'def problems : List (Nat × String) := [',
           ',\n'.join(f'  ({c}, "{n}")' for c, n in rows),
           ']',
           'end Gen']
    write_if_changed('Stages.lean', '\n'.join(out) + '\n')
    return f'{len(xforms)} transforms, {len(rules)} rules, {len(rows)} problem codes'


# --------------------------------------------------------------------------------------------
# TextKw: the grammar rules of parser.rs that recognise a token by its text (`tok_eq`, `id_eq`, `dt_sep`)
#         and every literal they are called with
# --------------------------------------------------------------------------------------------

def gen_textkw():
    src = read('compiler/parser/src/parser.rs')
    code = re.sub(r'//[^\n]*', '', src)
    rules = []
    for name in ('tok_eq', 'id_eq', 'dt_sep'):
        m = re.search(r'\brule\s+' + name + r'\s*\((.*?)\)\s*->.*?=(.*?)(?=\n\s*(?:pub\s+)?rule\s|\n\s*\n)', code, re.S)
        if not m: raise ValueError(f'rule {name} not found in parser.rs')
        body = m.group(2)
        ci = 'eq_ignore_ascii_case' in body
        exact = bool(re.search(r'\.text\s*==|==\s*\w*\.text|\.text\.as_str\(\)\s*==|\.text\.eq\(', body))
        if not ci and not exact: raise ValueError(f'rule {name}: no text comparison recognised')
        rules.append((name, ci and not exact))
    lits = []
    for name in ('tok_eq', 'id_eq', 'dt_sep'):
        for m in re.finditer(r'\b' + name + r'\(\s*(?:TokenType::(\w+)\s*,\s*)?"((?:[^"\\]|\\.)*)"\s*\)', code):
            lits.append((name, m.group(1) or 'Identifier', m.group(2)))
    if not lits: raise ValueError('no textual keyword literals found')
    seen = []
    for x in lits:
        if x not in seen: seen.append(x)
    out = ['-- GENERATED by translator/gen_tables.py from compiler/parser/src/parser.rs; do not edit',
           'namespace Gen',
           '/-- the rules that match a token by its text, and whether they compare with `eq_ignore_ascii_case` -/',
           'def textMatchRules : List (String × Bool) := [' + ', '.join(f'("{n}", {"true" if ci else "false"})' for n, ci in rules) + ']',
           '/-- every literal such a rule is called with: rule, token type, text -/',
           'def textKw : List (String × String × String) := [',
           ',\n'.join(f'  ("{r}", "{t}", {lean_str(v)})' for r, t, v in seen),
           ']',
           'end Gen']
    write_if_changed('TextKw.lean', '\n'.join(out) + '\n')
    return f'{len(rules)} text-matching rules, {len(seen)} literals'


# --------------------------------------------------------------------------------------------
# RenderKw: every string literal the renderer (plc2plc/src/renderer.rs) appends to its buffer: the arguments of
#           `write_ws("…")` / `write("…")` and the string results of its match arms (`Variant => "…"`)
# --------------------------------------------------------------------------------------------

def gen_renderkw():
    src = read('compiler/plc2plc/src/renderer.rs')
    code = re.sub(r'(?m)^\s*//[^\n]*', '', src)
    # the test module is not part of the renderer
    cut = re.search(r'#\[cfg\(test\)\]', code)
    if cut: code = code[:cut.start()]
    # scan the code once, string literal by string literal (an operator such as `=>` inside a literal is text, not code)
    lits = []
    i, n = 0, len(code)
    while i < n:
        c = code[i]
        if c == '"' or (c == 'r' and code.startswith(('r"', 'r#"'), i) and not (i and (code[i - 1].isalnum() or code[i - 1] == '_'))):
            text, j = rust_string(code, i)
            before = code[max(0, i - 40):i].rstrip()
            if re.search(r'\bwrite_ws\($', before): lits.append(('write_ws', '', text))
            elif re.search(r'\bwrite\($', before): lits.append(('write', '', text))
            elif before.endswith('=>'):
                mv = re.search(r'(\w+::\w+)\s*=>$', before)
                lits.append(('arm', mv.group(1) if mv else '', text))
            i = j
        elif c == "'":
            # a char literal ('x', '\\n', '\\'') or a lifetime ('a)
            m = re.match(r"'(?:\\.|[^'\\])'", code[i:])
            i += m.end() if m else 1
        else:
            i += 1
    if len(lits) < 50: raise ValueError(f'only {len(lits)} literals recognised in renderer.rs')
    seen = []
    for x in lits:
        if x not in seen: seen.append(x)
    out = ['-- GENERATED by translator/gen_tables.py from compiler/plc2plc/src/renderer.rs; do not edit',
           'namespace Gen',
           '/-- every string literal the renderer writes: how (`write_ws`, `write`, result of a match `arm`), the enum variant',
           'the arm matches (`Enum::Variant`, empty otherwise) and the text -/',
           'def renderLits : List (String × String × String) := [',
           ',\n'.join(f'  ("{k}", "{a}", {lean_str(v)})' for k, a, v in seen),
           ']',
           'end Gen']
    write_if_changed('RenderKw.lean', '\n'.join(out) + '\n')
    return f'{len(seen)} literals ({sum(1 for x in seen if x[0] != "arm")} written directly, {sum(1 for x in seen if x[0] == "arm")} from match arms)'


TABLES = {
    'Tokens': gen_tokens,
    'Prec': gen_prec,
    'Legend': gen_legend,
    'Stages': gen_stages,
    'TextKw': gen_textkw,
    'RenderKw': gen_renderkw,
}


def main(argv):
    global REPO, OUT
    args = list(argv)
    while args and args[0].startswith('--'):
        if args[0] == '--repo': REPO = args[1]; args = args[2:]
        elif args[0] == '--out': OUT = args[1]; args = args[2:]
        else: raise SystemExit('unknown option ' + args[0])
    names = args or list(TABLES)
    ok = True
    for n in names:
        try:
            print(f'TABLE {n} ok {TABLES[n]()}')
        except Exception as e:  # noqa
            ok = False
            msg = ''.join(traceback.format_exception_only(type(e), e)).strip().replace('\n', ' ')
            print(f'TABLE {n} FAILED {msg}')
    return 0 if ok else 1


if __name__ == '__main__':
    sys.exit(main(sys.argv[1:]))
