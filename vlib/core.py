"""Shared machinery of the /verif checks (python3 stdlib only).

A check run = regenerate tables -> build proofs + audit axioms -> build implementation harness ->
corpus + generated cases through model (plcdrv) and implementation (vh / ironplcc) ->
correspondence diff + property oracle on the implementation -> known findings -> evidence + verdict.
"""
import fcntl, hashlib, json, os, random, re, subprocess, sys, time, shutil

VERIF = os.path.dirname(os.path.dirname(os.path.abspath(__file__)))
REPO = os.environ.get('VERIF_REPO', '/repo')
LEAN = os.path.join(VERIF, 'lean')
BUILD = os.path.join(VERIF, 'build')
TARGET = os.path.join(BUILD, 'target')
PLCDRV = os.path.join(LEAN, '.lake', 'build', 'bin', 'plcdrv')
VH = os.path.join(TARGET, 'debug', 'vh')
IRONPLCC = os.path.join(TARGET, 'debug', 'ironplcc')
ALLOWED_AXIOMS = {'propext', 'Classical.choice', 'Quot.sound'}
ENV = dict(os.environ, CARGO_NET_OFFLINE='true', RUSTFLAGS=os.environ.get('RUSTFLAGS', ''))

TRUSTED_BASE = [
    'Lean 4.33.0 kernel (theorems elaborated by `lake build`; axioms per theorem audited with `#print axioms`, allowed: propext, Classical.choice, Quot.sound)',
    'translator/gen_tables.py (extracts Gen/*.lean tables from /repo sources on every run)',
    'correspondence check: harness `vh` (Rust, calls the real ironplc crates in-process), `plcdrv` (compiled Lean model), vlib/*.py differ and oracles',
    'modelled, not verified: all of /repo (theorems are about the Lean mirror); third-party crates logos, peg, petgraph, time, encoding_rs, lsp-server, codespan-reporting as observed through the correspondence',
]


def log(*a):
    print(*a, file=sys.stderr, flush=True)


class BuildLock:
    """serialises lake / cargo invocations between concurrently running checks"""
    def __init__(self, name):
        os.makedirs(BUILD, exist_ok=True)
        self.path = os.path.join(BUILD, name + '.lock')
    def __enter__(self):
        self.f = open(self.path, 'w')
        fcntl.flock(self.f, fcntl.LOCK_EX)
    def __exit__(self, *a):
        fcntl.flock(self.f, fcntl.LOCK_UN)
        self.f.close()


def sh(cmd, cwd=None, timeout=None, env=None, input=None):
    t0 = time.time()
    p = subprocess.run(cmd, cwd=cwd, env=env or ENV, capture_output=True, timeout=timeout, input=input)
    return p.returncode, p.stdout.decode('utf-8', 'replace'), p.stderr.decode('utf-8', 'replace'), time.time() - t0


# ------------------------------------------------------------------------------------------------
# step 1: tables
# ------------------------------------------------------------------------------------------------

# seconds a line-protocol driver may take for one request before it is killed (C04: a hang is a result, not a wait)
LINE_TIMEOUT = 90


def regen_tables():
    """returns list of (table, ok, message)"""
    with BuildLock('lake'):
        rc, out, err, _ = sh([sys.executable, os.path.join(VERIF, 'translator', 'gen_tables.py'), '--repo', REPO])
    res = []
    for line in out.splitlines():
        m = re.match(r'TABLE (\S+) (ok|FAILED) ?(.*)', line)
        if m:
            res.append((m.group(1), m.group(2) == 'ok', m.group(3)))
    if rc != 0 and not any(not ok for _, ok, _ in res):
        res.append(('translator', False, (err or out)[-400:]))
    return res


# ------------------------------------------------------------------------------------------------
# step 2: proofs
# ------------------------------------------------------------------------------------------------

def lake_build(targets, timeout=3000):
    with BuildLock('lake'):
        rc, out, err, dt = sh(['lake', 'build'] + targets, cwd=LEAN, timeout=timeout)
    return rc == 0, out + err, dt


def parse_lake_errors(text):
    """-> list of 'file:line: message' for error diagnostics"""
    errs = []
    for m in re.finditer(r'^error: (\S+?\.lean):(\d+):(\d+): (.*)$', text, re.M):
        errs.append(f'{m.group(1)}:{m.group(2)}: {m.group(4)[:200]}')
    return errs


def theorems_in(path):
    """names of theorems declared in a Props file (in order)"""
    names = []
    ns = []
    with open(path, encoding='utf-8') as f:
        for line in f:
            m = re.match(r'namespace (\S+)', line)
            if m: ns.append(m.group(1)); continue
            m = re.match(r'end (\S+)', line)
            if m and ns and ns[-1] == m.group(1): ns.pop(); continue
            m = re.match(r'(?:@\[[^\]]*\]\s*)?theorem (\S+)', line)
            if m: names.append('.'.join(ns + [m.group(1)]))
    return names


def theorem_at(path, lineno):
    """name of the theorem whose text contains line `lineno` of a Props/Lemmas file"""
    cur = None
    try:
        with open(path, encoding='utf-8') as f:
            for i, line in enumerate(f, 1):
                m = re.match(r'(?:@\[[^\]]*\]\s*)?(?:private )?(?:theorem|lemma|def|example|instance)\s*(\S*)', line)
                if m: cur = m.group(1) or 'example'
                if i >= lineno: break
    except OSError:
        pass
    return cur


FORBIDDEN = re.compile(r'\bsorry\b|\badmit\b|^axiom |native_decide|bv_decide|implemented_by|\bunsafe |maxHeartbeats 0')


def grep_forbidden(paths):
    hits = []
    for p in paths:
        incomment = 0
        with open(p, encoding='utf-8') as f:
            for i, line in enumerate(f, 1):
                code = line
                # strip block comments (coarse but conservative: nesting tracked by counting)
                out = []
                j = 0
                while j < len(code):
                    if code.startswith('/-', j): incomment += 1; j += 2; continue
                    if code.startswith('-/', j) and incomment: incomment -= 1; j += 2; continue
                    if not incomment:
                        if code.startswith('--', j): break
                        out.append(code[j])
                    j += 1
                code = ''.join(out)
                if FORBIDDEN.search(code):
                    hits.append(f'{os.path.relpath(p, VERIF)}:{i}: {line.strip()[:120]}')
    return hits


def audit_axioms(prop, theorems):
    """runs `#print axioms` for every theorem; returns {theorem: [axioms]} and list of problems"""
    if not theorems:
        return {}, []
    mod = f'PlcProofs.Props.{prop}'
    src = f'import {mod}\n' + ''.join(f'#print axioms {t}\n' for t in theorems)
    apath = os.path.join(LEAN, 'PlcProofs', 'Audit', f'{prop}.lean')
    old = open(apath).read() if os.path.exists(apath) else None
    if old != src:
        with open(apath, 'w') as f: f.write(src)
    with BuildLock('lake'):
        rc, out, err, dt = sh(['lake', 'env', 'lean', apath], cwd=LEAN, timeout=1200)
    text = out + err
    res = {}
    problems = []
    # messages look like: "'Foo.bar' depends on axioms: [propext, Quot.sound]" or "... does not depend on any axioms"
    for m in re.finditer(r"'([^']+)' depends on axioms: \[([^\]]*)\]", text, re.S):
        res[m.group(1)] = [a.strip() for a in m.group(2).replace('\n', ' ').split(',') if a.strip()]
    for m in re.finditer(r"'([^']+)' does not depend on any axioms", text):
        res[m.group(1)] = []
    for t in theorems:
        if t not in res:
            problems.append(f'{t}: no axiom report ({"lean rc=%d" % rc})')
        else:
            bad = [a for a in res[t] if a not in ALLOWED_AXIOMS]
            if bad: problems.append(f'{t}: inadmissible axioms {bad}')
    return res, problems


# ------------------------------------------------------------------------------------------------
# step 3: implementation builds
# ------------------------------------------------------------------------------------------------

def cargo_build_harness():
    hdir = os.path.join(VERIF, 'harness')
    lock_src = os.path.join(REPO, 'compiler', 'Cargo.lock')
    lock_dst = os.path.join(hdir, 'Cargo.lock')
    with BuildLock('cargo'):
        if not os.path.exists(lock_dst):
            shutil.copy(lock_src, lock_dst)
        rc, out, err, dt = sh(['cargo', 'build', '--offline', '--manifest-path', os.path.join(hdir, 'Cargo.toml'),
                               '--target-dir', TARGET], cwd=hdir, timeout=3000)
    return rc == 0, (out + err)[-3000:], dt


def cargo_build_ironplcc():
    with BuildLock('cargo'):
        rc, out, err, dt = sh(['cargo', 'build', '--offline', '--manifest-path',
                               os.path.join(REPO, 'compiler', 'plc2x', 'Cargo.toml'), '--bin', 'ironplcc',
                               '--target-dir', TARGET], cwd=os.path.join(VERIF, 'harness'), timeout=3000)
    return rc == 0, (out + err)[-3000:], dt


# ------------------------------------------------------------------------------------------------
# line-protocol drivers
# ------------------------------------------------------------------------------------------------

def run_lines(exe, lines, timeout=3600, chunk=None, jobs=1, line_timeout=None, _budget=None):
    """send request lines to a line-protocol driver, return list of response lines (same length).
    If the process dies, the answer of the request it died on is 'DIED rc=..'; if one request is not answered within
    `line_timeout` seconds (default LINE_TIMEOUT) the process is killed and the answer is 'TIMEOUT <seconds>s'; the
    remaining requests go to a fresh process.  After two timeouts in one batch the rest of the batch is answered
    'SKIPPED repeated-timeouts' (a hang that many inputs trigger must not turn the check itself into a hang)."""
    if not lines:
        return []
    if line_timeout is None: line_timeout = LINE_TIMEOUT
    if jobs > 1 and len(lines) >= 4 * jobs:
        import concurrent.futures as cf
        n = (len(lines) + jobs - 1) // jobs
        parts = [lines[i:i + n] for i in range(0, len(lines), n)]
        with cf.ThreadPoolExecutor(jobs) as ex:
            outs = list(ex.map(lambda p: run_lines(exe, p, timeout, line_timeout=line_timeout), parts))
        return [x for o in outs for x in o]
    import threading, queue
    if _budget is None: _budget = [2]
    if _budget[0] <= 0:
        return ['SKIPPED repeated-timeouts'] * len(lines)
    out = []
    p = subprocess.Popen([exe], stdin=subprocess.PIPE, stdout=subprocess.PIPE, stderr=subprocess.DEVNULL)
    q = queue.Queue()
    def reader():
        for raw in p.stdout:
            q.put(raw.decode('utf-8', 'replace').rstrip('\n'))
        q.put(None)
    def writer():
        try:
            p.stdin.write(('\n'.join(lines) + '\n').encode())
            p.stdin.close()
        except (BrokenPipeError, OSError):
            pass
    tr = threading.Thread(target=reader, daemon=True); tw = threading.Thread(target=writer, daemon=True)
    tr.start(); tw.start()
    status = None
    while len(out) < len(lines):
        try:
            x = q.get(timeout=line_timeout)
        except queue.Empty:
            p.kill(); status = f'TIMEOUT {line_timeout}s'
            _budget[0] -= 1
            break
        if x is None:
            p.wait(); status = f'DIED rc={p.returncode}'
            break
        out.append(x)
    if status is None:
        try: p.wait(timeout=30)
        except subprocess.TimeoutExpired: p.kill()
    else:
        try: p.wait(timeout=30)
        except subprocess.TimeoutExpired: pass
    if len(out) < len(lines):
        k = len(out)
        out.append(status or f'DIED rc={p.returncode}')
        rest = run_lines(exe, lines[k + 1:], timeout, line_timeout=line_timeout, _budget=_budget) if k + 1 < len(lines) else []
        out = out + rest
    return out[:len(lines)]


def hexs(s):
    return (s if isinstance(s, bytes) else s.encode('utf-8')).hex()


# ------------------------------------------------------------------------------------------------
# known findings
# ------------------------------------------------------------------------------------------------

def load_known(prop):
    path = os.path.join(VERIF, 'known_findings.jsonl')
    out = []
    if os.path.exists(path):
        with open(path, encoding='utf-8') as f:
            for line in f:
                line = line.strip()
                if not line or line.startswith('#') or line.startswith('fixed:'):
                    continue
                e = json.loads(line)
                if e.get('property') == prop:
                    out.append(e)
    return out


# ------------------------------------------------------------------------------------------------
# the run context / result collection
# ------------------------------------------------------------------------------------------------

class Ctx:
    def __init__(self, prop, tier, seed):
        self.prop, self.tier, self.seed = prop, tier, seed
        self.rng = random.Random(seed)
        self.t0 = time.time()
        self.obligations = []        # names of proof obligations
        self.broken = []             # (name, why)
        self.axioms = {}
        self.corr_fail = []          # correspondence disagreements: dict(case, model, impl, stream)
        self.violations = []         # oracle violations on the implementation: dict(case, what, stream)
        self.known_hits = []         # (finding id, what)
        self.evaluations = 0
        self.nontrivial = set()
        self.hist = {}
        self.samples = []
        self.traces = 0
        self.notes = []
        self.model_available = True
        self.streams = {}

    def quick(self):
        return self.tier == 'quick'

    def count(self, key, n=1):
        self.hist[key] = self.hist.get(key, 0) + n

    def feature(self, fv):
        self.nontrivial.add(fv)

    def sample(self, s, limit=6):
        if len(self.samples) < limit:
            self.samples.append(s)


# tables read by the model commands a property's check sends to the driver (lexing: Tokens; parsing: Tokens + Prec; ...)
DRIVER_TABLES = {'C01': {'Tokens', 'Prec'}, 'C04': {'Tokens', 'Prec'}, 'C05': {'Tokens'}, 'C08': {'Tokens', 'Prec'}, 'C09': {'Tokens', 'Prec'},
                 'C10': {'Tokens', 'Prec'}, 'C14': {'Tokens'}, 'C15': {'Tokens', 'Legend'}}


def tables_of(prop):
    """the generated tables a property depends on: those imported (transitively) by PlcProofs/Props/<prop>.lean plus
    those its model commands read"""
    out = set(DRIVER_TABLES.get(prop, ()))
    seen, todo = set(), [f'PlcProofs.Props.{prop}']
    while todo:
        mod = todo.pop()
        if mod in seen: continue
        seen.add(mod)
        path = os.path.join(LEAN, *mod.split('.')) + '.lean'
        if not os.path.exists(path): continue
        with open(path, encoding='utf-8') as f:
            for line in f:
                m = re.match(r'import (\S+)', line)
                if m:
                    if m.group(1).startswith('PlcModel.Gen.'): out.add(m.group(1).split('.')[-1])
                    elif m.group(1).startswith('Plc'): todo.append(m.group(1))
                elif line.strip() and not line.startswith('--') and not line.startswith('/-'):
                    if not line.startswith('import'): break
    return out


def prepare(ctx, need_harness=True, need_binary=False, need_model=True, extra_targets=()):
    """steps 1-3; fills ctx.obligations / ctx.broken"""
    prop = ctx.prop
    relevant = tables_of(prop)
    for name, ok, msg in regen_tables():
        # a table is an obligation of the properties whose theorems or model runs read it (a table that cannot be
        # re-extracted keeps its last content, so the other properties still build)
        if name not in relevant and name != 'translator':
            if not ok: ctx.notes.append(f'translator:{name} FAILED (not read by {prop}): {msg[:200]}')
            continue
        ctx.obligations.append(f'translator:{name}')
        if not ok:
            ctx.broken.append((f'translator:{name}', msg))
    props_file = os.path.join(LEAN, 'PlcProofs', 'Props', f'{prop}.lean')
    theorems = theorems_in(props_file) if os.path.exists(props_file) else []
    ctx.theorems = theorems
    ctx.obligations += [f'PlcProofs.Props.{prop}.{t}' if not t.startswith(prop) else f'PlcProofs.Props.{t}' for t in theorems]
    # model driver first (so the correspondence can run even when proofs break)
    if need_model:
        ok, text, dt = lake_build(['plcdrv'])
        ctx.notes.append(f'lake build plcdrv: {"ok" if ok else "FAILED"} {dt:.1f}s')
        if not ok:
            ctx.model_available = False
            for e in parse_lake_errors(text)[:5]:
                ctx.broken.append(('model:plcdrv', e))
            if not parse_lake_errors(text):
                ctx.broken.append(('model:plcdrv', text[-300:]))
    if theorems:
        ok, text, dt = lake_build([f'PlcProofs.Props.{prop}'] + list(extra_targets))
        ctx.notes.append(f'lake build PlcProofs.Props.{prop}: {"ok" if ok else "FAILED"} {dt:.1f}s')
        if not ok:
            errs = parse_lake_errors(text)
            seen = set()
            for e in errs:
                m = re.match(r'(\S+?\.lean):(\d+):', e)
                th = None
                if m:
                    fp = m.group(1)
                    if not os.path.isabs(fp): fp = os.path.join(LEAN, fp)
                    th = theorem_at(fp, int(m.group(2)))
                    name = f'{os.path.relpath(fp, LEAN)}:{th}'
                else:
                    name = 'lake'
                if name in seen: continue
                seen.add(name)
                ctx.broken.append((name, e))
            if not errs:
                ctx.broken.append((f'PlcProofs.Props.{prop}', text[-400:]))
        else:
            ax, problems = audit_axioms(prop, theorems)
            ctx.axioms = ax
            for p in problems:
                ctx.broken.append(('audit', p))
            if ctx.tier == 'thorough':
                # the toolchain's independent re-checker replays the compiled declarations of the property module
                t0 = time.time()
                r = subprocess.run(['lake', 'env', 'leanchecker', f'PlcProofs.Props.{prop}'], cwd=LEAN, capture_output=True, text=True)
                ctx.notes.append(f'leanchecker PlcProofs.Props.{prop}: rc={r.returncode} {time.time() - t0:.1f}s')
                if r.returncode != 0:
                    ctx.broken.append(('leanchecker', (r.stdout + r.stderr)[-400:]))
        lean_files = []
        for root, _, files in os.walk(LEAN):
            if '.lake' in root: continue
            for fn in files:
                if fn.endswith('.lean') and 'Audit' not in root:
                    lean_files.append(os.path.join(root, fn))
        for h in grep_forbidden(lean_files):
            ctx.broken.append(('forbidden-construct', h))
    if need_harness:
        ok, text, dt = cargo_build_harness()
        ctx.notes.append(f'cargo build vh: {"ok" if ok else "FAILED"} {dt:.1f}s')
        if not ok:
            ctx.broken.append(('build:vh', text[-600:]))
            ctx.harness_available = False
        else:
            ctx.harness_available = True
    if need_binary:
        ok, text, dt = cargo_build_ironplcc()
        ctx.notes.append(f'cargo build ironplcc: {"ok" if ok else "FAILED"} {dt:.1f}s')
        if not ok:
            ctx.broken.append(('build:ironplcc', text[-600:]))


def finish(ctx, level='proof', rule='', assumptions=(), extra=None):
    """decide, write evidence and replay, print lines, return exit code"""
    prop = ctx.prop
    os.makedirs(os.path.join(VERIF, 'evidence'), exist_ok=True)
    rdir = os.path.join(VERIF, 'replays', prop)
    known = load_known(prop)
    # known findings were replayed by the property module: ctx.known_hits
    for kid, what in ctx.known_hits:
        print(f'KNOWN-FINDING: property={prop} {kid}: {what}')
    rc = 0
    lines = []
    if ctx.violations:
        os.makedirs(rdir, exist_ok=True)
        v = ctx.violations[0]
        h = hashlib.sha1(json.dumps(v, sort_keys=True, default=str).encode()).hexdigest()[:12]
        path = os.path.join(rdir, f'{h}.json')
        with open(path, 'w') as f:
            json.dump({'property': prop, 'kind': 'oracle-violation', 'seed': ctx.seed, 'tier': ctx.tier,
                       'violation': v, 'more': ctx.violations[1:10],
                       'broken_obligations': ctx.broken[:10],
                       'correspondence_failures': ctx.corr_fail[:5]}, f, indent=1, default=str)
        lines.append(f'VIOLATION property={prop} replay={os.path.relpath(path, VERIF)}')
        rc = 1
    elif ctx.broken or ctx.corr_fail:
        os.makedirs(rdir, exist_ok=True)
        what = {'broken_obligations': ctx.broken[:20], 'correspondence_failures': ctx.corr_fail[:10]}
        h = hashlib.sha1(json.dumps(what, sort_keys=True, default=str).encode()).hexdigest()[:12]
        path = os.path.join(rdir, f'{h}.json')
        names = [b[0] for b in ctx.broken] + [f"correspondence:{c.get('stream')}" for c in ctx.corr_fail[:3]]
        with open(path, 'w') as f:
            json.dump({'property': prop, 'kind': 'obligation-broken', 'seed': ctx.seed, 'tier': ctx.tier,
                       'no_longer_checks': names, **what,
                       'note': 'a proof obligation or the model/implementation correspondence no longer checks; '
                               'the extended search found no input on which the property itself fails'}, f, indent=1, default=str)
        lines.append(f'VIOLATION property={prop} replay={os.path.relpath(path, VERIF)} no-failing-input-found')
        rc = 1
    nob = len(ctx.obligations)
    broken_names = {b[0] for b in ctx.broken}
    discharged = nob - len([o for o in ctx.obligations if any(o.endswith(bn.split(':')[-1]) for bn in broken_names)]) if ctx.broken else nob
    if ctx.broken: discharged = min(discharged, nob - 1)
    cov = {
        'obligations': nob,
        'discharged': max(discharged, 0),
        'obligation_names': ctx.obligations,
        'checker_cmd': f'cd /verif/lean && lake build PlcProofs.Props.{prop} plcdrv && lake env lean PlcProofs/Audit/{prop}.lean  (#print axioms)',
        'trusted_base': TRUSTED_BASE,
        'axioms': ctx.axioms,
        'evaluations': ctx.evaluations,
        'distinct_nontrivial': len(ctx.nontrivial),
        'rule': rule,
        'samples': ctx.samples or ['(none)'],
        'traces_validated_against_impl': ctx.traces,
        'disagreements_checked': len(ctx.corr_fail),
        'histogram': dict(sorted(ctx.hist.items())),
        'broken_obligations': [list(b) for b in ctx.broken[:20]],
        'known_findings_replayed': [k['id'] for k in known],
        'known_findings_still_failing': [k for k, _ in ctx.known_hits],
        'notes': ctx.notes,
    }
    if extra: cov.update(extra)
    ev = {
        'property_id': prop, 'tier': ctx.tier, 'seed': ctx.seed, 'level': level,
        'coverage': cov,
        'assumptions': list(assumptions),
        'wall_s': round(time.time() - ctx.t0, 2),
        'violations': len(ctx.violations) + (1 if (rc and not ctx.violations) else 0),
    }
    with open(os.path.join(VERIF, 'evidence', f'{prop}.json'), 'w') as f:
        json.dump(ev, f, indent=1, default=str)
    for l in lines:
        print(l)
    if rc == 0:
        print(f'OK property={prop} tier={ctx.tier} obligations={nob} evaluations={ctx.evaluations} '
              f'distinct_nontrivial={len(ctx.nontrivial)} wall={time.time() - ctx.t0:.1f}s')
    sys.stdout.flush()
    return rc
