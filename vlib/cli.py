"""Running the `ironplcc` binary on file sets and parsing its output."""
import os, re, shutil, subprocess, tempfile, uuid
from . import core

ANSI = re.compile(r'\x1b\[[0-9;]*[A-Za-z]')
SCRATCH = os.path.join(core.BUILD, 'scratch')


def strip_ansi(s):
    return ANSI.sub('', s)


def parse_diags(stderr, all_labels=False):
    """-> list of (code, basename or None, line or None, col or None) from codespan output (1-based line/col).
    By default one entry per diagnostic (the first snippet header = the primary label); with all_labels one
    entry per file snippet of the diagnostic (primary and secondary labels in other files)."""
    out = []
    lines = strip_ansi(stderr).split('\n')
    i = 0
    while i < len(lines):
        m = re.match(r'^error\[(P\d+)\]', lines[i])
        if m:
            code = m.group(1)
            locs = []
            j = i + 1
            while j < len(lines) and not re.match(r'^(error|warning|bug|note|help)(\[|:)', lines[j]):
                mm = re.match(r'^\s*(?:┌─|┌──) (.*):(\d+):(\d+)\s*$', lines[j])
                if mm:
                    locs.append((os.path.basename(mm.group(1)), int(mm.group(2)), int(mm.group(3))))
                j += 1
            if not locs: out.append((code, None, None, None))
            elif all_labels: out += [(code,) + l for l in locs]
            else: out.append((code,) + locs[0])
            i = j
        else:
            i += 1
    return out


class Workdir:
    """a scratch directory under /verif/build/scratch, removed on exit"""
    def __enter__(self):
        os.makedirs(SCRATCH, exist_ok=True)
        self.path = os.path.join(SCRATCH, 'w' + uuid.uuid4().hex[:12])
        os.makedirs(self.path)
        return self
    def __exit__(self, *a):
        shutil.rmtree(self.path, ignore_errors=True)
    def write(self, rel, data):
        p = os.path.join(self.path, rel)
        os.makedirs(os.path.dirname(p), exist_ok=True)
        with open(p, 'wb') as f:
            f.write(data if isinstance(data, bytes) else data.encode('utf-8'))
        return p


def run_cli(args, timeout=60, exe=None, stack_kb=None):
    cmd = [exe or core.IRONPLCC] + args
    pre = None
    if stack_kb:
        import resource
        def pre():
            resource.setrlimit(resource.RLIMIT_STACK, (stack_kb * 1024, stack_kb * 1024))
    try:
        p = subprocess.run(cmd, capture_output=True, timeout=timeout, preexec_fn=pre)
        return {'rc': p.returncode, 'stdout': p.stdout.decode('utf-8', 'replace'), 'stderr': p.stderr.decode('utf-8', 'replace')}
    except subprocess.TimeoutExpired as e:
        return {'rc': 'timeout', 'stdout': (e.stdout or b'').decode('utf-8', 'replace'), 'stderr': (e.stderr or b'').decode('utf-8', 'replace')}


def check_files(files, order=None, as_dir=False, action='check', timeout=60, symlinks=()):
    """files: dict name -> bytes/str. Writes them into a scratch dir and runs `ironplcc <action>`.
    symlinks: names that are stored elsewhere and stand in the directory as symbolic links.
    -> dict(rc, stdout, stderr, diags, ok_line)"""
    with Workdir() as w:
        d = os.path.join(w.path, 'src')
        paths = {}
        for name, data in files.items():
            if name in symlinks:
                real = w.write(os.path.join('shared', name.replace('/', '_')), data)
                link = os.path.join(w.path, 'src', name)
                os.makedirs(os.path.dirname(link), exist_ok=True)
                os.symlink(real, link)
                paths[name] = link
                continue
            paths[name] = w.write(os.path.join('src', name), data)
        os.makedirs(d, exist_ok=True)
        if as_dir:
            args = [action, d]
        else:
            # an entry of `order` may be a tuple of names: those files are moved into a directory of their own and the
            # directory is the argument
            args = [action]
            for k, n in enumerate(order or list(files)):
                if isinstance(n, tuple):
                    # (named so that the full paths keep the order of the file names: the files of a set are analysed in
                    #  the order of their paths, so moving a file elsewhere could legitimately change e.g. which of two
                    #  duplicates is "the later one")
                    sub = os.path.join(w.path, 'src', n[0] + '.d')
                    os.makedirs(sub, exist_ok=True)
                    for m in n: os.replace(paths[m], os.path.join(sub, m))
                    args.append(sub)
                else:
                    args.append(paths[n])
        r = run_cli(args, timeout=timeout)
    r['diags'] = parse_diags(r['stderr'])
    r['labels'] = parse_diags(r['stderr'], all_labels=True)
    r['ok_line'] = any(l.strip() == 'OK' for l in r['stdout'].split('\n'))
    return r
