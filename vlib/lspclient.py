"""Scripted LSP client for `ironplcc lsp --stdio` and the abstract message encoding shared with the
Lean model (`plcdrv lsp ...`)."""
import json, subprocess, os
from . import core

ROOT = '/tmp/verif-lsp-root'   # documents never need to exist on disk: the server keeps them in memory


def uri_of(key):
    k = int(key[1:])
    if key[0] == 'f':
        return f'file://{ROOT}/doc{k}.st'
    # URIs for which `Url::to_file_path` fails (cannot-be-a-base, or a host); note that to_file_path does not
    # look at the scheme, so e.g. `vscode-notebook-cell:/x/c1` behaves like a file URI
    return ['untitled:Untitled-%d', 'http://example.com/doc%d.st', 'mailto:u%d@example.com'][k % 3] % k


def key_of(uri):
    if uri.startswith(f'file://{ROOT}/doc'):
        return 'f' + uri[len(f'file://{ROOT}/doc'):-3]
    for k in range(0, 30):
        if uri_of(f'n{k}') == uri: return f'n{k}'
    return '?' + uri


def frame(o):
    b = json.dumps(o).encode()
    return b'Content-Length: %d\r\n\r\n' % len(b) + b


def to_json(m):
    t = m[0]
    if t == 'open':
        return {"jsonrpc": "2.0", "method": "textDocument/didOpen",
                "params": {"textDocument": {"uri": uri_of(m[1]), "languageId": "st", "version": m[2], "text": m[3]}}}
    if t == 'change':
        return {"jsonrpc": "2.0", "method": "textDocument/didChange",
                "params": {"textDocument": {"uri": uri_of(m[1]), "version": m[2]},
                           "contentChanges": [{"text": x} for x in m[3]]}}
    if t == 'semtok':
        return {"jsonrpc": "2.0", "id": m[1], "method": "textDocument/semanticTokens/full",
                "params": {"textDocument": {"uri": uri_of(m[2])}}}
    if t == 'req':
        params = {"textDocument": {"uri": uri_of('f0')}, "position": {"line": 0, "character": 0}}
        return {"jsonrpc": "2.0", "id": m[1], "method": m[2], "params": params}
    if t == 'notif':
        return {"jsonrpc": "2.0", "method": m[1], "params": {"value": "off"}}
    if t == 'resp':
        return {"jsonrpc": "2.0", "id": m[1], "result": None}
    if t == 'shutdown':
        return {"jsonrpc": "2.0", "id": m[1], "method": "shutdown"}
    if t == 'exit':
        return {"jsonrpc": "2.0", "method": "exit"}
    raise ValueError(m)


def to_model(m):
    t = m[0]
    if t == 'open': return f'open:{m[1]}:{m[2]}:{core.hexs(m[3])}'
    if t == 'change': return f'change:{m[1]}:{m[2]}:' + ','.join('x' + core.hexs(x) for x in m[3])
    if t == 'semtok': return f'semtok:{m[1]}:{m[2]}'
    if t == 'req': return f'req:{m[1]}:{m[2].replace(":", "_")}'
    if t == 'notif': return f'notif:{m[1].replace(":", "_")}'
    if t == 'resp': return f'resp:{m[1]}'
    if t == 'shutdown': return f'shutdown:{m[1]}'
    if t == 'exit': return 'exit'
    raise ValueError(m)


def model_line(history):
    return 'lsp ' + ' '.join(to_model(m) for m in history)


def parse_frames(data):
    out = []
    i = 0
    while True:
        j = data.find(b'\r\n\r\n', i)
        if j < 0: break
        hdr = data[i:j].decode('ascii', 'replace')
        n = None
        for line in hdr.split('\r\n'):
            if line.lower().startswith('content-length:'):
                n = int(line.split(':')[1])
        if n is None: break
        body = data[j + 4:j + 4 + n]
        if len(body) < n: break
        try:
            out.append(json.loads(body))
        except Exception:
            out.append({'unparseable': body[:100].decode('utf-8', 'replace')})
        i = j + 4 + n
    return out


def session(history, timeout=60, exe=None, init_params=None):
    """run one server session: initialize, initialized, history. -> dict(frames, rc, stderr, skeleton, diags)"""
    msgs = [{"jsonrpc": "2.0", "id": 0, "method": "initialize", "params": init_params or {"capabilities": {}}},
            {"jsonrpc": "2.0", "method": "initialized", "params": {}}] + [to_json(m) for m in history]
    data = b''.join(frame(m) for m in msgs)
    try:
        p = subprocess.run([exe or core.IRONPLCC, 'lsp', '--stdio'], input=data, capture_output=True, timeout=timeout)
        rc, out, err = p.returncode, p.stdout, p.stderr
    except subprocess.TimeoutExpired as e:
        rc, out, err = 'timeout', e.stdout or b'', e.stderr or b''
    frames = parse_frames(out)
    shutdown_ids = {m[1] for m in history if m[0] == 'shutdown'}
    skel = []
    diags = []   # per publish: sorted list of (code, line, char)
    init_seen = False
    for f in frames:
        if 'method' in f and 'id' not in f:
            if f['method'] == 'textDocument/publishDiagnostics':
                p_ = f['params']
                skel.append(f"pub:{key_of(p_['uri'])}:{p_.get('version')}")
                diags.append(sorted((str(d.get('code')), d['range']['start']['line'], d['range']['start']['character'],
                                     d['range']['end']['line'], d['range']['end']['character']) for d in p_['diagnostics']))
            else:
                skel.append(f"notif:{f['method']}")
        elif 'id' in f and 'method' in f:
            skel.append(f"srvreq:{f['id']}:{f['method']}")
        elif 'id' in f:
            if f['id'] == 0 and not init_seen:
                init_seen = True
                continue
            if 'error' in f and f['error'] is not None:
                skel.append(f"err:{f['id']}:{f['error'].get('code')}")
            elif f['id'] in shutdown_ids:
                skel.append(f"shut:{f['id']}")
            else:
                r = f.get('result')
                if r is None: skel.append(f"tok:{f['id']}:null")
                elif isinstance(r, dict) and 'data' in r: skel.append(f"tok:{f['id']}:" + ','.join(str(x) for x in r['data']))
                else: skel.append(f"res:{f['id']}:{json.dumps(r)[:80]}")
        else:
            skel.append('garbage')
    skel.append(f'exit:{rc}')
    return {'frames': frames, 'rc': rc, 'stderr': err.decode('utf-8', 'replace')[-400:], 'skeleton': ' '.join(skel),
            'diags': diags, 'init_ok': init_seen}


def sessions(histories, jobs=12, **kw):
    import concurrent.futures as cf
    with cf.ThreadPoolExecutor(jobs) as ex:
        return list(ex.map(lambda h: session(h, **kw), histories))
