"""./check replay <path>: re-run what a replay file records.

A replay file is written by a failing check (replays/<id>/<hash>.json). It holds the property, the tier and the seed
of the run and the failing case (input text / files / message history, what the implementation answered and what was
expected).  Replaying (1) shows the recorded case and, where the case is a single text, what the implementation at
/repo's current working tree answers for it now (parse / analyze / render / total), and (2) re-runs the check with
the recorded seed and tier — the generators are deterministic in the seed, so the same case is generated again; the
exit status is the one of that run."""
import json, os, subprocess, sys
from . import core


def main(path):
    if not os.path.isabs(path): path = os.path.join(core.VERIF, path)
    j = json.load(open(path))
    prop, tier, seed = j['property'], j.get('tier', 'quick'), j.get('seed', 1)
    print(f"replay of {os.path.relpath(path, core.VERIF)}: property={prop} kind={j.get('kind')} tier={tier} seed={seed}")
    v = j.get('violation') or {}
    if v:
        print('recorded violation:', v.get('what'))
        case = v.get('case') or {}
        text = case.get('text') if isinstance(case.get('text'), str) else None
        if text is None and isinstance(case.get('texts'), list) and len(case['texts']) == 1: text = case['texts'][0]
        if text is not None and len(text) < 200000:
            ok, log, _ = core.cargo_build_harness()
            if ok:
                for cmd in ('parse', 'analyze', 'render'):
                    o = core.run_lines(core.VH, [f'{cmd} ' + (core.hexs(text) if text else '-')])[0]
                    print(f'  now: {cmd:8s} -> {o[:300]}')
    for name in j.get('no_longer_checks', []):
        print('no longer checks:', name)
    p = subprocess.run([os.path.join(core.VERIF, 'check'), prop, '--tier', tier, '--seed', str(seed)], cwd=core.VERIF)
    return p.returncode
