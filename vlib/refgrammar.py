"""Reference grammar generator: random well-formed programs of the supported subset together with
the tree the parser must return for them (in the canonical Debug form of vlib/rustdebug.py), as a
lexeme stream in which the places where the grammar allows trivia (`_`) are marked — the spelling
step (case of keywords and identifiers, trivia per gap) is separate (C08).

lexeme stream items:
  ('kw', text)      keyword / case-insensitive token (respelling may change case)
  ('id', text)      identifier occurrence (respelling may change case)
  ('pk', text)      textual pseudo keyword matched case-sensitively by the grammar (INTERVAL, ms, N, …): never respelled
  ('p', text)       punctuation / operator
  ('lit', text)     literal token text that must stay as is (digits, strings, addresses)
  ('_',)            the grammar allows trivia here (canonical spelling: one blank)
  ('nl',)           like ('_',) but the canonical spelling is a line break
tree: ('a', s) | ('n', name, [(field, tree)]) | ('t', name, [trees]) | ('l', [trees])
"""

A = lambda s: ('a', str(s))
N = lambda name, *fields: ('n', name, list(fields))
T = lambda name, *args: ('t', name, list(args))
L = lambda items: ('l', list(items))
NONE = A('None')
def SOME(x): return T('Some', x)
def OPT(x): return NONE if x is None else SOME(x)
def BOOL(b): return A('true' if b else 'false')
G = ('_',)
NL = ('nl',)
G0 = ('g0',)   # optional gap: allowed by the grammar, empty in the canonical spelling


def render(t):
    k = t[0]
    if k == 'a': return t[1]
    if k == 'n': return t[1] + '{' + ','.join(f + ':' + render(v) for f, v in t[2]) + '}'
    if k == 't': return t[1] + '(' + ','.join(render(x) for x in t[2]) + ')'
    return '[' + ','.join(render(x) for x in t[1]) + ']'


def spell(lex):
    """canonical spelling: one blank per gap, line break per nl"""
    out = []
    for x in lex:
        if x[0] == '_': out.append(' ')
        elif x[0] == 'g0': pass   # a gap the grammar allows but the canonical spelling leaves empty
        elif x[0] == 'nl': out.append('\n')
        else: out.append(x[1])
    return ''.join(out)


def sep(items, sepr):
    """join lexeme lists with a separator lexeme list"""
    out = []
    for i, it in enumerate(items):
        if i: out += sepr
        out += it
    return out


def address_tree(txt, loc, size):
    """AddressAssignment of a direct address text such as %MD3.4 (the numeric parts are its `address`)"""
    digits = txt[2:] if size == 'Nil' else txt[3:]
    return N('AddressAssignment', ('location', A(loc)), ('size', A(size)), ('address', L([A(str(int(p))) for p in digits.split('.')])))


KEYWORDS = None


class Gen:
    def __init__(self, rng, keywords, exclude=()):
        # exclude: construct classes to stay away from (C10 uses this for the classes listed in known_findings.jsonl)
        self.excl = frozenset(exclude)
        self.rng = rng
        self.kw = {k.upper() for k in keywords}
        self.counter = 0
        self.features = set()

    # ---------------------------------------------------------------- names
    def name(self, prefix='v'):
        self.counter += 1
        base = self.rng.choice(['alpha', 'Beta', 'GAMMA', 'delta_x', 'Eps1', '_u', 'zeta9', 'Motor', 'valve_A'])
        n = f'{base}{self.counter}'
        return n

    def ident(self, n=None):
        n = n or self.name()
        return [('id', n)], A(n)

    def type_name(self, n=None):
        lex, t = self.ident(n)
        return lex, N('Type', ('name', t))

    ELEM = [('BOOL', 'Bool'), ('SINT', None), ('INT', None), ('DINT', None), ('LINT', None), ('USINT', None), ('UINT', None),
            ('UDINT', None), ('ULINT', None), ('REAL', None), ('LREAL', None), ('TIME', None), ('DATE', None),
            ('TIME_OF_DAY', 'TIME_OF_DAY'), ('TOD', 'TIME_OF_DAY'), ('DATE_AND_TIME', 'DATE_AND_TIME'), ('DT', 'DATE_AND_TIME'),
            ('STRING', None), ('WSTRING', None), ('BYTE', None), ('WORD', None), ('DWORD', None), ('LWORD', None)]

    def elementary(self, choices=None):
        kw, _ = self.rng.choice([e for e in self.ELEM if choices is None or e[0] in choices])
        canon = {'TOD': 'TIME_OF_DAY', 'DT': 'DATE_AND_TIME'}.get(kw, kw)
        variant = {'TIME_OF_DAY': 'TimeOfDay', 'DATE_AND_TIME': 'DateAndTime'}.get(canon, canon)
        return [('kw', kw)], N('Type', ('name', A(canon))), variant

    # ---------------------------------------------------------------- literals
    def integer(self, lo=0, hi=999):
        v = self.rng.randint(lo, hi)
        txt = str(v)
        if len(txt) > 2 and self.rng.random() < 0.3: txt = txt[:1] + '_' + txt[1:]
        return [('lit', txt)], v

    def sx_integer(self, v): return N('Integer', ('value', A(v)))
    def sx_signed(self, v, neg): return N('SignedInteger', ('value', self.sx_integer(v)), ('is_neg', BOOL(neg)))

    def signed_integer(self):
        lex, v = self.integer()
        r = self.rng.random()
        if 'neg-int' in self.excl: r = max(r, 0.3)
        if r < 0.25: return [('p', '-'), G0] + lex, self.sx_signed(v, True)
        if r < 0.35: return [('p', '+'), G0] + lex, self.sx_signed(v, False)
        return lex, self.sx_signed(v, False)

    def constant(self, kinds=None):
        """-> lex, ConstantKind tree"""
        rng = self.rng
        kinds = kinds or ['int', 'int', 'typed-int', 'based', 'real', 'bool', 'str', 'wstr', 'dur', 'tod', 'date', 'dt', 'bits']
        if 'typed-int' in self.excl:
            kinds = [x for x in kinds if x not in ('typed-int',)] or ['int']
        k = rng.choice(kinds)
        self.features.add('const:' + k)
        if k == 'int':
            lex, t = self.signed_integer()
            return lex, T('IntegerLiteral', N('IntegerLiteral', ('value', t), ('data_type', NONE)))
        if k == 'typed-int':
            ty = rng.choice(['SINT', 'INT', 'DINT', 'LINT', 'USINT', 'UINT', 'UDINT', 'ULINT'])
            lex, t = self.signed_integer()
            return [('kw', ty), ('p', '#')] + lex, T('IntegerLiteral', N('IntegerLiteral', ('value', t), ('data_type', SOME(A(ty)))))
        if k == 'based':
            base, pre, digs = rng.choice([(16, '16#', '0123456789ABCDEF'), (8, '8#', '01234567'), (2, '2#', '01')])
            ds = ''.join(rng.choice(digs) for _ in range(rng.randint(1, 6)))
            txt = ds[:1] + ('_' if len(ds) > 2 and rng.random() < 0.4 else '') + ds[1:]
            # with or without an integer type in front (UINT#16#FF)
            if rng.random() < 0.35 and 'typed-int' not in self.excl:
                ty = rng.choice(['SINT', 'INT', 'DINT', 'LINT', 'USINT', 'UINT', 'UDINT', 'ULINT'])
                self.features.add('const:typed-based')
                return [('kw', ty), ('p', '#'), ('lit', pre + txt)], T('IntegerLiteral', N('IntegerLiteral', ('value', self.sx_signed(int(ds, base), False)), ('data_type', SOME(A(ty)))))
            return [('lit', pre + txt)], T('IntegerLiteral', N('IntegerLiteral', ('value', self.sx_signed(int(ds, base), False)), ('data_type', NONE)))
        if k == 'real':
            txt = rng.choice(['1.5', '0.25', '3.14_15', '2.5E3', '1.0e-2', '6.0E+2', '10.0'])
            sign = rng.choice(['', '', '-', '+'])
            ty = rng.choice([None, None, 'REAL', 'LREAL'])
            if 'real-integral' in self.excl:
                txt = rng.choice(['1.5', '0.25', '3.14_15', '1.0e-2']); sign = rng.choice(['', '+']); ty = None
            lex = ([('kw', ty), ('p', '#')] if ty else []) + ([('p', sign)] if sign else []) + [('lit', txt)]
            val = ('-' if sign == '-' else '') + txt.replace('_', '')
            return lex, T('RealLiteral', N('RealLiteral', ('value', A('R:' + val)), ('data_type', OPT(A(ty)) if ty else NONE)))
        if k == 'bool':
            form = rng.choice(['TRUE', 'FALSE', 'BOOL#TRUE', 'BOOL#FALSE', 'BOOL#1', 'BOOL#0'])
            val = form.endswith('TRUE') or form.endswith('1')
            if '#' in form:
                b = form.split('#')[1]
                lex = [('kw', 'BOOL'), ('p', '#'), ('kw', b) if b in ('TRUE', 'FALSE') else ('lit', b)]
            else: lex = [('kw', form)]
            return lex, T('Boolean', N('BooleanLiteral', ('value', A('True' if val else 'False'))))
        if k in ('str', 'wstr'):
            body = rng.choice(['abc', '', 'a b', 'x$Ny', 'q(* no comment *)', 'it"s' if k == 'str' else "it's", '"q"' if k == 'str' else "'q'", '"' if k == 'str' else "'"])
            q = "'" if k == 'str' else '"'
            pre = []
            if rng.random() < 0.3: pre = [('kw', 'STRING' if k == 'str' else 'WSTRING'), ('p', '#')]
            chars = L([A(rust_char(c)) for c in body])
            return pre + [('lit', q + body + q)], T('CharacterString', N('CharacterStringLiteral', ('value', chars)))
        if k == 'dur':
            unit, ns = rng.choice([('ms', 10**6), ('s', 10**9), ('m', 60 * 10**9), ('h', 3600 * 10**9), ('d', 86400 * 10**9)])
            whole = rng.randint(0, 500)
            frac = rng.choice(['', '', '.5', '.25', '.125', '.2_5', '.12_5', '.1_2_5'])      # (underscores separate digits, also behind the point)
            total = whole * ns + (int(float('0' + frac.replace('_', '')) * 1000) * ns // 1000 if frac else 0)
            neg = rng.random() < 0.2 and 'neg-dur' not in self.excl
            pre = rng.choice([('kw', 'TIME'), ('kw', 'T'), ('pk', 't')])
            if pre == ('kw', 'T'): pre = ('pk', 'T')
            lex = [pre, ('p', '#')] + ([('p', '-')] if neg else []) + [('lit', f'{whole}{frac}'), ('pk', unit)]
            s, n = divmod(total, 10**9)
            sg = lambda x: ('-' if neg and x else '') + str(x)
            return lex, T('Duration', N('DurationLiteral', ('interval', N('Duration', ('seconds', A(sg(s))), ('nanoseconds', A(sg(n)))))))
        if k == 'tod':
            h, m, s = rng.randint(0, 23), rng.randint(0, 59), rng.randint(0, 59)
            frac = rng.choice(['', '', '.5', '.25'])
            lex = [('kw', rng.choice(['TOD', 'TIME_OF_DAY'])), ('p', '#'), ('lit', str(h)), ('p', ':'), ('lit', f'{m:02d}'), ('p', ':'), ('lit', f'{s:02d}{frac}')]
            return lex, T('TimeOfDay', N('TimeOfDayLiteral', ('value', A(f"{h}:{m:02d}:{s:02d}.{(frac[1:] if frac else '0')}"))))
        if k == 'date':
            y, m, d = rng.randint(1970, 2099), rng.randint(1, 12), rng.randint(1, 28)
            pre = rng.choice([('kw', 'DATE'), ('pk', 'D'), ('pk', 'd')])
            lex = [pre, ('p', '#'), ('lit', str(y)), ('p', '-'), ('lit', f'{m:02d}'), ('p', '-'), ('lit', f'{d:02d}')]
            return lex, T('Date', N('DateLiteral', ('value', A(f'{y:04d}-{m:02d}-{d:02d}'))))
        if k == 'dt':
            y, m, d = rng.randint(1970, 2099), rng.randint(1, 12), rng.randint(1, 28)
            h, mi, s = rng.randint(0, 23), rng.randint(0, 59), rng.randint(0, 59)
            lex = [('kw', rng.choice(['DT', 'DATE_AND_TIME'])), ('p', '#'), ('lit', str(y)), ('p', '-'), ('lit', f'{m:02d}'), ('p', '-'), ('lit', f'{d:02d}'),
                   ('p', '-'), ('lit', str(h)), ('p', ':'), ('lit', f'{mi:02d}'), ('p', ':'), ('lit', f'{s:02d}')]
            return lex, T('DateAndTime', N('DateAndTimeLiteral', ('value', A(f'{y:04d}-{m:02d}-{d:02d}{h}:{mi:02d}:{s:02d}.0'))))
        if k == 'bits':
            ty = rng.choice(['BYTE', 'WORD', 'DWORD', 'LWORD'])
            v = rng.randint(0, 255)
            txt, val = rng.choice([(f'16#{v:X}', v), (f'2#{v:b}', v), (str(v), v)])
            return [('kw', ty), ('p', '#'), ('lit', txt)], T('BitStringLiteral', N('BitStringLiteral', ('value', self.sx_integer(val)), ('data_type', SOME(A(ty)))))
        raise ValueError(k)

    # ---------------------------------------------------------------- expressions
    OPS = None   # [(level, text, ctor, op)] filled from the generated table by the caller

    def expr_tree(self, depth):
        """random expression tree: ('bin', row, l, r) | ('un', op, e) | ('atom', lex, tree)"""
        rng = self.rng
        if depth <= 0 or rng.random() < 0.25:
            return self.atom()
        r = rng.random()
        if r < 0.12:
            # the operand is a primary expression: an atom, or anything in parentheses
            return ('un', rng.choice(['-', 'NOT']), self.expr_tree(depth - 1) if rng.random() < 0.5 else self.atom())
        row = rng.choice(self.OPS)
        return ('bin', row, self.expr_tree(depth - 1), self.expr_tree(depth - 1))

    def atom(self, no_const=False):
        rng = self.rng
        r = rng.random()
        if r < 0.3 and not no_const:
            lex, t = self.constant(['int', 'based', 'real', 'bool', 'typed-int', 'dur'])
            # a leading sign would merge with a preceding operator; keep constants unsigned inside expressions
            if lex and lex[0] == ('p', '-') or lex and lex[0] == ('p', '+'):
                lex, t = self.constant(['based', 'bool'])
            self.features.add('atom:const')
            return ('atom', lex, T('Const', t))
        if r < 0.65:
            lex, t = self.ident()
            self.features.add('atom:latebound')
            return ('atom', lex + [G], T('LateBound', N('LateBound', ('name', t))))
        if r < 0.85:
            lex, t = self.symbolic_variable(force_complex=True)
            self.features.add('atom:variable')
            return ('atom', lex, T('Variable', T('Symbolic', t)))
        self.features.add('atom:function')
        lex, t = self.function_call()
        return ('atom', lex, t)

    def print_expr(self, e, ctx_level=0, right_side=False):
        """minimal parentheses (Annex B): -> lex, tree"""
        if e[0] == 'atom': return e[1], e[2]
        if e[0] == 'un':
            op = e[1]
            ilex, it = self.print_expr(e[2], 99)
            if e[2][0] == 'un':
                self.features.add('unary-of-unary')
                ilex = [('p', '('), G] + ilex + [G, ('p', ')')]
            lex = [('p', '-')] if op == '-' else [('kw', 'NOT')]
            self.features.add('unary:' + op)
            tree = T('UnaryOp', N('UnaryExpr', ('op', A('Neg' if op == '-' else 'Not')), ('term', it)))
            if ctx_level < 99 and self.rng.random() < 0.25:
                # redundant parentheses around the whole unary expression (as an operand or on its own): `(-x) ** 2`
                self.features.add('redundant-paren-unary')
                return [('p', '('), G] + lex + [G] + ilex + [G, ('p', ')')], tree
            return lex + [G] + ilex, tree
        _, row, l, r = e
        level, text, ctor, op = row
        llex, lt = self.print_expr(l, level)
        rlex, rt = self.print_expr(r, level + 1)
        lex = llex + [G, ('kw', text) if text.isalpha() else ('p', text), G] + rlex
        tree = T('Compare', N('CompareExpr', ('op', A(op)), ('left', lt), ('right', rt))) if ctor == 'compare' else \
            T('BinaryOp', N('BinaryExpr', ('op', A(op)), ('left', lt), ('right', rt)))
        self.features.add('op:' + text)
        if level < ctx_level:
            self.features.add('paren')
            return [('p', '('), G] + lex + [G, ('p', ')')], tree
        if self.rng.random() < 0.05:
            self.features.add('redundant-paren')
            return [('p', '('), G] + lex + [G, ('p', ')')], tree
        return lex, tree

    def expression(self, depth=None):
        depth = self.rng.choice([0, 1, 1, 2, 3]) if depth is None else depth
        return self.print_expr(self.expr_tree(depth))

    def symbolic_variable(self, force_complex=False):
        rng = self.rng
        lex, name = self.ident()
        head = T('Named', N('NamedVariable', ('name', name)))
        n = rng.choice([1, 1, 2]) if force_complex else rng.choice([0, 0, 1, 2])
        for _ in range(n):
            if rng.random() < 0.5 or 'array-subscript' in self.excl:
                flex, f = self.ident()
                lex += [G0, ('p', '.'), G0] + flex
                head = T('Structured', N('StructuredVariable', ('record', head), ('field', f)))
            else:
                subs = [self.expression(rng.choice([0, 0, 1])) for _ in range(rng.choice([1, 1, 2]))]
                lex += [G0, ('p', '['), G] + sep([s[0] for s in subs], [G, ('p', ','), G]) + [G, ('p', ']')]
                head = T('Array', N('ArrayVariable', ('subscripted_variable', head), ('subscripts', L([s[1] for s in subs]))))
        return lex, head

    def variable(self):
        if self.rng.random() < 0.1:
            txt, loc, size = self.rng.choice([('%IX1', 'I', 'X'), ('%QW12', 'Q', 'W'), ('%MD3.4', 'M', 'D'), ('%I5', 'I', 'Nil'), ('%qb7', 'Q', 'B')])
            self.features.add('direct-variable')
            return [('lit', txt)], T('Direct', address_tree(txt, loc, size))
        lex, t = self.symbolic_variable()
        return lex, T('Symbolic', t)

    def param_assignment(self):
        rng = self.rng
        r = rng.random()
        if 'named-params' in self.excl: r = 0.9
        if r < 0.25:
            slex, s = self.ident(); tlex, t = self.variable()
            neg = rng.random() < 0.3
            self.features.add('param:output' + (':not' if neg else ''))
            return ([('kw', 'NOT'), G] if neg else []) + slex + [G, ('p', '=>'), G] + tlex, T('Output', N('Output', ('not', BOOL(neg)), ('src', s), ('tgt', t)))
        if r < 0.6:
            nlex, n = self.ident(); elex, e = self.expression(rng.choice([0, 1]))
            self.features.add('param:named')
            return nlex + [G, ('p', ':='), G] + elex, T('NamedInput', N('NamedInput', ('name', n), ('expr', e)))
        elex, e = self.expression(rng.choice([0, 1]))
        self.features.add('param:positional')
        return elex, T('PositionalInput', N('PositionalInput', ('expr', e)))

    def function_call(self):
        nlex, n = self.ident()
        ps = [self.param_assignment() for _ in range(self.rng.randint(0, 3))]
        lex = nlex + [G, ('p', '('), G] + sep([p[0] for p in ps], [G, ('p', ','), G]) + [G, ('p', ')')]
        return lex, T('Function', N('Function', ('name', n), ('param_assignment', L([p[1] for p in ps]))))

    # ---------------------------------------------------------------- statements
    def statement_list(self, depth, n=None):
        """-> lex, [trees]; every statement is followed by `;`"""
        n = self.rng.randint(1, 3) if n is None else n
        lex, trees = [], []
        if self.rng.random() < 0.06:
            # an empty statement (a lone `;`) may stand anywhere in a statement list; it leaves no trace in the tree
            self.features.add('stmt:empty-first'); lex += [('p', ';'), NL]
        for i in range(n):
            slex, st = self.statement(depth)
            lex += slex + [G, ('p', ';'), NL]
            trees.append(st)
            if self.rng.random() < 0.08:
                self.features.add('stmt:empty'); lex += [('p', ';'), G0] * self.rng.choice([1, 1, 2]) + [NL]
        return lex, trees

    def statement(self, depth):
        rng = self.rng
        kinds = ['assign', 'assign', 'fbcall', 'return', 'exit']
        if 'stmt-kinds' in self.excl: kinds = ['assign']
        if depth > 0: kinds += ['if', 'case', 'for', 'while', 'repeat']
        k = rng.choice(kinds)
        self.features.add('stmt:' + k)
        if k == 'assign':
            vlex, v = self.variable(); elex, e = self.expression()
            return vlex + [G, ('p', ':='), G] + elex, T('Assignment', N('Assignment', ('target', v), ('value', e)))
        if k == 'fbcall':
            nlex, n = self.ident()
            ps = [self.param_assignment() for _ in range(rng.randint(0, 3))]
            lex = nlex + [G, ('p', '('), G] + sep([p[0] for p in ps], [G, ('p', ','), G]) + [G, ('p', ')')]
            return lex, T('FbCall', N('FbCall', ('var_name', n), ('params', L([p[1] for p in ps]))))
        if k == 'return': return [('kw', 'RETURN')], A('Return')
        if k == 'exit': return [('kw', 'EXIT')], A('Exit')
        if k == 'if':
            clex, c = self.expression(1)
            blex, b = self.statement_list(depth - 1) if rng.random() < 0.85 else ([], [])
            lex = [('kw', 'IF'), G] + clex + [G, ('kw', 'THEN'), NL] + blex
            elifs = []
            for _ in range(rng.choice([0, 0, 1, 2])):
                c2lex, c2 = self.expression(1); b2lex, b2 = self.statement_list(depth - 1)
                lex += [('kw', 'ELSIF'), G] + c2lex + [G, ('kw', 'THEN'), NL] + b2lex
                elifs.append(N('ElseIf', ('expr', c2), ('body', L(b2))))
            eb = []
            if rng.random() < 0.5:
                eblex, eb = self.statement_list(depth - 1)
                lex += [('kw', 'ELSE'), NL] + eblex
            lex += [('kw', 'END_IF')]
            return lex, T('If', N('If', ('expr', c), ('body', L(b)), ('else_ifs', L(elifs)), ('else_body', L(eb))))
        if k == 'case':
            slex, s = self.expression(1)
            lex = [('kw', 'CASE'), G] + slex + [G, ('kw', 'OF'), NL]
            groups = []
            for _ in range(rng.randint(1, 3)):
                sels = []
                for _ in range(1 if 'case-multi' in self.excl else rng.choice([1, 1, 2, 3])):
                    r = rng.random()
                    if 'case-multi' in self.excl: r = rng.choice([0.1, 0.9])
                    if r < 0.4:
                        l, t = self.signed_integer(); sels.append((l, T('SignedInteger', t)))
                    elif r < 0.7:
                        l1, t1 = self.signed_integer(); l2, t2 = self.signed_integer()
                        sels.append((l1 + [('p', '..')] + l2, T('Subrange', N('Subrange', ('start', t1), ('end', t2)))))
                    else:
                        tl, tt = (self.type_name() if rng.random() < 0.3 and 'typed-enum' not in self.excl else (None, None))
                        vl, v = self.ident()
                        sels.append(((tl + [('p', '#')] if tl else []) + vl,
                                     T('EnumeratedValue', N('EnumeratedValue', ('type_name', OPT(tt)), ('value', v)))))
                blex, b = self.statement_list(depth - 1)
                lex += sep([x[0] for x in sels], [G, ('p', ','), G]) + [G, ('p', ':'), NL] + blex
                groups.append(N('CaseStatementGroup', ('selectors', L([x[1] for x in sels])), ('statements', L(b))))
            eb = []
            if rng.random() < 0.5:
                eblex, eb = self.statement_list(depth - 1)
                lex += [('kw', 'ELSE'), NL] + eblex
            lex += [('kw', 'END_CASE')]
            return lex, T('Case', N('Case', ('selector', s), ('statement_groups', L(groups)), ('else_body', L(eb))))
        if k == 'for':
            clex, c = self.ident(); flex, f = self.expression(1); tlex, t = self.expression(1)
            step = self.expression(0) if rng.random() < 0.5 else None
            blex, b = self.statement_list(depth - 1)
            lex = [('kw', 'FOR'), G] + clex + [G, ('p', ':='), G] + flex + [G, ('kw', 'TO'), G] + tlex + [G] + \
                  ([('kw', 'BY'), G] + step[0] + [G] if step else []) + [('kw', 'DO'), NL] + blex + [('kw', 'END_FOR')]
            return lex, T('For', N('For', ('control', c), ('from', f), ('to', t), ('step', OPT(step[1] if step else None)), ('body', L(b))))
        if k == 'while':
            clex, c = self.expression(1); blex, b = self.statement_list(depth - 1)
            return [('kw', 'WHILE'), G] + clex + [G, ('kw', 'DO'), NL] + blex + [('kw', 'END_WHILE')], \
                T('While', N('While', ('condition', c), ('body', L(b))))
        if k == 'repeat':
            blex, b = self.statement_list(depth - 1); clex, c = self.expression(1)
            return [('kw', 'REPEAT'), NL] + blex + [('kw', 'UNTIL'), G] + clex + [G, ('kw', 'END_REPEAT')], \
                T('Repeat', N('Repeat', ('until', c), ('body', L(b))))
        raise ValueError(k)

    # ---------------------------------------------------------------- types
    def subrange(self):
        l1, t1 = self.signed_integer(); l2, t2 = self.signed_integer()
        return l1 + [G0, ('p', '..'), G0] + l2, N('Subrange', ('start', t1), ('end', t2))

    def enumerated_value(self, with_type=None):
        rng = self.rng
        with_type = rng.random() < 0.2 if with_type is None else with_type
        if 'typed-enum' in self.excl: with_type = False
        tl, tt = self.type_name() if with_type else (None, None)
        vl, v = self.ident()
        return (tl + [('p', '#')] if tl else []) + vl, N('EnumeratedValue', ('type_name', OPT(tt)), ('value', v))

    def enum_values(self):
        vs = [self.enumerated_value() for _ in range(self.rng.randint(1, 4))]
        return [('p', '('), G] + sep([v[0] for v in vs], [G, ('p', ','), G]) + [G, ('p', ')')], [v[1] for v in vs]

    def array_specification(self):
        rs = [self.subrange() for _ in range(self.rng.choice([1, 1, 2, 3]))]
        if self.rng.random() < 0.6:
            tl, tt, _ = self.elementary(['INT', 'BOOL', 'REAL', 'SINT', 'WORD'])
        else:
            tl, tt = self.type_name()
        lex = [('kw', 'ARRAY'), G, ('p', '['), G] + sep([r[0] for r in rs], [G, ('p', ','), G]) + [G, ('p', ']'), G, ('kw', 'OF'), G] + tl
        return lex, T('Subranges', N('ArraySubranges', ('ranges', L([r[1] for r in rs])), ('type_name', tt)))

    def array_initialization(self):
        rng = self.rng
        elems = []
        for _ in range(rng.randint(1, 3)):
            if rng.random() < 0.3 and 'array-repeated' not in self.excl:
                sl, sv = self.integer(1, 9)
                inner = self.constant(['int', 'based', 'bool']) if rng.random() < 0.8 else None
                lex = sl + [G, ('p', '('), G] + (inner[0] + [G] if inner else []) + [('p', ')')]
                elems.append((lex, T('Repeated', N('Repeated', ('size', self.sx_integer(sv)), ('init', OPT(T('Constant', inner[1]) if inner else None))))))
            elif rng.random() < 0.7:
                cl, c = self.constant(['int', 'based', 'real', 'bool'])
                elems.append((cl, T('Constant', c)))
            else:
                el, e = self.enumerated_value(False)
                elems.append((el, T('EnumValue', e)))
        return [('p', '['), G] + sep([e[0] for e in elems], [G, ('p', ','), G]) + [G, ('p', ']')], [e[1] for e in elems]

    def structure_initialization(self, depth=1):
        rng = self.rng
        elems = []
        for _ in range(rng.randint(1, 3)):
            nl, n = self.ident()
            r = rng.random()
            if r < 0.45:
                cl, c = self.constant(['int', 'real', 'bool', 'str', 'based']); il, it = cl, T('Constant', c)
            elif r < 0.7:
                el, e = self.enumerated_value(); il, it = el, T('EnumeratedValue', e)
            elif (r < 0.85 or depth <= 0) and 'struct-init-array' not in self.excl:
                al, a = self.array_initialization(); il, it = al, T('Array', L(a))
            elif depth <= 0:
                el, e = self.enumerated_value(); il, it = el, T('EnumeratedValue', e)
            else:
                sl, s = self.structure_initialization(depth - 1); il, it = sl, T('Structure', L(s))
            elems.append((nl + [G, ('p', ':='), G] + il, N('StructureElementInit', ('name', n), ('init', it))))
        return [('p', '('), G] + sep([e[0] for e in elems], [G, ('p', ','), G]) + [G, ('p', ')')], [e[1] for e in elems]

    def simple_init(self, tt, c): return T('Simple', N('SimpleInitializer', ('type_name', tt), ('initial_value', OPT(c))))

    def spec_init_ambiguous(self):
        """`simple_or_enumerated_or_subrange_ambiguous_struct_spec_init` -> lex, InitialValueAssignmentKind"""
        rng = self.rng
        k = rng.choice(['elem', 'elem-init', 'named', 'named-const', 'named-enum', 'values', 'values-init'])
        self.features.add('init:' + k)
        if k == 'elem':
            tl, tt, _ = self.elementary(['INT', 'BOOL', 'REAL', 'DINT', 'WORD', 'TIME', 'LREAL', 'TOD', 'DT', 'DATE'])
            return tl, self.simple_init(tt, None)
        if k == 'elem-init':
            tl, tt, _ = self.elementary(['INT', 'BOOL', 'REAL', 'DINT', 'WORD', 'TIME'])
            cl, c = self.constant(['int', 'real', 'bool', 'dur', 'based', 'typed-int'])
            return tl + [G, ('p', ':='), G] + cl, self.simple_init(tt, c)
        if k == 'named':
            tl, tt = self.type_name()
            return tl, T('LateResolvedType', tt)
        if k == 'named-const':
            tl, tt = self.type_name(); cl, c = self.constant(['int', 'real', 'bool', 'based'])
            return tl + [G, ('p', ':='), G] + cl, self.simple_init(tt, c)
        if k == 'named-enum':
            tl, tt = self.type_name(); el, e = self.enumerated_value()
            return tl + [G, ('p', ':='), G] + el, T('EnumeratedType', N('EnumeratedInitialValueAssignment', ('type_name', tt), ('initial_value', SOME(e))))
        vl, vs = self.enum_values()
        if k == 'values':
            return vl, T('EnumeratedValues', N('EnumeratedValuesInitializer', ('values', L(vs)), ('initial_value', NONE)))
        el, e = self.enumerated_value()
        return vl + [G, ('p', ':='), G] + el, T('EnumeratedValues', N('EnumeratedValuesInitializer', ('values', L(vs)), ('initial_value', SOME(e))))

    def type_declaration(self):
        """one of the eight forms -> lex, DataTypeDeclarationKind"""
        rng = self.rng
        kk = [x for x in ['enum', 'enum-default', 'enum-alias-default', 'subrange', 'array', 'struct', 'struct-init', 'string', 'string-paren', 'simple', 'latebound'] if ('type:' + x) not in self.excl]
        k = rng.choice(kk)
        self.features.add('type:' + k)
        nl, nt = self.type_name()
        head = nl + [G, ('p', ':'), G]
        if k in ('enum', 'enum-default'):
            vl, vs = self.enum_values()
            d = self.enumerated_value() if k == 'enum-default' else None
            lex = head + vl + ([G, ('p', ':='), G] + d[0] if d else [])
            spec = T('Values', N('EnumeratedSpecificationValues', ('values', L(vs))))
            return lex, T('Enumeration', N('EnumerationDeclaration', ('type_name', nt), ('spec_init', N('EnumeratedSpecificationInit', ('spec', spec), ('default', OPT(d[1] if d else None))))))
        if k == 'enum-alias-default':
            bl, bt = self.type_name(); dl, d = self.enumerated_value()
            return head + bl + [G, ('p', ':='), G] + dl, T('Enumeration', N('EnumerationDeclaration', ('type_name', nt), ('spec_init',
                N('EnumeratedSpecificationInit', ('spec', T('TypeName', bt)), ('default', SOME(d))))))
        if k == 'subrange':
            ty = rng.choice(['SINT', 'INT', 'DINT', 'LINT', 'USINT', 'UINT', 'UDINT', 'ULINT'])
            sl, s = self.subrange()
            d = self.signed_integer() if rng.random() < 0.4 else None
            lex = head + [('kw', ty), G, ('p', '('), G] + sl + [G, ('p', ')')] + ([G, ('p', ':='), G] + d[0] if d else [])
            return lex, T('Subrange', N('SubrangeDeclaration', ('type_name', nt), ('spec', T('Specification', N('SubrangeSpecification', ('type_name', A(ty)), ('subrange', s)))),
                                      ('default', OPT(d[1] if d else None))))
        if k == 'array':
            al, a = self.array_specification()
            init = self.array_initialization() if rng.random() < 0.5 else None
            lex = head + al + ([G, ('p', ':='), G] + init[0] if init else [])
            return lex, T('Array', N('ArrayDeclaration', ('type_name', nt), ('spec', a), ('init', L(init[1] if init else []))))
        if k == 'struct':
            elems = []
            for _ in range(rng.randint(1, 3)):
                el, e = self.ident()
                r = rng.random()
                if 'struct-elem-array' in self.excl: r = 0.9
                if r < 0.2:
                    al, a = self.array_specification(); init = self.array_initialization() if rng.random() < 0.4 and 'var-array-init' not in self.excl else None
                    il = al + ([G, ('p', ':='), G] + init[0] if init else [])
                    it = T('Array', N('ArrayInitialValueAssignment', ('spec', a), ('initial_values', L(init[1] if init else []))))
                elif r < 0.35:
                    ty = rng.choice(['INT', 'UINT', 'DINT']); sl, s = self.subrange()
                    il = [('kw', ty), G, ('p', '('), G] + sl + [G, ('p', ')')]
                    it = T('Subrange', T('Specification', N('SubrangeSpecification', ('type_name', A(ty)), ('subrange', s))))
                elif r < 0.45:
                    tl, tt = self.type_name(); sil, si = self.structure_initialization(0)
                    il = tl + [G, ('p', ':='), G] + sil
                    it = T('Structure', N('StructureInitializationDeclaration', ('type_name', tt), ('elements_init', L(si))))
                else:
                    il, it = self.spec_init_ambiguous()
                elems.append((el + [G, ('p', ':'), G] + il, N('StructureElementDeclaration', ('name', e), ('init', it))))
            lex = head + [('kw', 'STRUCT'), NL] + sep([e[0] for e in elems], [G, ('p', ';'), NL]) + [('p', ';'), NL, ('kw', 'END_STRUCT')]
            return lex, T('Structure', N('StructureDeclaration', ('type_name', nt), ('elements', L([e[1] for e in elems]))))
        if k == 'struct-init':
            bl, bt = self.type_name(); sil, si = self.structure_initialization()
            return head + bl + [G, ('p', ':='), G] + sil, T('StructureInitialization', N('StructureInitializationDeclaration', ('type_name', nt), ('elements_init', L(si))))
        if k in ('string', 'string-paren'):
            w = rng.choice(['STRING', 'WSTRING'])
            ll, lv = self.integer(1, 80)
            o, c = ('[', ']') if k == 'string' else ('(', ')')
            body = rng.choice([None, 'abc', ''] + ([] if 'string-type-init-quote' in self.excl else ['it"s' if w == 'STRING' else "it's", '"' if w == 'STRING' else "'"]))
            q = "'" if w == 'STRING' else '"'
            lex = head + [('kw', w), G, ('p', o), G] + ll + [G, ('p', c)] + ([G, ('p', ':='), G, ('lit', q + body + q)] if body is not None else [])
            return lex, T('String', N('StringDeclaration', ('type_name', nt), ('length', self.sx_integer(lv)), ('width', A('String' if w == 'STRING' else 'WString')),
                                    ('init', SOME(A('"' + body.replace('\\', '\\\\').replace('"', '\\"') + '"')) if body is not None else NONE)))
        if k == 'simple':
            tl, tt, _ = self.elementary(['INT', 'BOOL', 'REAL', 'DINT', 'WORD', 'TIME']) if rng.random() < 0.7 else (self.type_name() + (None,))
            cl, c = self.constant(['int', 'real', 'bool', 'based'])
            return head + tl + [G, ('p', ':='), G] + cl, T('Simple', N('SimpleDeclaration', ('type_name', nt), ('spec_and_init', self.simple_init(tt, c))))
        bl, bt = self.type_name()
        return head + bl, T('LateBound', N('LateBoundDeclaration', ('data_type_name', nt), ('base_type_name', bt)))

    def type_block(self):
        ds = [self.type_declaration() for _ in range(self.rng.randint(1, 3))]
        lex = [('kw', 'TYPE'), NL] + sep([d[0] for d in ds], [G, ('p', ';'), NL]) + [G, ('p', ';'), NL, ('kw', 'END_TYPE')]
        return lex, [T('DataTypeDeclaration', d[1]) for d in ds]

    # ---------------------------------------------------------------- variables
    def var_decl(self, ident, var_type, qualifier, init):
        return N('VarDecl', ('identifier', ident), ('var_type', A(var_type)), ('qualifier', A(qualifier)), ('initializer', init))

    def var_init_decl(self):
        """`var_init_decl` -> lex, [(name tree, initializer tree)]"""
        rng = self.rng
        names = [self.ident() for _ in range(rng.choice([1, 1, 1, 2, 3]))]
        nlex = sep([n[0] for n in names], [G, ('p', ','), G]) + [G, ('p', ':'), G]
        k = rng.choice([x for x in ['ambiguous', 'ambiguous', 'ambiguous', 'struct-init', 'string', 'array', 'fb'] if ('var:' + x) not in self.excl])
        self.features.add('var:' + k)
        if k == 'ambiguous':
            il, it = self.spec_init_ambiguous()
        elif k == 'struct-init':
            tl, tt = self.type_name(); sil, si = self.structure_initialization()
            il, it = tl + [G, ('p', ':='), G] + sil, T('Structure', N('StructureInitializationDeclaration', ('type_name', tt), ('elements_init', L(si))))
        elif k == 'string':
            w = rng.choice(['STRING', 'WSTRING'])
            length = self.integer(1, 80) if rng.random() < 0.5 else None
            body = rng.choice([None, 'abc', 'x y', 'it"s' if w == 'STRING' else "it's", '"q"' if w == 'STRING' else "'q'"])
            q = "'" if w == 'STRING' else '"'
            il = [('kw', w)] + ([G, ('p', '['), G] + length[0] + [G, ('p', ']')] if length else []) + ([G, ('p', ':='), G, ('lit', q + body + q)] if body is not None else [])
            it = T('String', N('StringInitializer', ('length', OPT(self.sx_integer(length[1]) if length else None)), ('width', A('String' if w == 'STRING' else 'WString')),
                               ('initial_value', OPT(L([A(rust_char(c)) for c in body]) if body is not None else None))))
        elif k == 'array':
            al, a = self.array_specification(); init = self.array_initialization() if rng.random() < 0.5 and 'var-array-init' not in self.excl else None
            il = al + ([G, ('p', ':='), G] + init[0] if init else [])
            it = T('Array', N('ArrayInitialValueAssignment', ('spec', a), ('initial_values', L(init[1] if init else []))))
        else:
            # fb_name_decl needs the trailing comma of `commasep_oneplus`
            nlex = sep([n[0] for n in names], [G, ('p', ','), G]) + [('p', ','), G, ('p', ':'), G]
            tl, tt = self.type_name()
            init = self.structure_initialization() if rng.random() < 0.4 else None
            il = tl + ([G, ('p', ':='), G] + init[0] if init else [])
            it = T('FunctionBlock', N('FunctionBlockInitialValueAssignment', ('type_name', tt), ('init', L(init[1] if init else []))))
        return nlex + il, [(n[1], it) for n in names]

    def var_block(self, allowed):
        """one VAR block of a class allowed for the POU -> lex, [VarDecl trees], [EdgeVarDecl trees]"""
        rng = self.rng
        cls = rng.choice(allowed)
        self.features.add('block:' + cls)
        variables, edges = [], []
        if cls in ('VAR', 'VAR_INPUT', 'VAR_OUTPUT'):
            quals = {'VAR': [None, 'CONSTANT', 'RETAIN', 'NON_RETAIN'], 'VAR_INPUT': [None, 'RETAIN', 'NON_RETAIN'], 'VAR_OUTPUT': [None, 'RETAIN', 'NON_RETAIN']}[cls]
            q = rng.choice(quals)
            qn = {None: 'Unspecified', 'CONSTANT': 'Constant', 'RETAIN': 'Retain', 'NON_RETAIN': 'NonRetain'}[q]
            vt = {'VAR': 'Var', 'VAR_INPUT': 'Input', 'VAR_OUTPUT': 'Output'}[cls]
            self.features.add(f'block:{cls}:{q}')
            decls = []
            for _ in range(rng.randint(1, 3)):
                if cls == 'VAR_INPUT' and rng.random() < 0.2 and 'edge' not in self.excl:
                    names = [self.ident() for _ in range(rng.choice([1, 2]))]
                    edge = rng.choice(['R_EDGE', 'F_EDGE'])
                    decls.append(sep([n[0] for n in names], [G, ('p', ','), G]) + [G, ('p', ':'), G, ('kw', 'BOOL'), G, ('kw', edge)])
                    for n in names:
                        edges.append(N('EdgeVarDecl', ('identifier', n[1]), ('direction', A('Rising' if edge == 'R_EDGE' else 'Falling')), ('qualifier', A(qn))))
                    self.features.add('var:edge')
                else:
                    dl, ds = self.var_init_decl()
                    decls.append(dl)
                    for (n, it) in ds:
                        variables.append(self.var_decl(T('Symbol', n), vt, qn, it))
            lex = [('kw', cls)] + ([G, ('kw', q)] if q else []) + [NL] + sep(decls, [G, ('p', ';'), NL]) + [G, ('p', ';'), NL, ('kw', 'END_VAR')]
            return lex, variables, edges
        if cls == 'VAR_IN_OUT':
            decls = []
            for _ in range(rng.randint(1, 2)):
                names = [self.ident() for _ in range(rng.choice([1, 2]))]
                nlex = sep([n[0] for n in names], [G, ('p', ','), G]) + [G, ('p', ':'), G]
                r = rng.random()
                if 'inout-kinds' in self.excl: r = 0.1
                if r < 0.5:
                    if rng.random() < 0.5: tl, tt, _ = self.elementary(['INT', 'BOOL', 'REAL'])
                    else: tl, tt = self.type_name()
                    il, it = tl, T('LateResolvedType', tt)
                elif r < 0.7:
                    ty = rng.choice(['INT', 'UINT']); sl, s = self.subrange()
                    il = [('kw', ty), G, ('p', '('), G] + sl + [G, ('p', ')')]
                    it = T('Subrange', T('Specification', N('SubrangeSpecification', ('type_name', A(ty)), ('subrange', s))))
                elif r < 0.85:
                    vl, vs = self.enum_values()
                    il, it = vl, T('EnumeratedValues', N('EnumeratedValuesInitializer', ('values', L(vs)), ('initial_value', NONE)))
                else:
                    al, a = self.array_specification()
                    il, it = al, T('Array', N('ArrayInitialValueAssignment', ('spec', a), ('initial_values', L([]))))
                decls.append(nlex + il)
                for n in names: variables.append(self.var_decl(T('Symbol', n[1]), 'InOut', 'Unspecified', it))
            lex = [('kw', cls), NL] + sep(decls, [G, ('p', ';'), NL]) + [G, ('p', ';'), NL, ('kw', 'END_VAR')]
            return lex, variables, edges
        if cls == 'VAR_EXTERNAL':
            q = rng.choice([None, 'CONSTANT'])
            decls = []
            for _ in range(rng.randint(1, 2)):
                nl, n = self.ident()
                if rng.random() < 0.6: tl, tt, _ = self.elementary(['INT', 'BOOL', 'REAL', 'WORD'])
                else: tl, tt = self.type_name()
                decls.append(nl + [G, ('p', ':'), G] + tl)
                variables.append(self.var_decl(T('Symbol', n), 'External', 'Constant' if q else 'Unspecified', self.simple_init(tt, None)))
            lex = [('kw', cls)] + ([G, ('kw', q)] if q else []) + [NL] + sep(decls, [G, ('p', ';'), NL]) + [G, ('p', ';'), NL, ('kw', 'END_VAR')]
            return lex, variables, edges
        if cls == 'INCOMPLETE':
            q = rng.choice([None, 'RETAIN', 'NON_RETAIN'])
            qn = {None: 'Unspecified', 'RETAIN': 'Retain', 'NON_RETAIN': 'NonRetain'}[q]
            decls = []
            for _ in range(rng.randint(1, 2)):
                nl, n = self.ident()
                txt, loc = rng.choice([('%I*', 'I'), ('%Q*', 'Q'), ('%M*', 'M')])
                k = rng.choice(['elem', 'named', 'string', 'wstring', 'array', 'subrange', 'values'])
                k = rng.choice([x for x in ['elem', 'named', 'string', 'wstring', 'array', 'subrange', 'values'] if ('incompl:' + x) not in self.excl])
                self.features.add('incomplete:' + k)
                if k == 'elem':
                    tl, tt, _ = self.elementary(['INT', 'BOOL', 'WORD', 'REAL']); il, it = tl, self.simple_init(tt, None)
                elif k == 'named':
                    tl, tt = self.type_name(); il, it = tl, T('EnumeratedType', N('EnumeratedInitialValueAssignment', ('type_name', tt), ('initial_value', NONE)))
                elif k in ('string', 'wstring'):
                    w = 'STRING' if k == 'string' else 'WSTRING'
                    length = self.integer(1, 80) if rng.random() < 0.5 else None
                    il = [('kw', w)] + ([G, ('p', '['), G] + length[0] + [G, ('p', ']')] if length else [])
                    it = T('String', N('StringInitializer', ('length', OPT(self.sx_integer(length[1]) if length else None)), ('width', A('String' if w == 'STRING' else 'WString')), ('initial_value', NONE)))
                elif k == 'array':
                    al, a = self.array_specification(); il, it = al, T('Array', N('ArrayInitialValueAssignment', ('spec', a), ('initial_values', L([]))))
                elif k == 'subrange':
                    ty = rng.choice(['INT', 'UINT']); sl, sr = self.subrange()
                    il = [('kw', ty), G, ('p', '('), G] + sl + [G, ('p', ')')]
                    it = T('Subrange', T('Specification', N('SubrangeSpecification', ('type_name', A(ty)), ('subrange', sr))))
                else:
                    vl, vs = self.enum_values(); il, it = vl, T('EnumeratedValues', N('EnumeratedValuesInitializer', ('values', L(vs)), ('initial_value', NONE)))
                decls.append(nl + [G, ('kw', 'AT'), G, ('lit', txt), G, ('p', ':'), G] + il)
                ident = T('Direct', N('DirectVariableIdentifier', ('name', SOME(n)), ('address_assignment', N('AddressAssignment', ('location', A(loc)), ('size', A('Unspecified')), ('address', L([]))))))
                variables.append(self.var_decl(ident, 'Var', qn, it))
            lex = [('kw', 'VAR')] + ([G, ('kw', q)] if q else []) + [NL] + sep(decls, [G, ('p', ';'), NL]) + [G, ('p', ';'), NL, ('kw', 'END_VAR')]
            return lex, variables, edges
        if cls == 'LOCATED':
            q = rng.choice([None, 'CONSTANT', 'RETAIN', 'NON_RETAIN'])
            qn = {None: 'Unspecified', 'CONSTANT': 'Constant', 'RETAIN': 'Retain', 'NON_RETAIN': 'NonRetain'}[q]
            decls = []
            for _ in range(rng.randint(1, 2)):
                name = self.ident() if rng.random() < 0.6 else None
                txt, loc, size = rng.choice([('%IX1.2', 'I', 'X'), ('%QW12', 'Q', 'W'), ('%MD3', 'M', 'D'), ('%MB10.20.30', 'M', 'B'), ('%I7', 'I', 'Nil')])
                tl, tt, _ = self.elementary(['INT', 'BOOL', 'WORD', 'BYTE'])
                c = self.constant(['int', 'based', 'bool']) if rng.random() < 0.4 else None
                decls.append((name[0] + [G] if name else []) + [('kw', 'AT'), G, ('lit', txt), G, ('p', ':'), G] + tl + ([G, ('p', ':='), G] + c[0] if c else []))
                ident = T('Direct', N('DirectVariableIdentifier', ('name', OPT(name[1] if name else None)),
                                      ('address_assignment', address_tree(txt, loc, size))))
                variables.append(self.var_decl(ident, 'Var', qn, self.simple_init(tt, c[1] if c else None)))
            lex = [('kw', 'VAR')] + ([G, ('kw', q)] if q else []) + [NL] + sep(decls, [G, ('p', ';'), NL]) + [G, ('p', ';'), NL, ('kw', 'END_VAR')]
            return lex, variables, edges
        raise ValueError(cls)

    # ---------------------------------------------------------------- POUs
    def function_decl(self):
        nl, n = self.ident()
        if self.rng.random() < 0.7: rl, rt, _ = self.elementary(['INT', 'BOOL', 'REAL', 'DINT'])
        else: rl, rt = self.type_name()
        lex = [('kw', 'FUNCTION'), G] + nl + [G, ('p', ':'), G] + rl + [NL]
        variables, edges = [], []
        for _ in range(self.rng.randint(0, 3)):
            bl, vs, es = self.var_block(['VAR_INPUT', 'VAR_OUTPUT', 'VAR_IN_OUT'])
            lex += bl + [NL]; variables += vs; edges += es
        sl, ss = self.statement_list(2)
        lex += sl + [('kw', 'END_FUNCTION')]
        return lex, T('FunctionDeclaration', N('FunctionDeclaration', ('name', n), ('return_type', rt), ('variables', L(variables)),
                                               ('edge_variables', L(edges)), ('body', L(ss))))

    def body(self, allow_sfc=True):
        rng = self.rng
        r = rng.random()
        if r < 0.12:
            self.features.add('body:empty')
            return [], A('Empty')
        if r < 0.3 and allow_sfc:
            self.features.add('body:sfc')
            return self.sfc()
        sl, ss = self.statement_list(2)
        return sl, T('Statements', N('Statements', ('body', L(ss))))

    def fb_decl(self):
        nl, n = self.ident()
        lex = [('kw', 'FUNCTION_BLOCK'), G] + nl + [NL]
        variables, edges = [], []
        for _ in range(self.rng.randint(0, 4)):
            bl, vs, es = self.var_block(['VAR', 'VAR', 'VAR_INPUT', 'VAR_OUTPUT', 'VAR_IN_OUT', 'VAR_EXTERNAL', 'INCOMPLETE'])
            lex += bl + [NL]; variables += vs; edges += es
        bl, b = self.body()
        lex += bl + [('kw', 'END_FUNCTION_BLOCK')]
        return lex, T('FunctionBlockDeclaration', N('FunctionBlockDeclaration', ('name', n), ('variables', L(variables)), ('edge_variables', L(edges)), ('body', b)))

    def program_decl(self):
        nl, n = self.ident()
        lex = [('kw', 'PROGRAM'), G] + nl + [NL]
        variables = []
        for _ in range(self.rng.randint(0, 4)):
            bl, vs, es = self.var_block(['VAR', 'VAR', 'VAR_INPUT', 'VAR_OUTPUT', 'VAR_IN_OUT', 'VAR_EXTERNAL', 'LOCATED', 'INCOMPLETE'])
            if es:   # edge declarations of a program are dropped by the grammar action: not generated here
                continue
            lex += bl + [NL]; variables += vs
        bl, b = self.body()
        lex += bl + [('kw', 'END_PROGRAM')]
        return lex, T('ProgramDeclaration', N('ProgramDeclaration', ('name', n), ('variables', L(variables)), ('access_variables', L([])), ('body', b)))

    # ---------------------------------------------------------------- SFC
    def sfc(self):
        rng = self.rng
        def assoc_list():
            assocs = []
            for _ in range(rng.randint(0, 2)):
                al, a = self.ident()
                q = rng.choice([None, 'N', 'R', 'S', 'L', 'D', 'P', 'SD', 'DS', 'SL', 'P1', 'P0'])
                qlex, qt = ([('pk', q), G] if q else []), (OPT(A(q)) if q else NONE)
                if q in ('SD', 'DS', 'SL', 'P1', 'P0'):
                    # the qualifiers with a time: `SD , T#1s` or `SD , variable`
                    self.features.add('sfc:timed-qualifier')
                    if rng.random() < 0.5:
                        tl, tt = self.constant(['dur']); time = tt
                    else:
                        tl, tv = self.ident(); time = T('VariableName', tv)
                    qlex = [('pk', q), G, ('p', ','), G] + tl + [G]
                    qt = SOME(T({'P1': 'PR', 'P0': 'PF'}.get(q, q), time))
                inds = [self.ident() for _ in range(rng.choice([0, 0, 1, 2]))] if q else []
                ilex = []
                for (il_, it_) in inds: ilex += [('p', ','), G] + il_ + [G]
                if inds: self.features.add('sfc:indicators')
                assocs.append((al + [G, ('p', '('), G] + qlex + ilex + [('p', ')')],
                               N('ActionAssociation', ('name', a), ('qualifier', qt), ('indicators', L([i_[1] for i_ in inds])))))
            # B.1.6: {action_association ';'}
            l = []
            for a in assocs: l += a[0] + [G, ('p', ';'), NL]
            return l, L([a[1] for a in assocs])
        il, i = self.ident()
        al, aa = assoc_list() if rng.random() < 0.4 else ([], L([]))
        lex = [('kw', 'INITIAL_STEP'), G] + il + [G, ('p', ':'), NL] + al + [('kw', 'END_STEP'), NL]
        init = N('Step', ('name', i), ('action_associations', aa))
        elems = []
        for _ in range(rng.randint(1, 4)):
            k = rng.choice(['step', 'action', 'transition'])
            self.features.add('sfc:' + k)
            if k == 'step':
                nl, n = self.ident()
                al, aa = assoc_list()
                slex = [('kw', 'STEP'), G] + nl + [G, ('p', ':'), NL] + al + [('kw', 'END_STEP')]
                elems.append((slex, T('Step', N('Step', ('name', n), ('action_associations', aa)))))
            elif k == 'action':
                nl, n = self.ident()
                bl, b = self.body(allow_sfc=False)
                elems.append(([('kw', 'ACTION'), G] + nl + [G, ('p', ':'), NL] + bl + [('kw', 'END_ACTION')], T('Action', N('Action', ('name', n), ('body', b)))))
            else:
                name = self.ident() if rng.random() < 0.3 and 'transition-name' not in self.excl else None
                prio = self.integer(0, 9) if rng.random() < 0.3 and 'transition-name' not in self.excl else None
                def steps():
                    k = rng.choice([1, 1, 2, 3, 4])
                    if 'transition-steps' in self.excl: k = 1
                    names = [self.ident() for _ in range(k)]
                    if k == 1: return names[0][0], [names[0][1]]
                    self.features.add(f'sfc:steps{k}')
                    return [('p', '('), G] + sep([x[0] for x in names], [G, ('p', ','), G]) + [G, ('p', ')')], [x[1] for x in names]
                fl, f = steps(); tl, t = steps()
                cl, c = self.expression(1)
                tlex = [('kw', 'TRANSITION'), G] + (name[0] + [G] if name else []) + \
                       ([('p', '('), G, ('pk', 'PRIORITY'), G, ('p', ':='), G] + prio[0] + [G, ('p', ')'), G] if prio else []) + \
                       [('kw', 'FROM'), G] + fl + [G, ('kw', 'TO'), G] + tl + [NL, ('p', ':='), G] + cl + [G, ('p', ';'), NL, ('kw', 'END_TRANSITION')]
                elems.append((tlex, T('Transition', N('Transition', ('name', OPT(name[1] if name else None)), ('priority', OPT(A(prio[1]) if prio else None)),
                                                      ('from', L(f)), ('to', L(t)), ('condition', c)))))
        lex += sep([e[0] for e in elems], [NL]) + [NL]
        net = N('Network', ('initial_step', init), ('elements', L([e[1] for e in elems])))
        return lex, T('Sfc', N('Sfc', ('networks', L([net]))))

    # ---------------------------------------------------------------- configuration
    def global_vars(self):
        rng = self.rng
        q = rng.choice([None, 'CONSTANT', 'RETAIN'])
        qn = {None: 'Unspecified', 'CONSTANT': 'Constant', 'RETAIN': 'Retain'}[q]
        decls, variables = [], []
        for _ in range(rng.randint(1, 2)):
            names = [self.ident() for _ in range(rng.choice([1, 2]))]
            tl, tt, _ = self.elementary(['INT', 'BOOL', 'REAL', 'WORD'])
            c = self.constant(['int', 'real', 'bool', 'based']) if rng.random() < 0.6 else None
            decls.append(sep([n[0] for n in names], [G, ('p', ','), G]) + [G, ('p', ':'), G] + tl + ([G, ('p', ':='), G] + c[0] if c else []))
            for n in names:
                variables.append(self.var_decl(T('Symbol', n[1]), 'Global', qn, self.simple_init(tt, c[1] if c else None)))
        lex = [('kw', 'VAR_GLOBAL')] + ([G, ('kw', q)] if q else []) + [NL] + sep(decls, [G, ('p', ';'), NL]) + [G, ('p', ';'), NL, ('kw', 'END_VAR'), NL]
        return lex, variables

    def configuration(self):
        rng = self.rng
        nl, n = self.ident()
        lex = [('kw', 'CONFIGURATION'), G] + nl + [NL]
        g = []
        if rng.random() < 0.6 and 'config-globals' not in self.excl:
            gl, g = self.global_vars(); lex += gl
        rl, r = self.ident(); tl, t = self.ident()
        lex += [('kw', 'RESOURCE'), G] + rl + [G, ('kw', 'ON'), G] + tl + [NL]
        rg = []
        if rng.random() < 0.3 and 'config-globals' not in self.excl:
            gl, rg = self.global_vars(); lex += gl
        tasks = []
        tnames = []
        for _ in range(0 if 'tasks' in self.excl else rng.randint(0, 2)):
            tnl, tn = self.ident(); tnames.append((tnl, tn))
            dur = self.constant(['dur']) if rng.random() < 0.7 and 'task-interval' not in self.excl else None
            pl, pv = self.integer(0, 20)
            lex += [('kw', 'TASK'), G] + tnl + [G, ('p', '('), G] + ([('pk', 'INTERVAL'), G, ('p', ':='), G] + dur[0] + [G, ('p', ','), G] if dur else []) + \
                   [('pk', 'PRIORITY'), G, ('p', ':='), G] + pl + [G, ('p', ')'), G, ('p', ';'), NL]
            tasks.append(N('TaskConfiguration', ('name', tn), ('priority', A(pv)), ('interval', OPT(dur[1][2][0] if dur else None))))
        progs = []
        for _ in range(rng.randint(1, 2)):
            il, i = self.ident(); ptl, pt = self.ident()
            storage = rng.choice([None, None, 'RETAIN', 'NON_RETAIN'])
            task = rng.choice(tnames) if tnames and rng.random() < 0.6 else None
            plex = [('kw', 'PROGRAM'), G] + ([('kw', storage), G] if storage else []) + il + ([G, ('kw', 'WITH'), G] + task[0] if task else []) + [G, ('p', ':'), G] + ptl
            progs.append((plex, N('ProgramConfiguration', ('name', i), ('storage', OPT(A({'RETAIN': 'Retain', 'NON_RETAIN': 'NonRetain'}[storage])) if storage else NONE),
                                  ('task_name', OPT(task[1] if task else None)), ('type_name', pt), ('fb_tasks', L([])), ('sources', L([])), ('sinks', L([])))))
        lex += sep([p[0] for p in progs], [G, ('p', ';'), NL]) + [('p', ';'), NL, ('kw', 'END_RESOURCE'), NL]
        res = N('ResourceDeclaration', ('name', r), ('resource', t), ('global_vars', L(rg)), ('tasks', L(tasks)), ('programs', L([p[1] for p in progs])))
        fb_inits, loc_inits = [], []
        if rng.random() < 0.4 and 'var-config' not in self.excl:
            self.features.add('var_config')
            inits = []
            for _ in range(rng.randint(1, 2)):
                path = [self.ident() for _ in range(rng.randint(3, 4))]
                plex = sep([p[0] for p in path], [('p', '.')])
                if rng.random() < 0.5:
                    tyl, ty = self.type_name(); sil, si = self.structure_initialization(0)
                    inits.append(plex + [G, ('p', ':'), G] + tyl + [G, ('p', ':='), G] + sil)
                    fb_inits.append(N('FunctionBlockInit', ('resource_name', path[0][1]), ('program_name', path[1][1]), ('fb_path', L([p[1] for p in path[2:]])),
                                      ('fb_name', A('')), ('type_name', ty), ('initializer', L(si))))
                else:
                    etl, ett, _ = self.elementary(['INT', 'BOOL', 'BYTE', 'WORD'])
                    addr = rng.random() < 0.6
                    inits.append(plex + ([G, ('kw', 'AT'), G, ('lit', '%QB1')] if addr else []) + [G, ('p', ':'), G] + etl)
                    loc_inits.append(N('LocatedVarInit', ('resource_name', path[0][1]), ('program_name', path[1][1]), ('fb_path', L([p[1] for p in path[2:]])),
                                       ('address', OPT(address_tree('%QB1', 'Q', 'B') if addr else None)),
                                       ('initializer', self.simple_init(ett, None))))
            lex += [('kw', 'VAR_CONFIG'), NL] + sep(inits, [G, ('p', ';'), NL]) + [('p', ';'), NL, ('kw', 'END_VAR'), NL]
        lex += [('kw', 'END_CONFIGURATION')]
        return lex, T('ConfigurationDeclaration', N('ConfigurationDeclaration', ('name', n), ('global_var', L(g)), ('resource_decl', L([res])),
                                                     ('fb_inits', L(fb_inits)), ('located_var_inits', L(loc_inits))))

    # ---------------------------------------------------------------- library
    def library(self, n=None):
        rng = self.rng
        n = n or rng.randint(1, 4)
        lex, elems = [], []
        for i in range(n):
            k = rng.choice(['type', 'function', 'fb', 'fb', 'program', 'program', 'configuration'])
            self.features.add('decl:' + k)
            if k == 'type':
                l, ts = self.type_block(); elems += ts
            elif k == 'function': l, t = self.function_decl(); elems.append(t)
            elif k == 'fb': l, t = self.fb_decl(); elems.append(t)
            elif k == 'program': l, t = self.program_decl(); elems.append(t)
            else: l, t = self.configuration(); elems.append(t)
            lex += l + [NL]
        return lex, N('Library', ('elements', L(elems)))


def rust_char(c):
    return {"'": "'\\''", '\\': "'\\\\'", '\n': "'\\n'", '\r': "'\\r'", '\t': "'\\t'"}.get(c, "'" + c + "'")


def ops_from_table(repo='/repo'):
    """operator rows (level, source text, ctor, op) from the precedence! block via the translator's parser"""
    import re, os
    src = open(os.path.join(repo, 'compiler/parser/src/parser.rs')).read()
    m = re.search(r'pub rule expression\(\) -> ExprKind = precedence!\{(.*?)\n    \}', src, re.S)
    levels = re.split(r'\n\s*--\s*\n', m.group(1))
    text = {'Or': 'OR', 'Xor': 'XOR', 'And': 'AND', 'Equal': '=', 'NotEqual': '<>', 'Less': '<', 'Greater': '>', 'LessEqual': '<=',
            'GreaterEqual': '>=', 'Plus': '+', 'Minus': '-', 'Star': '*', 'Div': '/', 'Mod': 'MOD', 'Power': '**'}
    # the IEC 61131-3 Annex B.3.1 precedence (weakest first) is the reference, not the table: the generator prints
    # with these levels, so a re-ordered table makes the parser disagree with the printed tree
    annex = [['OR'], ['XOR'], ['AND'], ['=', '<>'], ['<', '>', '<=', '>='], ['+', '-'], ['*', '/', 'MOD'], ['**']]
    ctor = {'OR': ('compare', 'Or'), 'XOR': ('compare', 'Xor'), 'AND': ('compare', 'And'), '=': ('compare', 'Eq'), '<>': ('compare', 'Ne'),
            '<': ('compare', 'Lt'), '>': ('compare', 'Gt'), '<=': ('compare', 'LtEq'), '>=': ('compare', 'GtEq'), '+': ('binary', 'Add'),
            '-': ('binary', 'Sub'), '*': ('binary', 'Mul'), '/': ('binary', 'Div'), 'MOD': ('binary', 'Mod'), '**': ('binary', 'Pow')}
    rows = []
    for lvl, ops in enumerate(annex):
        for o in ops: rows.append((lvl, o) + ctor[o])
    return rows
