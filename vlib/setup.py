"""MANIFEST.setup_cmd: build the framework from files on disk only (offline)."""
import sys
from . import core


def main():
    ok = True
    for name, good, msg in core.regen_tables():
        print(f'table {name}: {"ok" if good else "FAILED"} {msg}')
        ok &= good
    good, text, dt = core.lake_build(['PlcModel', 'PlcProofs', 'plcdrv'], timeout=7200)
    print(f'lake build: {"ok" if good else "FAILED"} {dt:.0f}s')
    if not good: print(text[-3000:])
    ok &= good
    good, text, dt = core.cargo_build_harness()
    print(f'cargo build vh: {"ok" if good else "FAILED"} {dt:.0f}s')
    if not good: print(text)
    ok &= good
    good, text, dt = core.cargo_build_ironplcc()
    print(f'cargo build ironplcc: {"ok" if good else "FAILED"} {dt:.0f}s')
    if not good: print(text)
    ok &= good
    return 0 if ok else 1


if __name__ == '__main__':
    sys.exit(main())
