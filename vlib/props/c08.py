"""C08 — letter case, layout and comments never change what a program means."""
from .. import core, refgrammar, rustdebug, gen_text, units
from .c01 import canon_impl, canon_model, first_diff

RULE = ('every generated program (reference grammar of C01 and the analysable units of C02) is spelled canonically and '
        're-spelled: random letter case per keyword occurrence (incl. the textual keywords INTERVAL, PRIORITY, action '
        'qualifiers, duration units, T#/D# prefixes, MOD, NOT, hex digits), random case per identifier occurrence, random '
        'trivia (blanks, tabs, LF, CRLF, form feed, one-line / multi-line / nested-looking comments, (***)) in every gap the '
        'grammar allows (never where it allows none), END_IF with or without the optional semicolon; oracle: the parsed '
        'library (identifier spelling and positions ignored) and the analyze() codes are unchanged; the Lean parser model '
        'must agree on every spelling; non-trivial = respelling changes the text; distinct = distinct (features, '
        'respelling kinds)')

TRIVIA = [' ', '  ', '\t', '\n', '\r\n', ' \n ', '\n\n', ' (* c *) ', '(* c *)', ' (* ( *) ', '(***)', ' (* a\nb *) ', '(* é *)',
          '\t(* x ** y *)\t', ' (**) ', ' (** d **) ', '(* e ***)', ' (* { *) ', '(* } *)', ' (* {x *) ', '(* a } b { c *)', '\n(* l1\r\nl2 *)\n', ' \f ', '(* ; END_IF *)']


def respell_word(rng, w, mode):
    if mode == 'lower': return w.lower()
    if mode == 'upper': return w.upper()
    return ''.join(c.upper() if rng.random() < 0.5 else c.lower() for c in w)


def respell(rng, lex, kinds):
    """kinds: subset of {'kw', 'kwlower', 'pk', 'id', 'trivia', 'endif', 'hex'} -> text"""
    out = []
    i = 0
    n = len(lex)
    while i < n:
        x = lex[i]
        k = x[0]
        if k == 'g0':
            if 'trivia' in kinds and rng.random() < 0.5:
                out.append(''.join(rng.choice(TRIVIA) for _ in range(rng.choice([1, 1, 2]))))
        elif k == '_' or k == 'nl':
            if 'trivia' in kinds:
                t = ''.join(rng.choice(TRIVIA) for _ in range(rng.choice([1, 1, 2])))
                out.append(t)
            else:
                out.append(' ' if k == '_' else '\n')
        elif k == 'kw':
            w = x[1]
            if 'kw' in kinds: w = respell_word(rng, w, rng.choice(['lower', 'mixed', 'upper']))
            if 'kwlower' in kinds: w = w.lower()          # every keyword of the text in lower case (no upper-case spelling left anywhere)
            out.append(w)
            if 'endif' in kinds and x[1] == 'END_IF' and rng.random() < 0.6:
                # drop the optional semicolon (and the gap before it) that follows END_IF
                j = i + 1
                while j < n and lex[j][0] in ('_', 'nl'): j += 1
                if j < n and lex[j] == ('p', ';'):
                    # what follows may be on the same line (another END_IF, the next statement), after blanks or a comment
                    out.append(rng.choice(['\n', '\n', ' ', '\t', ' (* c *) ', '  (* ; *)  ', '\r\n']))
                    i = j
        elif k == 'pk':
            w = x[1]
            if 'pk' in kinds: w = respell_word(rng, w, rng.choice(['lower', 'mixed', 'upper']))
            out.append(w)
        elif k == 'id':
            w = x[1]
            if 'id' in kinds: w = respell_word(rng, w, rng.choice(['lower', 'mixed', 'upper']))
            out.append(w)
        elif k == 'lit':
            w = x[1]
            if 'hex' in kinds and w.startswith('16#'): w = '16#' + respell_word(rng, w[3:], rng.choice(['lower', 'mixed']))
            if 'hex' in kinds and w.startswith('%'): w = respell_word(rng, w, rng.choice(['lower', 'mixed']))
            if 'hex' in kinds and w[:1].isdigit() and ('E' in w or 'e' in w) and '#' not in w: w = respell_word(rng, w, 'mixed')
            out.append(w)
        else:
            out.append(x[1])
        i += 1
    return ''.join(out)


def unit_lex(text):
    """a coarse lexeme stream for the printed analysable units of vlib/units.py: words are keywords or identifiers,
    runs of blanks/newlines are gaps"""
    import re
    kwset = unit_lex.kw
    out = []
    for m in re.finditer(r"'[^']*'|\"[^\"]*\"|[A-Za-z_][A-Za-z0-9_]*|\s+|T#\d+ms|[0-9]+|:=|=>|\.\.|.", text, re.S):
        w = m.group(0)
        if w[0] in '\'"': out.append(('lit', w))      # a character string is one lexeme; its content is never respelled
        elif w.isspace(): out.append(('nl',) if '\n' in w else ('_',))
        elif re.match(r'[A-Za-z_]', w):
            if w.upper() in kwset: out.append(('kw', w))
            elif w in ('INTERVAL', 'PRIORITY'): out.append(('pk', w))
            else: out.append(('id', w))
        elif w.startswith('T#'): out += [('pk', 'T'), ('p', '#'), ('lit', w[2:-2]), ('pk', 'ms')]
        else: out.append(('p', w))
    return out


def run(ctx):
    core.prepare(ctx)
    rng = ctx.rng
    lits = gen_text.token_literals()
    kws = [l for (v, l, ic) in lits]
    unit_lex.kw = {l.upper() for l in kws if l[0].isalpha()}
    refgrammar.Gen.OPS = refgrammar.ops_from_table(core.REPO)
    progs = []
    for i in range(60 if ctx.quick() else 1500):
        g = refgrammar.Gen(rng, kws)
        lex, lib = g.library(rng.choice([1, 2]))
        progs.append(('grammar', lex, frozenset(g.features)))
    seen_kinds = set()
    for i in range(64 if ctx.quick() else 600):
        decls, ns = units.gen_valid(rng, size=1)
        if i % 2 == 0:
            # a faulty unit; the fault kinds in turn, so that every rule's answer is respelled (kinds not yet used first)
            ss = units.plant_all(decls, ns, rng)
            if ss:
                fresh = sorted({x[0] for x in ss if x[0] not in seen_kinds})
                if not fresh:
                    seen_kinds.clear(); fresh = sorted({x[0] for x in ss})
                pick = rng.choice([x for x in ss if x[0] == fresh[0]])
                seen_kinds.add(pick[0])
                decls = pick[2]
        progs.append(('unit', unit_lex(units.print_file(decls, rng)), frozenset(['unit'])))
    cases = []
    KINDS = [('kw',), ('pk',), ('id',), ('trivia',), ('endif',), ('hex',), ('kwlower',), ('kwlower', 'endif'), ('kw', 'pk', 'id', 'trivia', 'endif', 'hex')]
    for pi, (src, lex, feats) in enumerate(progs):
        canon = refgrammar.spell(lex)
        cases.append({'prog': pi, 'spelling': 'canonical', 'text': canon, 'feats': feats})
        for kinds in KINDS:
            # (identifier case decides which names the analyzer's tables equate: the analysable units get more of those)
            for rep in range((6 if src == 'unit' and kinds == ('id',) else 1) if len(kinds) == 1 else 3):
                t = respell(rng, lex, set(kinds))
                if t != canon:
                    cases.append({'prog': pi, 'spelling': '+'.join(kinds), 'text': t, 'feats': feats})
    reqs = ['parse ' + core.hexs(c['text']) for c in cases]
    impl = core.run_lines(core.VH, reqs, jobs=12)
    model = core.run_lines(core.PLCDRV, reqs, jobs=12) if ctx.model_available else [None] * len(cases)
    ana = core.run_lines(core.VH, ['analyze ' + core.hexs(c['text']) for c in cases], jobs=12)
    ref = {}
    for c, io, mo, an in zip(cases, impl, model, ana):
        ctx.evaluations += 1
        ctx.count(f"spelling:{c['spelling']}")
        ci, cm = canon_impl(io), canon_model(mo)
        show = {'spelling': c['spelling'], 'text': c['text']}
        if cm is not None:
            ctx.traces += 1
            if ci != cm:
                d = first_diff(ci, cm)
                ctx.corr_fail.append({'stream': 'parse', 'case': show, 'model': cm[max(0, d - 120):d + 120], 'impl': ci[max(0, d - 120):d + 120]})
        codes = frozenset(d.split('@')[0] for d in an.split()[1:]) if an.startswith('ERR') else frozenset()
        sig = (ci.lower(), codes)
        if c['spelling'] == 'canonical':
            ref[c['prog']] = (sig, c['text'])
            continue
        ctx.feature((c['feats'], c['spelling']))
        r = ref[c['prog']]
        if r[0] != sig:
            if r[0][0] != sig[0]:
                d = first_diff(r[0][0], sig[0])
                what = (f'respelling ({c["spelling"]}) makes the program unparseable: {ci[:60]}' if not ci.startswith('OK') else
                        f'respelling ({c["spelling"]}) changes the parsed library')
                detail = {'canonical': r[0][0][max(0, d - 100):d + 100], 'respelled': sig[0][max(0, d - 100):d + 100]}
            else:
                what = f'respelling ({c["spelling"]}) changes the analyze() codes: {sorted(r[0][1])} -> {sorted(codes)}'
                detail = {}
            ctx.violations.append({'stream': 'respell', 'case': dict(show, canonical_text=r[1]), 'impl': io[:200], 'model': detail, 'what': what})
        ctx.sample({'spelling': c['spelling'], 'text': c['text'][:200]}, limit=4)
    # ---- every keyword of the language, alone, in upper, lower, capitalised and alternating case: the same token (exhaustive
    #      over the alphabetic `#[token]` literals of token.rs)
    from .. import lexcheck
    kwl = sorted({l.upper() for (v, l, ic) in lits if l[0].isalpha()})
    def spellings(w):
        alt = ''.join(c.upper() if k % 2 else c.lower() for k, c in enumerate(w))
        return [w, w.lower(), w.capitalize(), alt, alt.swapcase()]
    kreqs = [(w, sp) for w in kwl for sp in spellings(w)]
    kout = core.run_lines(core.VH, ['lex ' + core.hexs(sp + ' x') for (w, sp) in kreqs], jobs=8)
    kref = {}
    for (w, sp), o in zip(kreqs, kout):
        ctx.evaluations += 1
        ctx.count('keyword-case:spellings')
        p = lexcheck.parse_lex(o)
        ty = (p[0][0][0] if p and p[0] and not p[1] else 'lexical-error') if p else 'no-answer'
        if sp == w: kref[w] = ty
        elif ty != kref.get(w):
            ctx.violations.append({'stream': 'keyword-case', 'case': {'spelling': 'kw', 'text': sp + ' x', 'canonical_text': w + ' x'}, 'impl': o[:200], 'model': None,
                                   'what': f'the keyword {w} written `{sp}` is the token {ty}, written `{w}` it is {kref.get(w)}'})
        else:
            ctx.feature(('keyword-case', w, sp))
    ctx.violations.sort(key=lambda v: len(v['case']['text']))
    ctx.corr_fail.sort(key=lambda v: len(v['case']['text']))
    # shrink the first violation at lexeme level is left to the replay; keep the smallest text first
    return core.finish(ctx, level='proof', rule=RULE,
                       assumptions=['string contents are never respelled (case there is meaning)',
                                    'a gap is only respelled where the reference grammar has `_`; no gap is introduced where the grammar allows none'])
