"""C03 — no error is masked: a defect anywhere in the compilation set makes check fail."""
import copy, itertools
from .. import core, units, cli
from .c02 import parse_impl, parse_model, agree

RULE = ('a faulty carrier — a file with a lexical or a syntax error, or a declaration violating a rule that does not '
        'depend on other declarations (duplicate structure element, subrange limits, duplicate enumeration value, '
        'constant without initialiser, undefined variable, undefined task, constant function block instance, recursive '
        'function block) — is placed among up to 4 accompanying valid files / 8 declarations, including accompanying '
        'declarations that reuse the faulty declaration\'s name, in every file order (quick: <= 3 files exhaustively '
        'ordered), through the in-memory project (FileBackedProject::semantic) and through `ironplcc check f1 f2 ...`; '
        'oracle: the result is a failure; correspondence: codes against the Lean model; monotonicity: adding valid files '
        'to a failing set never makes it pass; non-trivial = at least 2 files; distinct = distinct (fault kind, '
        'placement, order)')

LOCAL_KINDS = {'struct-dup-element', 'struct-element-thrice', 'enum-value-thrice', 'subrange-min-gt-max', 'subrange-min-eq-max', 'enum-dup-value', 'const-no-init',
               'undefined-var-rhs', 'undefined-var-target', 'undefined-var-subscript', 'undefined-var-condition', 'undefined-var-call-arg', 'undefined-var-named-like-function', 'undefined-var-named-like-pou', 'task-undefined', 'fb-self-instance', 'const-fb',
               # a name declared twice is a fault of the set wherever the two declarations stand (same file, two files, copies word for word)
               'dup-verbatim-adjacent', 'dup-pou-name', 'dup-type-name'}
# a construct the analyzer answers with P9999 "not implemented" (an initialised simple type): its answer ends the analysis
# early, but it is an answer of failure - it must not turn a faulty set into an accepted one
UNSUPPORTED_TEXT = 'TYPE\n  N7950 : INT := 5;\nEND_TYPE\n'
BAD_TEXTS = {'lexical': 'PROGRAM N7001\nVAR N7002 : INT; END_VAR\nN7002 := ? 1;\nEND_PROGRAM\n',
             'syntax': 'PROGRAM N7003\nVAR N7004 : INT END_VAR\nEND_PROGRAM\n',
             'unclosed-comment': 'PROGRAM N7005\nEND_PROGRAM\n(* never closed\n'}


def offset_decl(d, off):
    """shift every name of a declaration (names >= 7000 are fixed markers)"""
    def n(x): return x if (x is None or x >= 7000) else x + off
    def ty(t): return t if isinstance(t, str) else ('n', n(t[1]))
    def v(x): return dict(x, name=n(x['name']), ty=ty(x['ty']), init=(n(x['init']) if isinstance(x['ty'], tuple) and x['init'] is not None else x['init']))
    def st(s):
        if s[0] == 'a': return ('a', n(s[1]), [n(r) for r in s[2]]) + (((s[3][0], n(s[3][1])),) if len(s) > 3 and s[3] else ())
        if s[0] == 's': return ('s', n(s[1]), n(s[2]), n(s[3]))
        if s[0] == 'e': return ('e', n(s[1]), n(s[2]))
        return ('c', n(s[1]), [(n(a), n(b)) for a, b in s[2]], [n(p) for p in s[3]], [(n(a), n(b)) for a, b in s[4]])
    k = d[0]
    if k == 'E': return ('E', n(d[1]), [n(x) for x in d[2]], n(d[3]))
    if k == 'A': return ('A', n(d[1]), n(d[2]))
    if k == 'S': return ('S', n(d[1]), [(n(e[0]), ty(e[1])) + ((n(e[2]),) if len(e) > 2 else ()) for e in d[2]])
    if k == 'R': return ('R', n(d[1]), d[2], d[3])
    if k == 'T': return ('T', n(d[1]), d[2])
    if k in 'FUP': return (k, n(d[1]), [v(x) for x in d[2]], [st(s) for s in d[3]])
    return ('C', n(d[1]), [v(x) for x in d[2]], [n(t) for t in d[3]], [(n(i), n(t), n(p)) for i, t, p in d[4]])


def run(ctx):
    core.prepare(ctx, need_binary=True)
    rng = ctx.rng
    cases = []
    ntrials = 12 if ctx.quick() else 150
    for trial in range(ntrials):
        base, ns = units.gen_valid(rng, size=1)
        other, _ = units.gen_valid(rng, size=rng.choice([1, 2]))
        other = [offset_decl(d, 1000) for d in other][:8]
        singles = [s for s in units.plant_all(base, ns, rng) if s[0] in LOCAL_KINDS]
        carriers = []
        for kind in BAD_TEXTS:
            carriers.append((kind, 'parse', None))
        for fk in sorted({s[0] for s in singles}):
            cand = [s for s in singles if s[0] == fk]
            carriers.append((fk, 'decl', rng.choice(cand)))
        for (fk, mode, single) in carriers:
            for reuse in (False, True, 'cross'):
                nfiles = rng.choice([2, 3]) if ctx.quick() else rng.choice([2, 3, 4])
                if mode == 'parse':
                    files = units.split_files(rng, base + other, nfiles - 1)
                    files = [f for f in files]
                    files.insert(rng.randrange(len(files) + 1), 'X:' + fk)
                    if reuse: continue
                else:
                    ds = list(single[2])
                    acc = list(other)
                    if reuse:
                        # an accompanying valid declaration with the name of the faulty declaration
                        faulty = next((d for d, b in zip(ds, base) if d != b), ds[-1])
                        same_kind_is_type = faulty[0] in 'ESRA'
                        if reuse == 'cross': same_kind_is_type = not same_kind_is_type
                        # (cross: a data type named like the faulty POU / a program named like the faulty type — the two live in
                        #  different name tables of the analyzer and must not displace each other)
                        if reuse == 'cross' and faulty[0] == 'C':
                            # a second, valid configuration that declares a task with the name the faulty one misses
                            if fk != 'task-undefined' or not faulty[4]: continue
                            acc.append(('C', 7150, [], [7999], [(7151, 7999, faulty[4][0][2])]))
                            files = units.split_files(rng, ds + acc, nfiles)
                            orders = list(itertools.permutations(range(len(files))))
                            if len(orders) > 6: orders = rng.sample(orders, 6 if ctx.quick() else 24)
                            for order in orders:
                                cases.append({'fault': fk, 'mode': mode, 'reuse': 'second-configuration', 'files': [files[i] for i in order]})
                            continue
                        if same_kind_is_type:
                            acc.append(('R', faulty[1], 1, 2))
                        else:
                            acc.append(('P', faulty[1], [units.var(7100, 'v', 'i')], [('a', 7100, [])]))
                    files = units.split_files(rng, ds + acc, nfiles)
                orders = list(itertools.permutations(range(len(files))))
                if len(orders) > 6: orders = rng.sample(orders, 6 if ctx.quick() else 24)
                for order in orders:
                    fl = [files[i] for i in order]
                    cases.append({'fault': fk, 'mode': mode, 'reuse': reuse, 'files': fl})
                if not reuse:
                    # the same set accompanied by a file with a construct the analyzer does not implement (P9999), first and last
                    fl = [files[i] for i in orders[0]]
                    cases.append({'fault': fk, 'mode': mode, 'reuse': 'with-unsupported', 'files': ['Y:unsupported'] + fl, 'nomodel': True})
                    cases.append({'fault': fk, 'mode': mode, 'reuse': 'with-unsupported', 'files': fl + ['Y:unsupported'], 'nomodel': True})
            if mode == 'decl' and not fk.startswith('dup-'):
                # the smallest sets (a duplicate is two declarations: not a fault of one declaration alone): the faulty declaration alone in the set, and alone with one valid declaration
                faulty = next((d for d, b in zip(single[2], base) if d != b), single[2][-1])
                cases.append({'fault': fk, 'mode': mode, 'reuse': 'alone', 'files': [[faulty]], 'nomodel': True})
                cases.append({'fault': fk, 'mode': mode, 'reuse': 'alone+1', 'files': [[faulty], [('R', 7160, 1, 2)]], 'nomodel': True})
    # monotonicity: a failing set plus further valid files
    mono = []
    for trial in range(10 if ctx.quick() else 100):
        base, ns = units.gen_valid(rng, size=1)
        singles = [s for s in units.plant_all(base, ns, rng) if s[0] not in ('unknown-type', 'call-instance-undeclared', 'enum-value-undefined')]
        if not singles: continue
        extra, _ = units.gen_valid(rng, size=1)
        extra = [offset_decl(d, 2000) for d in extra]
        # one set for a fault drawn at random and one for every fault that involves two declarations (a constant global and the
        # external that imports it, ...): the accompanying files - which hold a configuration of their own - before and after it
        picks = [rng.choice(singles)]
        for k in sorted({x[0] for x in singles} - LOCAL_KINDS):
            picks.append(rng.choice([x for x in singles if x[0] == k]))
        for fk, code, ds in picks:
            f0 = units.split_files(rng, ds, rng.choice([1, 2]))
            fx = units.split_files(rng, extra, rng.choice([1, 2]))
            mono.append({'fault': fk, 'mode': 'mono-before', 'reuse': False, 'files': f0})
            mono.append({'fault': fk, 'mode': 'mono-after', 'reuse': False, 'files': f0 + fx})
            mono.append({'fault': fk, 'mode': 'mono-before', 'reuse': False, 'files': f0})
            mono.append({'fault': fk, 'mode': 'mono-after', 'reuse': 'extra-first', 'files': fx + f0})
    cases += mono

    NAME_SCHEMES = {'plain': lambda j: f'f{j}.st',
                    # names that differ only in letter case, and equal names in different directories
                    'case': lambda j: ['unit.st', 'Unit.st', 'UNIT.st', 'uNit.st', 'unIt.st'][j % 5],
                    'dirs': lambda j: f'{"abcde"[j % 5]}/unit.st'}
    def texts(c):
        # a third of the sets with OSCAT description headers (layout/comment bodies) in front of declarations and around
        # the text of a file that does not parse; a third in a varied spelling
        deco = rng.random() < 0.34
        vary = rng.random() < 0.34
        out = []
        for f in c['files']:
            if isinstance(f, str) and f[0] == 'Y':
                out.append(UNSUPPORTED_TEXT)
            elif isinstance(f, str):
                t = BAD_TEXTS[f[2:]]
                if deco:
                    t = units.oscat_header(rng) + t
                    if f[2:] != 'unclosed-comment':
                        t += '\n' + units.oscat_header(rng) + 'TYPE\n  N7800 : INT(1..2);\nEND_TYPE\n'
                out.append(t)
            else:
                out.append(units.print_file(f, rng if vary else None, vary=vary, headers=rng if deco else None))
        c['deco'] = deco; c['vary'] = vary
        c['scheme'] = rng.choice(['plain', 'plain', 'case', 'dirs'])
        c['names'] = [NAME_SCHEMES[c['scheme']](j) for j in range(len(c['files']))]
        return out
    def names_arg(c):
        return '' if c['scheme'] == 'plain' else '@names=' + ','.join(core.hexs(n) for n in c['names']) + ' '
    def enc(c):
        return units.enc_unit(['X' if isinstance(f, str) else f for f in c['files']])
    for c in cases: c['texts'] = texts(c)
    impl = core.run_lines(core.VH, ['project ' + names_arg(c) + ' '.join(core.hexs(t) if t else '-' for t in c['texts']) for c in cases], jobs=12)
    model = core.run_lines(core.PLCDRV, ['noop' if c.get('nomodel') else enc(c) for c in cases], jobs=12) if ctx.model_available else [None] * len(cases)
    model = [None if c.get('nomodel') else m for c, m in zip(cases, model)]
    # the same sets reached through an edit history of the project (analyse, change one document, analyse again):
    # the result must be the one of the fresh project (a cached parse or verdict must not survive the edit)
    hx = lambda t: core.hexs(t) if t else '-'
    def edit_req(c):
        j = rng.randrange(len(c['texts']))
        na = names_arg(c)
        stub = rng.choice(['', 'TYPE\nN7900 : INT(1..2);\nEND_TYPE\n', c['texts'][j]])
        init = [stub if k == j else t for k, t in enumerate(c['texts'])]
        edits = [f"{j}:{hx(c['texts'][j])}"]
        if rng.random() < 0.3: edits = [f"{j}:{hx(BAD_TEXTS['syntax'])}"] + edits
        return 'projedit ' + na + ' '.join(hx(t) for t in init) + ' | ' + ' '.join(edits)
    edit_reqs = [edit_req(c) for c in cases]
    edited = core.run_lines(core.VH, edit_reqs, jobs=12)
    # the CLI on a sample of the same cases
    sample_idx = [i for i in range(len(cases)) if i % (7 if ctx.quick() else 5) == 0]
    import concurrent.futures as cf
    def do_cli(i):
        c = cases[i]
        files = {c['names'][j]: t for j, t in enumerate(c['texts'])}
        r = cli.check_files(files, order=[c['names'][j] for j in range(len(files))])
        # the same set named by its directory, each file in turn present there as a symbolic link to a file stored elsewhere
        r['linked'] = []
        if c['scheme'] != 'dirs' and len(files) >= 2 and i % 3 == 0:
            for j in range(len(files)):
                rl = cli.check_files(files, as_dir=True, symlinks={c['names'][j]})
                r['linked'].append((c['names'][j], rl['rc'], cli.strip_ansi(rl['stderr'])[-200:]))
        return r
    with cf.ThreadPoolExecutor(12) as ex:
        cli_res = dict(zip(sample_idx, ex.map(do_cli, sample_idx)))
    prev = None
    for i, (c, io, mo) in enumerate(zip(cases, impl, model)):
        ctx.evaluations += 1
        ctx.count(f"fault:{c['fault']}")
        ctx.count(f"mode:{c['mode']}{'+reuse-' + str(c['reuse']) if c['reuse'] else ''}")
        ctx.count(f"names:{c['scheme']}")
        if c['deco']: ctx.count('oscat-headers')
        if c['vary']: ctx.count('varied-spelling')
        status, codes = parse_impl(io)
        groups = parse_model(mo) if mo is not None else None
        show = {'fault': c['fault'], 'mode': c['mode'], 'reuse_name': c['reuse'], 'texts': c['texts'], 'unit': enc(c), 'file_names': c['names']}
        if len(c['files']) >= 2:
            ctx.feature((c['fault'], c['mode'], c['reuse'], tuple(len(f) if not isinstance(f, str) else -1 for f in c['files'])))
        if status == 'crash':
            ctx.violations.append({'stream': 'project', 'case': show, 'what': f'semantic() crashed: {codes}', 'impl': io, 'model': mo})
            continue
        if mo is not None:
            ctx.traces += 1
            if not agree(groups, status, codes):
                ctx.corr_fail.append({'stream': 'project', 'case': show, 'model': mo, 'impl': io})
        if c['mode'] in ('parse', 'decl', 'mono-before') and status == 'ok':
            what = ('a file that does not tokenize/parse' if c['mode'] == 'parse' else f'a declaration with the local fault {c["fault"]}')
            ctx.violations.append({'stream': 'project', 'case': show, 'impl': io, 'model': mo,
                                   'what': f'the set contains {what} but the check of the whole set reports success'})
        if c['mode'] == 'mono-after' and status == 'ok' and prev is not None and prev[0] == 'err':
            ctx.violations.append({'stream': 'project', 'case': show, 'impl': io, 'model': mo,
                                   'what': f'adding valid files to a set failing with {sorted(prev[1])} makes the check pass'})
        prev = (status, codes)
        ctx.evaluations += 1
        ctx.count('edit-history')
        if edited[i] != io:
            ctx.violations.append({'stream': 'edit', 'case': dict(show, request=edit_reqs[i][:4000]), 'impl': edited[i][:300], 'model': io[:300],
                                   'what': 'after an edit of one document the project reports something else than a fresh project holding the same texts '
                                           + ('(the fault is masked)' if edited[i].startswith('OK') else '')})
        if i in cli_res:
            r = cli_res[i]
            ctx.count('cli-runs')
            cli_fail = r['rc'] != 0
            if cli_fail != (status == 'err'):
                ctx.violations.append({'stream': 'cli', 'case': show, 'impl': f"rc={r['rc']} {cli.strip_ansi(r['stderr'])[-300:]}", 'model': mo,
                                       'what': f'`ironplcc check` exit status {r["rc"]} disagrees with the in-memory project ({status})'})
            for (lname, lrc, lerr) in r.get('linked', []):
                ctx.count('cli-runs-directory-with-symlink')
                if (lrc != 0) != (status == 'err'):
                    ctx.violations.append({'stream': 'cli', 'case': dict(show, symlinked_file=lname), 'impl': f'rc={lrc} {lerr}', 'model': mo,
                                           'what': f'`ironplcc check <directory>` with {lname} present as a symbolic link exits {lrc}, the set itself is {status}'})
        ctx.sample({'fault': c['fault'], 'mode': c['mode'], 'files': len(c['files']), 'impl': io[:100]}, limit=4)
    ctx.violations.sort(key=lambda v: sum(len(t) for t in v['case']['texts']))
    ctx.corr_fail.sort(key=lambda v: sum(len(t) for t in v['case']['texts']))
    return core.finish(ctx, level='proof', rule=RULE,
                       assumptions=['fault kinds whose diagnosis depends on other declarations (unknown type, undeclared function block) are outside the local-fault clause by the statement of the property'])
