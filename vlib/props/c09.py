"""C09 — literals are read as the value IEC 61131-3 assigns them, or rejected."""
import datetime, random, struct
from fractions import Fraction
from .. import core, rustdebug
from .c01 import canon_impl, canon_model, first_diff

RULE = ('the structured literal space, enumerated (not sampled): integers in base 2/8/10/16 x magnitude classes (0, 1, max of '
        'each width, max+1, 2^64, 2^127, 2^128-1, 2^128) x underscore positions, signed and type-prefixed; reals (digits, '
        'underscores, exponent forms); durations: every unit x integral/fractional/boundary/overflow amounts, signs, all '
        'prefix spellings; times of day, dates, date-and-times with every field at min, max, max+1; character strings; '
        'direct addresses: every prefix x size x 1-3 components x 1-3 digits; each as `VAR x : T := <literal>; END_VAR`; '
        'oracle: the ConstantKind / AddressAssignment node carries the exact mathematical value (Python fractions / '
        'datetime), unrepresentable literals are rejected with P0002; correspondence: the Lean parser model; '
        'non-trivial = every case; distinct = distinct literal; thorough tier adds 200 000 literals drawn at random from the '
        'integer (all bases, widths to 140 bits, underscores, signs), real (to 18+19 digits, exponents to 400, typed) and '
        'duration (every unit, 64-bit boundaries, up to 16 fraction digits, underscores) spaces, judged by the same exact oracles')

I64 = 2 ** 63


def prog(ty, lit):
    return f'PROGRAM p\nVAR\nx : {ty} := {lit};\nEND_VAR\nEND_PROGRAM\n'


def prog_addr(addr):
    return f'PROGRAM p\nVAR\nx AT {addr} : BOOL;\nEND_VAR\nEND_PROGRAM\n'


def underscore_variants(digs):
    out = {digs}
    for i in range(1, len(digs)):
        out.add(digs[:i] + '_' + digs[i:])
    if len(digs) > 1: out.add('_'.join(digs))
    out.add(digs + '_')
    return sorted(out)


def int_cases():
    mags = [0, 1, 127, 128, 255, 256, 32767, 32768, 65535, 65536, 2**31 - 1, 2**31, 2**32 - 1, 2**32, 2**63 - 1, 2**63, 2**64 - 1, 2**64,
            2**127 - 1, 2**127, 2**128 - 1, 2**128, 2**128 + 5, 10**40]
    cases = []
    for v in mags:
        exp = f'int + {v} -' if v < 2**128 else 'ERR P0002'
        for base, pre, fmt in [(10, '', '{}'), (16, '16#', '{:X}'), (8, '8#', '{:o}'), (2, '2#', '{:b}')]:
            digs = fmt.format(v)
            variants = underscore_variants(digs) if v in (1, 255, 65536, 2**64, 2**128 - 1) else [digs]
            for d in variants:
                if base != 10 and d.startswith('_'): continue
                cases.append(('INT', pre + d, exp, f'int-base{base}'))
        if v < 2**128:
            cases.append(('INT', f'-{v}', f'int - {v} -', 'int-neg'))
            cases.append(('INT', f'+{v}', f'int + {v} -', 'int-plus'))
            for ty in ['SINT', 'INT', 'DINT', 'LINT', 'USINT', 'UINT', 'UDINT', 'ULINT']:
                if v in (0, 255, 2**64):
                    cases.append(('INT', f'{ty}#{v}', f'int + {v} {ty}', 'int-typed'))
                    cases.append(('INT', f'{ty}#-{v}', f'int - {v} {ty}', 'int-typed-neg'))
            for ty in ['BYTE', 'WORD', 'DWORD', 'LWORD']:
                if v in (0, 255, 2**64 - 1):
                    cases.append(('WORD', f'{ty}#16#{v:X}', f'bits {v} {ty}', 'bits'))
                    cases.append(('WORD', f'{ty}#{v}', f'bits {v} {ty}', 'bits-dec'))
    # a digit the base does not have makes the literal unreadable: it is never dropped, skipped or read in another base
    for lit in ['2#102', '2#1021', '2#2', '2#1_2', '8#78', '8#19', '8#8', '8#7_9', 'INT#2#1210', 'UINT#8#7787', '16#FG', '16#G', '2#', '8#', '16#']:
        cases.append(('INT', lit, 'ERR P0002', 'int-digit-outside-base'))
    # boolean literals: TRUE / FALSE / BOOL#0 / BOOL#1 (and the typed keywords); every other number behind BOOL# is rejected
    for lit, exp in [('TRUE', 'bool 1'), ('FALSE', 'bool 0'), ('BOOL#1', 'bool 1'), ('BOOL#0', 'bool 0'), ('BOOL#TRUE', 'bool 1'), ('BOOL#FALSE', 'bool 0'),
                     ('BOOL#2', 'ERR P0002'), ('BOOL#7', 'ERR P0002'), ('BOOL#10', 'ERR P0002'), ('BOOL#255', 'ERR P0002'), ('BOOL#1_0', 'ERR P0002'),
                     ('BOOL#11', 'ERR P0002'), ('BOOL#-1', 'ERR P0002'), ('BOOL#16#1', 'ERR P0002')]:
        cases.append(('BOOL', lit, exp, 'bool'))
    cases.append(('INT', '16#ff', 'int + 255 -', 'int-hex-lower'))
    cases.append(('INT', '16#aB_cD', f'int + {0xabcd} -', 'int-hex-mixed'))
    return cases


def real_cases():
    cases = []
    for txt in ['0.0', '1.5', '3.14159', '1_0.2_5', '1.0E5', '1.0e5', '2.5E-3', '6.02E+23', '1.0E+5', '1.7976931348623157E308', '1.7976931348623158E308', '1.7976931348623159E308', '1.0E309', '1.0E400', '1.0E99999',
                '4.9E-324', '1.0E-400', '0.1', '123456789.123456789', '1.0e1_0']:
        for sign in ['', '-', '+']:
            for ty in [None, 'REAL', 'LREAL']:
                lit = (f'{ty}#' if ty else '') + sign + txt
                clean = ('-' if sign == '-' else '') + txt.replace('_', '')
                try:
                    f = float(clean)
                    if f in (float('inf'), float('-inf')): raise OverflowError   # beyond the largest LREAL: not representable
                    exp = f'real {struct.pack(">d", f).hex()} {ty or "-"}'
                except (ValueError, OverflowError):
                    exp = 'ERR P0002'
                cases.append(('REAL', lit, exp, 'real'))
    return cases


UNITS = {'ms': 10**6, 's': 10**9, 'm': 60 * 10**9, 'h': 3600 * 10**9, 'd': 86400 * 10**9}


def dur_expected(amount_txt, unit, neg):
    a = Fraction(amount_txt.replace('_', ''))
    whole_txt = amount_txt.replace('_', '').split('.')[0]
    frac_txt = amount_txt.replace('_', '').split('.')[1] if '.' in amount_txt else ''
    if int(whole_txt) >= 2**64 or len(frac_txt) > 15: return 'ERR P0002'   # the fixed point type cannot hold it
    ns = a * UNITS[unit]
    if ns.denominator != 1: return 'ERR P0002'      # more precise than the representation: rejected, not truncated
    ns = int(ns)
    if ns // 10**9 >= I64: return 'ERR P0002'
    return f'dur {-ns if neg else ns}'


def dur_cases():
    cases = []
    amounts = ['0', '1', '5', '999', '1_000', '1.5', '0.5', '0.25', '0.001', '0.000001', '0.000000001', '1.0000000001', '2.125',
               '18446744073709551615', '18446744073709551616', '99999999999999999999', '106751991167300', '106751991167301',
               '9223372036854775807', '9223372036854775808', '0.123456789012345', '0.1234567890123456',
               # underscores inside the fraction and on both sides of the point: they separate digits, they are not digits
               '1.000_5', '0.2_5', '1_0.5_0', '0.000_000_001', '0.123_456_789_012_345', '0.1_2_3_4_5_6_7_8_9_0_1_2_3_4_5_6', '2.1_2_5']
    for amt in amounts:
        for unit in UNITS:
            for pre in ['T#', 'TIME#', 't#', 'time#']:
                if pre not in ('T#',) and amt not in ('1', '1.5', '0.25'): continue
                for neg in (False, True):
                    if neg and amt not in ('1', '1.5', '0', '9223372036854775807'): continue
                    lit = f'{pre}{"-" if neg else ""}{amt}{unit}'
                    cases.append(('TIME', lit, dur_expected(amt, unit, neg), f'dur-{unit}'))
            for u2 in (unit.upper(),):
                cases.append(('TIME', f'T#{amt}{u2}', dur_expected(amt, unit, False), f'dur-{unit}-upper'))
    return cases


def random_cases(rng, n):
    """thorough tier: literals drawn at random from the same spaces, judged by the same exact oracles"""
    cases = []
    def with_underscores(digs):
        out = [digs[0]]
        for ch in digs[1:]:
            if rng.random() < 0.15: out.append('_')
            out.append(ch)
        return ''.join(out)
    for _ in range(n):
        k = rng.random()
        if k < 0.4:
            bits = rng.choice([4, 8, 16, 31, 32, 33, 63, 64, 65, 100, 127, 128, 129, 140])
            v = rng.getrandbits(bits) | (1 << (bits - 1)) if rng.random() < 0.7 else rng.getrandbits(bits)
            base, pre, fmt = rng.choice([(10, '', '{}'), (16, '16#', '{:X}'), (8, '8#', '{:o}'), (2, '2#', '{:b}')])
            digs = with_underscores(fmt.format(v))
            if base == 16 and rng.random() < 0.3: digs = digs.lower()
            sign = rng.choice(['', '', '+', '-']) if base == 10 else ''
            if v >= 2**128: exp = 'ERR P0002'
            else: exp = f'int {"-" if sign == "-" else "+"} {v} -'
            cases.append(('INT', pre + sign + digs if base != 10 else sign + digs, exp, f'rnd-int-base{base}'))
        elif k < 0.75:
            whole = str(rng.randrange(0, 10 ** rng.randrange(1, 18)))
            frac = ''.join(rng.choice('0123456789') for _ in range(rng.randrange(1, 20)))
            txt = with_underscores(whole) + '.' + with_underscores(frac)
            if rng.random() < 0.6:
                txt += rng.choice(['E', 'e']) + rng.choice(['', '+', '-']) + str(rng.choice([rng.randrange(0, 30), rng.randrange(280, 345), rng.randrange(0, 400)]))
            sign = rng.choice(['', '', '-', '+'])
            ty = rng.choice([None, None, 'REAL', 'LREAL'])
            clean = ('-' if sign == '-' else '') + txt.replace('_', '')
            try:
                f = float(clean)
                if f in (float('inf'), float('-inf')): raise OverflowError
                exp = f'real {struct.pack(">d", f).hex()} {ty or "-"}'
            except (ValueError, OverflowError):
                exp = 'ERR P0002'
            cases.append(('REAL', (f'{ty}#' if ty else '') + sign + txt, exp, 'rnd-real'))
        else:
            unit = rng.choice(list(UNITS))
            whole = str(rng.choice([rng.randrange(0, 1000), rng.randrange(0, 10**9), rng.randrange(2**63 - 5, 2**63 + 5), rng.randrange(2**64 - 3, 2**64 + 3)]))
            amt = with_underscores(whole)
            if rng.random() < 0.6:
                amt += '.' + with_underscores(''.join(rng.choice('0123456789') for _ in range(rng.randrange(1, 17))))
            neg = rng.random() < 0.25
            cases.append(('TIME', f'T#{"-" if neg else ""}{amt}{unit}', dur_expected(amt, unit, neg), f'rnd-dur-{unit}'))
    return cases


def tod_expected(h, m, s_txt):
    s_txt = s_txt.replace('_', '')
    s = Fraction(s_txt)
    whole = int(s_txt.split('.')[0]); frac = s - whole
    if h > 23 or m > 59 or whole > 59: return None
    nanos = frac * 10**9
    if nanos.denominator != 1: return None
    return (h, m, whole, int(nanos) // 1000, int(nanos))


def tod_cases():
    cases = []
    for h in [0, 1, 12, 23, 24, 255, 256]:
        for m in [0, 59, 60, 300]:
            for s in ['0', '59', '60', '300', '59.5', '59.999999', '0.000001', '0.0000001', '59.9999999999', '59.2_5', '0.000_001', '3_0.12_5']:
                if (h not in (0, 23)) and (m not in (0, 59)) and s not in ('0', '59'): continue
                e = tod_expected(h, m, s)
                exp = f'tod {e[0]} {e[1]} {e[2]} {e[3]}' if e else 'ERR P0002'
                # microsecond resolution of the observation: sub-microsecond fractions are checked through the model only
                if e and e[4] % 1000: exp = None
                for pre in ['TOD#', 'TIME_OF_DAY#']:
                    cases.append(('TOD', f'{pre}{h}:{m:02d}:{s}', exp, 'tod'))
    for (h, m, sec) in [(257, 0, '0'), (0, 257, '0'), (0, 0, '257'), (65537, 0, '0'), (2 ** 32 + 1, 0, '0'), (0, 2 ** 32 + 1, '0'), (0, 0, str(2 ** 32 + 1)), (0, 0, str(2 ** 64 + 1))]:
        cases.append(('TOD', f'TOD#{h}:{m:02d}:{sec}', 'ERR P0002', 'tod-wrap'))
    return cases


def date_valid(y, m, d):
    if y == 0:
        try: datetime.date(4, m, d); return True    # year 0 is a leap year in the proleptic calendar the time crate uses
        except ValueError: return False
    try: datetime.date(y, m, d); return True
    except ValueError: return False


def date_cases():
    cases = []
    for y in [0, 1, 1970, 2023, 2024, 2100, 9999, 10000]:
        for m in [0, 1, 2, 12, 13]:
            for d in [0, 1, 28, 29, 30, 31, 32]:
                ok = y <= 9999 and date_valid(y, m, d) if m in range(1, 13) else False
                exp = f'date {y} {m} {d}' if ok else 'ERR P0002'
                for pre in (['D#', 'DATE#'] if (y, m) in ((2024, 2), (2023, 2)) else ['D#']):
                    cases.append(('DATE', f'{pre}{y}-{m:02d}-{d:02d}', exp, 'date'))
    # fields that are valid only modulo a machine word (a narrowing conversion before the calendar check lets them through)
    for (y, m, d) in [(2024, 257, 20), (2024, 258, 20), (2024, 268, 20), (2024, 1, 257), (2024, 2, 285), (2024, 1, 65537), (2024, 65537, 1),
                      (2 ** 32 + 2024, 1, 20), (2 ** 16 + 2024, 1, 20), (2 ** 31, 1, 1), (2 ** 64 + 2024, 1, 20), (2024, 2 ** 32 + 1, 1), (2024, 1, 2 ** 32 + 1)]:
        cases.append(('DATE', f'D#{y}-{m:02d}-{d:02d}', 'ERR P0002', 'date-wrap'))
        cases.append(('DT', f'DT#{y}-{m:02d}-{d:02d}-12:30:00', 'ERR P0002', 'dt-wrap'))
    for (y, mo, d, h, mi, s) in [(2024, 2, 29, 23, 59, '59'), (2023, 2, 29, 0, 0, '0'), (2024, 12, 31, 24, 0, '0'), (2024, 1, 1, 0, 60, '0'),
                                 (2024, 1, 1, 0, 0, '60'), (2024, 6, 15, 12, 30, '15.5'), (9999, 12, 31, 23, 59, '59.999999')]:
        t = tod_expected(h, mi, s)
        ok = date_valid(y, mo, d) and t is not None
        exp = f'dt {y} {mo} {d} {t[0]} {t[1]} {t[2]} {t[3]}' if ok else 'ERR P0002'
        for pre in ['DT#', 'DATE_AND_TIME#']:
            cases.append(('DT', f'{pre}{y}-{mo:02d}-{d:02d}-{h}:{mi:02d}:{s}', exp, 'dt'))
    return cases


def str_cases():
    cases = []
    for body in ['', 'a', 'abc', 'a b c', 'x$Ny', '$$', "it''s"[:2], 'é', '日本', '(* c *)', 'a"b', '1;2', 'UPPER lower']:
        if "'" in body: continue
        chars = ','.join(str(ord(c)) for c in body)
        cases.append(('STRING', f"'{body}'", f'str {chars}', 'str'))
        cases.append(('STRING', f"STRING#'{body}'", f'str {chars}', 'str-typed'))
    # the other kind of quote is an ordinary character, also first and last
    for body in ['"quoted"', '"', '""', 'say "hi"', '"a', 'a"', '""x""']:
        chars = ','.join(str(ord(c)) for c in body)
        cases.append(('STRING', f"'{body}'", f'str {chars}', 'str-dquote-inside'))
    for body in ["'quoted'", "'", "''", "it's'", "'a", "a'"]:
        chars = ','.join(str(ord(c)) for c in body)
        cases.append(('WSTRING', f'"{body}"', f'str {chars}', 'wstr-squote-inside'))
    for body in ['', 'w', 'wide é', "a'b"]:
        chars = ','.join(str(ord(c)) for c in body)
        cases.append(('WSTRING', f'"{body}"', f'str {chars}', 'wstr'))
    for lit, exp in [('TRUE', 'bool 1'), ('FALSE', 'bool 0'), ('BOOL#1', 'bool 1'), ('BOOL#0', 'bool 0'), ('BOOL#TRUE', 'bool 1'),
                     ('BOOL#FALSE', 'bool 0'), ('true', 'bool 1'), ('bool#false', 'bool 0')]:
        cases.append(('BOOL', lit, exp, 'bool'))
    return cases


def addr_cases():
    cases = []
    for loc in 'IQM':
        for size in ['', 'X', 'B', 'W', 'D', 'L']:
            for parts in [['0'], ['7'], ['12'], ['255'], ['1', '2'], ['10', '20'], ['1', '2', '3'], ['100', '200', '300'], ['4294967295'], ['4294967296'],
                          ['007'], ['1', '99999999999']]:
                txt = f'%{loc}{size}' + '.'.join(parts)
                ok = all(int(p) < 2**32 for p in parts)
                exp = f"addr {loc} {size or 'Nil'} " + '.'.join(str(int(p)) for p in parts) if ok else 'ERR P0002'
                cases.append((txt, exp, 'addr'))
        cases.append((f'%{loc}*', f'addr {loc} Unspecified ', 'addr-incomplete'))
    cases.append(('%ix1.2', 'addr I X 1.2', 'addr-lower'))
    cases.append(('%Mw3', 'addr M W 3', 'addr-mixed'))
    return cases


KNOWN = [
    {'id': 'C09-compound-duration', 'ty': 'TIME', 'lit': 'T#1d2h3m4s5ms', 'expected': f'dur {86400*10**9 + 2*3600*10**9 + 3*60*10**9 + 4*10**9 + 5*10**6}'},
    {'id': 'C09-compound-duration', 'ty': 'TIME', 'lit': 'T#1h_30m', 'expected': f'dur {5400*10**9}'},
]


def run(ctx):
    core.prepare(ctx)
    cases = []
    extra_cases = [] if ctx.quick() else random_cases(random.Random(ctx.seed), 200000)
    for (ty, lit, exp, kind) in int_cases() + real_cases() + dur_cases() + tod_cases() + date_cases() + str_cases() + extra_cases:
        cases.append({'text': prog(ty, lit), 'lit': lit, 'expected': exp, 'kind': kind, 'is_addr': False})
    for (txt, exp, kind) in addr_cases():
        # `%I*` needs the incompletely-located form and is observed through the tree only
        if kind == 'addr-incomplete':
            cases.append({'text': f'PROGRAM p\nVAR\nx AT {txt} : BOOL;\nEND_VAR\nEND_PROGRAM\n', 'lit': txt, 'expected': exp.rstrip() + ' ', 'kind': kind, 'is_addr': True})
        else:
            cases.append({'text': prog_addr(txt), 'lit': txt, 'expected': exp, 'kind': kind, 'is_addr': True})
    impl_lit = core.run_lines(core.VH, ['lit ' + core.hexs(c['text']) for c in cases], jobs=8)
    impl_parse = core.run_lines(core.VH, ['parse ' + core.hexs(c['text']) for c in cases], jobs=8)
    model_parse = core.run_lines(core.PLCDRV, ['parse ' + core.hexs(c['text']) for c in cases], jobs=12) if ctx.model_available else [None] * len(cases)
    model_addr = core.run_lines(core.PLCDRV, ['addr ' + core.hexs(c['lit']) if c['is_addr'] else 'noop' for c in cases], jobs=4) if ctx.model_available else [None] * len(cases)
    for c, il, ip, mp, ma in zip(cases, impl_lit, impl_parse, model_parse, model_addr):
        ctx.evaluations += 1
        ctx.count(f"kind:{c['kind']}")
        ctx.feature((c['kind'], c['lit']))
        show = {'literal': c['lit'], 'text': c['text']}
        got = il.strip() if not il.startswith('addr') else il
        if il.startswith('PANIC') or il.startswith('DIED') or il.startswith('TIMEOUT'):
            ctx.violations.append({'stream': 'literal', 'case': show, 'impl': il[:200], 'model': mp, 'what': f'the parser crashed on the literal {c["lit"]}'})
            continue
        # correspondence: whole tree, and address components
        if mp is not None:
            ctx.traces += 1
            ci, cm = canon_impl(ip), canon_model(mp)
            if ci != cm:
                d = first_diff(ci, cm)
                ctx.corr_fail.append({'stream': 'literal', 'case': show, 'model': cm[max(0, d - 100):d + 100], 'impl': ci[max(0, d - 100):d + 100]})
            if c['is_addr'] and ma is not None and c['kind'] != 'addr-incomplete':
                if (ma.strip() == 'ERR') != il.startswith('ERR') or (not il.startswith('ERR') and ma.strip() != il.strip()):
                    ctx.corr_fail.append({'stream': 'address', 'case': show, 'model': ma, 'impl': il})
        # oracle
        exp = c['expected']
        if exp is None: continue
        if exp.strip() != il.strip():
            if exp.startswith('ERR'):
                what = f'the literal {c["lit"]} cannot be represented but is accepted as `{il[:80]}` instead of being rejected'
            elif il.startswith('ERR'):
                what = f'the valid literal {c["lit"]} (value {exp}) is rejected'
            else:
                what = f'the literal {c["lit"]} is read as `{il[:80]}`, its value is `{exp}`'
            ctx.violations.append({'stream': 'literal', 'case': show, 'impl': il[:200], 'model': mp[:200] if mp else None, 'what': what})
        ctx.sample({'literal': c['lit'], 'observed': il[:80]}, limit=6)
    # known findings: replayed on every run
    for k in KNOWN:
        il = core.run_lines(core.VH, ['lit ' + core.hexs(prog(k['ty'], k['lit']))])[0]
        if il.strip() != k['expected']:
            ctx.known_hits.append((k['id'], f'the valid literal {k["lit"]} (value {k["expected"]}) is rejected: {il[:40]}'))
    return core.finish(ctx, level='proof', rule=RULE, extra={'exhaustive': True},
                       assumptions=['binary64 rounding is Rust\'s f64::from_str, compared bit for bit with Python\'s float()',
                                    'a typed integer literal is not range-checked against its type by the parser (that is type checking, not reading the literal)',
                                    'character strings are read verbatim ($-escapes are kept as written)'])
