"""C04 — total and terminating: no input crashes or hangs lex, parse, analyse or render."""
import glob, os, re, time
from .. import core, refgrammar, gen_text, cli
from .c01 import canon_impl, canon_model
from . import c09

RULE = ('byte strings up to 64 KiB of six kinds: arbitrary bytes (uniform, printable-biased, token-character-biased, with and '
        'without BOMs and invalid UTF-8), random sequences of valid tokens, programs printed from the reference grammar with '
        'token-level mutations (delete / duplicate / swap / replace, 1-4 per program; for a few programs and fixtures every single lexeme deleted and doubled), every literal of the C09 enumeration '
        '(valid, out of range, overflowing) in every literal context (initial value, expression, subrange and array bounds, '
        'string length, case selector, task interval and priority, repeat count), bracket / call / subscript / statement '
        'nesting to depth 12, OSCAT description markers in every order and multiplicity up to 4, sets of 1-3 files with 0-300 diagnostics of up to four rules, and flat chains (operators, field selectors, subscripts, statements, ELSIF arms) up to the size '
        'limit, and the repository fixtures with byte-level damage; oracle (implementation only): in-process '
        'tokenize_program / parse_program / analyze / write_to_string each answer ok or a diagnostic — no panic, no abort, no '
        'stack overflow — within the time budget per stage, and `ironplcc tokenize|check|echo` on the same bytes exits 0 or 1 '
        '(never 101, a signal, or a timeout); correspondence: the Lean lexer/parser mirror gives the same verdict (OK tree / '
        'P0031 / P0002) on every valid-UTF-8 case, the Lean model of the subrange bound comparison the same answer as the '
        'analyzer; non-trivial = the input reaches the parser (lexes) or is not plain ASCII; distinct = distinct '
        '(kind, stage verdicts)')

BUDGET_MS = 30000          # per stage, debug build, 64 KiB
CLI_TIMEOUT = 120


def rand_bytes(rng, n, flavour):
    if flavour == 'uniform': return bytes(rng.getrandbits(8) for _ in range(n))
    if flavour == 'printable': return bytes(rng.choice(b' \t\n\r' + bytes(range(33, 127))) for _ in range(n))
    if flavour == 'tokenchars': return bytes(rng.choice(b' \n;:=().,#%\'"$*+-/<>[]_0123456789ABCDEFXTabcdefxt') for _ in range(n))
    if flavour == 'utf8':
        s = ''.join(rng.choice(['a', 'é', '日', '\U0001F600', ' ', '\n', ';', ':=', "'", '"', '(*', '*)', '﻿', ' ']) for _ in range(n // 2))
        return s.encode('utf-8')[:n]
    if flavour == 'bom16': return rng.choice([b'\xff\xfe', b'\xfe\xff', b'\xef\xbb\xbf']) + bytes(rng.getrandbits(8) for _ in range(n))
    raise ValueError(flavour)


def token_soup(rng, lits, n_tokens):
    words = [l for (v, l, ic) in lits] + ['(*@KEY@:DESCRIPTION*)', '(*@KEY@:END_DESCRIPTION*)', 'x', 'y1', '_z', '1', '16#FF', '2#1', '8#7', '1.5', '1.0E5', 'T#1s', 'TOD#1:2:3', 'D#2024-01-01', '%IX1', '%Q*',
                                           "'s'", '"w"', '(* c *)', '\n', '  ', ':=', '=>', '..', '**', '<>', '<=', '>=']
    # long lexemes with multi-byte characters at every offset (messages quote the offending lexeme)
    for n in (3, 10, 19, 20, 21, 38, 39, 40, 41, 42, 79, 80, 81, 200):
        words += ["'" + 'ü' * n + "'", "'" + 'a' * (n % 3) + 'größer als 日本' * (n // 4 + 1) + "'", '"' + 'x' * (n - 1) + 'é' * 3 + '"',
                  '(* ' + 'é' * n + ' *)', 'i' * n, '9' * n]
    out = []
    for _ in range(n_tokens):
        out.append(rng.choice(words))
        out.append(rng.choice([' ', ' ', ' ', '', '\n']))
    return ''.join(out)


def mutate(rng, lex, lits):
    lex = [x for x in lex]
    words = [('kw', l) for (v, l, ic) in lits] + [('id', 'q'), ('lit', '1'), ('lit', '1.5'), ('lit', "'s'"), ('p', ';'), ('p', ':='), ('p', '(')]
    for n in (10, 20, 39, 40, 41, 80):
        words += [('lit', "'" + 'ü' * n + "'"), ('lit', "'" + 'a' * (n % 3) + 'größer als 日本' * (n // 4 + 1) + "'"), ('lit', '(* ' + 'é' * n + ' *)'), ('id', 'i' * n)]
    kinds = []
    for _ in range(rng.choice([1, 1, 2, 3, 4])):
        idx = [i for i, x in enumerate(lex) if x[0] not in ('_', 'nl', 'g0')]
        if not idx: break
        i = rng.choice(idx)
        k = rng.choice(['delete', 'duplicate', 'swap', 'replace'])
        kinds.append(k)
        if k == 'delete': del lex[i]
        elif k == 'duplicate': lex[i:i] = [lex[i], ('_',)]
        elif k == 'swap':
            j = rng.choice(idx); lex[i], lex[j] = lex[j], lex[i]
        else: lex[i] = rng.choice(words)
    return refgrammar.spell(lex), kinds


def literal_contexts(lit):
    """every place of the grammar that reads a literal"""
    return [
        ('init', f'PROGRAM p\nVAR\nx : INT := {lit};\nEND_VAR\nEND_PROGRAM\n'),
        ('expr', f'PROGRAM p\nVAR\nx : INT;\nEND_VAR\nx := {lit} + {lit};\nEND_PROGRAM\n'),
        ('subrange', f'TYPE\nt : INT({lit}..{lit});\nEND_TYPE\n'),
        ('subrange-rev', f'TYPE\nt : INT(-{lit}..{lit});\nu : INT({lit}..-{lit});\nEND_TYPE\n'),
        ('array-bounds', f'PROGRAM p\nVAR\na : ARRAY[{lit}..{lit}] OF INT;\nEND_VAR\nEND_PROGRAM\n'),
        ('string-length', f'PROGRAM p\nVAR\ns : STRING[{lit}];\nEND_VAR\nEND_PROGRAM\n'),
        ('case', f'PROGRAM p\nVAR\nx : INT;\nEND_VAR\nCASE x OF\n{lit}: x := 1;\n{lit}..{lit}: x := 2;\nEND_CASE;\nEND_PROGRAM\n'),
        ('task', f'CONFIGURATION c\nRESOURCE r ON pc\nTASK t(INTERVAL := {lit}, PRIORITY := {lit});\nPROGRAM i WITH t : p;\nEND_RESOURCE\nEND_CONFIGURATION\n'),
        ('repeat-count', f'TYPE\na : ARRAY[1..2] OF INT := [{lit}({lit})];\nEND_TYPE\n'),
        ('subscript', f'PROGRAM p\nVAR\na : ARRAY[1..2] OF INT;\nEND_VAR\na[{lit}] := a[{lit}];\nEND_PROGRAM\n'),
    ]


def nest(depth, kind):
    inner = 'x := 1;'
    for d in range(depth):
        if kind == 'if': inner = f'IF x > {d} THEN\n{inner}\nELSIF x = {d} THEN\n{inner if d < 3 else "x := 2;"}\nELSE\nx := 0;\nEND_IF;'
        elif kind == 'for': inner = f'FOR i := 0 TO {d} DO\n{inner}\nEND_FOR;'
        elif kind == 'while': inner = f'WHILE x < {d} DO\n{inner}\nEND_WHILE;'
        elif kind == 'repeat': inner = f'REPEAT\n{inner}\nUNTIL x > {d}\nEND_REPEAT;'
        elif kind == 'case': inner = f'CASE x OF\n{d}: {inner}\nELSE\n{inner if d < 3 else "x := 2;"}\nEND_CASE;'
    return f'PROGRAM p\nVAR\nx : INT;\ni : INT;\nEND_VAR\n{inner}\nEND_PROGRAM\n'


def nest_expr(depth, kind):
    e = 'x'
    for d in range(depth):
        if kind == 'paren': e = f'({e} + {d})'
        elif kind == 'paren-left': e = f'({d} * {e})'
        elif kind == 'call': e = f'f({e}, {d})'
        elif kind == 'subscript': e = f'a[{e}]'
        elif kind == 'unary': e = f'-({e})'
        elif kind == 'not': e = f'NOT ({e})'
        elif kind == 'bare-paren': e = f'({e})'
    return f'PROGRAM p\nVAR\nx : INT;\na : ARRAY[0..9] OF INT;\nEND_VAR\nx := {e};\nEND_PROGRAM\n'


def chain(kind, size):
    head = 'PROGRAM p\nVAR\nx : INT;\nEND_VAR\n'
    tail = '\nEND_PROGRAM\n'
    room = size - len(head) - len(tail) - 16
    if kind in ('+', '-', '*', 'AND', '**', '<', '='):
        unit = f'1 {kind} '
        return head + 'x := ' + unit * (room // len(unit)) + '1;' + tail
    if kind == 'field': return head + 'x := ' + 'a.' * (room // 2) + 'b;' + tail
    if kind == 'subscript': return head + 'x := a' + '[1]' * (room // 3) + ';' + tail
    if kind == 'statements': return head + 'x := 1;\n' * (room // 8) + tail
    if kind == 'elsif': return head + 'IF x = 0 THEN x := 1;\n' + 'ELSIF x = 1 THEN x := 2;\n' * (room // 25) + 'END_IF;' + tail
    if kind == 'case-groups': return head + 'CASE x OF\n' + ''.join(f'{i}: x := {i};\n' for i in range(room // 16)) + 'END_CASE;' + tail
    if kind == 'params': return head + 'x := f(' + '1, ' * (room // 3) + '1);' + tail
    if kind == 'vars': return 'PROGRAM p\nVAR\n' + ''.join(f'v{i} : INT;\n' for i in range((size - 40) // 14)) + 'END_VAR\nEND_PROGRAM\n'
    if kind == 'var-names': return 'PROGRAM p\nVAR\n' + ', '.join(f'v{i}' for i in range((size - 50) // 8)) + ' : INT;\nEND_VAR\nEND_PROGRAM\n'
    if kind == 'enum-values': return 'TYPE\ne : (' + ', '.join(f'v{i}' for i in range((size - 30) // 8)) + ');\nEND_TYPE\n'
    if kind == 'decls': return ''.join(f'FUNCTION_BLOCK fb{i}\nVAR\nx : INT;\nEND_VAR\nx := {i};\nEND_FUNCTION_BLOCK\n' for i in range(size // 75))
    if kind == 'comment': return head + '(* ' + 'c ' * (room // 2) + '*)' + tail
    if kind == 'comment-stars': return head + '(*' + '*' * room + ')' + tail
    if kind == 'string': return head + "x := '" + 's' * room + "';" + tail
    if kind == 'digits': return head + 'x := ' + '9' * room + ';' + tail
    if kind == 'underscores': return head + 'x := 1' + '_1' * (room // 2) + ';' + tail
    if kind == 'identifier': return head + 'x := ' + 'i' * room + ';' + tail
    if kind == 'unterminated-comment': return head + '(* ' + 'c ' * (room // 2) + tail
    if kind == 'unterminated-string': return head + "x := '" + 's' * room + tail
    if kind == 'open-parens': return head + 'x := ' + '(' * 12 + '1' + tail
    if kind == 'semicolons': return head + ';' * room + tail
    if kind == 'end-ifs': return head + 'IF x = 0 THEN x := 1; END_IF\n' * (room // 30) + tail
    raise ValueError(kind)


CHAINS = ['+', '-', '*', 'AND', '**', '<', '=', 'field', 'subscript', 'statements', 'elsif', 'case-groups', 'params', 'vars', 'var-names', 'enum-values', 'decls',
          'comment', 'comment-stars', 'string', 'digits', 'underscores', 'identifier', 'unterminated-comment', 'unterminated-string', 'open-parens',
          'semicolons', 'end-ifs']


def damage(rng, data):
    b = bytearray(data)
    for _ in range(rng.choice([1, 2, 5])):
        if not b: break
        i = rng.randrange(len(b))
        k = rng.choice(['flip', 'delete', 'insert', 'truncate', 'dup'])
        if k == 'flip': b[i] = rng.getrandbits(8)
        elif k == 'delete': del b[i:i + rng.choice([1, 3, 20])]
        elif k == 'insert': b[i:i] = bytes(rng.getrandbits(8) for _ in range(rng.choice([1, 2, 8])))
        elif k == 'truncate': del b[i:]
        else: b[i:i] = b[i:i + 50]
    return bytes(b[:65536])


def build_cases(ctx, rng, lits, kws):
    q = ctx.quick()
    cases = []
    def add(kind, data, **kw):
        if isinstance(data, str): data = data.encode('utf-8')
        cases.append(dict(kind=kind, data=data[:65536], **kw))
    add('empty', b'')
    for flavour in ['uniform', 'printable', 'tokenchars', 'utf8', 'bom16']:
        for n in ([1, 2, 3, 7, 40, 300] if q else [1, 2, 3, 5, 7, 16, 40, 100, 300, 1000, 5000, 20000, 65536]):
            for _ in range(2 if q else 6):
                add('bytes:' + flavour, rand_bytes(rng, n, flavour))
    for n in ([5, 40, 300] if q else [2, 5, 10, 40, 100, 300, 1000, 8000]):
        for _ in range(8 if q else 40):
            add('token-soup', token_soup(rng, lits, n))
    refgrammar.Gen.OPS = refgrammar.ops_from_table(core.REPO)
    for i in range(60 if q else 2500):
        g = refgrammar.Gen(rng, kws)
        lex, lib = g.library(rng.choice([1, 1, 2]))
        if i % 6 == 0: add('grammar', refgrammar.spell(lex))
        t, kinds = mutate(rng, lex, lits)
        add('mutant', t, sub='+'.join(sorted(set(kinds))))
    # prefixes of valid programs ending exactly after each lexeme (no line end after it), and with a blank / comment after it
    for i in range(4 if q else 60):
        g = refgrammar.Gen(rng, kws)
        lex, lib = g.library(1)
        cut = [k for k, x in enumerate(lex) if x[0] not in ('_', 'nl', 'g0')]
        for k in (cut if len(cut) <= 160 else rng.sample(cut, 160)):
            pre = refgrammar.spell(lex[:k + 1])
            add('prefix', pre, sub=str(lex[k][1])[:12])
            if rng.random() < 0.15: add('prefix', pre + rng.choice([' ', '  (* c *)', '\t', ' (* c *) ']), sub=str(lex[k][1])[:12])
    for w in ['END_IF', 'END_IF ', 'IF a THEN x := 1; END_IF', 'PROGRAM p\nIF a THEN x := 1; END_IF', 'END_IF (* c *)', 'end_if', 'END_IF END_IF']:
        add('prefix', w, sub='end-if')
    # analysable units (valid or with one planted fault) whose statements get structured / subscripted variables in place
    # of plain ones: they parse, and the analysis (type resolution, the rule visitors and their messages) meets shapes
    # the plain units do not have
    from .. import units
    FORMS = ['{v}.N1', '{v}[1]', '{v}.N2[3].N4', '{v}.{v}', '{v}[{v}]', '{v}.N5.N6.N7', '{v}[1, 2]']
    def rewrite(text, form, p):
        """replace variable uses in statements by `form` (None: a random form each time) with probability p"""
        lines = text.split('\n')
        for k, l in enumerate(lines):
            if (':=' in l or '=>' in l) and ' : ' not in l:
                def rw(m):
                    if rng.random() > p: return m.group(0)
                    return (form or rng.choice(FORMS)).format(v=m.group(0))
                # names before `:=` / `=>` / `(` are assignment targets, formal parameters and instance names: keep them (a
                # structured assignment target is P9999 in an early transform, which would end the analysis before the rules)
                lines[k] = re.sub(r'\bN\d+\b(?!\s*(?::=|=>|\())', rw, l)
        return '\n'.join(lines)
    # (1) every fault kind x every form, all eligible uses rewritten (systematic: the diagnostics of each rule quote the
    #     variables they complain about, in each shape a variable can have)
    by_kind = {}
    for _ in range(40):
        decls, ns = units.gen_valid(rng, size=1)
        for x in units.plant_all(decls, ns, rng): by_kind.setdefault(x[0], []).append(x[2])
    for kind in sorted(by_kind):
        for form in (FORMS if not q else rng.sample(FORMS, 4)) :
            add('semantic-mutant', rewrite(units.print_file(rng.choice(by_kind[kind]), rng), form, 1.0), sub=kind)
    # (2) random mixtures
    for i in range(100 if q else 3000):
        decls, ns = units.gen_valid(rng, size=1)
        sub = 'valid'
        if i % 4:
            ss = units.plant_all(decls, ns, rng)
            if ss:
                kind = rng.choice(sorted({x[0] for x in ss}))
                sub, _, decls = rng.choice([x for x in ss if x[0] == kind])
        add('semantic-mutant', rewrite(units.print_file(decls, rng), None, 0.35), sub=sub)
    # declaration graphs with several (connected, nested, disjoint) cycles: the recursion diagnosis must still terminate
    from . import c07
    for i in range(120 if q else 3000):
        n = rng.randint(2, 7)
        edges = list({(rng.randrange(n), rng.randrange(n)) for _ in range(rng.randint(n, 3 * n))})
        t = c07.realise_fb(n, edges, rng)[0] if i % 2 else c07.realise_type(n, edges, rng, 'mixed')[0]
        add('decl-graph', t, sub=f'{n}:{len(edges)}')
    # array types that contain each other or themselves (the declaration sort sees no edge for an element type), with constant
    # and plain variables of those types
    for i in range(40 if q else 600):
        n = rng.randint(1, 5)
        outs = [rng.choice([None] + list(range(n))) for _ in range(n)]
        tys = ''.join(f'  A{j} : ARRAY[1..2] OF {"INT" if outs[j] is None else "A%d" % outs[j]};\n' for j in range(n))
        vs = ''.join(f'  c{j} : A{j};\n' for j in range(n))
        add('decl-graph', f'TYPE\n{tys}END_TYPE\nFUNCTION_BLOCK FBA\nVAR CONSTANT\n{vs}END_VAR\nVAR\n{vs.replace("c", "v")}END_VAR\nEND_FUNCTION_BLOCK\n', sub=f'arrays:{n}')
    # every single lexeme of a text deleted, and every single lexeme doubled (systematic, where the random mutants only sample):
    # a few generated programs and a few repository fixtures per run
    def lexemes(text):
        return [(m.start(), m.end()) for m in re.finditer(r"\(\*.*?\*\)|'[^']*'|\"[^\"]*\"|[A-Za-z_][A-Za-z0-9_]*|[0-9][0-9_.#A-Fa-f]*|:=|=>|\.\.|\*\*|<>|<=|>=|\S", text, re.S)]
    sysm = []
    for i in range(3 if q else 40):
        g = refgrammar.Gen(rng, kws)
        lex, lib = g.library(1)
        sysm.append(('grammar', refgrammar.spell(lex)))
    fxs = [(n, d.decode('utf-8')) for n, d in fx_list(core.REPO) if len(d) < 6000 and d.isascii()]
    if q:
        # the smallest fixture for each of the rarer constructs, and one more at random
        picked = {}
        for marker in ('VAR_CONFIG', 'INITIAL_STEP', 'STRUCT', 'ARRAY', 'CASE'):
            cand = sorted([x for x in fxs if marker in x[1]], key=lambda x: len(x[1]))
            if cand: picked[cand[0][0]] = cand[0]
        extra = rng.choice(fxs) if fxs else None
        if extra: picked[extra[0]] = extra
        chosen_fx = list(picked.values())
    else:
        chosen_fx = fxs
    for n, t in chosen_fx: sysm.append((n, t))
    for name, t in sysm:
        lx = lexemes(t)
        # runs of two and three neighbouring lexemes deleted as well
        for run in (2, 3):
            for k in range(len(lx) - run + 1):
                add('lexeme-deleted', t[:lx[k][0]] + t[lx[k + run - 1][1]:], sub=f'{name[-20:]}:{run}')
        for (a, b) in lx:
            add('lexeme-deleted', t[:a] + t[b:], sub=name[-24:])
            if not q or rng.random() < 0.3: add('lexeme-doubled', t[:b] + ' ' + t[a:b] + t[b:], sub=name[-24:])
    lit_cases = c09.int_cases() + c09.real_cases() + c09.dur_cases() + c09.tod_cases() + c09.date_cases() + c09.str_cases()
    rng.shuffle(lit_cases)
    extremes = ['340282366920938463463374607431768211455', '340282366920938463463374607431768211456', '170141183460469231731687303715884105728', '18446744073709551616',
                '4294967296', '16#FFFFFFFFFFFFFFFFFFFFFFFFFFFFFFFF', '2#' + '1' * 129, '1.0E400', '1.0E-400', '1.7976931348623159E308', 'T#106751991167301h', 'T#9223372036854775807s',
                'T#9223372036854775808s', 'T#18446744073709551615d', 'T#0.0000000001ms', 'TOD#24:00:00', 'TOD#23:59:60', 'D#0000-01-01', 'D#9999-12-31', 'D#10000-01-01',
                'D#2023-02-29', 'DT#9999-12-31-23:59:59.999999999', "'" + 's' * 300 + "'", '0', '-0', '+0', '00000000000000000000000000000000000000001']
    # fractions of every length around the 15-digit limit of the fixed point reader, with and without trailing zeros
    fracs = ['5' + '0' * k for k in (0, 8, 13, 14, 15, 16, 20, 40)] + ['1' * k for k in (9, 10, 14, 15, 16, 17, 30)] + ['0' * k + '1' for k in (5, 8, 9, 14, 15, 16)]
    for fr in fracs:
        for form in ['T#1.{}s', 'T#0.{}ms', 'T#2.{}d', 'TOD#12:00:00.{}', 'DT#2024-01-01-12:00:00.{}', '1.{}', '1.{}E3']:
            extremes.append(form.format(fr))
    for lit in extremes:
        for cname, t in literal_contexts(lit): add('literal:' + cname, t, sub=lit[:24])
    for (ty, lit, exp, kind) in lit_cases[:(60 if q else len(lit_cases))]:
        for cname, t in (literal_contexts(lit) if not q else literal_contexts(lit)[:4]): add('literal:' + cname, t, sub=kind)
    # OSCAT description markers in every order and multiplicity (up to 4) between the declarations of a small program,
    # once with layout-only bodies and once with free text between them: the preprocessor scans for them before the lexer
    import itertools
    MARK = {'D': '(*@KEY@:DESCRIPTION*)', 'E': '(*@KEY@:END_DESCRIPTION*)'}
    pieces = ['TYPE\n  t1 : INT(1..2);\nEND_TYPE\n', 'FUNCTION_BLOCK fb1\nVAR\nx : INT;\nEND_VAR\nx := 1;\nEND_FUNCTION_BLOCK\n',
              'PROGRAM p1\nVAR\ny : INT;\nEND_VAR\ny := 2;\nEND_PROGRAM\n', '', '']
    for n in range(1, 5):
        for seq in itertools.product('DE', repeat=n):
            for body in ('\n', ' free text, not a comment \n'):
                parts = []
                for k, m in enumerate(seq):
                    parts.append(pieces[k]); parts.append(MARK[m] + body)
                parts.append(pieces[len(seq)])
                add('oscat-markers', ''.join(parts), sub=''.join(seq))
    # every list of the language written with no element at all (the grammar takes some of them, rejects others; the stages
    # behind the parser then meet a list they index, fold or take the first element of)
    P = 'PROGRAM p\nVAR\n x : INT;\nEND_VAR\n{}END_PROGRAM\n'
    V = 'PROGRAM p\nVAR\n{}END_VAR\nEND_PROGRAM\n'
    EMPTY = [V.format(' m : () := RUN;\n'), V.format(' m : ();\n'), V.format(' m : (A) := A;\n n : (A) := B;\n'), V.format(''),
             'TYPE\n s : STRUCT\n  m : () := RUN;\n END_STRUCT;\nEND_TYPE\n', 'TYPE\n e : ();\nEND_TYPE\n', 'TYPE\n e : () := A;\nEND_TYPE\n',
             'TYPE\n s : STRUCT\n END_STRUCT;\nEND_TYPE\n', 'TYPE\nEND_TYPE\n', 'TYPE\n e : (A);\n s : STRUCT\n  m : e := ();\n END_STRUCT;\nEND_TYPE\n',
             V.format(' a : ARRAY[] OF INT;\n'), V.format(' a : ARRAY[1..2] OF INT := [];\n'), V.format(" s : STRING[] := '';\n"),
             V.format(' r : INT(..);\n'), V.format(' r : INT();\n'), V.format(' a, : INT;\n'), V.format(' : INT;\n'),
             P.format('CASE x OF\nEND_CASE;\n'), P.format('CASE x OF\n 1:\nEND_CASE;\n'), P.format('CASE x OF\n :\n x := 1;\nEND_CASE;\n'),
             P.format('x := f();\n'), P.format('x := a[];\n'), P.format('x := ();\n'), P.format('x := ;\n'), P.format('x();\n'),
             P.format('IF x > 0 THEN\nEND_IF;\n'), P.format('IF x > 0 THEN\nELSIF x > 1 THEN\nELSE\nEND_IF;\n'), P.format('WHILE x > 0 DO\nEND_WHILE;\n'),
             P.format('REPEAT\nUNTIL x > 0 END_REPEAT;\n'), P.format('FOR x := 1 TO 2 DO\nEND_FOR;\n'), P.format(';\n'), P.format(';;;\n'),
             'FUNCTION_BLOCK fb\nEND_FUNCTION_BLOCK\nPROGRAM p\nVAR\n i : fb;\nEND_VAR\ni();\nEND_PROGRAM\n', 'FUNCTION f : INT\nEND_FUNCTION\n',
             'PROGRAM p\nEND_PROGRAM\n', 'CONFIGURATION c\nEND_CONFIGURATION\n', 'CONFIGURATION c\nRESOURCE r ON pc\nEND_RESOURCE\nEND_CONFIGURATION\n',
             'CONFIGURATION c\nVAR_GLOBAL\nEND_VAR\nRESOURCE r ON pc\nPROGRAM i : p;\nEND_RESOURCE\nEND_CONFIGURATION\nPROGRAM p\nEND_PROGRAM\n',
             'CONFIGURATION c\nRESOURCE r ON pc\nTASK t();\nPROGRAM i WITH t : p;\nEND_RESOURCE\nEND_CONFIGURATION\nPROGRAM p\nEND_PROGRAM\n',
             'FUNCTION_BLOCK fb\nINITIAL_STEP s:\nEND_STEP\nEND_FUNCTION_BLOCK\n', 'FUNCTION_BLOCK fb\nINITIAL_STEP s:\nEND_STEP\nTRANSITION FROM () TO ()\n := TRUE;\nEND_TRANSITION\nEND_FUNCTION_BLOCK\n']
    for k, t in enumerate(EMPTY): add('empty-list', t, sub=str(k))
    for kind in ['if', 'for', 'while', 'repeat', 'case']:
        for d in ([12] if q else range(1, 13)): add('nest:' + kind, nest(d, kind), sub=str(d))
    for kind in ['paren', 'paren-left', 'call', 'subscript', 'unary', 'not', 'bare-paren']:
        for d in ([12] if q else range(1, 13)): add('nest-expr:' + kind, nest_expr(d, kind), sub=str(d))
    for kind in CHAINS:
        for size in ([2000] if q else [2000, 16000, 65536]): add('chain:' + kind, chain(kind, size), sub=str(size))
    fx = []
    for f in sorted(glob.glob(os.path.join(core.REPO, 'compiler', '**', '*.st'), recursive=True)):
        if '/target/' not in f: fx.append((os.path.relpath(f, core.REPO), open(f, 'rb').read()))
    for name, data in fx:
        add('fixture', data, sub=name)
        for _ in range(1 if q else 12): add('fixture-damaged', damage(rng, data), sub=name)
    return cases


def fx_list(repo):
    out = []
    for f in sorted(glob.glob(os.path.join(repo, 'compiler', '**', '*.st'), recursive=True)):
        if '/target/' not in f: out.append((os.path.relpath(f, repo), open(f, 'rb').read()))
    return out


def parse_total(o):
    """-> dict stage -> (verdict, ms), panics list; None when the process died"""
    if o.startswith('DIED') or o.startswith('PANIC') or o.startswith('TIMEOUT') or o.startswith('SKIPPED'): return None
    st, panics = {}, []
    for w in o.split(' '):
        if w.startswith('PANIC('): panics.append(w[6:-1]); continue
        if '=' in w:
            k, v = w.split('=', 1)
            r, ms = v.rsplit(':', 1)
            st[k] = (r, int(ms))
    return st, panics


def run(ctx):
    core.prepare(ctx, need_binary=True)
    rng = ctx.rng
    lits = gen_text.token_literals()
    kws = [l for (v, l, ic) in lits]
    known = core.load_known('C04')
    cases = build_cases(ctx, rng, lits, kws)
    # ---- in-process: every stage under catch_unwind, on the stack the binary uses
    t0 = time.time()
    big = [i for i, c in enumerate(cases) if len(c['data']) > 8000]
    small = [i for i, c in enumerate(cases) if len(c['data']) <= 8000]
    out = [None] * len(cases)
    req = lambda c: 'total ' + (c['data'].hex() if c['data'] else '-')
    for idxs, jobs in ((small, 12), (big, 8)):
        res = core.run_lines(core.VH, [req(cases[i]) for i in idxs], jobs=jobs, timeout=1800, line_timeout=(60 if idxs is small else 240))
        for i, r in zip(idxs, res): out[i] = r
    for c, o in zip(cases, out):
        ctx.evaluations += 1
        ctx.count('kind:' + c['kind'].split(':')[0])
        show = {'kind': c['kind'], 'sub': c.get('sub'), 'bytes_hex': c['data'].hex() if len(c['data']) <= 4000 else None, 'size': len(c['data']),
                'text': c['data'][:600].decode('utf-8', 'replace')}
        if len(c['data']) > 4000: show['regenerate'] = f"kind {c['kind']} sub {c.get('sub')} seed {ctx.seed}"
        if o.startswith('SKIPPED'):
            ctx.count('skipped-after-repeated-timeouts'); continue
        pt = parse_total(o)
        if pt is None:
            ctx.violations.append({'stream': 'in-process', 'case': show, 'impl': o[:200], 'model': None,
                                   'what': ('a stage did not return within the watchdog time (hang): ' if o.startswith('TIMEOUT') else 'the process running tokenize/parse/analyze/render died (abort or stack overflow): ') + o[:60]})
            continue
        st, panics = pt
        verdict = tuple((k, v[0]) for k, v in sorted(st.items()))
        ctx.count('lex:' + st['lex'][0]); ctx.count('parse:' + st['parse'][0].split('-')[0]); ctx.count('analyze:' + st['analyze'][0]); ctx.count('render:' + st['render'][0])
        if st['lex'][0] == 'ok' or any(b > 127 for b in c['data'][:2000]): ctx.feature((c['kind'], c.get('sub') if c['kind'].split(':')[0] in ('literal', 'nest', 'nest-expr', 'chain', 'mutant') else None, verdict))
        if panics:
            ctx.violations.append({'stream': 'in-process', 'case': show, 'impl': o[:300], 'model': None, 'what': 'panic: ' + '; '.join(panics)[:200]})
            continue
        slow = [(k, v[1]) for k, v in st.items() if v[1] > BUDGET_MS]
        if slow:
            ctx.violations.append({'stream': 'in-process', 'case': show, 'impl': o[:300], 'model': None,
                                   'what': f'stage over the time budget of {BUDGET_MS} ms: {slow}'})
        c['st'] = st
        ctx.sample({'kind': c['kind'], 'size': len(c['data']), 'answer': o[:120]}, limit=5)
    ctx.hist['max_stage_ms'] = max([v[1] for c in cases if 'st' in c for v in c['st'].values()] or [0])
    # ---- correspondence: the lexer / parser mirror gives the same verdict (valid UTF-8 only: the mirror works on text)
    if ctx.model_available:
        idx = []
        for i, c in enumerate(cases):
            if 'st' not in c or len(c['data']) > 20000: continue
            try: c['text'] = c['data'].decode('utf-8')
            except UnicodeDecodeError: continue
            if c['text'].startswith('﻿') or not c['text']: continue
            idx.append(i)
        reqs = ['parse ' + core.hexs(cases[i]['text']) for i in idx]
        ip = core.run_lines(core.VH, reqs, jobs=12)
        mp = core.run_lines(core.PLCDRV, reqs, jobs=12, timeout=1800)
        for i, a, b in zip(idx, ip, mp):
            ctx.traces += 1
            if len(cases[i]['text']) > 3000:
                # deep trees: compare the verdict only (tree equality is C01's subject)
                ca, cb = (a[:2] if a.startswith('OK') else a.split('@')[0]), (b[:2] if b and b.startswith('OK') else (b or '').split('@')[0])
            else:
                ca, cb = canon_impl(a), canon_model(b)
            if ca != cb:
                ctx.corr_fail.append({'stream': 'parse-verdict', 'case': {'kind': cases[i]['kind'], 'text': cases[i]['text'][:2000]}, 'model': cb[:160], 'impl': ca[:160]})
        # subrange bound comparison
        mags = [0, 1, 2, 2**63, 2**64, 2**127 - 1, 2**127, 2**127 + 1, 2**128 - 2, 2**128 - 1]
        sub = [(an, a, bn, b) for an in (0, 1) for a in mags for bn in (0, 1) for b in mags]
        mo = core.run_lines(core.PLCDRV, [f'sublt {an} {a} {bn} {b}' for (an, a, bn, b) in sub], jobs=4)
        im = core.run_lines(core.VH, ['analyze ' + core.hexs(f"TYPE\nt : INT({'-' if an else ''}{a}..{'-' if bn else ''}{b});\nEND_TYPE\n") for (an, a, bn, b) in sub], jobs=8)
        for (an, a, bn, b), m, o in zip(sub, mo, im):
            ctx.traces += 1
            ctx.evaluations += 1
            truth = (-a if an else a) < (-b if bn else b)
            impl_lt = 'P0004' not in o
            if o.startswith('PANIC') or o.startswith('DIED') or o.startswith('TIMEOUT'):
                ctx.violations.append({'stream': 'subrange', 'case': {'text': f'INT({"-" if an else ""}{a}..{"-" if bn else ""}{b})'}, 'impl': o[:200], 'model': m, 'what': 'the subrange rule crashed'})
            elif impl_lt != truth:
                ctx.violations.append({'stream': 'subrange', 'case': {'text': f'INT({"-" if an else ""}{a}..{"-" if bn else ""}{b})'}, 'impl': o[:200], 'model': m,
                                       'what': 'the subrange rule answers a diagnostic where the bounds are in order, or none where they are not'})
            if (m.strip() == '1') != impl_lt:
                ctx.corr_fail.append({'stream': 'subrange-compare', 'case': {'text': f'{an} {a} {bn} {b}'}, 'model': m, 'impl': o[:100]})
    # ---- the binary on the same bytes
    pick = list(range(len(cases)))
    rng.shuffle(pick)
    chains = [i for i, c in enumerate(cases) if c['kind'].startswith('chain:') or c['kind'].startswith('nest')]
    chosen = (chains if not ctx.quick() else chains[::3]) + pick[:(60 if ctx.quick() else 1200)]
    # an input on which a stage already hung or died in-process is a reported violation: it is not run through the binary
    # again (a hang that many inputs trigger must not turn the check into a wait of CLI_TIMEOUT per input and action)
    chosen = [i for i in chosen if 'st' in cases[i]]
    # the deepest tree a file within the size limit can hold goes through the binary in every tier (the stack of the
    # compiler thread is a constant of the binary)
    cases.append(dict(kind='chain:+', data=chain('+', 65536).encode(), sub='65536-cli'))
    chosen.append(len(cases) - 1)
    import concurrent.futures as cf
    def run_one(i):
        c = cases[i]
        res = []
        with cli.Workdir() as w:
            p = w.write('f.st', c['data'])
            for action in ('tokenize', 'check', 'echo'):
                t = time.time()
                r = cli.run_cli([action, p], timeout=CLI_TIMEOUT)
                res.append((action, r['rc'], time.time() - t, r['stderr'][-300:]))
        return i, res
    with cf.ThreadPoolExecutor(8) as ex:
        for i, res in ex.map(run_one, chosen):
            c = cases[i]
            for action, rc, secs, err in res:
                ctx.evaluations += 1
                ctx.count(f'cli:{action}:rc={rc}')
                if rc not in (0, 1):
                    what = (f'`ironplcc {action}` did not finish within {CLI_TIMEOUT}s' if rc == 'timeout' else
                            f'`ironplcc {action}` panicked (exit 101)' if rc == 101 else f'`ironplcc {action}` was killed by a signal / aborted (status {rc})')
                    ctx.violations.append({'stream': 'cli', 'case': {'kind': c['kind'], 'sub': c.get('sub'), 'size': len(c['data']),
                                                                     'bytes_hex': c['data'].hex() if len(c['data']) <= 4000 else None,
                                                                     'text': c['data'][:600].decode('utf-8', 'replace')},
                                           'impl': err, 'model': None, 'what': what})
    # ---- sets of several files with many diagnostics of several rules (0, 1, 2, 10, 11, 20, 21, 22, 40, 100 per set): what the
    #      analysis does with its list of diagnostics (collecting, ordering, reporting) must not depend on how many there are
    def faulty_decls(kind, base, n):
        if kind == 'subrange': return ''.join(f'TYPE\n  T{base + j} : INT({5 + j}..{j});\nEND_TYPE\n' for j in range(n))
        if kind == 'enum': return ''.join(f'TYPE\n  E{base + j} : (A{base + j}, B{base + j}, A{base + j});\nEND_TYPE\n' for j in range(n))
        if kind == 'struct': return ''.join(f'TYPE\n  S{base + j} : STRUCT\n    X : INT;\n    X : BOOL;\n  END_STRUCT;\nEND_TYPE\n' for j in range(n))
        return ''.join(f'FUNCTION_BLOCK F{base + j}\nVAR CONSTANT\n  C : INT;\nEND_VAR\nEND_FUNCTION_BLOCK\n' for j in range(n))
    many = []
    for total in ([0, 1, 2, 11, 21, 22, 40] if ctx.quick() else [0, 1, 2, 5, 10, 11, 19, 20, 21, 22, 23, 32, 33, 40, 64, 65, 100, 300]):
        for nfiles in (1, 2, 3):
            for mix in (['subrange'], ['subrange', 'enum'], ['subrange', 'enum', 'struct', 'const']):
                texts = ['PROGRAM P%d\nVAR\n  x : INT;\nEND_VAR\nx := 1;\nEND_PROGRAM\n' % f for f in range(nfiles)]
                for j in range(total):
                    f = rng.randrange(nfiles)
                    texts[f] += faulty_decls(mix[j % len(mix)], 1000 * f + j, 1)
                many.append((total, nfiles, '+'.join(mix), texts))
    mres = core.run_lines(core.VH, ['project ' + ' '.join(core.hexs(t) for t in texts) for (_, _, _, texts) in many], jobs=12, line_timeout=120)
    def many_cli(x):
        total, nfiles, mix, texts = x
        return cli.check_files({f'm{k}.st': t for k, t in enumerate(texts)}, order=[f'm{k}.st' for k in range(len(texts))], timeout=CLI_TIMEOUT)
    with cf.ThreadPoolExecutor(8) as ex:
        mcli = list(ex.map(many_cli, many))
    for (total, nfiles, mix, texts), o, r in zip(many, mres, mcli):
        ctx.evaluations += 2
        ctx.count('many-diagnostics:sets')
        show = {'kind': 'many-diagnostics', 'sub': f'{total} faults of {mix} over {nfiles} file(s)', 'size': sum(len(t) for t in texts),
                'texts': texts if sum(len(t) for t in texts) < 6000 else None}
        ctx.feature(('many-diagnostics', total, nfiles, mix))
        if not (o == 'OK' or o.startswith('ERR')):
            ctx.violations.append({'stream': 'in-process', 'case': show, 'impl': o[:300], 'model': None, 'what': f'the analysis of the set did not return: {o[:80]}'})
        elif (o == 'OK') != (total == 0):
            ctx.violations.append({'stream': 'in-process', 'case': show, 'impl': o[:300], 'model': None, 'what': 'the verdict of the set is wrong'})
        if r['rc'] not in (0, 1):
            ctx.violations.append({'stream': 'cli', 'case': show, 'impl': cli.strip_ansi(r['stderr'])[-300:], 'model': None,
                                   'what': f'`ironplcc check` on the set ended with status {r["rc"]} (crash or hang)'})
    for k in known:
        for wt in k.get('witness_hex', []):
            o = core.run_lines(core.VH, ['total ' + wt])[0]
            pt = parse_total(o)
            if pt is None or pt[1]:
                ctx.known_hits.append((k['id'], f'{o[:100]}'))
    ctx.violations.sort(key=lambda v: v['case'].get('size', len(v['case'].get('text', ''))))
    ctx.notes.append(f'in-process stage runs took {time.time() - t0:.0f}s in total')
    return core.finish(ctx, level='proof', rule=RULE,
                       assumptions=['the in-process observation runs on a thread with the stack size the ironplcc binary gives its compiler thread (1 GiB)',
                                    f'time budget: {BUDGET_MS} ms per stage in-process, {CLI_TIMEOUT} s per CLI action, debug build',
                                    'panics, aborts, stack depth and time are runtime behaviour the Lean model cannot exhibit: the model side of C04 is the totality of the '
                                    'mirrored functions and the agreement of verdicts; the crash-freedom claim itself rests on the explored inputs'])
