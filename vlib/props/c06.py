"""C06 — result is independent of declaration order, file partition, file order and run."""
import itertools
from .. import core, units, cli
from .c02 import parse_impl, parse_model, agree

RULE = ('valid units and single-fault units (every fault kind incl. duplicates and multi-node cycles) with <= 5 top-level '
        'declarations: all permutations (exhaustive), larger units: sampled permutations; each also partitioned into <= 3 '
        'files in every way for small units (sampled for larger) and in every file order; analyze() / '
        'Project::semantic() on every variant; `ironplcc check` with permuted arguments and 5 repeated process runs; '
        'oracle: verdict equal across all variants, for single-fault units also the code set and the set of label '
        'locations (mapped back to the declaration they lie in); non-trivial = >= 2 declarations; distinct = distinct '
        '(unit, permutation, partition)')


def small_unit(rng, k):
    """a valid unit with exactly <= k declarations that still exercises cross-declaration references"""
    ns = units.Names()
    e = ns.new(); v1, v2 = ns.new(), ns.new()
    fbn = ns.new(); fi, fo, fl = ns.new(), ns.new(), ns.new()
    pn = ns.new(); pi, pv, pe, pg = ns.new(), ns.new(), ns.new(), ns.new()
    cn, tn, inst = ns.new(), ns.new(), ns.new()
    sn, se = ns.new(), ns.new()
    decls = [
        ('E', e, [v1, v2], v1),
        ('F', fbn, [units.var(fi, 'i', 'i'), units.var(fo, 'o', 'i'), units.var(fl, 'v', ('n', e), v2)], [('a', fo, [fi])]),
        ('P', pn, [units.var(pi, 'v', ('n', fbn)), units.var(pv, 'v', 'i'), units.var(pg, 'e', 'i', None, True), units.var(pe, 'v', ('n', sn))],
         [('c', pi, [(fi, pv)], [], [(fo, pv)]), ('a', pv, [pg])]),
        ('C', cn, [units.var(pg, 'g', 'i', 5, True)], [tn], [(inst, tn, pn)]),
        ('S', sn, [(se, ('n', e))]),
    ]
    return decls[:k] if k >= 5 else decls, ns


def locate(label, offsets):
    """label 'file:start-end' -> (decl key, relative start) using offsets[file] = [(start, end, key)]"""
    f, _, span = label.rpartition(':')
    try:
        s = int(span.split('-')[0])
    except ValueError:
        return (label,)
    for (a, b, key) in offsets.get(f, []):
        if a <= s < b: return (key, s - a)
    return (f, s)


def variant_texts(files):
    """files: list of decl lists -> (texts, offsets) with decl-relative offset tables"""
    texts, offsets = [], {}
    for i, f in enumerate(files):
        pos = 0; parts = []; tab = []
        for d in f:
            t = units.print_decl(d, None)
            tab.append((pos, pos + len(t.encode()), units.enc_decl(d)))
            parts.append(t); pos += len(t.encode()) + 1
        texts.append('\n'.join(parts))
        offsets[f'f{i}.st'] = tab
    return texts, offsets


def partitions(items, maxparts):
    """all set partitions of items into <= maxparts blocks (as lists of lists, order inside = given order)"""
    if not items:
        yield []; return
    first, rest = items[0], items[1:]
    for p in partitions(rest, maxparts):
        for i in range(len(p)):
            yield p[:i] + [[first] + p[i]] + p[i + 1:]
        if len(p) < maxparts:
            yield [[first]] + p


def run(ctx):
    core.prepare(ctx, need_binary=True)
    rng = ctx.rng
    groups = []   # each: dict(name, single, variants=[files])
    def add_group(name, decls, single):
        vs = []
        n = len(decls)
        if n <= 5:
            perms = list(itertools.permutations(decls))
            if ctx.quick() and len(perms) > 24: perms = rng.sample(perms, 24) + [tuple(decls), tuple(reversed(decls))]
        else:
            perms = [tuple(rng.sample(decls, n)) for _ in range(6 if ctx.quick() else 30)] + [tuple(decls)]
        for p in perms:
            vs.append([list(p)])
        parts = list(partitions(list(decls), 3)) if n <= 5 else []
        if n > 5 or (ctx.quick() and len(parts) > 12):
            parts = (rng.sample(parts, 12) if parts else []) + [units.split_files(rng, decls, rng.choice([2, 3])) for _ in range(6)]
        for p in parts:
            p = [b for b in p if b]
            orders = list(itertools.permutations(p))
            if len(orders) > 2 and ctx.quick(): orders = rng.sample(orders, 2)
            for o in orders: vs.append([list(b) for b in o])
        groups.append({'name': name, 'single': single, 'variants': vs})

    for k in (2, 3, 4, 5):
        decls, ns = small_unit(rng, 5)
        decls = decls if k == 5 else decls[:k] if k >= 3 else [decls[0], decls[1]]
        add_group(f'small-valid-{k}', decls, None)
    decls, ns = small_unit(rng, 5)
    singles = units.plant_all(decls, ns, rng)
    kinds = sorted({s[0] for s in singles})
    for fk in kinds:
        s = rng.choice([x for x in singles if x[0] == fk])
        add_group(f'small-{fk}', s[2], fk)
    # a two-node function block cycle and a three-node type cycle
    a, b, c = 901, 902, 903
    add_group('cycle-2fb', decls[:1] + [('F', a, [units.var(911, 'v', ('n', b))], []), ('F', b, [units.var(912, 'v', ('n', a))], [])], 'cycle')
    add_group('cycle-3type', [('S', a, [(921, ('n', b))]), ('S', b, [(922, ('n', c))]), ('A', c, a), ('E', 930, [931], None)], 'cycle')
    # two independent programs (no reference between them, so their analysis order follows the declaration / file order):
    # what one declares must not be visible in the other, whichever is analysed first
    fb, fin = 940, 941
    p1, p2, inst, v1, v2 = 942, 943, 944, 945, 946
    fbd = ('F', fb, [units.var(fin, 'i', 'i')], [])
    prog1 = ('P', p1, [units.var(inst, 'v', ('n', fb)), units.var(v1, 'v', 'i')], [('c', inst, [(fin, v1)], [], []), ('a', v1, [])])
    add_group('two-programs-valid', [fbd, prog1, ('P', p2, [units.var(v2, 'v', 'i')], [('a', v2, [])])], None)
    add_group('two-programs-call-leak', [fbd, prog1, ('P', p2, [units.var(v2, 'v', 'i')], [('a', v2, []), ('c', inst, [], [], [])])], 'call-instance-declared-in-neighbour')
    add_group('two-programs-var-leak', [fbd, prog1, ('P', p2, [units.var(v2, 'v', 'i')], [('a', v2, [v1])])], 'undefined-var-declared-in-neighbour')
    # two configurations: the constant global that a function block imports stands in one of them (which of the two
    # comes first in the analysis follows the declaration / file order)
    c1, c2, g1, g2, t1, t2, i1, i2, fx, fv = 950, 951, 952, 953, 954, 955, 956, 957, 958, 959
    progd = ('P', p2, [units.var(v2, 'v', 'i')], [('a', v2, [])])
    conf1 = ('C', c1, [units.var(g1, 'g', 'i', 1, False)], [t1], [(i1, t1, p2)])
    conf2 = ('C', c2, [units.var(g2, 'g', 'i', 2, True)], [t2], [(i2, t2, p2)])
    user = lambda const: ('F', fx, [units.var(fv, 'v', 'i'), units.var(g2, 'e', 'i', None, const)], [('a', fv, [g2])])
    add_group('two-configurations-valid', [progd, conf1, conf2, user(True)], None)
    add_group('two-configurations-external-not-const', [progd, conf1, conf2, user(False)], 'external-not-const')
    # a function block that holds an array of instances of another one (the analyzer follows no reference through an array,
    # so which of the two it meets first follows the declaration / file order), valid and with a fault in the program
    cal, cin, car, carr, cv, pa, pav = 980, 981, 982, 983, 984, 985, 986
    callee = ('F', cal, [units.var(cin, 'i', 'i')], [])
    caller = ('F', car, [units.var(carr, 'v', f'f:{cal}'), units.var(cv, 'v', 'i')], [('a', cv, [])])
    add_group('array-of-instances-valid', [callee, caller, ('P', pa, [units.var(pav, 'v', 'i')], [('a', pav, [])])], None)
    add_group('array-of-instances-undefined-var', [callee, caller, ('P', pa, [units.var(pav, 'v', 'i')], [('a', pav, [7996])])], 'undefined-var-rhs')
    # a function and an unrelated program that uses the function's name as a variable: undeclared there, whichever of
    # the two is analysed first
    fn, fa, pm, pl = 960, 961, 962, 963
    func = ('U', fn, [units.var(fa, 'i', 'i')], [('a', fn, [fa])])
    add_group('function-name-valid', [func, ('P', pm, [units.var(pl, 'v', 'i')], [('a', pl, [pl])]), ('E', 964, [965], None)], None)
    add_group('function-name-as-variable', [func, ('P', pm, [units.var(pl, 'v', 'i')], [('a', pl, [fn])]), ('E', 964, [965], None)],
              'undefined-var-named-like-function')
    # one undeclared type used by two unrelated declarations: both uses are reported, whichever is analysed first
    ut, u1, u2, uv1, uv2 = 970, 971, 972, 973, 974
    add_group('unknown-type-used-twice', [('P', u1, [units.var(uv1, 'v', ('n', ut)), units.var(975, 'v', 'i')], [('a', 975, [])]),
                                          ('F', u2, [units.var(uv2, 'v', ('n', ut))], []), ('E', 976, [977], None)], 'unknown-type')
    for _ in range(3 if ctx.quick() else 240):
        decls, ns = units.gen_valid(rng, size=rng.choice([1, 2]))
        add_group('random-valid', decls, None)
        ss = units.plant_all(decls, ns, rng)
        if ss:
            fk, code, ds = rng.choice(ss)
            add_group(f'random-{fk}', ds, fk)

    reqs, meta, cased_flags = [], [], []
    for gi, g in enumerate(groups):
        for vi, files in enumerate(g['variants']):
            texts, offsets = variant_texts(files)
            cmd = 'analyze' if (vi % 2 == 0) else 'project'
            # every third multi-file variant with file names that differ only in letter case (offsets tables keep the f<i>.st keys:
            # the answer's file names are mapped back)
            names = ''
            if len(texts) >= 2 and vi % 3 == 0:
                cased = ['unit.st', 'Unit.st', 'UNIT.st', 'uNit.st', 'unIt.st']
                names = '@names=' + ','.join(core.hexs(cased[k % 5]) for k in range(len(texts))) + ' '
            reqs.append(cmd + ' ' + names + ' '.join(core.hexs(t) if t else '-' for t in texts))
            meta.append((gi, vi, files, texts, offsets))
            cased_flags.append(bool(names))
    impl = core.run_lines(core.VH, reqs, jobs=12)
    import re as _re
    cased = ['unit.st', 'Unit.st', 'UNIT.st', 'uNit.st', 'unIt.st']
    def uncased(io):
        return _re.sub(r'(?<=[@+])(unit\.st|Unit\.st|UNIT\.st|uNit\.st|unIt\.st)(?=:)', lambda m: f'f{cased.index(m.group(1))}.st', io)
    impl = [uncased(io) if fl else io for io, fl in zip(impl, cased_flags)]
    model = core.run_lines(core.PLCDRV, [units.enc_unit(m[2]) for m in meta], jobs=12) if ctx.model_available else [None] * len(meta)
    ref = {}
    for (gi, vi, files, texts, offsets), io, mo in zip(meta, impl, model):
        g = groups[gi]
        ctx.evaluations += 1
        ctx.count(f"group:{g['name'].split('-')[0]}")
        status, codes = parse_impl(io)
        show = {'group': g['name'], 'files': [[units.enc_decl(d) for d in f] for f in files], 'texts': texts}
        if sum(len(f) for f in files) >= 2:
            ctx.feature((g['name'], tuple(tuple(units.enc_decl(d) for d in f) for f in files)))
        if status == 'crash':
            ctx.violations.append({'stream': 'perm', 'case': show, 'what': f'analysis crashed: {codes}', 'impl': io, 'model': mo}); continue
        mg = parse_model(mo) if mo is not None else None
        if mo is not None:
            ctx.traces += 1
            if not agree(mg, status, codes):
                ctx.corr_fail.append({'stream': 'perm', 'case': show, 'model': mo, 'impl': io})
        labels = set()
        if status == 'err':
            for d in io.split()[1:]:
                code, _, rest = d.partition('@')
                rest = rest.split('!')[0]
                for lab in rest.split('+'):
                    labels.add((code,) + locate(lab, offsets))
        sig = (status, frozenset(codes) if g['single'] else None, frozenset(labels) if g['single'] else None)
        if gi not in ref:
            ref[gi] = (sig, show, io)
        elif ref[gi][0] != sig:
            r = ref[gi]
            what = 'verdict' if r[0][0] != sig[0] else 'codes' if r[0][1] != sig[1] else 'label locations'
            ctx.violations.append({'stream': 'perm', 'case': show, 'impl': io, 'model': mo,
                                   'what': f'{what} of the check depend on declaration order / file partition ({g["name"]}): {io[:150]} versus {r[2][:150]}',
                                   'other_variant': r[1]})
    # the binary: argument orders and repeated runs
    import concurrent.futures as cf
    jobs = []
    # faulty groups first (their diagnostics carry the labels that move), and for each the variant with the most files:
    # the more files, the more ways a per-process hash order can rearrange them
    for gi, g in sorted(enumerate(groups), key=lambda x: (x[1]['single'] is None, x[0])):
        multi = [v for v in g['variants'] if len(v) >= 2]
        if not multi: continue
        most = max(len(v) for v in multi)
        files = rng.choice([v for v in multi if len(v) == most])
        texts, _ = variant_texts(files)
        names = [f'f{i}.st' for i in range(len(texts))]
        orders = list(itertools.permutations(names))
        if len(orders) > 3: orders = rng.sample(orders, 3)
        for o in orders:
            for rep in range(6 if o == orders[0] else 1):
                jobs.append((gi, dict(zip(names, texts)), list(o)))
        if len(names) >= 2:
            # the same files with one of them given through a directory argument, the directory first and last
            dn = names[-1]
            rest = names[:-1]
            jobs.append((gi, dict(zip(names, texts)), [(dn,)] + rest))
            jobs.append((gi, dict(zip(names, texts)), rest + [(dn,)]))
        if ctx.quick() and len(jobs) > 260: break
    def do(job):
        gi, files, order = job
        return cli.check_files(files, order=order)
    with cf.ThreadPoolExecutor(12) as ex:
        res = list(ex.map(do, jobs))
    cref = {}
    for (gi, files, order), r in zip(jobs, res):
        ctx.evaluations += 1
        ctx.count('cli-runs')
        # the set of all labels and, separately, which of them is the primary one (first snippet of each diagnostic)
        sig = (r['rc'] == 0, tuple(sorted(set(r['labels']))), tuple(sorted(set(r['diags']))))
        show = {'group': groups[gi]['name'], 'order': order, 'texts': list(files.values())}
        if gi not in cref:
            cref[gi] = (sig, order)
        elif cref[gi][0] != sig:
            ctx.violations.append({'stream': 'cli', 'case': show, 'impl': cli.strip_ansi(r['stderr'])[-400:], 'model': None,
                                   'what': f'`ironplcc check` result depends on argument order or run: {sig} for {order} versus {cref[gi][0]} for {cref[gi][1]}'})
    ctx.sample({'group': groups[4]['name'], 'variant': [[units.enc_decl(d) for d in f] for f in groups[4]['variants'][1]]})
    return core.finish(ctx, level='proof', rule=RULE,
                       assumptions=['fresh hash seeds are sampled by repeated process runs, not enumerated',
                                    'the location of a diagnostic is the set of its labels (primary and secondary), each mapped to the declaration it lies in'])
