"""C05 — every reported position points at the text it is about."""
import re
from .. import core, gen_text, lexcheck, refgrammar, units
from ..streams import run_stream

RULE = ('(1) token stream: sources = fixtures of /repo + generated lexeme soups (keywords in random case, identifiers, numbers, strings, '
        'single/multi-line comments, CRLF, non-ASCII in comments and strings, OSCAT headers, lexical errors, unclosed '
        'openers); each is lexed by the Lean model and by tokenize_program; a case is non-trivial when it has >= 3 lexemes; '
        'distinct = distinct (feature set, length bucket); (2) identifiers: every Id a dsl Visitor reaches in libraries parsed from the reference '
        'grammar (canonical and with non-ASCII comments / CRLF in the gaps) and from the fixtures carries the byte span of its own spelling and the file id, '
        'only elementary type names may be spanless; (3) diagnostic labels: for every single-fault unit of C02 in 1-3 files each label lies in a file of '
        'the set, is non-empty, starts and ends on lexeme boundaries, covers the marker name of the planted fault, and for duplicate names the primary '
        'label is the later declaration and the secondary the first; (4) the ranges of the diagnostics published over LSP for documents with non-ASCII '
        'comments before the labelled text are the line/character of the label offsets; (5) the snippet headers `file:line:col` that `ironplcc check` prints '
        'for multi-file sets are positions of labels of the diagnostic in the file the label names, one snippet per labelled file')


def lex_cases(ctx):
    rng = ctx.rng
    soup = gen_text.Soup(rng)
    cases = []
    for name, t in gen_text.fixture_texts():
        cases.append({'kind': 'fixture', 'name': name, 'text': t, 'feats': frozenset(['fixture', name])})
    n = 400 if ctx.quick() else 20000
    for i in range(n):
        size = rng.choice([1, 2, 3, 5, 8, 13, 30]) if i % 10 else rng.choice([60, 120])
        r = rng.random()
        t, feats = soup.text(size, allow_err=(r < 0.35), allow_opener=(r < 0.2), oscat=(rng.random() < 0.08))
        cases.append({'kind': 'soup', 'text': t, 'feats': feats | {f'len{min(len(t) // 40, 5)}'}})
    return cases


def judge_lex(ctx, case, m, i):
    """-> (correspondence ok, [oracle violations])"""
    corr = (m == i) if m is not None else True
    parsed = lexcheck.parse_lex(i)
    if parsed is None:
        return corr, [f'tokenize_program did not return: {i[:200]}']
    toks, errs = parsed
    return corr, lexcheck.token_oracle(case['text'], toks, errs)


MARKER_LABEL = {'undefined-var-rhs': 7996, 'undefined-var-call-arg': 7996, 'undefined-var-subscript': 7996, 'undefined-var-condition': 7996, 'undefined-var-target': 7995, 'task-undefined': 7999, 'enum-value-undefined': 7998,
                'call-instance-undeclared': 7994, 'call-formal-unknown': 7993}
ELEMENTARY = {'BOOL', 'SINT', 'INT', 'DINT', 'LINT', 'USINT', 'UINT', 'UDINT', 'ULINT', 'REAL', 'LREAL', 'TIME', 'DATE', 'TIME_OF_DAY', 'TOD', 'DATE_AND_TIME', 'DT',
              'STRING', 'WSTRING', 'BYTE', 'WORD', 'DWORD', 'LWORD'}


def id_spans(ctx):
    """every identifier of a parsed library carries the span of its own spelling and the file id"""
    from .c08 import respell
    rng = ctx.rng
    kws = [l for (v, l, ic) in gen_text.token_literals()]
    refgrammar.Gen.OPS = refgrammar.ops_from_table(core.REPO)
    texts = []
    for i in range(80 if ctx.quick() else 3000):
        g = refgrammar.Gen(rng, kws)
        lex, lib = g.library(rng.choice([1, 2]))
        # non-ASCII comments and CRLF in the gaps shift byte offsets away from character offsets
        texts.append(respell(rng, lex, {'trivia', 'id'}) if i % 2 else refgrammar.spell(lex))
    for name, t in gen_text.fixture_texts(): texts.append(t)
    # every keyword of the language in the places of a name (variable, invocation argument, type, POU): where the parser
    # takes it for a name, the name carries its span like any other
    for kw in sorted({l for (v, l, ic) in gen_text.token_literals() if l[0].isalpha()}):
        texts.append(f'FUNCTION_BLOCK fb1\nVAR_INPUT\n  {kw} : BOOL;\nEND_VAR\nVAR\n  v1 : BOOL;\nEND_VAR\nv1 := {kw};\nEND_FUNCTION_BLOCK\n'
                     f'PROGRAM p1\nVAR\n  i1 : fb1;\n  b1 : BOOL;\nEND_VAR\ni1({kw} := b1);\nEND_PROGRAM\n')
        texts.append(f'PROGRAM p2\nVAR CONSTANT\n  {kw} : BOOL;\nEND_VAR\nEND_PROGRAM\n')
    out = core.run_lines(core.VH, ['ids ' + core.hexs(t) for t in texts], jobs=12)
    for t, o in zip(texts, out):
        ctx.evaluations += 1
        if not o.startswith('OK'):
            ctx.count('ids:' + o.split(' ')[0].split('@')[0]); continue
        raw = t.encode('utf-8')
        n_span = 0
        for w in o.split(' ')[1:]:
            if not w: continue
            h, sp, f = w.split('@')
            name = bytes.fromhex(h).decode('utf-8', 'replace')
            a, b = map(int, sp.split('-'))
            bad = None
            if (a, b) == (0, 0):
                if name.upper() not in ELEMENTARY and name != '':
                    bad = f'the identifier `{name}` of the parsed library has no span'
            else:
                n_span += 1
                got = raw[a:b].decode('utf-8', 'replace') if 0 <= a <= b <= len(raw) else None
                if got != name: bad = f'the identifier `{name}` carries the span {a}-{b} whose text is `{got}`'
                elif f != 'f.st': bad = f'the identifier `{name}` carries the file id `{f}` instead of the file it was read from'
            if bad:
                ctx.violations.append({'stream': 'ids', 'case': {'text': t}, 'impl': w, 'model': None, 'what': bad})
                break
        ctx.count('ids:libraries')
        ctx.hist['ids:identifiers-with-span'] = ctx.hist.get('ids:identifiers-with-span', 0) + n_span
        if n_span >= 3 and any(ord(c) > 127 for c in t): ctx.feature(('ids', 'nonascii', min(n_span // 10, 9)))
        elif n_span >= 3: ctx.feature(('ids', min(n_span // 5, 20)))


def diag_labels(ctx):
    """every label of a diagnostic lies in the file it names, covers whole lexemes, and (where the fault carries a marker
    name / is a duplicate) covers the spelling of the construct the message is about"""
    rng = ctx.rng
    cases = []
    for trial in range(15 if ctx.quick() else 300):
        base, ns = units.gen_valid(rng, size=rng.choice([1, 1, 2]))
        for (fk, code, ds) in units.plant_all(base, ns, rng):
            nf = rng.choice([1, 1, 2, 3])
            files = units.split_files(rng, ds, nf) if nf > 1 else [list(ds)]
            vary = rng.random() < 0.5   # enumerated values with their type name (T#V), identifier case per occurrence
            cases.append({'fault': fk, 'code': code, 'texts': [units.print_file(f, rng, vary=vary) for f in files]})
    if ctx.quick() and len(cases) > 500: cases = rng.sample(cases, 500)
    # one global name declared in two configurations, constant in one of them only, and a non-constant external of it:
    # the label "constant global variable" must stand on the constant declaration, wherever the other one stands
    V = units.var
    for k in range(4 if ctx.quick() else 24):
        g, c1, c2, t1, t2, i1, i2, pn, pv, fx, fv = [8100 + 20 * k + j for j in range(11)]
        prog = ('P', pn, [V(pv, 'v', 'i')], [('a', pv, [])])
        plain = ('C', c1, [V(g, 'g', 'i', 1, False)], [t1], [(i1, t1, pn)])
        const = ('C', c2, [V(g, 'g', 'i', 2, True)], [t2], [(i2, t2, pn)])
        user = ('F', fx, [V(fv, 'v', 'i'), V(g, 'e', 'i', None, False)], [('a', fv, [g])])
        ds = [prog, plain, const, user]
        rng.shuffle(ds)
        nf = rng.choice([1, 2, 3])
        files = units.split_files(rng, ds, nf) if nf > 1 else [ds]
        cases.append({'fault': 'external-not-const', 'code': 'P0018', 'texts': [units.print_file(f, rng, vary=rng.random() < 0.5) for f in files if f]})
    out = core.run_lines(core.VH, ['project ' + ' '.join(core.hexs(t) if t else '-' for t in c['texts']) for c in cases], jobs=12)
    lexed = {}
    def token_bounds(text):
        if text not in lexed:
            o = core.run_lines(core.VH, ['lex ' + core.hexs(text)])[0]
            p = lexcheck.parse_lex(o)
            lexed[text] = ({tk[1] for tk in p[0]}, {tk[2] for tk in p[0]}) if p else (set(), set())
        return lexed[text]
    for c, o in zip(cases, out):
        ctx.evaluations += 1
        if not o.startswith('ERR'): continue
        for d in o.split(' ')[1:]:
            if d.startswith('PARSE') or '@' not in d: continue
            code, rest = d.split('@', 1)
            rest = rest.split('!')[0]
            labels = []
            for lab in rest.split('+'):
                m = re.match(r'^f(\d+)\.st:(\d+)-(\d+)$', lab)
                if not m:
                    labels.append((None, lab)); continue
                labels.append((int(m.group(1)), int(m.group(2)), int(m.group(3))))
            show = {'fault': c['fault'], 'texts': c['texts'], 'diagnostic': d}
            slices = []
            for li, lab in enumerate(labels):
                bad = None
                if lab[0] is None:
                    if code not in ('P0030', 'P9999'): bad = f'a label of {code} names no file of the set: {lab[1]}'
                    slices.append(None)
                else:
                    fi, a, b = lab
                    if fi >= len(c['texts']):
                        bad = f'a label of {code} names file f{fi}.st which is not in the set'
                    else:
                        raw = c['texts'][fi].encode('utf-8')
                        starts, ends = token_bounds(c['texts'][fi])
                        if not (0 <= a < b <= len(raw)): bad = f'a label of {code} ({a}-{b}) lies outside file f{fi}.st ({len(raw)} bytes) or is empty'
                        elif a not in starts or b not in ends: bad = f'a label of {code} ({a}-{b}: `{raw[a:b].decode("utf-8", "replace")}`) does not start and end on lexeme boundaries'
                        slices.append(None if bad else (fi, a, raw[a:b].decode('utf-8', 'replace')))
                if bad:
                    ctx.violations.append({'stream': 'labels', 'case': show, 'impl': d, 'model': None, 'what': bad}); break
            else:
                ctx.count('labels:' + code)
                ctx.feature(('labels', code, c['fault'], len(labels)))
                if code != c['code'] or not slices or slices[0] is None: continue
                marker = MARKER_LABEL.get(c['fault'])
                if marker is not None and units.nm(marker).upper() not in re.split(r'[^A-Za-z0-9_]+', slices[0][2].upper()):
                    ctx.violations.append({'stream': 'labels', 'case': show, 'impl': d, 'model': None,
                                           'what': f'the {code} diagnostic about the name {units.nm(marker)} labels the text `{slices[0][2]}`, which does not contain it'})
                if c['fault'] in ('struct-element-thrice', 'enum-value-thrice') and all(x is not None for x in slices):
                    # a name used three times: where a diagnostic labels two uses of it, one of them is the first of the three
                    # (the fresh name occurs nowhere else in the set)
                    name = units.nm(7991 if c['fault'] == 'struct-element-thrice' else 7990)
                    on_name = [x for x in slices if x[2].upper() == name.upper()]   # (other labels may name the declaration itself)
                    if on_name and len({x[0] for x in on_name}) == 1:
                        fi = on_name[0][0]
                        first = re.search(r'(?<![A-Za-z0-9_])' + re.escape(name) + r'(?![A-Za-z0-9_])', c['texts'][fi], re.I)
                        first_off = len(c['texts'][fi][:first.start()].encode('utf-8')) if first else None
                        if len(on_name) >= 2 and first_off is not None and min(x[1] for x in on_name) != first_off:
                            ctx.violations.append({'stream': 'labels', 'case': show, 'impl': d, 'model': None,
                                                   'what': f'the {code} diagnostic about the name {name}, used three times, labels the uses at bytes {sorted(x[1] for x in on_name)}: '
                                                           f'none of them is the first use (byte {first_off})'})
                if code == 'P0018' and len(slices) >= 2 and slices[1] is not None:
                    # the secondary label names the constant global: it lies in a VAR_GLOBAL CONSTANT block
                    f2, a2, t2 = slices[1]
                    before = c['texts'][f2].encode('utf-8')[:a2].decode('utf-8', 'replace').upper()
                    hdr = re.findall(r'VAR_GLOBAL(\s+CONSTANT)?|VAR_EXTERNAL|VAR_INPUT|VAR_OUTPUT|VAR_IN_OUT|VAR\b', before)
                    last = re.findall(r'(VAR_GLOBAL(?:\s+CONSTANT)?|VAR_EXTERNAL|VAR_INPUT|VAR_OUTPUT|VAR_IN_OUT|VAR\b)', before)
                    if not last or not re.match(r'VAR_GLOBAL\s+CONSTANT', last[-1]):
                        ctx.violations.append({'stream': 'labels', 'case': show, 'impl': d, 'model': None,
                                               'what': f'the label of {code} for the constant global variable stands on `{t2}` in a {last[-1] if last else "?"} block, which is not a constant global declaration'})
                if code in ('P0019', 'P0020') and len(slices) >= 2 and slices[1] is not None:
                    (f1, a1, t1), (f2, a2, t2) = slices[0], slices[1]
                    if t1.upper() != t2.upper():
                        ctx.violations.append({'stream': 'labels', 'case': show, 'impl': d, 'model': None, 'what': f'the two labels of a duplicate-name diagnostic cover different names `{t1}` / `{t2}`'})
                    elif (f1, a1) <= (f2, a2):
                        ctx.violations.append({'stream': 'labels', 'case': show, 'impl': d, 'model': None,
                                               'what': f'the duplicate-name diagnostic labels f{f1}.st:{a1} as the duplicate and f{f2}.st:{a2} as the first declaration: the duplicate is not the later one'})


def lsp_ranges(ctx):
    """the range of every diagnostic published by `ironplcc lsp --stdio` is the line / character of the label's byte
    offsets in the document (characters or UTF-16 units), also with non-ASCII text before the label on its line"""
    from .. import lspclient
    rng = ctx.rng
    docs = []
    for trial in range(6 if ctx.quick() else 80):
        base, ns = units.gen_valid(rng, size=1)
        ss = units.plant_all(base, ns, rng)
        if not ss: continue
        for (fk, code, ds) in rng.sample(ss, min(len(ss), 4)):
            lines = units.print_file(ds, rng).split('\n')
            plain = '\n'.join(lines)
            for k in range(len(lines)):
                # a non-ASCII comment before the tokens of about every second line: bytes, characters and UTF-16 units differ there
                if lines[k].strip() and rng.random() < 0.5:
                    lines[k] = f'(* {rng.choice(["é", "üß", "日本", "€", "é é", "😀"])} *) ' + lines[k]
            docs.append((fk, '\n'.join(lines), plain))
    # half of the documents reach their text through an edit that changes layout and comments only (the same tokens at
    # other offsets: positions must be those of the current text), some of them after a further detour
    hist = []
    for fk, t, plain in docs:
        r = rng.random()
        if r < 0.5: hist.append([('open', 'f0', 1, t)])
        elif r < 0.8: hist.append([('open', 'f0', 1, plain), ('change', 'f0', 2, [t])])
        else: hist.append([('open', 'f0', 1, '\n\n(* header *)\n' + plain), ('change', 'f0', 2, [plain]), ('change', 'f0', 3, [t])])
    docs = [(fk, t) for fk, t, plain in docs]
    sess = lspclient.sessions(hist, jobs=8)
    ana = core.run_lines(core.VH, ['project ' + core.hexs(t) for fk, t in docs], jobs=8)
    for (fk, t), s, o in zip(docs, sess, ana):
        ctx.evaluations += 1
        ctx.count('lsp-range:documents')
        if not s['diags'] or not o.startswith('ERR'): continue
        raw = t.encode('utf-8')
        expected = []   # per diagnostic: code, admissible (line, col) sets for start and end
        for d in o.split(' ')[1:]:
            if '@' not in d or d.startswith('PARSE'): continue
            code, rest = d.split('@', 1)
            m = re.match(r'^f0\.st:(\d+)-(\d+)', rest.split('!')[0])
            if not m: continue
            a, b = int(m.group(1)), int(m.group(2))
            def lc(off):
                # LSP positions count characters / UTF-16 units, never bytes
                line = raw.count(b'\n', 0, off)
                seg = raw[raw.rfind(b'\n', 0, off) + 1:off].decode('utf-8', 'replace')
                return line, {len(seg), len(seg.encode('utf-16-le')) // 2}
            la, ca = lc(a)
            lb, cb = lc(b)
            expected.append((code, la, ca, lb, cb))
        got = s['diags'][-1]
        for (code, l1, c1, l2, c2) in got:
            ok = any(code == e[0] and l1 == e[1] and c1 in e[2] and l2 == e[3] and c2 in e[4] for e in expected)
            if not ok and any(code == e[0] for e in expected):
                ctx.violations.append({'stream': 'lsp-range', 'case': {'fault': fk, 'text': t}, 'impl': f'{code} {l1}:{c1}-{l2}:{c2}', 'model': str([(e[0], e[1], sorted(e[2]), e[3], sorted(e[4])) for e in expected if e[0] == code][:3]),
                                       'what': f'the published range {l1}:{c1}-{l2}:{c2} of {code} is not the line/character of the label of the diagnostic in the document'})
                break
        else:
            if got: ctx.feature(('lsp-range', fk, len(got)))


def cli_labels(ctx):
    """what `ironplcc check` prints for a set of files: every snippet header `file:line:col` of a diagnostic is the
    position of one of that diagnostic's labels, in the file that label names, and every file a label names has a snippet"""
    from .. import cli
    rng = ctx.rng
    sets = []
    for trial in range(8 if ctx.quick() else 120):
        base, ns = units.gen_valid(rng, size=1)
        ss = units.plant_all(base, ns, rng)
        if not ss: continue
        for (fk, code, ds) in rng.sample(ss, min(len(ss), 3)):
            files = units.split_files(rng, ds, rng.choice([2, 3]))
            texts = [units.print_file(f, rng) for f in files]
            # some files are stored with a UTF-8 byte order mark: positions are those of the text without it
            if all(texts): sets.append((fk, texts, [rng.random() < 0.35 for _ in texts]))
    ana = core.run_lines(core.VH, ['project ' + ' '.join(core.hexs(t) for t in texts) for fk, texts, boms in sets], jobs=8)
    import concurrent.futures as cf
    def do(x):
        fk, texts, boms = x
        return cli.check_files({f'f{i}.st': (b'\xef\xbb\xbf' if boms[i] else b'') + t.encode('utf-8') for i, t in enumerate(texts)}, order=[f'f{i}.st' for i in range(len(texts))])
    with cf.ThreadPoolExecutor(8) as ex:
        res = list(ex.map(do, sets))
    for (fk, texts, boms), o, r in zip(sets, ana, res):
        ctx.evaluations += 1
        ctx.count('cli-labels:sets')
        if any(boms): ctx.count('cli-labels:sets-with-bom-file')
        if not o.startswith('ERR'): continue
        expected = {}     # code -> list of (file name, line(1-based), {cols (1-based)})
        for d in o.split(' ')[1:]:
            if '@' not in d or d.startswith('PARSE'): continue
            code, rest = d.split('@', 1)
            for lab in rest.split('!')[0].split('+'):
                m = re.match(r'^f(\d+)\.st:(\d+)-(\d+)$', lab)
                if not m or int(m.group(1)) >= len(texts): continue
                raw = texts[int(m.group(1))].encode('utf-8')
                line, cols = lexcheck.line_col_candidates(raw, int(m.group(2)))
                expected.setdefault(code, []).append((f'f{m.group(1)}.st', line + 1, {c + 1 for c in cols}))
        show = {'fault': fk, 'texts': texts, 'stored_with_utf8_bom': boms}
        bad = None
        for (code, f, line, col) in r['labels']:
            if f is None or code not in expected: continue
            if not any(f == e[0] and line == e[1] and col in e[2] for e in expected[code]):
                bad = f'`ironplcc check` shows a snippet of {code} at {f}:{line}:{col}, which is not the position of a label of that diagnostic {[(e[0], e[1], sorted(e[2])) for e in expected[code]]}'
                break
        if bad is None:
            for code, labs in expected.items():
                shown = {f for (c, f, l, k) in r['labels'] if c == code}
                if not shown: continue        # (diagnostics the CLI does not print are C13's subject)
                missing = {e[0] for e in labs} - shown
                if missing:
                    bad = f'{code} has a label in {sorted(missing)} but `ironplcc check` shows no snippet of that file for it'
                    break
        if bad:
            ctx.violations.append({'stream': 'cli-labels', 'case': show, 'impl': cli.strip_ansi(r['stderr'])[-600:], 'model': o[:300], 'what': bad})
        else:
            ctx.feature(('cli-labels', fk, len(texts)))


def run(ctx):
    core.prepare(ctx, need_binary=True)
    cases = lex_cases(ctx)
    run_stream(ctx, 'lex', cases, lambda c: 'lex ' + core.hexs(c['text']), judge_lex,
               nontrivial=lambda c: len(c['text']) >= 3,
               shrink_text=True)
    id_spans(ctx)
    diag_labels(ctx)
    lsp_ranges(ctx)
    cli_labels(ctx)
    return core.finish(ctx, level='proof', rule=RULE,
                       assumptions=['logos error extent is a calibrated parameter of the model (tiling is proved for every policy)',
                                    'a line break is \\n; a column may be counted in bytes, chars or UTF-16 units'])
