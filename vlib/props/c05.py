"""C05 — every reported position points at the text it is about."""
from .. import core, gen_text, lexcheck
from ..streams import run_stream

RULE = ('sources = fixtures of /repo + generated lexeme soups (keywords in random case, identifiers, numbers, strings, '
        'single/multi-line comments, CRLF, non-ASCII in comments and strings, OSCAT headers, lexical errors, unclosed '
        'openers); each is lexed by the Lean model and by tokenize_program; a case is non-trivial when it has >= 3 lexemes; '
        'distinct = distinct (feature set, length bucket)')


def lex_cases(ctx):
    rng = ctx.rng
    soup = gen_text.Soup(rng)
    cases = []
    for name, t in gen_text.fixture_texts():
        cases.append({'kind': 'fixture', 'name': name, 'text': t, 'feats': frozenset(['fixture', name])})
    n = 400 if ctx.quick() else 20000
    for i in range(n):
        size = rng.choice([1, 2, 3, 5, 8, 13, 30]) if i % 10 else rng.choice([60, 120])
        r = rng.random()
        t, feats = soup.text(size, allow_err=(r < 0.35), allow_opener=(r < 0.2), oscat=(rng.random() < 0.08))
        cases.append({'kind': 'soup', 'text': t, 'feats': feats | {f'len{min(len(t) // 40, 5)}'}})
    return cases


def judge_lex(ctx, case, m, i):
    """-> (correspondence ok, [oracle violations])"""
    corr = (m == i) if m is not None else True
    parsed = lexcheck.parse_lex(i)
    if parsed is None:
        return corr, [f'tokenize_program did not return: {i[:200]}']
    toks, errs = parsed
    return corr, lexcheck.token_oracle(case['text'], toks, errs)


def run(ctx):
    core.prepare(ctx)
    cases = lex_cases(ctx)
    run_stream(ctx, 'lex', cases, lambda c: 'lex ' + core.hexs(c['text']), judge_lex,
               nontrivial=lambda c: len(c['text']) >= 3,
               shrink_text=True)
    return core.finish(ctx, level='proof', rule=RULE,
                       assumptions=['logos error extent is a calibrated parameter of the model (tiling is proved for every policy)',
                                    'a line break is \\n; a column may be counted in bytes, chars or UTF-16 units'])
