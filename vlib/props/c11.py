"""C11 — LSP diagnostics depend only on current document contents and equal `check`."""
import itertools
from .. import core, lspclient, cli

RULE = ('all didOpen/didChange sequences of length <= L over 2 URIs x 6 texts (valid, lexical error, syntax error, semantic '
        'error, depends-on-other-document, the semantic error again in another layout) enumerated exhaustively (quick: L=2 plus a seeded sample of L=3; thorough: L=3 '
        'plus a sample of L=4) plus random histories up to length 40 with unrelated traffic; every prefix is checked: one '
        'publish per edit with the version (against the Lean model), last publish == publish of a fresh server given the '
        'canonical history (other documents first, edited document last), and == codes and start positions of '
        '`ironplcc check` on a directory with the same contents; non-trivial = history with >= 2 edits; distinct = distinct '
        '(final store, last message)')

TEXTS = [
    'FUNCTION_BLOCK helper_fb\nVAR_INPUT i : BOOL; END_VAR\nEND_FUNCTION_BLOCK\nPROGRAM p0\nVAR a : BOOL; END_VAR\na := TRUE;\nEND_PROGRAM\n',
    # (two pieces of text that are no token: the command line reports the first lexical error only)
    'PROGRAM p1\nVAR a : BOOL; END_VAR\na := ? TRUE;\na := $ FALSE;\nEND_PROGRAM\n',
    'PROGRAM p2\nVAR a : BOOL END_VAR\nEND_PROGRAM\n',
    'PROGRAM p3\n  VAR a : BOOL; END_VAR\n  (* é *) b := TRUE;\nEND_PROGRAM\n',
    'FUNCTION_BLOCK user_fb\nVAR h : helper_fb; END_VAR\nh(i := TRUE);\nEND_FUNCTION_BLOCK\n',
    # the semantic-error program again, the same tokens at other offsets (layout and comments only differ)
    '(* moved *)\n\nPROGRAM p3\n  VAR a : BOOL; END_VAR\n\n  (* é *)   b := TRUE;\nEND_PROGRAM\n',
]
URIS = ['f0', 'f1']
FILELESS = {'P0030', 'P9999'}


def store_after(history):
    st = {}
    for m in history:
        if m[0] == 'open' and m[1][0] == 'f': st[m[1]] = m[3]
        elif m[0] == 'change' and m[1][0] == 'f' and m[3]: st[m[1]] = m[3][-1]
    return st


def canonical(store, last_uri, ver):
    h = []
    for u in sorted(store):
        if u != last_uri: h.append(('open', u, 1, store[u]))
    if last_uri in store:
        h.append(('open', last_uri, ver, store[last_uri]))
    else:
        h.append(('change', last_uri, ver, []))
    return h


def gen_histories(ctx):
    rng = ctx.rng
    msgs = []
    for u in URIS:
        for ti in range(len(TEXTS)):
            msgs.append(('open', u, ti))
            msgs.append(('change', u, ti))
    hs = []
    L = 2 if ctx.quick() else 3
    for n in range(1, L + 1):
        for combo in itertools.product(msgs, repeat=n):
            hs.append(list(combo))
    extra_n = 250 if ctx.quick() else 12000
    for _ in range(extra_n):
        hs.append([rng.choice(msgs) for _ in range(L + 1)])
    out = []
    for h in hs:
        out.append([(k, u, i + 1, TEXTS[ti]) if k == 'open' else (k, u, i + 1, [TEXTS[ti]]) for i, (k, u, ti) in enumerate(h)])
    # random longer histories with unrelated traffic and multi-change / empty-change notifications
    for _ in range(40 if ctx.quick() else 1500):
        n = rng.randint(5, 40)
        h = []
        rid = 1
        for i in range(n):
            r = rng.random()
            u = rng.choice(URIS + ['f2', 'n0'])
            if r < 0.35: h.append(('open', u, i + 1, rng.choice(TEXTS)))
            elif r < 0.75: h.append(('change', u, i + 1, [rng.choice(TEXTS) for _ in range(rng.choice([0, 1, 1, 1, 2]))]))
            elif r < 0.85: h.append(('semtok', rid, u)); rid += 1
            elif r < 0.92: h.append(('notif', '$/setTrace'))
            else: h.append(('req', rid, 'textDocument/hover')); rid += 1
        out.append(h)
    return out


def lsp_positions(diag_list):
    """LSP publish -> sorted set of (code, line, char) (0-based)"""
    return sorted({(d[0], d[1], d[2]) for d in diag_list})


def run(ctx):
    core.prepare(ctx, need_harness=False, need_binary=True)
    hs = gen_histories(ctx)
    tail = [('shutdown', 999), ('exit',)]
    sess = lspclient.sessions([h + tail for h in hs])
    model = core.run_lines(core.PLCDRV, [lspclient.model_line(h + tail) for h in hs], jobs=8) if ctx.model_available else [None] * len(hs)
    canon_cache = {}
    check_cache = {}
    pending = []   # (history idx, prefix len, key)
    for hi, (h, se, mo) in enumerate(zip(hs, sess, model)):
        ctx.evaluations += 1
        show = {'history': [list(m) for m in h]}
        if mo is not None:
            ctx.traces += 1
            if mo != se['skeleton']:
                ctx.corr_fail.append({'stream': 'lsp', 'case': show, 'model': mo, 'impl': se['skeleton'], 'stderr': se['stderr']})
        # (a) one publish per edit, with uri and version, in order
        edits = [(m[1], m[2]) for m in h if m[0] in ('open', 'change')]
        pubs = [tuple(p.split(':')[1:3]) for p in se['skeleton'].split() if p.startswith('pub:')]
        if pubs != [(u, str(v)) for u, v in edits]:
            ctx.violations.append({'stream': 'lsp', 'case': show, 'impl': se['skeleton'], 'model': mo,
                                   'what': f'publishDiagnostics {pubs} do not match the edits {edits} one to one'})
            continue
        if se['rc'] != 0:
            ctx.violations.append({'stream': 'lsp', 'case': show, 'impl': se['skeleton'], 'model': mo, 'what': f'server exit status {se["rc"]}'})
        # (b)/(c) for every prefix ending in an edit
        pi = -1
        for j, m in enumerate(h):
            if m[0] not in ('open', 'change'): continue
            pi += 1
            st = store_after(h[:j + 1])
            key = (tuple(sorted(st.items())), m[1])
            pending.append((hi, j, pi, key, m))
        if len(edits) >= 2:
            st = store_after(h)
            ctx.feature((tuple(sorted(st.items())), h[-1][0], h[-1][1]))
        ctx.count(f'len{min(len(h), 9)}')
    # canonical fresh-server runs and CLI checks, one per distinct (store, uri)
    keys = {}
    for (hi, j, pi, key, m) in pending:
        keys.setdefault(key, m)
    klist = list(keys)
    canon_hist = [canonical(dict(k[0]), k[1], 1) + tail for k in klist]
    canon_sess = lspclient.sessions(canon_hist)
    for k, se in zip(klist, canon_sess):
        canon_cache[k] = se['diags'][-1] if se['diags'] else None
    stores = {}
    for k in klist:
        stores.setdefault(k[0], None)
    import concurrent.futures as cf
    def do_check(stkey):
        files = {f'doc{u[1:]}.st': t for u, t in stkey}
        if not files: return None
        return cli.check_files(files, as_dir=True)
    with cf.ThreadPoolExecutor(12) as ex:
        for stkey, r in zip(list(stores), ex.map(do_check, list(stores))):
            stores[stkey] = r
    for (hi, j, pi, key, m) in pending:
        h, se = hs[hi], sess[hi]
        got = se['diags'][pi]
        show = {'history': [list(x) for x in h[:j + 1]]}
        want = canon_cache.get(key)
        ctx.count('prefixes-checked')
        if want is None or sorted(got) != sorted(want):
            ctx.violations.append({'stream': 'history-independence', 'case': show, 'impl': got, 'model': None,
                                   'what': f'publish after the history {got} differs from the publish of a fresh server given the canonical history {want}'})
            continue
        r = stores.get(key[0])
        if r is not None and m[1][0] == 'f' and m[1] in dict(key[0]):
            base = f'doc{m[1][1:]}.st'
            cli_pos = sorted({(c, l - 1, col - 1) for (c, f, l, col) in r['labels'] if f == base})
            # diagnostics that carry no file (default FileId: P0030 "no content", P9999) are dropped by the server's
            # per-file filter by design; the CLI prints them against whichever file it registered first, at 1:1
            lp = lsp_positions(got)
            cli_pos = [x for x in cli_pos if not (x[0] in FILELESS and x[1] == 0 and x[2] == 0 and x not in lp)]
            if cli_pos != lp:
                ctx.violations.append({'stream': 'lsp-vs-check', 'case': show, 'impl': got, 'model': None,
                                       'what': f'LSP diagnostics {lsp_positions(got)} differ from `ironplcc check` for {base}: {cli_pos}',
                                       'cli_stderr': cli.strip_ansi(r['stderr'])[-600:]})
    ctx.sample({'history': [lspclient.to_model(m)[:50] for m in hs[len(hs) // 2]], 'frames': sess[len(hs) // 2]['skeleton'][:200],
                'diags': sess[len(hs) // 2]['diags'][:3]})
    ctx.hist['distinct-canonical-states'] = len(klist)
    return core.finish(ctx, level='proof', rule=RULE,
                       assumptions=['reader/writer thread scheduling of lsp-server is exercised, not modelled',
                                    'diagnostics without a file (default file id) are dropped by the server by design and not compared'])
