"""C07 — recursion is rejected exactly when the declaration graph has a cycle."""
import itertools
from .. import core

RULE = ('all digraphs with self-loops on 1..3 nodes exhaustively (quick) / on 4 nodes exhaustively (thorough; quick: seeded '
        'sample), each realised as a function-block instance graph and as a type graph (out-degree-1 nodes as alias or '
        'structure, both) and as a mixture of function blocks, structures and aliases referring to each other, declarations in random order (small graphs also with every declaration in a file of its own), half of them with the letter case of every name occurrence chosen independently; plus random graphs up to 12 nodes, diamonds and chains of depth 200; '
        'graphs of out-degree <= 1 also as enumeration alias chains used by several variables (P0010 or P0013); '
        'analyze() on the text; oracle: P0010 in codes <=> the reference graph has a cycle (independent DFS), '
        'correspondence: the Lean model `rejectsRecursive`; non-trivial = at least one edge; distinct = distinct '
        '(realisation, node count, edge set)')


def has_cycle(n, edges):
    adj = {i: [] for i in range(n)}
    for a, b in edges: adj[a].append(b)
    color = {}
    def dfs(u):
        stack = [(u, iter(adj[u]))]
        color[u] = 1
        while stack:
            v, it = stack[-1]
            for w in it:
                if color.get(w) == 1: return True
                if w not in color:
                    color[w] = 1; stack.append((w, iter(adj[w]))); break
            else:
                color[v] = 2; stack.pop()
        return False
    return any(i not in color and dfs(i) for i in range(n))


def realise_fb(n, edges, rng):
    decls, model = [], []
    for i in range(n):
        outs = [b for a, b in edges if a == i]
        vs = ''.join(f'    v{j}_{k} : FB{j};\n' for k, j in enumerate(outs)) or '    x : BOOL;\n'
        decls.append(f'FUNCTION_BLOCK FB{i}\n  VAR\n{vs}  END_VAR\nEND_FUNCTION_BLOCK\n')
        model.append(f'fb:{i}:' + ','.join(str(j) for j in outs))
    order = list(range(n)); rng.shuffle(order)
    return '\n'.join(decls[i] for i in order), [model[i] for i in order]


def realise_type(n, edges, rng, alias_pref):
    decls, model = [], []
    for i in range(n):
        outs = [b for a, b in edges if a == i]
        use_alias = alias_pref if alias_pref in (True, False) else rng.random() < 0.6
        if len(outs) == 1 and use_alias:
            decls.append(f'  T{i} : T{outs[0]};\n'); model.append(f'alias:{i}:{outs[0]}')
        elif not outs:
            decls.append(f'  T{i} : STRUCT\n    a : INT;\n  END_STRUCT;\n'); model.append(f'struct:{i}:')
        else:
            es = ''.join(f'    e{k} : T{j};\n' for k, j in enumerate(outs))
            decls.append(f'  T{i} : STRUCT\n{es}  END_STRUCT;\n'); model.append(f'struct:{i}:' + ','.join(str(j) for j in outs))
    order = list(range(n)); rng.shuffle(order)
    return 'TYPE\n' + ''.join(decls[i] for i in order) + 'END_TYPE\n', [model[i] for i in order]


def realise_mixed(n, edges, rng):
    """every node at random a function block, a structure or (out-degree 1) an alias; a reference is a variable, an
    element or the alias base whatever the kind of the target, so that cycles may lead through function blocks and
    data types alike"""
    kinds = []
    for i in range(n):
        outs = [b for a, b in edges if a == i]
        kinds.append(rng.choice(['fb', 'struct', 'alias'] if len(outs) == 1 else ['fb', 'struct']))
    name = lambda j: ('FB%d' if kinds[j] == 'fb' else 'T%d') % j
    decls, model = [], []
    for i in range(n):
        outs = [b for a, b in edges if a == i]
        if kinds[i] == 'fb':
            vs = ''.join(f'    v{j}_{k} : {name(j)};\n' for k, j in enumerate(outs)) or '    x : BOOL;\n'
            decls.append(f'FUNCTION_BLOCK FB{i}\n  VAR\n{vs}  END_VAR\nEND_FUNCTION_BLOCK\n')
            model.append(f'fb:{i}:' + ','.join(str(j) for j in outs))
        elif kinds[i] == 'alias':
            decls.append(f'TYPE\n  T{i} : {name(outs[0])};\nEND_TYPE\n'); model.append(f'alias:{i}:{outs[0]}')
        else:
            es = ''.join(f'    e{k} : {name(j)};\n' for k, j in enumerate(outs)) or '    a : INT;\n'
            decls.append(f'TYPE\n  T{i} : STRUCT\n{es}  END_STRUCT;\nEND_TYPE\n'); model.append(f'struct:{i}:' + ','.join(str(j) for j in outs))
    order = list(range(n)); rng.shuffle(order)
    return '\n'.join(decls[i] for i in order), [model[i] for i in order]


def split_declarations(text):
    """the top-level declarations of a realisation, each as a text of its own (TYPE blocks are split per declared type)"""
    import re
    out = []
    for m in re.finditer(r'FUNCTION_BLOCK.*?END_FUNCTION_BLOCK\n|TYPE\n.*?END_TYPE\n', text, re.S):
        blk = m.group(0)
        if blk.startswith('TYPE'):
            body = blk[len('TYPE\n'):-len('END_TYPE\n')]
            for d in re.findall(r'  \w+ : (?:STRUCT\n.*?  END_STRUCT;\n|[^\n]*;\n)', body, re.S):
                out.append('TYPE\n' + d + 'END_TYPE\n')
        else:
            out.append(blk)
    return out


def respell(text, rng):
    """the letter case of every occurrence of a declared name, independently"""
    import re
    def f(m):
        w = m.group(0)
        return rng.choice([w, w.lower(), w.capitalize(), w[0].lower() + w[1:]])
    return re.sub(r'\b(?:FB|T)\d+\b', f, text)


def realise_enum(n, edges, rng):
    """out-degree <= 1 graphs as enumeration alias chains: a node without successor is an enumeration, a node with one
    is an alias of its successor; a function block then uses every type for several variables (with and without an
    initial value, in random order) so that the alias chains are walked repeatedly"""
    decls = []
    for i in range(n):
        outs = [b for a, b in edges if a == i]
        decls.append(f'  T{i} : T{outs[0]};\n' if outs else f'  T{i} : (A{i}, B{i}) := A{i};\n')
    order = list(range(n)); rng.shuffle(order)
    def root(i):
        seen = set()
        while True:
            outs = [b for a, b in edges if a == i]
            if not outs: return i
            if i in seen: return None
            seen.add(i); i = outs[0]
    uses = []
    for k in range(2 * n + 1):
        i = rng.randrange(n)
        r = root(i)
        init = f' := {rng.choice("AB")}{r}' if r is not None and rng.random() < 0.6 else ''
        uses.append(f'    u{k} : T{i}{init};\n')
    return 'TYPE\n' + ''.join(decls[i] for i in order) + 'END_TYPE\nFUNCTION_BLOCK FBU\n  VAR\n' + ''.join(uses) + '  END_VAR\nEND_FUNCTION_BLOCK\n'


def graphs(ctx):
    rng = ctx.rng
    out = []
    maxn = 3
    for n in range(1, maxn + 1):
        pairs = [(a, b) for a in range(n) for b in range(n)]
        for mask in range(1 << len(pairs)):
            out.append((n, [p for k, p in enumerate(pairs) if mask >> k & 1], 'exhaustive'))
    pairs4 = [(a, b) for a in range(4) for b in range(4)]
    if ctx.quick():
        for _ in range(1500):
            mask = rng.getrandbits(16)
            out.append((4, [p for k, p in enumerate(pairs4) if mask >> k & 1], 'sample4'))
    else:
        for mask in range(1 << 16):
            out.append((4, [p for k, p in enumerate(pairs4) if mask >> k & 1], 'exhaustive4'))
    for _ in range(200 if ctx.quick() else 40000):
        n = rng.randint(5, 12)
        m = rng.randint(0, 2 * n)
        es = list({(rng.randrange(n), rng.randrange(n)) for _ in range(m)})
        if rng.random() < 0.5:   # bias towards DAGs: orient most edges forward
            es = [(min(a, b), max(a, b)) if rng.random() < 0.9 and a != b else (a, b) for a, b in es]
            es = list(set(es))
        out.append((n, es, 'random'))
    # long chains and wide fans, acyclic and closed into a cycle
    for depth in ([50, 200] if ctx.quick() else [50, 200, 400]):
        chain = [(i, i + 1) for i in range(depth - 1)]
        out.append((depth, chain, 'chain'))
        out.append((depth, chain + [(depth - 1, 0)], 'chain-closed'))
        out.append((depth, [(0, i) for i in range(1, depth)] + [(i, depth - 1) for i in range(1, depth - 1)], 'diamond'))
    return out


def run(ctx):
    core.prepare(ctx)
    rng = ctx.rng
    cases = []
    for n, edges, kind in graphs(ctx):
        t, m = realise_fb(n, edges, rng)
        cases.append({'n': n, 'edges': edges, 'kind': kind, 'real': 'fb', 'text': t, 'model': m})
        for pref in (True, False, 'mixed'):
            if pref is not True and not any(sum(1 for a, _ in edges if a == i) == 1 for i in range(n)): continue
            t, m = realise_type(n, edges, rng, pref)
            cases.append({'n': n, 'edges': edges, 'kind': kind, 'real': {True: 'type-alias', False: 'type-struct', 'mixed': 'type-mixed'}[pref], 'text': t, 'model': m})
    for n, edges, kind in graphs(ctx):
        if kind == 'exhaustive' or (kind in ('sample4', 'random') and (not ctx.quick() or rng.random() < 0.25)) or (kind == 'exhaustive4' and rng.random() < 0.25):
            t, m = realise_mixed(n, edges, rng)
            cases.append({'n': n, 'edges': edges, 'kind': kind, 'real': 'fb-type-mixed', 'text': t, 'model': m})
    # the same graphs with every declaration in a file of its own (all files begin alike, so the declarations of different
    # files stand at the same offsets): the files of a set form one graph
    for c in list(cases):
        if c['real'] in ('fb', 'type-struct', 'fb-type-mixed') and 2 <= c['n'] <= 6 and (c['kind'] == 'exhaustive' or rng.random() < 0.15):
            if c['real'] == 'fb': parts = [d for d in c['text'].split('\n\n') if d.strip()] if False else None
            parts = split_declarations(c['text'])
            if parts and len(parts) >= 2:
                cases.append(dict(c, real=c['real'] + '-per-file', files=parts))
    # half of the realisations with the letter case of every name occurrence chosen independently
    for c in cases:
        if rng.random() < 0.5 and 'files' not in c:
            c['text'] = respell(c['text'], rng); c['respelled'] = True
    for n, edges, kind in graphs(ctx):
        if n <= 8 and all(sum(1 for a, _ in edges if a == i) <= 1 for i in range(n)) and (kind != 'random' or n <= 8):
            cases.append({'n': n, 'edges': edges, 'kind': kind, 'real': 'enum-alias', 'text': realise_enum(n, edges, rng), 'model': None})
    for depth in (5, 30):
        ch = [(i, i + 1) for i in range(depth - 1)]
        cases.append({'n': depth, 'edges': ch, 'kind': 'chain', 'real': 'enum-alias', 'text': realise_enum(depth, ch, rng), 'model': None})
    impl = core.run_lines(core.VH, ['analyze ' + (' '.join(core.hexs(f) for f in c['files']) if 'files' in c else core.hexs(c['text'])) for c in cases], jobs=12, line_timeout=60)
    model = core.run_lines(core.PLCDRV, ['c07 ' + ' '.join(c['model']) if c['model'] is not None else 'noop' for c in cases], jobs=12) if ctx.model_available else [None] * len(cases)
    for c, io, mo in zip(cases, impl, model):
        ctx.evaluations += 1
        ctx.count(f"{c['real']}:{c['kind']}")
        cyc = has_cycle(c['n'], c['edges'])
        ctx.count('cyclic' if cyc else 'acyclic')
        if c.get('respelled'): ctx.count('names-respelled')
        show = {'n': c['n'], 'edges': c['edges'], 'realisation': c['real'], 'text': c['text'] if c['n'] <= 6 else c['text'][:300] + '…'}
        if c['edges']:
            ctx.feature((c['real'], c['n'], tuple(sorted(c['edges']))))
        if io.startswith('SKIPPED'):
            ctx.count('skipped-after-repeated-timeouts'); continue
        if io.startswith('PANIC') or io.startswith('DIED') or io.startswith('TIMEOUT') or io.startswith('ERR PARSE'):
            ctx.violations.append({'stream': 'graph', 'case': show, 'what': f'analyze did not produce a verdict: {io[:120]}', 'impl': io, 'model': mo})
            continue
        codes = [d.split('@')[0] for d in io.split()[1:]]
        got = 'P0010' in codes
        if c['real'] == 'enum-alias':
            # enumeration chains: the recursion may also be reported by the enumeration rule (P0013)
            got = got or 'P0013' in codes
            if got != cyc:
                ctx.violations.append({'stream': 'graph', 'case': show, 'impl': io, 'model': None,
                                       'what': ('cyclic enumeration alias chain not rejected as recursive (neither P0010 nor P0013)' if cyc
                                                else f'acyclic enumeration alias chain rejected as recursive ({[x for x in codes if x in ("P0010", "P0013")]})')})
            continue
        if mo is not None:
            ctx.traces += 1
            if (mo == 'P0010') != got:
                ctx.corr_fail.append({'stream': 'graph', 'case': show, 'model': mo, 'impl': io})
        if got != cyc:
            ctx.violations.append({'stream': 'graph', 'case': show, 'impl': io, 'model': mo,
                                   'what': ('cyclic reference graph not rejected as recursive (P0010 missing)' if cyc
                                            else 'acyclic reference graph rejected as recursive (P0010)')})
        ctx.sample({'edges': c['edges'][:8], 'realisation': c['real'], 'impl': io[:80]}, limit=5)
    # keep the smallest violating graph first
    ctx.violations.sort(key=lambda v: (v['case']['n'], len(v['case']['edges'])))
    ctx.corr_fail.sort(key=lambda v: (v['case']['n'], len(v['case']['edges'])))
    return core.finish(ctx, level='proof', rule=RULE,
                       extra={'exhaustive': not ctx.quick()},
                       assumptions=['petgraph::algo::toposort errs iff the graph has a cycle (modelled by Kahn elimination, proved correct)',
                                    'codes other than P0010 (e.g. P9999 for unsupported alias targets) are not part of this property'])
