"""C13 — command-line contract: exit status, OK line and diagnostics always agree."""
import itertools, os
from .. import core, units, cli
from .c02 import parse_model, agree
from .c03 import BAD_TEXTS, offset_decl

RULE = ('file sets built from valid units, single-fault units, files with syntax / lexical errors, files no decoder '
        'accepts, missing paths and sub-directories, given as files, as one directory, and as a mixture of both, in '
        'several argument orders, to `ironplcc check`, `echo` and `tokenize`; observed: exit status, OK line, '
        'error[Pnnnn] lines; compared with the Lean model of cli.rs and with the property oracle; non-trivial = at '
        'least two paths or a directory; distinct = distinct (action, layout, file kinds, order)')

UNDECODABLE = b'\xff\xfe\x00\xd8\x41\x00'     # UTF-16LE BOM followed by a lone surrogate


def build_sets(ctx):
    rng = ctx.rng
    sets = []
    for _ in range(14 if ctx.quick() else 900):
        base, ns = units.gen_valid(rng, size=1)
        kind = rng.choice(['valid', 'valid', 'semantic', 'syntax', 'lexical', 'undecodable', 'mixed'])
        decls = base
        if kind in ('semantic', 'mixed'):
            ss = [s for s in units.plant_all(base, ns, rng) if s[0] not in ('unknown-type',)]
            if ss: decls = rng.choice(ss)[2]
        nf = rng.choice([1, 2, 3])
        files = []
        for i, f in enumerate(units.split_files(rng, decls, nf)):
            files.append({'name': f'u{i}.st', 'kind': 'unit', 'decls': f, 'data': units.print_file(f, rng).encode()})
        if kind in ('syntax', 'mixed'):
            if rng.random() < 0.4:
                # a syntax error at a long token that is not ASCII (messages quote the offending token)
                body = ''.join(rng.choice('aäöüß€é ') for _ in range(rng.randint(120, 420)))
                txt = f"PROGRAM N7006\nVAR\n  N7007 : STRING;\nEND_VAR\nN7007 := {'x' * rng.randint(0, 3)}'a' '{body}';\nEND_PROGRAM\n"
                files.append({'name': 'bad_syntax.st', 'kind': 'syntax', 'data': txt.encode()})
            else:
                files.append({'name': 'bad_syntax.st', 'kind': 'syntax', 'data': BAD_TEXTS['syntax'].encode()})
        if kind == 'lexical':
            # a program with one invalid character, or a file of nothing but invalid characters (no token at all)
            files.append({'name': 'bad_lex.st', 'kind': 'lexical', 'data': rng.choice([BAD_TEXTS['lexical'], BAD_TEXTS['lexical'], '?', '$$$', '?\n', '\u00e9']).encode()})
        if kind == 'undecodable':
            files.append({'name': 'binary.st', 'kind': 'undecodable', 'data': UNDECODABLE})
        rng.shuffle(files)
        # sometimes the names of two files of the set differ only in letter case
        if len(files) >= 2 and rng.random() < 0.3:
            a, b = rng.sample(range(len(files)), 2)
            files[a] = dict(files[a], name='Unit.st'); files[b] = dict(files[b], name='unit.st')
        sets.append({'kind': kind, 'files': files})
    # a syntax error at a long token of two-byte (three-byte) characters, shifted by 0..1 (0..2) bytes: wherever a message is
    # cut, some shift has a character across the cut
    for ch, shifts in (('ä', (0, 1)), ('€', (0, 1, 2))):
        for sh in shifts:
            txt = f"PROGRAM N7006\nVAR\n  N7007 : STRING;\nEND_VAR\nN7007 := {'x' * sh}'a' '{ch * 400}';\nEND_PROGRAM\n"
            sets.append({'kind': 'syntax', 'files': [{'name': 'bad_syntax.st', 'kind': 'syntax', 'data': txt.encode()},
                                                     {'name': 'u0.st', 'kind': 'unit', 'decls': [('R', 7201, 1, 2)], 'data': units.print_file([('R', 7201, 1, 2)], None).encode()}]})
    # a set in which one file holds a very long expression (the parser recurses once per term: the command runs it on a
    # thread with a large stack), accompanied by valid files and by a file with a fault
    deep_decls = [('P', 7300, [units.var(7301, 'v', 'i')], [('a', 7301, [7301] * 1500)])]
    deep = {'name': 'deep.st', 'kind': 'unit', 'decls': deep_decls, 'data': units.print_file(deep_decls, None).encode()}
    for k in range(2 if ctx.quick() else 12):
        base, ns = units.gen_valid(rng, size=1)
        for kind in ('valid', 'semantic'):
            decls = base
            if kind == 'semantic':
                ss = [x for x in units.plant_all(base, ns, rng) if x[0] not in ('unknown-type',)]
                if not ss: continue
                decls = rng.choice(ss)[2]
            files = [{'name': f'u{i}.st', 'kind': 'unit', 'decls': f, 'data': units.print_file(f, rng).encode()}
                     for i, f in enumerate(units.split_files(rng, decls, rng.choice([1, 2])))]
            files.insert(rng.randrange(len(files) + 1), deep)
            sets.append({'kind': kind, 'files': files})
    sets.append({'kind': 'valid', 'files': [deep]})
    sets.append({'kind': 'empty', 'files': []})
    return sets


def model_file(f):
    if f['kind'] == 'unit': return '111 ' + (' '.join(units.enc_decl(d) for d in f['decls']) or '')
    if f['kind'] == 'syntax': return '111 X'
    if f['kind'] == 'lexical': return '110 X'
    if f['kind'] == 'undecodable': return '100 X'
    if f['kind'] == 'subdir': return '000 X'
    raise ValueError(f)


def layouts(rng, s, quick):
    """-> list of (layout name, [arg specs]) ; arg spec = ('F', file) | ('D', [files]) | ('M',)"""
    fs = s['files']
    out = [('files', [('F', f) for f in fs]), ('dir', [('D', fs)])]
    if len(fs) >= 2:
        out.append(('mixed', [('F', fs[0]), ('D', fs[1:])]))
        out.append(('files-rev', [('F', f) for f in reversed(fs)]))
        if not quick:
            for p in itertools.islice(itertools.permutations(fs), 6):
                out.append(('files-perm', [('F', f) for f in p]))
    if fs:
        # one file reachable twice in one invocation: the directory and one of its own files (either order), and the same
        # file under two spellings of its path - the set of files is the same, so is the result
        f = rng.choice(fs)
        out.append(rng.choice([('dir-plus-own-file', [('D', fs), ('FIN', f, 0)]), ('own-file-plus-dir', [('FIN', f, 0), ('D', fs)])]))
        if rng.random() < 0.5:
            out.append(('file-twice-spelled', [('F', x) for x in fs] + [('F2', f)]))
    if rng.random() < 0.4:
        # the missing path first, last or in the middle: every position must make the command fail
        args = [('F', f) for f in fs]
        args.insert(rng.choice([0, 0, len(args), len(args) // 2]), ('M',))
        out.append(('with-missing', args))
    if rng.random() < 0.15 and fs:
        out.append(('with-missing-then-dir', [('M',), ('D', fs)]))
    if rng.random() < 0.2 and fs:
        out.append(('dir-with-subdir', [('D', fs + [{'name': 'sub', 'kind': 'subdir', 'data': None}])]))
    return out


def run_one(action, args):
    with cli.Workdir() as w:
        dirs = []
        for a in args:
            if a[0] == 'D':
                d = os.path.join(w.path, f'dir{len(dirs)}'); dirs.append(d)
                os.makedirs(d)
                for f in a[1]:
                    if f['kind'] == 'subdir': os.makedirs(os.path.join(d, f['name']))
                    else: open(os.path.join(d, f['name']), 'wb').write(f['data'])
        argv = [action]
        dcount = 0
        for a in args:
            if a[0] == 'F':
                argv.append(w.write(os.path.join('files', a[1]['name']), a[1]['data']))
            elif a[0] == 'F2':
                # the same file as an earlier ('F', f) argument, its path spelled differently
                argv.append(os.path.join(w.path, 'files', '.', a[1]['name']))
            elif a[0] == 'FIN':
                # a file of the k-th directory argument, named on its own (path spelled through `..`)
                d = dirs[a[2]]
                argv.append(os.path.join(d, '..', os.path.basename(d), a[1]['name']))
            elif a[0] == 'D':
                argv.append(dirs[dcount]); dcount += 1
            else:
                argv.append(os.path.join(w.path, 'no_such_file.st'))
        r = cli.run_cli(argv)
    r['diags'] = cli.parse_diags(r['stderr'])
    r['ok_line'] = any(l.strip() == 'OK' for l in r['stdout'].split('\n'))
    return r


def run(ctx):
    core.prepare(ctx, need_binary=True, need_harness=False)
    rng = ctx.rng
    jobs = []
    for s in build_sets(ctx):
        for lname, args in layouts(rng, s, ctx.quick()):
            for action in (['check', 'echo', 'tokenize'] if rng.random() < 0.5 or s['kind'] == 'empty' else ['check']):
                jobs.append({'set': s, 'layout': lname, 'args': args, 'action': action})
    import concurrent.futures as cf
    with cf.ThreadPoolExecutor(12) as ex:
        res = list(ex.map(lambda j: run_one(j['action'], j['args']), jobs))
    def enc(j):
        parts = []
        for a in j['args']:
            if a[0] == 'F': parts.append('F ' + model_file(a[1]))
            elif a[0] == 'D': parts.append('D ' + ' , '.join(model_file(f) for f in a[1]))
            elif a[0] in ('FIN', 'F2'): pass     # (a second path to a file of the set: the set is unchanged)
            else: parts.append('M')
        return f"cli {j['action']} " + ' ; '.join(parts)
    model = core.run_lines(core.PLCDRV, [enc(j) for j in jobs], jobs=8) if ctx.model_available else [None] * len(jobs)
    by_set = {}
    for j, r, mo in zip(jobs, res, model):
        ctx.evaluations += 1
        ctx.count(f"action:{j['action']}"); ctx.count(f"layout:{j['layout']}"); ctx.count(f"set:{j['set']['kind']}")
        kinds = tuple(f['kind'] for a in j['args'] if a[0] in ('F', 'D') for f in ([a[1]] if a[0] == 'F' else a[1]))
        show = {'action': j['action'], 'layout': j['layout'], 'set': j['set']['kind'], 'files': kinds, 'request': enc(j)[:1500]}
        if len(j['args']) >= 2 or any(a[0] == 'D' for a in j['args']):
            ctx.feature((j['action'], j['layout'], j['set']['kind'], kinds))
        codes = {d[0] for d in r['diags']}
        obs = f"exit={r['rc']} ok={1 if r['ok_line'] else 0} codes={sorted(codes)}"
        if r['rc'] not in (0, 1) :
            ctx.violations.append({'stream': 'cli', 'case': show, 'impl': obs + ' ' + cli.strip_ansi(r['stderr'])[-300:], 'model': mo,
                                   'what': f'`ironplcc {j["action"]}` ended with status {r["rc"]} (crash or hang)'})
            continue
        # correspondence
        if mo is not None:
            ctx.traces += 1
            try:
                parts = mo.split(' ', 2)
                mexit = int(parts[0].split('=')[1]); mok = parts[1] == 'ok=1'
                mg = [] if parts[2].strip() == '-' else [[f'P{int(c):04d}' for c in g.split('|')] for g in parts[2].split()]
                ok = (mexit == r['rc']) and (mok == r['ok_line']) and (agree(mg, 'err' if codes else 'ok', codes) if j['action'] == 'check' or mexit == 1 and not mg == [] else True)
                if j['action'] != 'check' and mexit == 1:
                    ok = (mexit == r['rc']) and (mok == r['ok_line'])
            except Exception:
                ok = False
            if not ok:
                ctx.corr_fail.append({'stream': 'cli', 'case': show, 'model': mo, 'impl': obs})
        # property oracle
        if j['action'] == 'check':
            if (r['rc'] == 0) != r['ok_line'] or (r['rc'] == 0) != (not codes):
                ctx.violations.append({'stream': 'cli', 'case': show, 'impl': obs + ' | ' + cli.strip_ansi(r['stderr'])[-300:], 'model': mo,
                                       'what': f'check: exit status {r["rc"]}, OK line {r["ok_line"]} and coded diagnostics {sorted(codes)} do not agree'})
            if j['layout'] in ('files', 'dir', 'mixed', 'files-rev', 'files-perm', 'dir-plus-own-file', 'own-file-plus-dir', 'file-twice-spelled'):
                key = id(j['set'])
                sig = (r['rc'], r['ok_line'], tuple(sorted(codes)))
                if key not in by_set: by_set[key] = (sig, j['layout'])
                elif by_set[key][0] != sig:
                    ctx.violations.append({'stream': 'cli', 'case': show, 'impl': obs, 'model': mo,
                                           'what': f'check of the same files as `{j["layout"]}` gives {sig} but as `{by_set[key][1]}` gives {by_set[key][0]}'})
        else:
            allk = [f['kind'] for a in j['args'] if a[0] in ('F', 'D') for f in ([a[1]] if a[0] == 'F' else a[1])]
            missing = any(a[0] == 'M' for a in j['args'])
            readable = not missing and not any(k in ('undecodable', 'subdir') for k in allk)
            if j['action'] == 'echo':
                expect0 = readable and not any(k in ('syntax', 'lexical') for k in allk)
            else:
                expect0 = readable and not any(k == 'lexical' for k in allk)
            if (r['rc'] == 0) != expect0:
                ctx.violations.append({'stream': 'cli', 'case': show, 'impl': obs + ' | ' + cli.strip_ansi(r['stderr'])[-200:], 'model': mo,
                                       'what': f'{j["action"]}: exit status {r["rc"]} but every file {"parses" if j["action"] == "echo" else "tokenizes"}: {expect0}'})
        ctx.sample({'request': enc(j)[:200], 'observed': obs}, limit=5)
    return core.finish(ctx, level='proof', rule=RULE,
                       assumptions=['unreadable files cannot be produced in this sandbox (the checks run as root); a sub-directory inside a checked directory stands in for an unreadable entry',
                                    'the exit status and the bytes on stdout/stderr are observed on the binary, not modelled'])
