"""C02 — the check verdict agrees with the documented semantic rules, in both directions."""
from .. import core, units

RULE = ('valid-by-construction units from the generator of vlib/units.py (enumerations with aliases, structures, subranges, '
        'function blocks with inputs/outputs/in-outs and invocations, functions, programs, configurations with tasks and '
        'globals/externals; statements randomly nested in IF/ELSIF/ELSE/WHILE/REPEAT/CASE), every single-fault mutant '
        '(each documented Fails shape planted at every applicable site) and sampled double-fault mutants; the real '
        'analyze() result is compared with the Lean model (codes) and with the oracle: valid => OK, single fault => its '
        'documented code is reported and nothing but rule codes; non-trivial = unit with a planted fault or >= 4 '
        'declarations; distinct = distinct (fault kinds, declaration kind at the site, unit shape)')

UNSUPPORTED = 'P9999'


def parse_impl(line):
    """-> ('ok', set()) | ('err', {codes}) | ('crash', msg)"""
    if line == 'OK': return 'ok', set()
    if line.startswith('ERR'):
        codes = set()
        for d in line.split()[1:]:
            c = d.split('@')[0]
            if c.startswith('PARSE'): c = c.split(':')[1]
            codes.add(c)
        return 'err', codes
    return 'crash', line[:200]


def parse_model(line):
    if line == 'OK': return []
    if line.startswith('ERR'):
        return [[f'P{int(c):04d}' for c in g.split('|')] for g in line.split()[1:]]
    return None


def agree(groups, status, codes):
    """model groups vs implementation codes"""
    if groups is None: return False
    if status == 'crash': return False
    if not groups: return status == 'ok'
    if status == 'ok': return False
    allowed = {c for g in groups for c in g}
    return codes <= allowed and all(any(c in codes for c in g) for g in groups)


def run(ctx):
    core.prepare(ctx)
    rng = ctx.rng
    cases = []
    nunits = 25 if ctx.quick() else 400
    for u in range(nunits):
        decls, ns = units.gen_valid(rng)
        cases.append({'kind': 'valid', 'faults': (), 'expect': [], 'decls': decls})
        singles = units.plant_all(decls, ns, rng)
        for (fk, code, ds) in singles:
            cases.append({'kind': 'single', 'faults': (fk,), 'expect': [code], 'decls': ds})
        # double faults: plant a second fault into single-fault mutants (sampled)
        for _ in range(6 if ctx.quick() else 20):
            if not singles: break
            fk1, c1, ds1 = rng.choice(singles)
            seconds = units.plant_all(ds1, ns, rng)
            if not seconds: continue
            fk2, c2, ds2 = rng.choice(seconds)
            if fk2 == fk1 and fk1.startswith('subrange'): continue   # swapping the limits twice restores the valid unit
            cases.append({'kind': 'double', 'faults': (fk1, fk2), 'expect': [c1, c2], 'decls': ds2})
    for c in cases:
        nf = rng.choice([1, 1, 2, 3])
        c['files'] = units.split_files(rng, c['decls'], nf) if nf > 1 else [list(c['decls'])]
        # half of the units in a varied spelling: enumerated values with or without their type name, identifier case per occurrence
        vary = rng.random() < 0.5
        c['texts'] = [units.print_file(f, rng, vary=vary) for f in c['files']]
    impl = core.run_lines(core.VH, ['project ' + ' '.join(core.hexs(t) if t else '-' for t in c['texts']) for c in cases], jobs=12)
    model = core.run_lines(core.PLCDRV, [units.enc_unit(c['files']) for c in cases], jobs=12) if ctx.model_available else [None] * len(cases)
    for c, io, mo in zip(cases, impl, model):
        ctx.evaluations += 1
        ctx.count(f"kind:{c['kind']}")
        for f in c['faults']: ctx.count(f'fault:{f}')
        status, codes = parse_impl(io)
        groups = parse_model(mo) if mo is not None else None
        show = {'kind': c['kind'], 'faults': list(c['faults']), 'texts': c['texts'], 'unit': units.enc_unit(c['files'])}
        shape = tuple(sorted(d[0] for d in c['decls']))
        if c['faults'] or len(c['decls']) >= 4:
            ctx.feature((c['faults'], shape))
        model_unsupported = groups is not None and any(UNSUPPORTED in g for g in groups)
        if status == 'crash':
            ctx.violations.append({'stream': 'unit', 'case': show, 'what': f'analysis crashed: {codes}', 'impl': io, 'model': mo})
            continue
        if mo is not None:
            ctx.traces += 1
            if not agree(groups, status, codes):
                ctx.corr_fail.append({'stream': 'unit', 'case': show, 'model': mo, 'impl': io})
        if model_unsupported or UNSUPPORTED in codes:
            ctx.count('outside:P9999')
            continue
        # the property oracle, independent of the model
        if c['kind'] == 'valid' and status != 'ok':
            ctx.violations.append({'stream': 'unit', 'case': show, 'impl': io, 'model': mo,
                                   'what': f'a unit that satisfies every rule is rejected with {sorted(codes)}'})
        if c['kind'] == 'single':
            if status == 'ok':
                ctx.violations.append({'stream': 'unit', 'case': show, 'impl': io, 'model': mo,
                                       'what': f'unit violating exactly one rule ({c["faults"][0]}) is accepted'})
            elif c['expect'][0] not in codes:
                ctx.violations.append({'stream': 'unit', 'case': show, 'impl': io, 'model': mo,
                                       'what': f'single fault {c["faults"][0]}: {c["expect"][0]} is not among the reported codes {sorted(codes)}'})
        if c['kind'] == 'double' and status == 'ok':
            ctx.violations.append({'stream': 'unit', 'case': show, 'impl': io, 'model': mo,
                                   'what': f'unit violating two rules {c["faults"]} is accepted'})
        ctx.sample({'kind': c['kind'], 'faults': list(c['faults']), 'text': c['texts'][0][:300], 'impl': io[:100]}, limit=4)
    ctx.violations.sort(key=lambda v: sum(len(t) for t in v['case']['texts']))
    ctx.corr_fail.sort(key=lambda v: sum(len(t) for t in v['case']['texts']))
    return core.finish(ctx, level='proof', rule=RULE,
                       assumptions=['units on which the analyzer answers P9999 (capability not implemented) are outside the property; the model computes that set',
                                    'rule visitors that return at their first error report one of the codes of their failing sites (model: group of alternatives)'])
