"""C15 — semantic tokens decode to exactly the highlighted lexemes of the document."""
from .. import core, gen_text, lexcheck, lspclient
from ..gen_text import gen_tables

RULE = ('documents = fixtures + generated lexeme soups with random trivia (comments before tokens on the same line, multi-line '
        'comments, CRLF, non-ASCII), some with lexical errors; each is sent to `ironplcc lsp --stdio` after a random edit '
        'history (other documents opened, the document changed several times, earlier versions highlighted before the change - '
        'valid then lexically broken and the reverse) and textDocument/semanticTokens/full is '
        'requested; the data is compared with the Lean model (M-Lex + Gen/Legend + relative encoding) and decoded with the '
        'LSP rule against the lexemes reported by tokenize_program; non-trivial = at least 2 highlighted lexemes; '
        'distinct = distinct (feature set, history shape)')

WORD_OPS = {'Or', 'Xor', 'And', 'Not', 'Mod'}
PUNCT_OPS = {':=', '+', '-', '*', '/', '**', '=', '<>', '<', '>', '<=', '>=', '&'}


def variant_classes():
    """TokenType variant -> set of admissible legend names (lenient reading, see DESIGN C15)"""
    gen_tables.REPO = core.REPO
    entries, variants = gen_tables.token_entries()
    adm = {}
    for (v, kind, val, ic, pr) in entries:
        if kind == 'token':
            if val[0].isalpha():
                if v in WORD_OPS: a = {'operator', 'keyword'}
                elif v in ('String', 'WString'): a = {'keyword', 'string', 'type'}
                else: a = {'keyword', 'modifier', 'type'}
            elif val in PUNCT_OPS: a = {'operator'}
            elif val in ('..', '=>'): a = {'keyword', 'operator'}
            else: a = {'operator'}
        else:
            if v == 'Identifier': a = {'variable'}
            elif v == 'Comment': a = {'comment'}
            elif v.startswith('DirectAddress'): a = {'operator', 'variable'}
            elif v in ('SingleByteString', 'DoubleByteString'): a = {'string'}
            elif v in ('Whitespace', 'Newline'): a = set()
            else: a = {'number'}
        adm[v] = adm.get(v, set()) | a
    return adm


def decode(data):
    out = []
    l = c = 0
    if len(data) % 5: return None
    for i in range(0, len(data), 5):
        dl, ds, ln, ty, mod = data[i:i + 5]
        l = l + dl
        c = c + ds if dl == 0 else ds
        out.append((l, c, ln, ty))
    return out


def semtok_oracle(text, lexline, result, legend, adm):
    """result: None (null) or list of ints. lexline: the `vh lex` answer for the same text."""
    parsed = lexcheck.parse_lex(lexline)
    if parsed is None:
        return [f'tokenize_program failed: {lexline[:100]}']
    toks, errs = parsed
    if lexcheck.has_no_token_text(text) and result is not None:
        return ['the document holds characters that belong to no token (outside comments and strings) but the result is not null']
    if errs:
        return [] if result is None else [f'document has {len(errs)} lexical error(s) but the result is not null']
    if result is None:
        return []   # (a null for a valid document is caught by the correspondence)
    # the lexemes the ranges must cover are those of the document text: the comments by the lexical rules themselves
    cv = lexcheck.comment_oracle(text, toks, errs)
    if cv: return cv
    dec = decode(result)
    if dec is None:
        return ['data length is not a multiple of 5']
    b = text.encode('utf-8')
    out = []
    # index real lexemes by their independent position
    lex = {}
    for (ty, s, e, l, c, f) in toks:
        if f == 's': continue
        line, cols = lexcheck.line_col_candidates(b, s)
        seg = b[s:e]
        try:
            st = seg.decode('utf-8'); lens = {len(seg), len(st), len(st.encode('utf-16-le')) // 2}
        except UnicodeDecodeError:
            lens = {len(seg)}
        for col in cols:
            lex.setdefault((line, col), []).append((ty, lens, seg.count(b'\n')))
    # one unit of length for the whole response: bytes, characters or UTF-16 units - columns and lengths alike
    def measures(seg_bytes):
        try:
            st = seg_bytes.decode('utf-8'); return (len(seg_bytes), len(st), len(st.encode('utf-16-le')) // 2)
        except UnicodeDecodeError:
            return (len(seg_bytes),) * 3
    table = []
    for (ty, s, e, l, c, f) in toks:
        if f == 's': continue
        line = b.count(b'\n', 0, s)
        ls = b.rfind(b'\n', 0, s) + 1
        table.append((line, measures(b[ls:s]), measures(b[s:e])))
    fits = []
    for u in range(3):
        pos = {(line, cm[u]): lm[u] for (line, cm, lm) in table}
        fits.append(all(pos.get((l, c)) == ln for (l, c, ln, ty) in dec))
    if dec and not any(fits) and all(lex.get((l, c)) and any(ln in x[1] for x in lex[(l, c)]) for (l, c, ln, ty) in dec):
        out.append('no single unit (bytes, characters, UTF-16 units) explains the start columns and the lengths of the response together')
    prev = None
    classes, seen = {}, set()
    for (l, c, ln, ty) in dec:
        cands = lex.get((l, c), [])
        hit = [x for x in cands if ln in x[1]]
        if not hit:
            out.append(f'decoded range line {l} char {c} len {ln} does not cover exactly one lexeme of the document')
            continue
        vty, _, nl = hit[0]
        name = legend[ty] if ty < len(legend) else '?'
        if name not in adm.get(vty, set()):
            out.append(f'lexeme {vty} at line {l} char {c} is classified {name}')
        if prev is not None:
            pl, pc, pln, pnl = prev
            if (l, c) <= (pl, pc):
                out.append(f'decoded ranges not strictly increasing at line {l} char {c}')
            elif pnl == 0 and l == pl and c < pc + pln:
                out.append(f'decoded ranges overlap at line {l} char {c}')
        prev = (l, c, ln, nl)
        classes.setdefault(vty, set()).add(name)
        seen.add((l, c))
    # the word operators form one class: whatever it is called, all of them get the same legend entry
    wo = {n for v in WORD_OPS for n in classes.get(v, ())}
    if len(wo) > 1:
        out.append('the word operators are not classified alike: ' + ', '.join(f'{v}={sorted(classes[v])}' for v in WORD_OPS if v in classes))
    # comments and identifiers are highlighted wherever they stand (their class is not a matter of reading)
    for (ty, s, e, l, c, f) in toks:
        if f == 's' or ty not in ('Comment', 'Identifier'): continue
        line, cols = lexcheck.line_col_candidates(b, s)
        if not any((line, col) in seen for col in cols):
            out.append(f'the {ty} lexeme at line {line} (byte {s}) is missing from the response')
            break
    return out


def cases(ctx):
    rng = ctx.rng
    soup = gen_text.Soup(rng)
    docs = []
    for name, t in gen_text.fixture_texts():
        docs.append((t, frozenset(['fixture'])))
    n = 150 if ctx.quick() else 15000
    for i in range(n):
        size = rng.choice([2, 3, 5, 8, 13, 30])
        err = rng.random() < 0.15
        t, feats = soup.text(size, allow_err=err, allow_opener=err and rng.random() < 0.3)
        docs.append((t, feats))
    from .. import refgrammar
    from .c08 import respell
    refgrammar.Gen.OPS = refgrammar.ops_from_table(core.REPO)
    kws = [l for (v, l, ic) in gen_text.token_literals()]
    for i in range(40 if ctx.quick() else 3000):
        g = refgrammar.Gen(rng, kws)
        lex, lib = g.library(1)
        docs.append((respell(rng, lex, {'trivia', 'endif', 'kw'}), frozenset(['grammar-respelled'])))
    docs.append(('PROGRAM p\nx := a AND b OR c XOR NOT d MOD e;\ny := a and b or c xor not d mod e;\nEND_PROGRAM\n', frozenset(['word-operators'])))
    out = []
    junk = ['', 'PROGRAM p END_PROGRAM', 'x ? y', '(* never closed', 'VAR a : INT; END_VAR']
    for t, feats in docs:
        shape = rng.choice(['direct', 'edited', 'other-doc', 'reopened', 'multi-change', 'asked-before'])
        h = []
        ver = 1
        if shape == 'direct':
            h.append(('open', 'f0', ver, t))
        elif shape == 'edited':
            h.append(('open', 'f0', ver, rng.choice(junk)))
            for _ in range(rng.randint(1, 3)):
                ver += 1; h.append(('change', 'f0', ver, [rng.choice(junk)]))
            ver += 1; h.append(('change', 'f0', ver, [t]))
        elif shape == 'other-doc':
            h.append(('open', 'f1', 1, rng.choice(junk)))
            h.append(('open', 'f0', 1, t))
            h.append(('change', 'f1', 2, [rng.choice(junk)]))
        elif shape == 'reopened':
            h.append(('open', 'f0', 1, rng.choice(junk)))
            h.append(('open', 'f0', 5, t))
        elif shape == 'asked-before':
            # earlier versions of the document were highlighted too: the answer is about the current text only
            h.append(('open', 'f0', ver, rng.choice(junk + [d[0] for d in docs[:8]])))
            h.append(('semtok', 3, 'f0'))
            if rng.random() < 0.5:
                ver += 1; h.append(('change', 'f0', ver, [rng.choice(junk)])); h.append(('semtok', 4, 'f0'))
            ver += 1; h.append(('change', 'f0', ver, [t]))
        else:
            h.append(('open', 'f0', 1, rng.choice(junk)))
            h.append(('change', 'f0', 2, [rng.choice(junk), t]))
        h.append(('semtok', 7, 'f0'))
        h += [('shutdown', 99), ('exit',)]
        out.append({'text': t, 'history': h, 'feats': feats | {shape}})
    # directed: a highlighted valid version followed by a version with a lexical error (and the other way round)
    valid = [d[0] for d in docs[:6]] + ['PROGRAM p\nVAR a : INT; END_VAR\na := 1;\nEND_PROGRAM\n']
    broken = ['x ? y', 'PROGRAM p\nVAR a : INT; END_VAR\na := 1 ? 2;\nEND_PROGRAM\n', "s := 'never closed", '(* never closed']
    for v in valid:
        for b in broken:
            for first, last in ((v, b), (b, v)):
                h = [('open', 'f0', 1, first), ('semtok', 3, 'f0'), ('change', 'f0', 2, [last]), ('semtok', 7, 'f0'), ('shutdown', 99), ('exit',)]
                out.append({'text': last, 'history': h, 'feats': frozenset(['asked-before-directed'])})
    return out


def run(ctx):
    core.prepare(ctx, need_binary=True)
    adm = variant_classes()
    cs = cases(ctx)
    lexlines = core.run_lines(core.VH, ['lex ' + core.hexs(c['text']) for c in cs], jobs=8)
    model = core.run_lines(core.PLCDRV, [lspclient.model_line(c['history']) for c in cs], jobs=8) if ctx.model_available else [None] * len(cs)
    sess = lspclient.sessions([c['history'] for c in cs])
    for c, lx, mo, se in zip(cs, lexlines, model, sess):
        ctx.evaluations += 1
        ctx.count('semtok:cases')
        for f in c['feats']: ctx.count(f'semtok:feat:{f}')
        show = {'text': c['text'], 'history': [list(m) for m in c['history']]}
        # legend as announced by the server
        legend = []
        try:
            legend = se['frames'][0]['result']['capabilities']['semanticTokensProvider']['legend']['tokenTypes']
        except Exception:
            pass
        result = 'missing'
        for part in se['skeleton'].split():
            if part.startswith('tok:7:'):
                r = part[len('tok:7:'):]
                result = None if r == 'null' else ([int(x) for x in r.split(',')] if r else [])
        if mo is not None:
            ctx.traces += 1
            if mo != se['skeleton']:
                ctx.corr_fail.append({'stream': 'semtok', 'case': show, 'model': mo, 'impl': se['skeleton'], 'stderr': se['stderr']})
        viol = []
        if result == 'missing':
            viol.append(f'no answer to the semanticTokens request (exit {se["rc"]})')
        else:
            viol = semtok_oracle(c['text'], lx, result, legend, adm)
            if result is not None and len(result) >= 10:
                ctx.feature(('semtok', c['feats']))
            if result is None: ctx.count('semtok:null-result')
        ctx.sample({'stream': 'semtok', 'text': c['text'][:200], 'result': result if result in (None, 'missing') else result[:25]}, limit=4)
        for v in viol:
            ctx.violations.append({'stream': 'semtok', 'case': show, 'what': v, 'impl': se['skeleton'], 'model': mo})
    return core.finish(ctx, level='proof', rule=RULE,
                       assumptions=['columns and lengths may be counted in bytes, chars or UTF-16 units',
                                    'a multi-line comment is one range whose length is the length of the whole lexeme',
                                    'admissible classes: see vlib/props/c15.py::variant_classes and PlcProofs/Props/C15.lean'])
