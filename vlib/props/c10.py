"""C10 — re-rendering round-trips: the echo output parses back to the same library."""
import glob, json, os, re
from .. import core, refgrammar, gen_text, cli
from .c01 import canon_impl, canon_model, first_diff

RULE = ('libraries printed from the reference grammar of C01 (every declaration, statement, expression, literal and '
        'configuration form; the construct classes named by the C10 entries of known_findings.jsonl are left out and replayed '
        'separately as fixed witnesses) and every parseable fixture of the repository; oracle (implementation only): '
        'write_to_string(parse(s)) parses, parses to a library equal to parse(s) (Debug form, source positions ignored), and '
        'rendering that library again gives the same text; the same through the binary: `ironplcc echo` of a file, fed back to '
        '`ironplcc echo`, exits 0 twice and prints the same text; correspondence: the Lean parser mirror parses the rendered '
        'text to the same tree as parse_program, the Lean renderer model prints the same lexemes as write_to_string, and '
        'inside the model parse . render . parse is the identity on every explored library; non-trivial = rendered text differs from the source text; distinct = distinct '
        'feature set of the generated library')


def outcome(text, io):
    """classify a `vh render` answer -> (kind, at): kind in OK SRCERR RENDERERR REPARSE DIFF NOTFIXED CRASH"""
    p = io.split(' ')
    if io.startswith('OK'):
        same, fixed = p[1] == 'same=1', p[2] == 'fixed=1'
        if same and fixed: return 'OK', ''
        if not same: return 'DIFF', ''
        return 'NOTFIXED', ''
    if io.startswith('REPARSE'):
        s, e = map(int, p[1].split('@')[1].split('-'))
        r = bytes.fromhex(p[2]).decode('utf-8', 'replace')
        return 'REPARSE', r.encode()[s:e].decode('utf-8', 'replace')
    if io.startswith('SRCERR'): return 'SRCERR', ''
    if io.startswith('RENDERERR'): return 'RENDERERR', ''
    return 'CRASH', io[:80]


def rendered_of(io):
    p = io.split(' ')
    if io.startswith('OK'): return bytes.fromhex(p[3]).decode('utf-8', 'replace')
    if io.startswith('REPARSE'): return bytes.fromhex(p[2]).decode('utf-8', 'replace')
    return None


def diff_context(text, rendered):
    a, b = [canon_impl(x) for x in core.run_lines(core.VH, ['parse ' + core.hexs(text), 'parse ' + core.hexs(rendered)])]
    d = first_diff(a, b)
    return a[max(0, d - 120):d + 80], b[max(0, d - 120):d + 80]


def describe(kind, at, text, io):
    if kind == 'REPARSE': return f'the rendered text is not accepted by the parser (syntax error at `{at}`)'
    if kind == 'DIFF': return 'the rendered text parses to a different library'
    if kind == 'NOTFIXED': return 'rendering the re-parsed library gives a different text (not a fixed point)'
    if kind == 'RENDERERR': return 'the renderer fails on a library the parser produced'
    return f'render crashed: {at}'


def fixtures():
    out = []
    for f in sorted(glob.glob(os.path.join(core.REPO, 'compiler', '**', '*.st'), recursive=True)):
        if '/target/' in f: continue
        try:
            t = open(f, 'rb').read().decode('utf-8')
        except UnicodeDecodeError:
            continue
        out.append((os.path.relpath(f, os.path.join(core.REPO, 'compiler')), t))
    return out


def run(ctx):
    core.prepare(ctx, need_binary=True)
    rng = ctx.rng
    known = core.load_known('C10')
    excl = set()
    for k in known: excl |= set(k.get('classes', []))
    lits = gen_text.token_literals()
    kws = [l for (v, l, ic) in lits]
    refgrammar.Gen.OPS = refgrammar.ops_from_table(core.REPO)
    cases = []
    for i in range(250 if ctx.quick() else 8000):
        g = refgrammar.Gen(rng, kws, exclude=excl)
        lex, lib = g.library(rng.choice([1, 1, 2]))
        cases.append({'src': 'grammar', 'name': f'g{i}', 'text': refgrammar.spell(lex), 'feats': frozenset(g.features)})
    # every binary operator x unary operand / unary of a binary, with needed and with redundant parentheses (exhaustive)
    from .c01 import operator_unary_shapes
    for name, txt in operator_unary_shapes(refgrammar.Gen(rng, kws, exclude=excl)):
        cases.append({'src': 'grammar', 'name': name, 'text': f'PROGRAM pp0\nVAR rr0 : INT; END_VAR\nrr0 := {txt};\nEND_PROGRAM\n',
                      'feats': frozenset(['operator-shape:' + name])})
    # statement shapes that a printer could be tempted to write in another way: an ELSE (ELSIF, CASE ELSE, loop body) that holds
    # exactly one IF / CASE / loop, with and without further branches, empty THEN branches
    inner = ['IF b THEN x := 2; END_IF;', 'IF b THEN x := 2; ELSE x := 3; END_IF;', 'IF b THEN ELSE x := 3; END_IF;',
             'IF b THEN x := 2; ELSIF c THEN x := 3; END_IF;', 'CASE x OF 1: x := 2; END_CASE;', 'WHILE b DO x := 2; END_WHILE;',
             'REPEAT x := 2; UNTIL b END_REPEAT;', 'FOR x := 1 TO 2 DO y := 1; END_FOR;']
    outer = ['IF a THEN x := 1; ELSE {i} END_IF;', 'IF a THEN {i} END_IF;', 'IF a THEN x := 1; ELSIF d THEN {i} END_IF;',
             'IF a THEN x := 1; ELSIF d THEN x := 5; ELSE {i} END_IF;', 'IF a THEN x := 1; ELSE {i} x := 4; END_IF;', 'IF a THEN ELSE {i} END_IF;',
             'CASE x OF 1: x := 1; ELSE {i} END_CASE;', 'CASE x OF 1: {i} END_CASE;', 'WHILE a DO {i} END_WHILE;', 'REPEAT {i} UNTIL a END_REPEAT;',
             'FOR y := 1 TO 2 DO {i} END_FOR;']
    for oi, o in enumerate(outer):
        for ii, i in enumerate(inner):
            cases.append({'src': 'grammar', 'name': f'shape{oi}.{ii}', 'text': 'PROGRAM pp0\nVAR a : BOOL; b : BOOL; c : BOOL; d : BOOL; x : INT; y : INT; END_VAR\n' + o.format(i=i) + '\nEND_PROGRAM\n',
                          'feats': frozenset([f'statement-shape:{oi}.{ii}'])})
    # the literal space of C09 (every literal the parser must accept), each as an initial value
    from . import c09
    for (ty, lit, exp, kind) in c09.int_cases() + c09.real_cases() + c09.dur_cases() + c09.tod_cases() + c09.date_cases() + c09.str_cases():
        if exp is None or exp.startswith('ERR'): continue
        if kind == 'real' and 'real-integral' in excl:
            try:
                if float(lit.split('#')[-1].replace('_', '')).is_integer(): continue
            except (ValueError, OverflowError):
                continue
        cases.append({'src': 'literal', 'name': lit, 'text': c09.prog(ty, lit), 'feats': frozenset(['literal:' + kind + ':' + lit])})
        cases.append({'src': 'literal', 'name': lit, 'text': f'PROGRAM p\nx := {lit};\nEND_PROGRAM\n', 'feats': frozenset(['literal-expr:' + kind + ':' + lit])})
    # durations around every boundary of the renderer's unit split: sign x whole x fraction x unit
    for sign in ('', '-'):
        for whole in ('0', '1', '999', '1000', '18446744073709551'):
            for frac in ('', '.5', '.000001', '.999999', '.25'):
                for unit in ('ms', 's', 'm', 'h', 'd'):
                    lit = f'T#{sign}{whole}{frac}{unit}'
                    cases.append({'src': 'literal', 'name': lit, 'text': f'PROGRAM p\nx := {lit};\nEND_PROGRAM\n', 'feats': frozenset(['duration:' + lit])})
    for name, t in fixtures():
        cases.append({'src': 'fixture', 'name': name, 'text': t, 'feats': frozenset(['fixture:' + name])})
    impl = core.run_lines(core.VH, ['render ' + core.hexs(c['text']) for c in cases], jobs=12)
    # ---- oracle on the implementation
    rendered = []
    for c, io in zip(cases, impl):
        ctx.evaluations += 1
        kind, at = outcome(c['text'], io)
        ctx.count(f"{c['src']}:{kind}")
        r = rendered_of(io)
        rendered.append(r if kind == 'OK' else None)
        if kind == 'SRCERR':
            if c['src'] == 'grammar':
                ctx.violations.append({'stream': 'render', 'case': {'text': c['text']}, 'impl': io[:100], 'model': None,
                                       'what': 'a library printed from the reference grammar is rejected by the parser (C01 territory; reported here because the round trip cannot start)'})
            continue
        if kind == 'OK':
            if r.split() != c['text'].split(): ctx.feature(c['feats'])
            ctx.sample({'source': c['text'][:160], 'rendered': r[:160]}, limit=3)
            continue
        if c['src'] == 'fixture':
            # a fixture may contain a construct of a known finding: attribute the failure to it only when the failure
            # has that finding's signature (outcome + what stands right before the syntax error / at the first tree difference)
            hit = None
            ctxs = diff_context(c['text'], r) if kind == 'DIFF' else None
            for k in known:
                for sg in k.get('fixture_signatures', []):
                    if sg['outcome'] != kind: continue
                    if kind == 'REPARSE':
                        p_ = io.split(' ')
                        e_ = int(p_[1].split('@')[1].split('-')[1])
                        before = r.encode()[:e_].decode('utf-8', 'replace')
                        if re.search(sg['before'], before): hit = k
                    elif kind == 'DIFF':
                        d_ = first_diff(*ctxs)
                        if sg['first'] in ctxs[0][max(0, d_ - 40):d_ + 40] and sg['reparsed'] in ctxs[1][max(0, d_ - 40):d_ + 40]: hit = k
            if hit:
                ctx.known_hits.append((hit['id'], f"fixture {c['name']}: {describe(kind, at, c['text'], io)}"))
                continue
        show = {'name': c['name'], 'text': c['text'], 'rendered': r}
        model = None
        if kind == 'DIFF':
            a, b = diff_context(c['text'], r)
            model = {'first_library': a, 'reparsed_library': b}
        ctx.violations.append({'stream': 'render', 'case': show, 'impl': io[:120], 'model': model, 'what': describe(kind, at, c['text'], io)})
    # ---- correspondence: the parser mirror on the rendered texts (the renderer's own layout and spelling)
    if ctx.model_available:
        idx = [i for i, r in enumerate(rendered) if r is not None]
        reqs = ['parse ' + core.hexs(rendered[i]) for i in idx]
        ip = core.run_lines(core.VH, reqs, jobs=12)
        mp = core.run_lines(core.PLCDRV, reqs, jobs=12)
        for i, a, b in zip(idx, ip, mp):
            ctx.traces += 1
            ca, cb = canon_impl(a), canon_model(b)
            if ca != cb:
                d = first_diff(ca, cb)
                ctx.corr_fail.append({'stream': 'parse-rendered', 'case': {'text': rendered[i]}, 'model': cb[max(0, d - 100):d + 100], 'impl': ca[max(0, d - 100):d + 100]})
        # the Lean renderer model on the statement/expression fragment
        reqs = ['render ' + core.hexs(cases[i]['text']) for i in idx]
        mr = core.run_lines(core.PLCDRV, reqs, jobs=12)
        n_frag = 0
        for i, m in zip(idx, mr):
            if m is None or not m.startswith('OK '): continue     # outside the modelled fragment (UNSUPPORTED) or not parsed
            n_frag += 1
            mtoks = bytes.fromhex(m.split(' ')[1]).decode().split()
            itoks = rendered[i].split()
            if mtoks != itoks:
                d = next((j for j, (x, y) in enumerate(zip(mtoks, itoks)) if x != y), min(len(mtoks), len(itoks)))
                ctx.corr_fail.append({'stream': 'render-lexemes', 'case': {'text': cases[i]['text']}, 'model': ' '.join(mtoks[max(0, d - 8):d + 8]),
                                      'impl': ' '.join(itoks[max(0, d - 8):d + 8])})
        ctx.hist['renderer-model:libraries-in-fragment'] = n_frag
        # the round trip inside the model: parser mirror . renderer model . parser mirror = identity on the explored
        # libraries (trees compared in canonical form: real literals by their binary64 value)
        rt_idx = [i for i, m in zip(idx, mr) if m is not None and m.startswith('OK ')]
        mtexts = {i: bytes.fromhex(m.split(' ')[1]).decode() for i, m in zip(idx, mr) if m is not None and m.startswith('OK ')}
        p1 = core.run_lines(core.PLCDRV, ['parse ' + core.hexs(cases[i]['text']) for i in rt_idx], jobs=12)
        p2 = core.run_lines(core.PLCDRV, ['parse ' + core.hexs(mtexts[i]) for i in rt_idx], jobs=12)
        for i, a, b in zip(rt_idx, p1, p2):
            ca, cb = canon_model(a), canon_model(b)
            if ca != cb:
                d = first_diff(ca, cb)
                ctx.corr_fail.append({'stream': 'model-roundtrip', 'case': {'text': cases[i]['text']}, 'model': cb[max(0, d - 100):d + 100], 'impl': ca[max(0, d - 100):d + 100]})
        ctx.hist['model-roundtrip:libraries'] = len(rt_idx)
    # ---- the binary: echo | echo
    sample = [c for c, r in zip(cases, rendered) if r is not None]
    rng.shuffle(sample)
    for c in sample[:(25 if ctx.quick() else 300)]:
        with cli.Workdir() as w:
            p1 = w.write('a/in.st', c['text'])
            r1 = cli.run_cli(['echo', p1])
            p2 = w.write('b/in.st', r1['stdout'])
            r2 = cli.run_cli(['echo', p2])
        ctx.evaluations += 1
        ctx.count('cli-echo-echo')
        if r1['rc'] != 0 or r2['rc'] != 0 or r1['stdout'] != r2['stdout']:
            what = (f'`ironplcc echo` exits {r1["rc"]} on a file the parser accepts' if r1['rc'] != 0 else
                    f'`ironplcc echo` exits {r2["rc"]} on its own output' if r2['rc'] != 0 else 'the echo of the echo output differs from the echo output')
            ctx.violations.append({'stream': 'cli', 'case': {'text': c['text'], 'echo': r1['stdout'][:2000]}, 'impl': (r2['stderr'] or r1['stderr'])[:300], 'model': None, 'what': what})
    # ---- known findings: fixed witnesses, replayed on every run
    for k in known:
        for wt in k.get('witness', []):
            io = core.run_lines(core.VH, ['render ' + core.hexs(wt)])[0]
            kind, at = outcome(wt, io)
            if kind not in ('OK', 'SRCERR'):
                ctx.known_hits.append((k['id'], f'{describe(kind, at, wt, io)}: {" ".join(wt.split())[:90]}'))
    ctx.violations.sort(key=lambda v: len(v['case']['text']))
    return core.finish(ctx, level='proof', rule=RULE,
                       assumptions=['library equality is equality of the Debug form with SourceSpan fields dropped (PartialEq on the dsl ignores spans the same way)',
                                    'the construct classes of the C10 known findings are not generated: ' + ', '.join(sorted(excl))],
                       extra={'excluded_classes': sorted(excl)})
