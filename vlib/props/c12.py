"""C12 — the language server answers every request once and survives any message sequence."""
from .. import core, lspclient

RULE = ('random interleavings (length 1..60) of didOpen / didChange with 0, 1 or 2 content changes / semanticTokens requests / '
        'requests and notifications for unimplemented methods / client responses / notifications for unopened and non-file '
        'URIs, followed by shutdown and exit, run against `ironplcc lsp --stdio`; frames and exit status are compared with '
        'the Lean model of the server loop and with the property oracle; non-trivial = at least one request and one '
        'notification; distinct = distinct multiset of message kinds + length bucket')

TEXTS = ['PROGRAM p\nVAR a : BOOL; END_VAR\na := TRUE;\nEND_PROGRAM\n', 'PROGRAM q\nVAR a : BOOL; END_VAR\nb := TRUE;\nEND_PROGRAM\n',
         'x ? y', 'PROGRAM ', '', '(* only a comment *)', 'TYPE T : INT; END_TYPE', 'FUNCTION_BLOCK f VAR x : g; END_VAR END_FUNCTION_BLOCK',
         'PROGRAM é END_PROGRAM', "VAR s : STRING := 'abc'; END_VAR"]
DEEP_SUM = 'PROGRAM p\nVAR x : INT; END_VAR\nx := ' + '1 + ' * 3000 + '1;\nEND_PROGRAM\n'
DEEP_PAREN = 'PROGRAM p\nVAR x : INT; END_VAR\nx := ' + '(' * 200 + '1' + ' + 1)' * 200 + ';\nEND_PROGRAM\n'
REQ_METHODS = ['textDocument/hover', 'textDocument/completion', 'textDocument/definition', 'workspace/symbol', '$/custom', 'foo']
NOTIF_METHODS = ['$/setTrace', 'textDocument/didSave', 'workspace/didChangeConfiguration', 'textDocument/didClose', '$/cancelRequest', 'bar']
URIS = ['f0', 'f1', 'f2', 'n0', 'n1']


def gen_history(rng, n):
    h = []
    rid = 1
    ver = 0
    kinds = []
    for _ in range(n):
        k = rng.choice(['open', 'change0', 'change1', 'change2', 'semtok', 'req', 'notif', 'resp', 'open', 'change1', 'semtok'])
        kinds.append(k)
        ver += 1
        u = rng.choice(URIS)
        if k == 'open': h.append(('open', u, ver, rng.choice(TEXTS)))
        elif k.startswith('change'):
            h.append(('change', u, ver, [rng.choice(TEXTS) for _ in range(int(k[-1]))]))
        elif k == 'semtok': h.append(('semtok', rid, u)); rid += 1
        elif k == 'req': h.append(('req', rid, rng.choice(REQ_METHODS))); rid += 1
        elif k == 'notif': h.append(('notif', rng.choice(NOTIF_METHODS)))
        elif k == 'resp': h.append(('resp', rng.randint(100, 200)))
    h.append(('shutdown', rid))
    h.append(('exit',))
    return h, kinds


def oracle(history, se):
    """the property evaluated on the frames of one session"""
    out = []
    if not se['init_ok']:
        return ['no initialize response']
    req_ids = [m[1] for m in history if m[0] in ('semtok', 'req', 'shutdown')]
    answered = {}
    for part in se['skeleton'].split():
        f = part.split(':')
        if f[0] in ('tok', 'err', 'shut', 'res'):
            answered[int(f[1])] = answered.get(int(f[1]), 0) + 1
        if f[0] in ('srvreq', 'garbage'):
            out.append(f'unexpected frame {part}')
    for i in req_ids:
        if answered.get(i, 0) != 1:
            kind = next(m for m in history if m[0] in ('semtok', 'req', 'shutdown') and m[1] == i)
            out.append(f'request id {i} ({kind[0]} {kind[2] if kind[0] == "req" else ""}) answered {answered.get(i, 0)} times')
    for i in answered:
        if i not in req_ids:
            out.append(f'response with id {i} that no request carried (a notification or client response was answered)')
    unimpl = {m[1] for m in history if m[0] == 'req'}
    for part in se['skeleton'].split():
        f = part.split(':')
        if f[0] in ('tok', 'res') and int(f[1]) in unimpl:
            out.append(f'unimplemented method answered with a result instead of an error (id {f[1]})')
    if se['rc'] != 0:
        out.append(f'exit status {se["rc"]} after shutdown and exit; stderr: {se["stderr"][-160:]!r}')
    return out


def run(ctx):
    core.prepare(ctx, need_harness=False, need_binary=True)
    rng = ctx.rng
    cases = []
    # directed minimal histories first (the corpus of past failures)
    directed = [
        [('resp', 3)], [('change', 'f0', 1, [])], [('req', 1, 'textDocument/hover')],
        [('change', 'f0', 1, ['x ? y', TEXTS[0]])], [('open', 'n0', 1, 'PROGRAM ?')], [('notif', '$/setTrace')],
        [('semtok', 1, 'f0')], [('semtok', 1, 'n0')], [('open', 'f0', 1, TEXTS[0]), ('semtok', 1, 'f0')],
        # documents as deep as the command line accepts (a sum of 3000 terms, parentheses nested 200 deep): the server runs
        # the same parser and analyzer on every edit
        [('open', 'f0', 1, DEEP_SUM), ('semtok', 1, 'f0')],
        [('open', 'f0', 1, TEXTS[0]), ('change', 'f0', 2, [DEEP_SUM]), ('semtok', 1, 'f0'), ('req', 2, 'textDocument/hover')],
        [('open', 'f1', 1, DEEP_PAREN), ('semtok', 1, 'f1'), ('change', 'f1', 2, [TEXTS[0]]), ('semtok', 2, 'f1')],
    ]
    for d in directed:
        rid = max([m[1] for m in d if m[0] in ('semtok', 'req')] + [0]) + 1
        cases.append({'history': d + [('shutdown', rid), ('exit',)], 'kinds': [m[0] for m in d], 'directed': True})
    n = 120 if ctx.quick() else 20000
    for i in range(n):
        ln = rng.choice([1, 2, 3, 5, 8, 13, 21, 40, 60])
        h, kinds = gen_history(rng, ln)
        cases.append({'history': h, 'kinds': kinds})
    model = core.run_lines(core.PLCDRV, [lspclient.model_line(c['history']) for c in cases], jobs=8) if ctx.model_available else [None] * len(cases)
    sess = lspclient.sessions([c['history'] for c in cases])
    for c, mo, se in zip(cases, model, sess):
        ctx.evaluations += 1
        for k in c['kinds']: ctx.count(f'msg:{k}')
        show = {'history': [list(m) for m in c['history']]}
        kinds = set(c['kinds'])
        if kinds & {'semtok', 'req'} and kinds & {'open', 'change0', 'change1', 'change2', 'notif', 'resp', 'change'}:
            ctx.feature((frozenset(c['kinds']), min(len(c['kinds']) // 8, 6)))
        if mo is not None:
            ctx.traces += 1
            if mo != se['skeleton']:
                ctx.corr_fail.append({'stream': 'lsp', 'case': show, 'model': mo, 'impl': se['skeleton'], 'stderr': se['stderr']})
        for v in oracle(c['history'], se):
            ctx.violations.append({'stream': 'lsp', 'case': show, 'what': v, 'impl': se['skeleton'], 'model': mo})
        ctx.sample({'history': [lspclient.to_model(m)[:60] for m in c['history']][:12], 'frames': se['skeleton'][:300]}, limit=4)
    minimise(ctx)
    return core.finish(ctx, level='proof', rule=RULE,
                       assumptions=['liveness of the two I/O threads of lsp-server is exercised, not proved',
                                    'requests with parameters that do not deserialize are outside the generated space'])


def minimise(ctx):
    """shrink the first violating history by removing messages (the tail shutdown/exit is kept)"""
    if not ctx.violations: return
    v = ctx.violations[0]
    h = [tuple(m) if not isinstance(m, tuple) else m for m in v['case']['history']]
    h = [tuple(tuple(x) if False else x for x in m) for m in h]
    body, tail = h[:-2], h[-2:]
    cat = v['what'][:25]
    changed = True
    while changed and len(body) > 1:
        changed = False
        cands = [body[:i] + body[i + 1:] for i in range(len(body))]
        sess = lspclient.sessions([c + tail for c in cands])
        for c, se in zip(cands, sess):
            if any(x[:25] == cat for x in oracle(c + tail, se)):
                body = c; changed = True; break
    se = lspclient.session(body + tail)
    v['minimised'] = {'history': [list(m) for m in body + tail], 'impl': se['skeleton'], 'what': oracle(body + tail, se)}
