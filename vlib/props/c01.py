"""C01 — parsing is faithful: the library returned denotes exactly the source program."""
from .. import core, refgrammar, rustdebug, gen_text

RULE = ('libraries derived from the reference grammar of vlib/refgrammar.py (TYPE blocks with all declaration forms, VAR '
        'blocks of every class x qualifier x initialiser kind, FUNCTION / FUNCTION_BLOCK / PROGRAM / CONFIGURATION / RESOURCE '
        '/ TASK / VAR_CONFIG, SFC networks, every statement form, expressions over every operator printed with minimal '
        'Annex-B parentheses), in the canonical spelling; plus every ordered operator pair in both nestings exhaustively; '
        'parse_program is compared with the tree the text was printed from (oracle) and with the Lean parser model '
        '(correspondence); non-trivial = >= 1 declaration; distinct = distinct feature set')


def operator_pairs(gen):
    """a OP1 b OP2 c for every ordered pair, in both tree shapes -> (text, expected expression tree)"""
    out = []
    ops = gen.OPS
    def leaf(n): return ('atom', [('id', n), refgrammar.G], refgrammar.T('LateBound', refgrammar.N('LateBound', ('name', refgrammar.A(n)))))
    for r1 in ops:
        for r2 in ops:
            for shape in ('left', 'right'):
                if shape == 'left': e = ('bin', r2, ('bin', r1, leaf('aa1'), leaf('bb2')), leaf('cc3'))
                else: e = ('bin', r1, leaf('aa1'), ('bin', r2, leaf('bb2'), leaf('cc3')))
                lex, tree = gen.print_expr(e)
                out.append((r1[1], r2[1], shape, lex, tree))
    return out


def operator_unary_shapes(gen):
    """every binary operator with a unary expression as its left / right operand and as the operand of a unary operator,
    each written with the parentheses that are needed and with redundant ones: -> (name, source text of the expression)"""
    out = []
    for row in gen.OPS:
        op = row[1]
        for u in ('-', 'NOT '):
            for name, txt in [('unary-left', f'{u}aa1 {op} bb2'), ('unary-left-paren', f'({u}aa1) {op} bb2'),
                              ('unary-right', f'aa1 {op} {u}bb2'), ('unary-right-paren', f'aa1 {op} ({u}bb2)'),
                              ('unary-of-binary', f'{u}(aa1 {op} bb2)'), ('unary-of-unary', f'{u}({u}aa1) {op} bb2'),
                              ('binary-paren-left', f'(aa1 {op} bb2) {op} cc3'), ('binary-paren-right', f'aa1 {op} (bb2 {op} cc3)')]:
                out.append((f'{name}:{op}:{u.strip()}', txt))
    return out


def wrap_expr(lex, tree):
    """a program around one expression"""
    R = refgrammar
    text = 'PROGRAM pp0\nVAR rr0 : INT; END_VAR\nrr0 := ' + R.spell(lex) + ';\nEND_PROGRAM\n'
    var = R.N('VarDecl', ('identifier', R.T('Symbol', R.A('rr0'))), ('var_type', R.A('Var')), ('qualifier', R.A('Unspecified')),
              ('initializer', R.T('Simple', R.N('SimpleInitializer', ('type_name', R.N('Type', ('name', R.A('INT')))), ('initial_value', R.NONE)))))
    stmt = R.T('Assignment', R.N('Assignment', ('target', R.T('Symbolic', R.T('Named', R.N('NamedVariable', ('name', R.A('rr0')))))), ('value', tree)))
    lib = R.N('Library', ('elements', R.L([R.T('ProgramDeclaration', R.N('ProgramDeclaration', ('name', R.A('pp0')), ('variables', R.L([var])),
              ('access_variables', R.L([])), ('body', R.T('Statements', R.N('Statements', ('body', R.L([stmt])))))))])))
    return text, lib


def canon_model(line):
    if line is None: return None
    if line.startswith('OK '): return 'OK ' + rustdebug.canonical(line[3:])
    return line


def canon_impl(line):
    if line.startswith('OK '):
        try: return 'OK ' + rustdebug.canonical(line[3:])
        except Exception as e: return 'UNPARSEABLE ' + str(e)[:80] + ' ' + line[:100]
    if line.startswith('ERR '): return line.split('@')[0]
    return line


def first_diff(a, b):
    n = min(len(a), len(b))
    for i in range(n):
        if a[i] != b[i]: return i
    return n


def run(ctx):
    core.prepare(ctx)
    rng = ctx.rng
    kws = [l for (v, l, ic) in gen_text.token_literals()]
    cases = []
    g = refgrammar.Gen(rng, kws)
    refgrammar.Gen.OPS = refgrammar.ops_from_table(core.REPO)
    for (o1, o2, shape, lex, tree) in operator_pairs(g):
        text, lib = wrap_expr(lex, tree)
        cases.append({'kind': 'operator-pair', 'text': text, 'expected': 'OK ' + rustdebug.canonical(refgrammar.render(lib)),
                      'feats': frozenset([f'pair:{o1}:{o2}:{shape}'])})
    n = 250 if ctx.quick() else 6000
    for i in range(n):
        g = refgrammar.Gen(rng, kws)
        lex, lib = g.library()
        expected = 'OK ' + rustdebug.canonical(refgrammar.render(lib))
        cases.append({'kind': 'library', 'text': refgrammar.spell(lex), 'expected': expected, 'feats': frozenset(g.features)})
        # "each in many concrete spellings": the same library with the letter case of every keyword occurrence and the
        # layout and comments of every gap chosen at random (identifiers as written: the tree holds their spelling)
        from .c08 import respell
        cases.append({'kind': 'library-respelled', 'text': respell(rng, lex, {'kw', 'pk', 'trivia', 'endif', 'hex'}), 'expected': expected,
                      'feats': frozenset(g.features) | {'respelled'}})
    reqs = ['parse ' + core.hexs(c['text']) for c in cases]
    impl = core.run_lines(core.VH, reqs, jobs=12)
    model = core.run_lines(core.PLCDRV, reqs, jobs=12) if ctx.model_available else [None] * len(cases)
    for c, io, mo in zip(cases, impl, model):
        ctx.evaluations += 1
        ctx.count(f"kind:{c['kind']}")
        for f in c['feats']:
            if not f.startswith('pair:'): ctx.count(f'feat:{f}')
        ctx.feature(c['feats'])
        ci, cm = canon_impl(io), canon_model(mo)
        show = {'kind': c['kind'], 'text': c['text']}
        if cm is not None:
            ctx.traces += 1
            if ci != cm:
                d = first_diff(ci, cm)
                ctx.corr_fail.append({'stream': 'parse', 'case': show, 'model': cm[max(0, d - 150):d + 150], 'impl': ci[max(0, d - 150):d + 150]})
        if ci != c['expected']:
            d = first_diff(ci, c['expected'])
            what = ('the source is well-formed but parsing fails' if not ci.startswith('OK ') else
                    'the returned library differs from the program that was written')
            ctx.violations.append({'stream': 'parse', 'case': show, 'impl': ci[max(0, d - 150):d + 150] if ci.startswith('OK') else ci,
                                   'model': c['expected'][max(0, d - 150):d + 150], 'what': what})
        ctx.sample({'text': c['text'][:300], 'impl': ci[:200]}, limit=3)
    ctx.violations.sort(key=lambda v: len(v['case']['text']))
    ctx.corr_fail.sort(key=lambda v: len(v['case']['text']))
    return core.finish(ctx, level='proof', rule=RULE, extra={'operator_pairs_exhaustive': True},
                       assumptions=['productions the parser does not implement (VAR_TEMP, VAR_ACCESS in configurations, several resources, subrange specifications in VAR) are outside the reference grammar',
                                    'binary64 rounding of real literals is Rust\'s (the digits handed to f64::from_str are compared)'])
