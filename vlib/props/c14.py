"""C14 — file encoding is transparent: the result depends only on the decoded text."""
import os, re
from .. import core, units, cli, gen_text

RULE = ('(a) generated programs (valid and faulty) with non-ASCII characters in comments and strings, stored as UTF-8, '
        'UTF-8 with BOM, UTF-16LE and UTF-16BE with BOM and Windows-1252, through `ironplcc check` and `tokenize`: '
        'verdict, codes and line:col positions must be identical; (b) every byte value 0x00-0xFF placed in a comment, in '
        'a string, between tokens and inside an identifier (1024 files, exhaustive) through `ironplcc tokenize`, compared '
        'token for token with the Lean model (decoder cascade + lexer); (c) random binary files: no crash, positions inside '
        'the decoded text; (d) a program and a library file in one invocation, every pair of the five encodings, both argument orders, as '
        'arguments and as a directory: same result for all; non-trivial = file with a non-ASCII byte; distinct = distinct (stream, encoding, byte/context '
        'or program)')

NONASCII = ['é', 'ü', 'ß', 'Ø', '€', '™', 'š', '日本', '😀', 'Ω']
CP1252_OK = set('éüßØ€™š')


def tok_lines(stdout):
    out = []
    for l in stdout.split('\n'):
        m = re.match(r"Type: (\w+), Value: '(.*)', At: Ln (\d+),Col (\d+)$", l)
        if m: out.append((m.group(1), int(m.group(3)), int(m.group(4))))
    return out


def tok_values(stdout):
    """-> [(type, value, line, col)] of the token listing (a value may span several lines of the listing)"""
    return [(m.group(1), m.group(2), int(m.group(3)), int(m.group(4)))
            for m in re.finditer(r"Type: (\w+), Value: '(.*?)', At: Ln (\d+),Col (\d+)\n", stdout, re.S)]


def model_tokens(line):
    if line == 'P0028': return 'P0028'
    left, _, right = line.partition('|')
    toks = []
    for t in left.split():
        ty, s, e, l, c, f = t.split(':')
        toks.append((ty, int(l), int(c)))
    return toks, len(right.split())


def perfect_matching(items, sets):
    """every item is paired with a set of its own that contains it (augmenting paths; a handful of diagnostics)"""
    owner = {}
    def place(i, seen):
        for k, w in enumerate(sets):
            if items[i] in w and k not in seen:
                seen.add(k)
                if k not in owner or place(owner[k], seen):
                    owner[k] = i
                    return True
        return False
    return all(place(i, set()) for i in range(len(items)))


def run_file(action, data):
    with cli.Workdir() as w:
        p = w.write('src/file.st', data)
        r = cli.run_cli([action, p])
    r['diags'] = cli.parse_diags(r['stderr'])
    r['ok_line'] = any(l.strip() == 'OK' for l in r['stdout'].split('\n'))
    return r


def run_set(action, files, as_dir):
    """files: list of (name, bytes) -> the command on the files in that order, or on the directory holding them"""
    with cli.Workdir() as w:
        paths = [w.write('src/' + n, d) for n, d in files]
        r = cli.run_cli([action] + ([os.path.join(w.path, 'src')] if as_dir else paths))
    r['diags'] = cli.parse_diags(r['stderr'])
    r['ok_line'] = any(l.strip() == 'OK' for l in r['stdout'].split('\n'))
    return r


def encodings(text):
    out = {'utf8': text.encode('utf-8'), 'utf8-bom': b'\xef\xbb\xbf' + text.encode('utf-8'),
           'utf16le-bom': b'\xff\xfe' + text.encode('utf-16-le'), 'utf16be-bom': b'\xfe\xff' + text.encode('utf-16-be')}
    try:
        b = text.encode('cp1252')
        try:
            b.decode('utf-8')     # also valid UTF-8: inherently ambiguous for a sniffing decoder (unless pure ASCII)
            if all(x < 128 for x in b): out['cp1252'] = b
        except UnicodeDecodeError:
            out['cp1252'] = b
    except UnicodeEncodeError:
        pass
    return out


def run(ctx):
    core.prepare(ctx, need_binary=True, need_harness=False)
    rng = ctx.rng
    import concurrent.futures as cf
    # ---------------- (a) same program, five encodings
    progs = []
    for i in range(8 if ctx.quick() else 300):
        decls, ns = units.gen_valid(rng, size=1)
        kind = 'valid'
        if i % 2:
            ss = units.plant_all(decls, ns, rng)
            if ss:
                fk, code, decls = rng.choice(ss); kind = fk
        txt = units.print_file(decls, rng)
        lines = txt.split('\n')
        # non-ASCII in comments (before tokens on the same line) and in a string constant declaration
        cp_only = rng.random() < 0.6
        pool = [c for c in NONASCII if (c in CP1252_OK or not cp_only)]
        for _ in range(rng.randint(1, 4)):
            k = rng.randrange(len(lines))
            lines[k] = f'(* {rng.choice(pool)} {rng.choice(pool)} *) ' + lines[k]
        txt = '\n'.join(lines) + f"\nFUNCTION_BLOCK N8500\n  VAR\n    N8501 : STRING := '{rng.choice(pool)}x{rng.choice(pool)}';\n  END_VAR\nEND_FUNCTION_BLOCK\n"
        if rng.random() < 0.3: txt = txt.replace('\n', '\r\n')
        progs.append((kind, txt))
    # programs that end in a lexical error whose text is long and not ASCII (an unclosed comment or string running to
    # the end of the file): the diagnostic quotes that text, in every encoding
    for n in ([30, 170] if ctx.quick() else [10, 40, 80, 159, 160, 161, 170, 300, 1000]):
        for opener in ('(* ', "x := '", '"'):
            pool = [c for c in NONASCII if c in CP1252_OK]
            body = ''.join(rng.choice(pool + ['a', ' ']) for _ in range(n))
            progs.append(('lexical-error-tail', f'PROGRAM N8600\nVAR\n  N8601 : INT;\nEND_VAR\nN8601 := 1;\nEND_PROGRAM\n{opener}{body}'))
    # programs with a syntax error after non-ASCII text (the position of the diagnostic must not depend on the encoding,
    # for `echo` as for `check`)
    for i in range(3 if ctx.quick() else 20):
        pool = [c for c in NONASCII if c in CP1252_OK]
        progs.append(('syntax-error', f"PROGRAM N8700\nVAR\n  N8701 : INT;\nEND_VAR\n(* {rng.choice(pool)}{rng.choice(pool)} *) N8701 := '{rng.choice(pool)}' + + ;\nEND_PROGRAM\n"))
    # large files with a multi-byte character across every likely block boundary of a reader (4, 8, 16, 32, 64 KiB), for the
    # file with and without a byte order mark: a comment is padded so that the character starts 1 byte before the boundary
    for B in ([8192, 65536] if ctx.quick() else [4096, 8192, 16384, 32768, 65536]):
        for ch in ('é', '€'):
            for shift in (0, 3):        # 3 = the length of the UTF-8 byte order mark
                head = 'PROGRAM N8900\nVAR\n  N8901 : INT;\nEND_VAR\n(* '
                pad = B - 1 - shift - len(head.encode('utf-8'))
                if pad < 0: continue
                body = head + 'x' * pad + ch + ch + ' *)\nN8901 := 1 + ;\nEND_PROGRAM\n'
                progs.append(('block-boundary', body))
    jobs = []
    for pi, (kind, txt) in enumerate(progs):
        for enc, data in encodings(txt).items():
            for action in ('check', 'tokenize', 'echo'):
                jobs.append(('enc', pi, enc, action, data))
    # ---------------- (b) every byte in four contexts
    ctxs = {'comment': (b'(* a', b'b *) x := 1;'), 'string': (b"s := 'a", b"b';"), 'between': (b'x :=', b'1;'), 'identifier': (b'ab', b'cd := 1;')}
    for b in range(256):
        for cname, (pre, post) in ctxs.items():
            jobs.append(('byte', b, cname, 'tokenize', pre + bytes([b]) + post))
    # ---------------- (c) random binary files
    for i in range(60 if ctx.quick() else 6000):
        n = rng.choice([1, 2, 3, 5, 8, 20, 60, 200])
        data = bytes(rng.getrandbits(8) for _ in range(n))
        if rng.random() < 0.3: data = rng.choice([b'\xff\xfe', b'\xfe\xff', b'\xef\xbb\xbf']) + data
        jobs.append(('random', i, None, rng.choice(['check', 'tokenize']), data))
    # ---------------- (d) two files in one invocation, every pair of encodings, both orders, as arguments and as a directory:
    #                    how one file is stored must not change how the other is read
    pair_jobs = []
    lib_text = "FUNCTION_BLOCK N8800\n  VAR\n    N8801 : STRING := '\u00e9 \u20ac';   (* \u00fc\u00df *)\n  END_VAR\nEND_FUNCTION_BLOCK\n"
    cand = [(k, t) for (k, t) in progs if 'cp1252' in encodings(t) and any(ord(c) > 127 for c in t) and k != 'lexical-error-tail']
    for pi, (kind, txt) in enumerate(cand[:(2 if ctx.quick() else 12)]):
        for e1, d1 in encodings(lib_text).items():
            for e2, d2 in encodings(txt).items():
                for libname in ('a_lib.st', 'z_lib.st'):
                    for as_dir in (False, True):
                        files = sorted([(libname, d1), ('m_main.st', d2)]) if as_dir or libname[0] == 'a' else [('m_main.st', d2), (libname, d1)]
                        for action in (('check', 'echo') if (e1, e2) != ('utf8', 'utf8') and as_dir else ('check',)):
                            pair_jobs.append((pi, e1, e2, libname, as_dir, action, files))
    with cf.ThreadPoolExecutor(14) as ex:
        pair_res = list(ex.map(lambda j: run_set(j[5], j[6], j[4]), pair_jobs))
    pref = {}
    for j, r in zip(pair_jobs, pair_res):
        pi, e1, e2, libname, as_dir, action, files = j
        ctx.evaluations += 1
        ctx.count(f'pair:{action}'); ctx.count(f'pair-encodings:{e1}+{e2}')
        ctx.feature(('pair', pi, e1, e2, libname, as_dir, action))
        show = {'stream': 'pair', 'library_file': [libname, e1], 'main_file': ['m_main.st', e2], 'as_directory': as_dir, 'action': action,
                'files_hex': [(n, d.hex() if len(d) < 600 else d[:600].hex() + '…') for n, d in files]}
        if r['rc'] not in (0, 1):
            ctx.violations.append({'stream': 'pair', 'case': show, 'impl': f"exit={r['rc']} " + cli.strip_ansi(r['stderr'])[-300:], 'model': None,
                                   'what': f'`ironplcc {action}` crashed or hung (status {r["rc"]})'}); continue
        norm = lambda n: 'lib' if n in ('a_lib.st', 'z_lib.st') else n
        sig = (r['rc'], tuple(sorted((d[0], norm(d[1]) if d[1] else d[1], d[2], d[3]) for d in r['diags'])),
               None if action == 'check' else tuple(sorted(l for l in r['stdout'].split('\n') if "'" in l)))
        key = (pi, action)
        if key not in pref: pref[key] = (sig, (e1, e2, libname, as_dir))
        elif pref[key][0] != sig:
            ctx.violations.append({'stream': 'pair', 'case': show, 'impl': str(sig)[:400], 'model': str(pref[key][0])[:400],
                                   'what': f'two files stored as {e1} + {e2} ({"directory" if as_dir else "arguments"}, library file {libname}) give a different result than stored as '
                                           f'{pref[key][1][0]} + {pref[key][1][1]} ({"directory" if pref[key][1][3] else "arguments"}, {pref[key][1][2]})'})
    # ---------------- (e) the same decoded text in the editor: the language server publishes the positions `check` prints for
    #                    the stored file (characters / UTF-16 units after non-ASCII text on the line)
    from .. import lspclient
    ed = [(pi, kind, txt) for pi, (kind, txt) in enumerate(progs) if kind not in ('valid', 'lexical-error-tail', 'block-boundary') and any(ord(c) > 127 for c in txt)]
    ed = ed[:(6 if ctx.quick() else 40)]
    ed_sess = lspclient.sessions([[('open', 'f0', 1, txt), ('shutdown', 9), ('exit',)] for (_, _, txt) in ed], jobs=6)
    for (pi, kind, txt), se in zip(ed, ed_sess):
        ctx.evaluations += 1
        ctx.count('editor:documents')
        cl = run_file('check', txt.encode('utf-8'))
        if not se['diags']: continue
        # compared as sets of (code, position) on both sides: one rule can report the same position more than once (a name
        # declared three times gives two diagnostics on the structure), in the editor as on the command line
        lsp = sorted({(d[0], d[1], d[2]) for d in se['diags'][-1]})
        lines = txt.split('\n')
        def variants(code, line, col):
            # the command line counts a column in bytes, characters or UTF-16 units of the line
            out = set()
            if line is None or line - 1 >= len(lines): return out
            raw = lines[line - 1].encode('utf-8')
            for cut in range(len(lines[line - 1]) + 1):
                pre = lines[line - 1][:cut]
                if col - 1 in (len(pre.encode('utf-8')), len(pre), len(pre.encode('utf-16-le')) // 2):
                    out |= {(code, line - 1, len(pre)), (code, line - 1, len(pre.encode('utf-16-le')) // 2)}
            return out
        want = [variants(*k) for k in sorted({(d[0], d[2], d[3]) for d in cl['diags'] if d[1] is not None})]
        ok = len(want) == len(lsp) and perfect_matching(lsp, want)
        if not ok and want:
            ctx.violations.append({'stream': 'editor', 'case': {'stream': 'editor', 'what': [pi, kind], 'action': 'lsp', 'text': txt[:1500]},
                                   'impl': str(lsp)[:300], 'model': str([(d[0], d[2], d[3]) for d in cl['diags']])[:300],
                                   'what': 'the positions published by the language server for the decoded text are not the positions `ironplcc check` prints for the stored file'})
        else:
            ctx.feature(('editor', pi, kind))
    with cf.ThreadPoolExecutor(14) as ex:
        res = list(ex.map(lambda j: run_file(j[3], j[4]), jobs))
    model = core.run_lines(core.PLCDRV, ['decodelex ' + j[4].hex() for j in jobs], jobs=8) if ctx.model_available else [None] * len(jobs)
    ref = {}
    for j, r, mo in zip(jobs, res, model):
        stream, a, b, action, data = j
        ctx.evaluations += 1
        ctx.count(f'{stream}:{action}')
        show = {'stream': stream, 'what': [a, b], 'action': action, 'bytes_hex': data.hex() if len(data) < 400 else data[:400].hex() + '…'}
        if any(x >= 128 for x in data):
            ctx.feature((stream, b if stream != 'random' else a, a if stream != 'random' else None, action))
        obs = f"exit={r['rc']} codes={sorted({d[0] for d in r['diags']})}"
        if r['rc'] not in (0, 1):
            ctx.violations.append({'stream': stream, 'case': show, 'impl': obs + ' ' + cli.strip_ansi(r['stderr'])[-300:], 'model': mo,
                                   'what': f'`ironplcc {action}` crashed or hung on this file (status {r["rc"]})'})
            continue
        # correspondence for tokenize: token stream (type, line, col) and error presence
        if mo is not None and action == 'tokenize':
            ctx.traces += 1
            mt = model_tokens(mo)
            if mt == 'P0028':
                ok = r['rc'] == 1 and 'P0028' in {d[0] for d in r['diags']}
            else:
                toks, nerr = mt
                ok = tok_lines(r['stdout']) == toks and (r['rc'] == 0) == (nerr == 0)
            if not ok:
                ctx.corr_fail.append({'stream': stream, 'case': show, 'model': mo[:300], 'impl': obs + ' ' + str(tok_lines(r['stdout']))[:300]})
        # oracle: along one line the columns of the tokens grow (whatever bytes the tokens hold)
        if action == 'tokenize' and r['rc'] == 0:
            tl = tok_values(r['stdout'])
            for (t1, v1, l1, c1), (t2, v2, l2, c2) in zip(tl, tl[1:]):
                # (the listing writes a line feed as `\\n` and a carriage return as `\\r`)
                if l1 != l2 or '\n' in v1 or '\\n' in v1 or '\x0c' in v1: continue
                widths = set()
                for v in (v1, v1.replace('\\r', '\r')):
                    widths |= {len(v), len(v.encode('utf-8')), len(v.encode('utf-16-le')) // 2}
                if (c2 - c1) not in widths:
                    ctx.violations.append({'stream': stream, 'case': show, 'impl': f'{t1} {v1!r} at {l1}:{c1}, then {t2} at {l2}:{c2}', 'model': None,
                                           'what': f'the token {t2} follows {t1} ({v1!r}) on line {l1}, but its column {c2} is not the column {c1} of {t1} plus the width of its text'})
                    break
        # oracle (a): identical result in every encoding
        if stream == 'enc':
            ctx.count(f'encoding:{b}')
            sig = (r['rc'], tuple(sorted(r['diags'])), tuple(tok_lines(r['stdout'])) if action == 'tokenize' else (r['stdout'] if action == 'echo' else None))
            key = (a, action)
            if key not in ref: ref[key] = (sig, b)
            elif ref[key][0] != sig:
                ctx.violations.append({'stream': stream, 'case': show, 'impl': obs, 'model': None,
                                       'what': f'the same program stored as {b} gives a different result than stored as {ref[key][1]}: '
                                               f'{(sig[0], sig[1])} versus {(ref[key][0][0], ref[key][0][1])}'})
        # oracle (b)/(c): positions inside the decoded text
        if mo is not None and stream in ('byte', 'random') and mo != 'P0028':
            dec = core.run_lines(core.PLCDRV, ['decode ' + data.hex()])[0] if False else None
        for d in r['diags']:
            if d[2] is not None and (d[2] < 1 or d[2] > data.count(b'\n') + data.count(b'\r') + 2 + len(data) // 2):
                ctx.violations.append({'stream': stream, 'case': show, 'impl': obs, 'model': mo, 'what': f'diagnostic position line {d[2]} outside the decoded text'})
        ctx.sample({'stream': stream, 'what': [a, b], 'bytes': data[:40].hex(), 'observed': obs}, limit=6)
    return core.finish(ctx, level='proof', rule=RULE, extra={'exhaustive_byte_contexts': 1024},
                       assumptions=['encoding_rs is modelled (BOM sniffing, strict UTF-8, UTF-16 with surrogate checks, WHATWG windows-1252) and held to the model by the correspondence',
                                    'Windows-1252 text whose bytes are also valid UTF-8 is inherently read as UTF-8 by a sniffing decoder and is not generated'])
