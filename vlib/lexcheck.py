"""Parsing of the `lex` line-protocol answer and the independent C05 token oracle."""


def parse_lex(line):
    """-> (tokens [(ty,start,end,line,col,flag)], errors [(code,start,end)]) or None when not a lex answer"""
    if ' | ' not in line and not line.endswith(' |') and not line.startswith('| ') and line.strip() != '|':
        return None
    left, _, right = line.partition('|')
    toks, errs = [], []
    try:
        for t in left.split():
            ty, s, e, l, c, f = t.split(':')
            toks.append((ty, int(s), int(e), int(l), int(c), f))
        for t in right.split():
            _, code, s, e = t.split(':')
            errs.append((code, int(s), int(e)))
    except ValueError:
        return None
    return toks, errs


def line_col_candidates(b: bytes, off: int):
    """line (number of \\n before off) and the admissible columns (bytes / chars / utf-16 units since
    the last \\n)"""
    line = b.count(b'\n', 0, off)
    ls = b.rfind(b'\n', 0, off) + 1
    seg = b[ls:off]
    cols = {len(seg)}
    try:
        s = seg.decode('utf-8')
        cols.add(len(s))
        cols.add(len(s.encode('utf-16-le')) // 2)
    except UnicodeDecodeError:
        pass
    return line, cols


def oscat_region(text: str):
    a = text.find('(*@KEY@:DESCRIPTION*)')
    b = text.find('(*@KEY@:END_DESCRIPTION*)')
    if a >= 0 and b >= 0 and a < b:
        return (len(text[:a].encode()) + 21, len(text[:b].encode()))
    return None


def reference_comments(text: str):
    """the comments of a text by the lexical rules alone, independent of token.rs: `(*` up to the next `*)`, character
    strings `'...'` / `"..."` (no comment starts inside one).  -> list of (byte start, byte end), or None where the rules
    are not what decides (an unclosed comment or string, `//` comments, OSCAT description markers)"""
    if '//' in text or '@KEY@' in text: return None
    out = []
    i, n = 0, len(text)
    boff = [0] * (n + 1)
    for k, ch in enumerate(text): boff[k + 1] = boff[k] + len(ch.encode('utf-8'))
    while i < n:
        if text.startswith('(*', i):
            j = text.find('*)', i + 2)
            if j < 0: return None
            out.append((boff[i], boff[j + 2])); i = j + 2
        elif text[i] in '\'"':
            j = text.find(text[i], i + 1)
            if j < 0: return None
            i = j + 1
        else:
            i += 1
    return out


# characters that belong to no token of the language when they stand outside comments and character strings
NO_TOKEN_CHARS = set('?$@!~`\\|^\u00a0\u2028\u2029\u0085\x0b\x00\x7f')


def has_no_token_text(text: str):
    """True when the text holds, outside comments and character strings, a character that no token can contain (or a
    carriage return that is not part of CR LF); None where the lexical rules alone do not decide (see reference_comments)"""
    if reference_comments(text) is None: return None
    i, n = 0, len(text)
    while i < n:
        if text.startswith('(*', i): i = text.find('*)', i + 2) + 2
        elif text[i] in '\'"': i = text.find(text[i], i + 1) + 1
        else:
            c = text[i]
            if c in NO_TOKEN_CHARS or (c == '\r' and text[i + 1:i + 2] != '\n'): return True
            i += 1
    return False


def invalid_text_oracle(text: str, toks, errs):
    """text that holds something that is no token has a lexical error"""
    if has_no_token_text(text) and not errs:
        return ['the text holds characters that belong to no token (outside comments and strings) but the lexer reports no lexical error']
    return []


def comment_oracle(text: str, toks, errs):
    """the Comment tokens of the implementation are exactly the comments of the text"""
    ref = reference_comments(text)
    if ref is None: return []
    got = sorted((s, e) for (ty, s, e, l, c, f) in toks if ty == 'Comment' and f != 's')
    if got == ref: return []
    b = text.encode('utf-8')
    for x in ref:
        if x not in got: return [f'the comment at bytes {x[0]}..{x[1]} (`{b[x[0]:x[1]][:40].decode("utf-8", "replace")}`) is not a Comment token of the lexer (Comment tokens: {got[:6]})']
    x = next(y for y in got if y not in ref)
    return [f'the lexer returns a Comment token at bytes {x[0]}..{x[1]} (`{b[x[0]:x[1]][:60].decode("utf-8", "replace")}`) which is not one comment of the text (comments: {ref[:6]})']


def token_oracle(text: str, toks, errs, check_linecol=True):
    """the C05 token clauses evaluated on an implementation answer. -> list of violation strings"""
    b = text.encode('utf-8')
    out = []
    boundaries = set()
    off = 0
    for ch in text:
        boundaries.add(off)
        off += len(ch.encode('utf-8'))
    boundaries.add(off)
    osc = oscat_region(text)
    pieces = [(s, e, 'tok', ty, f) for (ty, s, e, l, c, f) in toks if f != 's'] + [(s, e, 'err', code, '') for (code, s, e) in errs]
    # tokens must come out ordered
    real = [(s, e) for (ty, s, e, l, c, f) in toks if f != 's']
    if real != sorted(real):
        out.append('token spans are not ordered')
    pieces.sort(key=lambda p: (p[0], p[1]))
    pos = 0
    for (s, e, kind, ty, f) in pieces:
        if s != pos:
            out.append(f'spans not contiguous: {kind} {ty} starts at {s}, previous piece ended at {pos}')
            break
        if e < s or (e == s and kind == 'tok'):
            out.append(f'empty or negative span {s}..{e} for {kind} {ty}')
            break
        pos = e
    else:
        if pos != len(b):
            out.append(f'tokens and lexical errors end at {pos} but the source has {len(b)} bytes')
    for (ty, s, e, l, c, f) in toks:
        if s not in boundaries or e not in boundaries:
            out.append(f'span {s}..{e} of {ty} not on a character boundary')
        if e > len(b):
            out.append(f'span {s}..{e} of {ty} outside the source')
        if f == 'x':
            if not (osc and osc[0] <= s and e <= osc[1] and ty in ('Whitespace', 'Newline')):
                out.append(f'text of {ty} at {s}..{e} differs from the source slice')
        if check_linecol and s <= len(b):
            el, ecs = line_col_candidates(b, s)
            if l != el or c not in ecs:
                out.append(f'{ty} at byte {s}: reported line {l} col {c}, span start is line {el} col {sorted(ecs)}')
    return out + comment_oracle(text, toks, errs) + invalid_text_oracle(text, toks, errs)
