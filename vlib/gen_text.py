"""Generators of raw source texts (lexeme soups) shared by C04, C05, C08, C14, C15.

Every random choice comes from the `random.Random` passed in (seeded from VERIF_SEED).
"""
import glob, os, sys
from . import core

sys.path.insert(0, os.path.join(core.VERIF, 'translator'))
import gen_tables  # noqa: E402


def token_literals():
    """[(variant, literal, ignore_case)] for every `#[token]` attribute of token.rs (current tree)"""
    gen_tables.REPO = core.REPO
    entries, _ = gen_tables.token_entries()
    return [(v, val, ic) for (v, kind, val, ic, pr) in entries if kind == 'token']


IDENTS = ['a', 'b', 'x1', 'Counter', '_tmp', 'my_var', 'ABC', 'fb', 'Reset', 'IFx', 'END_IFS', 'e5', 'T', 'ms', 'd']
NUMBERS = ['0', '1', '42', '1_000', '16#FF', '16#1F_A0', '8#17', '2#1010_1', '1.5', '3.14_15', '1.0e5', '2.5E-3', '1.0e+1_0',
           '007', '9_', '1.5_']
STRINGS = ["'abc'", "''", "'a b'", '"wide"', '""', "'é'", "'日本語'", "'$N'", "'(* not a comment *)'", '"x\'y"',
           # a string literal may span lines (the token regexes are '[^']*' and "[^"]*"): line/column of what follows must move on
           "'line1\nline2'", '"w1\r\nw2\r\n"', "'\n'", "'a\n\nb é\nc'", '"\n日本\n"']
COMMENTS = ['(* c *)', '(**)', '(* ( *)', '(* a * b *)', '(* line1\nline2 *)', '(* é ü *)', '(* 日本 *)', '(* a\r\nb\r\nc *)',
            '(* x *) (* y *)', '// c style\n', '// é\r\n', '(* tab\tin *)', '(* **)*)', '(*\n*)', '(* \f *)',
            # comments that end in several asterisks (the closing `)` after an even / odd number of `*`)
            '(** d **)', '(* e ***)', '(* f **)', '(****)', '(***)', '(** g\nh **)',
            # braces inside comments (pragma-like text is text there)
            '(* { *)', '(* } *)', '(* {x *)', '(* a } b { c *)',
            # a carriage return on its own inside a comment (it ends no line)
            '(* a\rb *)', '(* cr\r *) ']
ADDRESSES = ['%IX1', '%QW2', '%MD3', '%I*', '%Q*', '%ix1', '%IX1.2', '%MB0.0.1']
WS = [' ', '  ', '\t', ' \t ', '\n', '\r\n', '\n\n', ' \n ', '\r\n\r\n', '\n\t']
ERRCHARS = ['?', '$', '@', '!', '~', '`', '\\', 'é', 'ß', '日', '\r', '€', '%', '|', '&&', '^', '\x00', '\x7f',
            # white space of other alphabets is not white space of this language
            '\u00a0', '\u2028', '\x0b', '\u0085', '\u3000']
OPENERS = ['(* never closed', "'never closed", '"never closed', '(* a **) x', '(***)', '(*)']


def fixture_texts():
    out = []
    seen = set()
    for pat in ['compiler/resources/test/*.st', 'examples/*.st', 'compiler/plc2x/resources/test/*.st', 'docs/**/*.st']:
        for f in sorted(glob.glob(os.path.join(core.REPO, pat), recursive=True)):
            try:
                b = open(f, 'rb').read()
                t = b.decode('utf-8')
            except Exception:
                continue
            if t not in seen:
                seen.add(t)
                out.append((os.path.relpath(f, core.REPO), t))
    return out


class Soup:
    def __init__(self, rng, lits=None):
        self.rng = rng
        self.lits = lits or token_literals()
        self.kw = [l for (v, l, ic) in self.lits if l[0].isalpha()]
        self.punct = [l for (v, l, ic) in self.lits if not l[0].isalpha()]

    def respell(self, w):
        r = self.rng.random()
        if r < 0.5: return w
        if r < 0.7: return w.lower()
        return ''.join(c.upper() if self.rng.random() < 0.5 else c.lower() for c in w)

    def lexeme(self, allow_err=False, allow_ff=True):
        r = self.rng.random()
        if r < 0.22: return ('kw', self.respell(self.rng.choice(self.kw)))
        if r < 0.40: return ('id', self.rng.choice(IDENTS))
        if r < 0.52: return ('punct', self.rng.choice(self.punct))
        if r < 0.62: return ('num', self.rng.choice(NUMBERS))
        if r < 0.68: return ('str', self.rng.choice(STRINGS))
        if r < 0.78: return ('comment', self.rng.choice(COMMENTS))
        if r < 0.82: return ('addr', self.rng.choice(ADDRESSES))
        if allow_err and r < 0.86: return ('err', self.rng.choice(ERRCHARS))
        if allow_ff and r < 0.87: return ('ff', '\f')
        return ('ws', self.rng.choice(WS))

    def text(self, n, allow_err=False, allow_opener=False, allow_ff=True, oscat=False):
        """-> (text, feature set). Lexemes are separated by whitespace with probability 0.6."""
        parts = []
        feats = set()
        if oscat:
            body = self.rng.choice([' some text \n more ', ' é non ascii ü \n x', '', '\n\n', ' a (* nested *) b ', ' 日本 ',
                                    ' line1\r\n line2\r\n', '\r\n', ' é\r\n\r\nü ', ' tab\t\r\n x '])
            parts.append('(*@KEY@:DESCRIPTION*)' + body + '(*@KEY@:END_DESCRIPTION*)')
            feats.add('oscat')
            if any(ord(c) > 127 for c in body): feats.add('oscat-nonascii')
            if '\r\n' in body: feats.add('oscat-crlf')
        for _ in range(n):
            k, t = self.lexeme(allow_err, allow_ff)
            feats.add(k)
            if k == 'comment':
                if '\n' in t[:-1]: feats.add('comment-multiline')
                if any(ord(c) > 127 for c in t): feats.add('comment-nonascii')
            if k == 'str' and any(ord(c) > 127 for c in t): feats.add('str-nonascii')
            if k == 'str' and '\n' in t: feats.add('str-multiline')
            parts.append(t)
            if self.rng.random() < 0.6:
                w = self.rng.choice(WS)
                if '\r\n' in w: feats.add('crlf')
                parts.append(w)
        if allow_opener and self.rng.random() < 0.3:
            parts.append(self.rng.choice(OPENERS))
            feats.add('opener')
        return ''.join(parts), frozenset(feats)
